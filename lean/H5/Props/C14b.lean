/-
  Property C14 (continued) — named character references.

  `consumeNamedEntity` (H5.Model.CharRef, the hand model of `_tokenizer.py:consumeEntity` lines 173-212)
  is characterised for an ARBITRARY table satisfying `TableOK`; the facts are then instantiated for the
  generated table `H5.Gen.entities` (`entities_TableOK`, decided by the kernel on the 2231-entry list).
-/
import H5.Props.C14
import H5.Proofs.ExceptLemmas
namespace H5.Props.C14
open H5 H5.Gen H5.Model

/-! ### Table facts -/

/-- strict lexicographic order on code-point strings (Bool, kernel friendly) -/
def strLt : Str → Str → Bool
  | [], [] => false
  | [], _ :: _ => true
  | _ :: _, [] => false
  | a :: as, b :: bs => decide (a < b) || (a == b && strLt as bs)

/-- adjacent-pair check (linear) -/
def adjSorted : List Str → Bool
  | [] => true
  | [_] => true
  | a :: b :: rest => strLt a b && adjSorted (b :: rest)

theorem strLt_irrefl (a : Str) : strLt a a = false := by
  induction a with
  | nil => rfl
  | cons x xs ih => simp [strLt, ih]

theorem strLt_trans : ∀ (a b c : Str), strLt a b = true → strLt b c = true → strLt a c = true := by
  intro a
  induction a with
  | nil =>
    intro b c h1 h2
    cases b with
    | nil => simp [strLt] at h1
    | cons y ys => cases c with
      | nil => simp [strLt] at h2
      | cons z zs => simp [strLt]
  | cons x xs ih =>
    intro b c h1 h2
    cases b with
    | nil => simp [strLt] at h1
    | cons y ys => cases c with
      | nil => simp [strLt] at h2
      | cons z zs =>
        simp only [strLt, Bool.or_eq_true, decide_eq_true_eq, Bool.and_eq_true, beq_iff_eq] at h1 h2 ⊢
        rcases h1 with h1 | ⟨e1, h1⟩ <;> rcases h2 with h2 | ⟨e2, h2⟩
        · left; omega
        · left; omega
        · left; omega
        · right; exact ⟨by omega, ih ys zs h1 h2⟩

theorem pairwise_of_adjSorted : ∀ (l : List Str), adjSorted l = true → l.Pairwise (fun a b => strLt a b = true) := by
  intro l
  induction l with
  | nil => intro _; exact List.Pairwise.nil
  | cons a rest ih =>
    intro h
    cases rest with
    | nil => simp
    | cons b rest2 =>
      simp only [adjSorted, Bool.and_eq_true] at h
      have ih2 := ih h.2
      rw [List.pairwise_cons] at ih2 ⊢
      refine ⟨?_, List.pairwise_cons.mpr ⟨ih2.1, ih2.2⟩⟩
      intro c hc
      rcases List.mem_cons.mp hc with e | hc
      · subst e; exact h.1
      · exact strLt_trans a b c h.1 (ih2.1 c hc)

theorem nodup_of_adjSorted (l : List Str) (h : adjSorted l = true) : l.Nodup := by
  have := pairwise_of_adjSorted l h
  refine this.imp ?_
  intro a b hab e
  subst e
  simp [strLt_irrefl] at hab

/-- Bool form of table facts (a) and (b) for one key -/
def keyOK (k : Str) : Bool := !k.isEmpty && !k.dropLast.contains 59

/-- The facts about the entity table that the named-reference theorems need. -/
structure TableOK (tbl : List (Str × Str)) : Prop where
  /-- (a) every key is non-empty -/
  nonempty : ∀ kv ∈ tbl, kv.1 ≠ []
  /-- (b) `;` occurs in a key only as its last character -/
  semiLast : ∀ kv ∈ tbl, 59 ∉ kv.1.dropLast
  /-- (c) keys are pairwise distinct -/
  nodup : (tbl.map (·.1)).Nodup

theorem TableOK.of_bool (tbl : List (Str × Str)) (h1 : tbl.all (fun kv => keyOK kv.1) = true)
    (h2 : adjSorted (tbl.map (·.1)) = true) : TableOK tbl := by
  rw [List.all_eq_true] at h1
  refine ⟨?_, ?_, nodup_of_adjSorted _ h2⟩
  · intro kv hkv e
    have := h1 kv hkv
    simp [keyOK, e] at this
  · intro kv hkv
    have := h1 kv hkv
    simp only [keyOK, Bool.and_eq_true, Bool.not_eq_true', List.contains_eq_mem, decide_eq_false_iff_not] at this
    exact this.2

theorem entities_keysOK : entities.all (fun kv => keyOK kv.1) = true := by decide +kernel
theorem entities_sorted : adjSorted (entities.map (·.1)) = true := by decide +kernel

/-- **C14 (table shape).** html5lib's entity table: non-empty names, `;` only at the end, no duplicate name
(it is strictly sorted). -/
theorem entities_TableOK : TableOK entities := TableOK.of_bool _ entities_keysOK entities_sorted

/-! ### Basic facts on the trie operations -/

theorem joinChars_map_some (p : Str) : joinChars (p.map some) = .ok p := by
  induction p with
  | nil => rfl
  | cons c rest ih => simp [joinChars, ih, bind, Except.bind, pure, Except.pure]

theorem hasKeysWithPrefix_of_mem {tbl : List (Str × Str)} {k v p : Str} (hm : (k, v) ∈ tbl) (hp : p <+: k) :
    hasKeysWithPrefix tbl p = true := by
  simp only [hasKeysWithPrefix, List.any_eq_true]
  exact ⟨(k, v), hm, by simpa using hp⟩

theorem hasKey_of_mem {tbl : List (Str × Str)} {k v : Str} (hm : (k, v) ∈ tbl) : hasKey tbl k = true := by
  simp only [hasKey, List.any_eq_true]
  exact ⟨(k, v), hm, by simp⟩

theorem hasKey_iff {tbl : List (Str × Str)} {k : Str} : hasKey tbl k = true ↔ ∃ v, (k, v) ∈ tbl := by
  simp only [hasKey, List.any_eq_true, beq_iff_eq]
  constructor
  · rintro ⟨⟨k2, v⟩, hm, e⟩
    simp only at e
    subst e
    exact ⟨v, hm⟩
  · rintro ⟨v, hm⟩
    exact ⟨(k, v), hm, rfl⟩

theorem lookup_of_mem_nodup : ∀ (tbl : List (Str × Str)) (k v : Str), (tbl.map (·.1)).Nodup → (k, v) ∈ tbl →
    tbl.lookup k = some v := by
  intro tbl
  induction tbl with
  | nil => intro k v _ hm; simp at hm
  | cons kv rest ih =>
    intro k v hn hm
    obtain ⟨k2, v2⟩ := kv
    simp only [List.map_cons, List.nodup_cons] at hn
    rcases List.mem_cons.mp hm with e | hm2
    · cases e
      simp [List.lookup]
    · have hne : k ≠ k2 := by
        intro e
        subst e
        exact hn.1 (List.mem_map.mpr ⟨(k, v), hm2, rfl⟩)
      have : (k == k2) = false := by simpa using hne
      simp only [List.lookup, this]
      exact ih k v hn.2 hm2

theorem entityValue_of_mem {tbl : List (Str × Str)} (ok : TableOK tbl) {k v : Str} (hm : (k, v) ∈ tbl) :
    entityValue tbl k = .ok v := by
  simp [entityValue, lookup_of_mem_nodup tbl k v ok.nodup hm]

/-- a key that ends in `;` has no proper extension in the table -/
theorem no_extension {tbl : List (Str × Str)} (ok : TableOK tbl) {k : Str} (hlast : k.getLast? = some 59) (c : Nat) :
    hasKeysWithPrefix tbl (k ++ [c]) = false := by
  rw [Bool.eq_false_iff]
  intro h
  simp only [hasKeysWithPrefix, List.any_eq_true] at h
  obtain ⟨kv, hm, hp⟩ := h
  have hp : k ++ [c] <+: kv.1 := by simpa using hp
  obtain ⟨t, ht⟩ := hp
  have hb := ok.semiLast kv hm
  obtain ⟨k0, rfl⟩ : ∃ k0, k = k0 ++ [59] := by
    rcases List.getLast?_eq_some_iff.mp hlast with ⟨k0, e⟩
    exact ⟨k0, e⟩
  apply hb
  rw [← ht]
  have : k0 ++ [59] ++ [c] ++ t = (k0 ++ [59]) ++ (c :: t) := by simp
  rw [this, List.dropLast_append_of_ne_nil (by simp)]
  simp

/-! ### The walk `extendWhilePrefix` along a key -/

/-- (i) while the characters of a key are being read, the walk keeps reading -/
theorem extend_along_key {tbl : List (Str × Str)} {k v : Str} (hm : (k, v) ∈ tbl) (rest : List Nat) :
    ∀ (q p : Str), p ≠ [] → p ++ q = k →
      extendWhilePrefix tbl (q ++ rest) (p.map some) = extendWhilePrefix tbl rest (k.map some) := by
  intro q
  induction q with
  | nil => intro p _ e; simp at e; simp [e]
  | cons c q ih =>
    intro p hp e
    have hlast : (p.map some).getLast? = some (some (p.getLast hp)) := by
      rw [List.getLast?_map, List.getLast?_eq_some_getLast hp]; rfl
    have hpre : hasKeysWithPrefix tbl p = true := hasKeysWithPrefix_of_mem hm ⟨c :: q, e⟩
    conv => lhs; rw [extendWhilePrefix.eq_def]
    simp only [hlast, joinChars_map_some, hpre, Bool.not_true, Bool.false_eq_true, if_false, List.cons_append]
    have := ih (p ++ [c]) (by simp) (by simpa using e)
    simpa using this

/-- (ii) after a key ending in `;` the walk stops with exactly one more item (a character or EOF) -/
theorem extend_after_key {tbl : List (Str × Str)} (ok : TableOK tbl) {k v : Str} (hm : (k, v) ∈ tbl)
    (hlast : k.getLast? = some 59) (rest : List Nat) :
    ∃ x rest2, extendWhilePrefix tbl rest (k.map some) = .ok (k.map some ++ [x], rest2) ∧
      Stream.unget rest2 x = rest := by
  have hk : k ≠ [] := ok.nonempty _ hm
  have hl : (k.map some).getLast? = some (some 59) := by rw [List.getLast?_map, hlast]; rfl
  have hpre : hasKeysWithPrefix tbl k = true := hasKeysWithPrefix_of_mem hm (List.prefix_refl _)
  rw [extendWhilePrefix.eq_def]
  simp only [hl, joinChars_map_some, hpre, Bool.not_true, Bool.false_eq_true, if_false]
  cases rest with
  | nil => exact ⟨none, [], rfl, rfl⟩
  | cons c rest2 =>
    refine ⟨some c, rest2, ?_, rfl⟩
    show extendWhilePrefix tbl rest2 (List.map some k ++ [some c]) = _
    rw [extendWhilePrefix.eq_def]
    have hl2 : (k.map some ++ [some c]).getLast? = some (some c) := by simp
    have hj : joinChars (k.map some ++ [some c]) = .ok (k ++ [c]) := by
      have := joinChars_map_some (k ++ [c])
      simpa using this
    simp only [hl2, hj, no_extension ok hlast c, Bool.not_false, if_true]

theorem longestPrefix_of_key {tbl : List (Str × Str)} {k v : Str} (hm : (k, v) ∈ tbl) (hk : k ≠ []) :
    longestPrefix tbl k = .ok k := by
  unfold longestPrefix
  obtain ⟨n, hn⟩ : ∃ n, k.length = n + 1 := ⟨k.length - 1, by
    have := List.length_pos_iff.mpr hk; omega⟩
  rw [hn, longestPrefixFrom]
  have : k.take (n + 1) = k := by rw [← hn]; exact List.take_length
  simp [this, hasKey_of_mem hm]

/-- **C14 (named, with semicolon).** A reference `&name;` whose name (with the `;`) is in the table is decoded
to exactly the table value, with no parse error, consuming exactly the characters of the name — WHATEVER
follows it, in text and in attribute values alike.  (`c0` is the first character of the name, already read by
`consumeEntity`; `k'` are the other characters.) -/
theorem C14_named_semicolon {tbl : List (Str × Str)} (ok : TableOK tbl) {c0 : Nat} {k' v : Str}
    (hm : (c0 :: k', v) ∈ tbl) (hlast : (c0 :: k').getLast? = some 59) (rest : List Nat) (fromAttribute : Bool) :
    consumeNamedEntity tbl fromAttribute (some c0) (k' ++ rest) = .ok (v, [], rest) := by
  have h1 := extend_along_key hm rest k' [c0] (by simp) rfl
  obtain ⟨x, rest2, h2, h3⟩ := extend_after_key ok hm hlast rest
  have hwalk : extendWhilePrefix tbl (k' ++ rest) [some c0] = .ok ((c0 :: k').map some ++ [x], rest2) := by
    rw [← h2, ← h1]; rfl
  have hlp := longestPrefix_of_key hm (by simp : c0 :: k' ≠ [])
  have hv := entityValue_of_mem ok hm
  have hdrop : List.drop (k'.length + 1) (some c0 :: List.map some k') = [] := by
    apply List.drop_eq_nil_of_le; simp
  have hj0 : joinChars (some c0 :: List.map some k') = .ok (c0 :: k') := joinChars_map_some (c0 :: k')
  have hlast2 : (some c0 :: (List.map some k' ++ [x])).getLast? = some x := by
    rw [← List.cons_append, List.getLast?_append]; simp
  have hdl : (some c0 :: (List.map some k' ++ [x])).dropLast = some c0 :: List.map some k' := by
    rw [← List.cons_append, List.dropLast_concat]
  unfold consumeNamedEntity
  simp only [hwalk, List.map_cons, List.cons_append, bind, Except.bind, pure, Except.pure, hdl, hj0, hlp,
    hlast, Ch.semi, ne_eq, not_true_eq_false, false_and, if_false, charStackLast, hlast2, h3,
    hv, List.length_cons, hdrop, joinChars, List.append_nil]
  rfl

/-- instance for html5lib's table -/
theorem C14_named_semicolon_entities {c0 : Nat} {k' v : Str}
    (hm : (c0 :: k', v) ∈ entities) (hlast : (c0 :: k').getLast? = some 59) (rest : List Nat) (fromAttribute : Bool) :
    consumeNamedEntity entities fromAttribute (some c0) (k' ++ rest) = .ok (v, [], rest) :=
  C14_named_semicolon entities_TableOK hm hlast rest fromAttribute

/-! ### The general result: longest match (C14_named_longest)

`Spec.longestMatch` is the standard's "consume the maximum number of characters possible, where the consumed
characters are one of the identifiers in the first column of the named character references table", for an
arbitrary table (`H5.Spec.Tokenizer.longestNamedReference` is its instance for `H5.Gen.entities`, by `rfl`:
see `H5.Props.C08b`). -/

end H5.Props.C14

namespace H5.Spec
open H5

/-- keep the longer of `best` and `e` if `e`'s name is a prefix of `s` -/
def pickLonger (s : Str) (best : Option (Str × Str)) (e : Str × Str) : Option (Str × Str) :=
  if e.1.isPrefixOf s then
    match best with
    | some b => if b.1.length < e.1.length then some e else best
    | none => some e
  else best

/-- the table entry with the longest name that is a prefix of `s` -/
def longestMatch (tbl : List (Str × Str)) (s : Str) : Option (Str × Str) :=
  tbl.foldl (pickLonger s) none

end H5.Spec

namespace H5.Props.C14
open H5 H5.Gen H5.Model H5.Spec

theorem pickLonger_cases (s : Str) (best : Option (Str × Str)) (e : Str × Str) :
    (¬ e.1 <+: s ∧ pickLonger s best e = best) ∨
    (e.1 <+: s ∧ best = none ∧ pickLonger s best e = some e) ∨
    (e.1 <+: s ∧ ∃ b, best = some b ∧ b.1.length < e.1.length ∧ pickLonger s best e = some e) ∨
    (e.1 <+: s ∧ ∃ b, best = some b ∧ ¬ b.1.length < e.1.length ∧ pickLonger s best e = some b) := by
  by_cases hp : e.1 <+: s
  · have hpb : e.1.isPrefixOf s = true := List.isPrefixOf_iff_prefix.mpr hp
    right
    cases best with
    | none => left; exact ⟨hp, rfl, by simp [pickLonger, hpb]⟩
    | some b =>
      right
      by_cases hl : b.1.length < e.1.length
      · left; exact ⟨hp, b, rfl, hl, by simp [pickLonger, hpb, hl]⟩
      · right; exact ⟨hp, b, rfl, hl, by simp [pickLonger, hpb, hl]⟩
  · have hpb : e.1.isPrefixOf s = false :=
      Bool.eq_false_iff.mpr (fun h => hp (List.isPrefixOf_iff_prefix.mp h))
    left; exact ⟨hp, by simp [pickLonger, hpb]⟩

/-- what the fold returns is a longest match (soundness) -/
theorem foldl_pick_spec (s : Str) : ∀ (tbl : List (Str × Str)) (best : Option (Str × Str)),
    (tbl.foldl (pickLonger s) best = none → best = none ∧ ∀ e ∈ tbl, ¬ e.1 <+: s) ∧
    (∀ kv, tbl.foldl (pickLonger s) best = some kv →
      (best = some kv ∨ (kv ∈ tbl ∧ kv.1 <+: s)) ∧ (∀ b, best = some b → b.1.length ≤ kv.1.length) ∧
      ∀ e ∈ tbl, e.1 <+: s → e.1.length ≤ kv.1.length) := by
  intro tbl
  induction tbl with
  | nil =>
    intro best
    refine ⟨fun h => ⟨h, by simp⟩, fun kv h => ⟨Or.inl h, ?_, by simp⟩⟩
    intro b hb
    simp only [List.foldl_nil] at h
    rw [h] at hb; cases hb; exact Nat.le_refl _
  | cons e tbl ih =>
    intro best
    obtain ⟨ih1, ih2⟩ := ih (pickLonger s best e)
    rw [List.foldl_cons]
    constructor
    · intro h
      obtain ⟨a, b⟩ := ih1 h
      rcases pickLonger_cases s best e with ⟨hp, hq⟩ | ⟨hp, hb, hq⟩ | ⟨hp, b0, hb, hl, hq⟩ | ⟨hp, b0, hb, hl, hq⟩
      · rw [hq] at a
        refine ⟨a, ?_⟩
        intro e2 he2
        rcases List.mem_cons.mp he2 with r | r
        · subst r; exact hp
        · exact b e2 r
      · rw [hq] at a; cases a
      · rw [hq] at a; cases a
      · rw [hq] at a; cases a
    · intro kv h
      obtain ⟨a, b, c⟩ := ih2 kv h
      rcases pickLonger_cases s best e with ⟨hp, hq⟩ | ⟨hp, hb, hq⟩ | ⟨hp, b0, hb, hl, hq⟩ | ⟨hp, b0, hb, hl, hq⟩
      · rw [hq] at a b
        refine ⟨?_, b, ?_⟩
        · rcases a with a | ⟨a1, a2⟩
          · left; exact a
          · right; exact ⟨List.mem_cons_of_mem _ a1, a2⟩
        · intro e2 he2 hp2
          rcases List.mem_cons.mp he2 with r | r
          · subst r; exact absurd hp2 hp
          · exact c e2 r hp2
      · rw [hq] at a b
        have hle := b e rfl
        refine ⟨?_, ?_, ?_⟩
        · right
          rcases a with a | ⟨a1, a2⟩
          · cases a; exact ⟨List.mem_cons_self .., hp⟩
          · exact ⟨List.mem_cons_of_mem _ a1, a2⟩
        · intro b1 hb1; rw [hb] at hb1; cases hb1
        · intro e2 he2 hp2
          rcases List.mem_cons.mp he2 with r | r
          · subst r; exact hle
          · exact c e2 r hp2
      · rw [hq] at a b
        have hle := b e rfl
        refine ⟨?_, ?_, ?_⟩
        · right
          rcases a with a | ⟨a1, a2⟩
          · cases a; exact ⟨List.mem_cons_self .., hp⟩
          · exact ⟨List.mem_cons_of_mem _ a1, a2⟩
        · intro b1 hb1; rw [hb] at hb1; cases hb1; omega
        · intro e2 he2 hp2
          rcases List.mem_cons.mp he2 with r | r
          · subst r; exact hle
          · exact c e2 r hp2
      · rw [hq] at a b
        have hle := b b0 rfl
        refine ⟨?_, ?_, ?_⟩
        · rcases a with a | ⟨a1, a2⟩
          · left; rw [hb]; exact a
          · right; exact ⟨List.mem_cons_of_mem _ a1, a2⟩
        · intro b1 hb1; rw [hb] at hb1; cases hb1; exact hle
        · intro e2 he2 hp2
          rcases List.mem_cons.mp he2 with r | r
          · subst r; omega
          · exact c e2 r hp2

/-- `longestMatch` returns an entry of the table whose name is a prefix of `s` and at least as long as every
other such name -/
theorem longestMatch_sound {tbl : List (Str × Str)} {s k v : Str} (h : longestMatch tbl s = some (k, v)) :
    (k, v) ∈ tbl ∧ k <+: s ∧ ∀ e ∈ tbl, e.1 <+: s → e.1.length ≤ k.length := by
  obtain ⟨a, _, c⟩ := (foldl_pick_spec s tbl none).2 (k, v) h
  rcases a with a | a
  · cases a
  · exact ⟨a.1, a.2, c⟩

/-- `longestMatch` returns nothing only if no name of the table is a prefix of `s` -/
theorem longestMatch_none {tbl : List (Str × Str)} {s : Str} (h : longestMatch tbl s = none) :
    ∀ e ∈ tbl, ¬ e.1 <+: s := ((foldl_pick_spec s tbl none).1 h).2

/-- completeness: an entry that dominates all matching entries is what the fold returns -/
theorem foldl_pick_max (input : Str) (kv : Str × Str) :
    ∀ (tbl : List (Str × Str)) (best : Option (Str × Str)),
      (∀ e ∈ tbl, e.1 <+: input → e.1.length < kv.1.length ∨ e = kv) →
      (best = some kv ∨ (kv ∈ tbl ∧ kv.1 <+: input ∧ ∀ b, best = some b → b.1.length < kv.1.length)) →
      tbl.foldl (pickLonger input) best = some kv := by
  intro tbl
  induction tbl with
  | nil =>
    intro best _ h
    rcases h with h | ⟨h, _⟩
    · simpa using h
    · simp at h
  | cons e tbl ih =>
    intro best hall h
    rw [List.foldl_cons]
    apply ih
    · intro e2 he2; exact hall e2 (List.mem_cons_of_mem _ he2)
    · have he := hall e (List.mem_cons_self ..)
      rcases pickLonger_cases input best e with ⟨hp, hq⟩ | ⟨hp, hb, hq⟩ | ⟨hp, b0, hb, hl, hq⟩ | ⟨hp, b0, hb, hl, hq⟩
      · rw [hq]
        rcases h with h | ⟨hm, hkp, hb⟩
        · left; exact h
        · right
          refine ⟨?_, hkp, hb⟩
          rcases List.mem_cons.mp hm with e1 | e1
          · subst e1; exact absurd hkp hp
          · exact e1
      · rw [hq]
        rcases h with h | ⟨hm, hkp, hb2⟩
        · rw [hb] at h; cases h
        · rcases he hp with hl | hl
          · right
            refine ⟨?_, hkp, ?_⟩
            · rcases List.mem_cons.mp hm with e1 | e1
              · subst e1; omega
              · exact e1
            · intro b hb3; cases hb3; exact hl
          · left; rw [hl]
      · rw [hq]
        rcases h with h | ⟨hm, hkp, hb2⟩
        · rw [hb] at h; cases h
          rcases he hp with h2 | h2
          · omega
          · left; rw [h2]
        · rcases he hp with h2 | h2
          · right
            refine ⟨?_, hkp, ?_⟩
            · rcases List.mem_cons.mp hm with e1 | e1
              · subst e1; omega
              · exact e1
            · intro b hb3; cases hb3; exact h2
          · left; rw [h2]
      · rw [hq]
        rcases h with h | ⟨hm, hkp, hb2⟩
        · left; rw [← hb]; exact h
        · right
          have hb0 := hb2 b0 hb
          refine ⟨?_, hkp, ?_⟩
          · rcases List.mem_cons.mp hm with e1 | e1
            · subst e1; omega
            · exact e1
          · intro b hb3; cases hb3; exact hb0

/-! #### the walk in general -/

theorem walk_spec (tbl : List (Str × Str)) : ∀ (input p : Str) (c : Nat),
    (p = [] ∨ hasKeysWithPrefix tbl p = true) →
    ∃ w x r, extendWhilePrefix tbl input ((p ++ [c]).map some) = .ok (w.map some ++ [x], r) ∧
      p <+: w ∧ w ++ Stream.unget r x = p ++ c :: input ∧ (w = [] ∨ hasKeysWithPrefix tbl w = true) ∧
      (x = none → r = []) ∧ (∀ d, x = some d → hasKeysWithPrefix tbl (w ++ [d]) = false) := by
  intro input
  induction input with
  | nil =>
    intro p c hp
    have hl : ((p ++ [c]).map some).getLast? = some (some c) := by simp
    rw [extendWhilePrefix.eq_def]
    simp only [hl, joinChars_map_some]
    by_cases hk : hasKeysWithPrefix tbl (p ++ [c]) = true
    · refine ⟨p ++ [c], none, [], ?_, List.prefix_append _ _, ?_, Or.inr hk, fun _ => rfl, ?_⟩
      · simp [hk]
      · simp [Stream.unget]
      · intro d hd; cases hd
    · have hk : hasKeysWithPrefix tbl (p ++ [c]) = false := by simpa using hk
      refine ⟨p, some c, [], ?_, List.prefix_refl _, ?_, hp, ?_, ?_⟩
      · simp [hk]
      · simp [Stream.unget]
      · intro h; cases h
      · intro d hd; cases hd; exact hk
  | cons d rest ih =>
    intro p c hp
    have hl : ((p ++ [c]).map some).getLast? = some (some c) := by simp
    rw [extendWhilePrefix.eq_def]
    simp only [hl, joinChars_map_some]
    by_cases hk : hasKeysWithPrefix tbl (p ++ [c]) = true
    · obtain ⟨w, x, r, h1, h2, h3, h4, h5, h6⟩ := ih (p ++ [c]) d (Or.inr hk)
      refine ⟨w, x, r, ?_, ?_, ?_, h4, h5, h6⟩
      · simp only [hk, Bool.not_true, Bool.false_eq_true, if_false]
        rw [← h1]; simp
      · exact List.IsPrefix.trans (List.prefix_append _ _) h2
      · rw [h3]; simp
    · have hk : hasKeysWithPrefix tbl (p ++ [c]) = false := by simpa using hk
      refine ⟨p, some c, d :: rest, ?_, List.prefix_refl _, ?_, hp, ?_, ?_⟩
      · simp [hk]
      · simp [Stream.unget]
      · intro h; cases h
      · intro e he; cases he; exact hk

theorem longestPrefixFrom_none (tbl : List (Str × Str)) (w : Str) (h0 : hasKey tbl [] = false) :
    ∀ n, (∀ L, 1 ≤ L → L ≤ n → hasKey tbl (w.take L) = false) →
      longestPrefixFrom tbl w n = .error (.keyError "longest_prefix") := by
  intro n
  induction n with
  | zero => intro _; simp [longestPrefixFrom, h0]
  | succ n ih =>
    intro h
    rw [longestPrefixFrom, h (n + 1) (by omega) (by omega)]
    simp only [Bool.false_eq_true, if_false]
    exact ih (fun L a b => h L a (by omega))

theorem longestPrefixFrom_some (tbl : List (Str × Str)) (w : Str) (L : Nat) (hL : 1 ≤ L)
    (hk : hasKey tbl (w.take L) = true) :
    ∀ n, L ≤ n → (∀ L2, L < L2 → L2 ≤ n → hasKey tbl (w.take L2) = false) →
      longestPrefixFrom tbl w n = .ok (w.take L) := by
  intro n
  induction n with
  | zero => intro h; omega
  | succ n ih =>
    intro hle h
    rw [longestPrefixFrom]
    by_cases e : L = n + 1
    · subst e; simp [hk]
    · rw [h (n + 1) (by omega) (by omega)]
      simp only [Bool.false_eq_true, if_false]
      exact ih (by omega) (fun L2 a b => h L2 a (by omega))

theorem hasKey_nil_false {tbl : List (Str × Str)} (ok : TableOK tbl) : hasKey tbl [] = false := by
  rw [Bool.eq_false_iff]
  intro h
  obtain ⟨v, hv⟩ := hasKey_iff.mp h
  exact ok.nonempty _ hv rfl

/-- everything the tail of `consumeNamedEntity` needs to know about the walk -/
theorem walk_facts {tbl : List (Str × Str)} (c0 : Nat) (s2 : Str) :
    ∃ w x r, extendWhilePrefix tbl s2 [some c0] = .ok (w.map some ++ [x], r) ∧
      w ++ Stream.unget r x = c0 :: s2 ∧ (x = none → r = []) ∧
      (∀ k v, (k, v) ∈ tbl → k <+: c0 :: s2 → k <+: w) := by
  obtain ⟨w, x, r, h1, _, h3, _, h5, h6⟩ := walk_spec tbl s2 [] c0 (Or.inl rfl)
  refine ⟨w, x, r, by simpa using h1, by simpa using h3, h5, ?_⟩
  intro k v hm hp
  have h3 : w ++ Stream.unget r x = c0 :: s2 := by simpa using h3
  have hw : w <+: c0 :: s2 := ⟨_, h3⟩
  by_cases hl : k.length ≤ w.length
  · exact List.prefix_of_prefix_length_le hp hw hl
  · exfalso
    cases x with
    | none =>
      have := h5 rfl
      subst this
      simp only [Stream.unget, List.append_nil] at h3
      subst h3
      exact hl hp.length_le
    | some d =>
      have hwd : w ++ [d] <+: c0 :: s2 := ⟨r, by rw [← h3]; simp [Stream.unget]⟩
      have : w ++ [d] <+: k := List.prefix_of_prefix_length_le hwd hp (by simp; omega)
      have hh := hasKeysWithPrefix_of_mem hm this
      rw [h6 d rfl] at hh
      cases hh

theorem longestPrefix_of_longestMatch_none {tbl : List (Str × Str)} (ok : TableOK tbl) {s w : Str} (hw : w <+: s)
    (h : longestMatch tbl s = none) : longestPrefix tbl w = .error (.keyError "longest_prefix") := by
  apply longestPrefixFrom_none tbl w (hasKey_nil_false ok)
  intro L _ _
  rw [Bool.eq_false_iff]
  intro hk
  obtain ⟨v, hv⟩ := hasKey_iff.mp hk
  exact longestMatch_none h _ hv (List.IsPrefix.trans (List.take_prefix L w) hw)

theorem longestPrefix_of_longestMatch_some {tbl : List (Str × Str)} (ok : TableOK tbl) {s w k v : Str} (hw : w <+: s)
    (h : longestMatch tbl s = some (k, v)) (hkw : k <+: w) : longestPrefix tbl w = .ok k := by
  obtain ⟨hm, _, hmax⟩ := longestMatch_sound h
  have hk : k ≠ [] := ok.nonempty _ hm
  have hkl : 1 ≤ k.length := List.length_pos_iff.mpr hk
  have htk : w.take k.length = k := by
    obtain ⟨t, ht⟩ := hkw
    rw [← ht]; simp
  have := longestPrefixFrom_some tbl w k.length hkl (by rw [htk]; exact hasKey_of_mem hm) w.length hkw.length_le
    (by
      intro L2 h1 h2
      rw [Bool.eq_false_iff]
      intro hk2
      obtain ⟨v2, hv2⟩ := hasKey_iff.mp hk2
      have := hmax _ hv2 (List.IsPrefix.trans (List.take_prefix L2 w) hw)
      simp only [List.length_take] at this
      omega)
  rw [htk] at this
  exact this

theorem charStackGet_walk {w r s : Str} {x : Option Nat} (h3 : w ++ Stream.unget r x = s) (h5 : x = none → r = [])
    (L : Nat) (hL : L ≤ w.length) : charStackGet (w.map some ++ [x]) L = .ok s[L]? := by
  have : (w.map some ++ [x])[L]? = some s[L]? := by
    subst h3
    by_cases hlt : L < w.length
    · rw [List.getElem?_append_left (by simpa using hlt), List.getElem?_append_left hlt]
      simp [List.getElem?_eq_getElem hlt]
    · have e : L = w.length := by omega
      subst e
      rw [List.getElem?_append_right (by simp), List.getElem?_append_right (by simp)]
      cases x with
      | none => simp [h5 rfl, Stream.unget]
      | some d => simp [Stream.unget]
  simp [charStackGet, this]

/-- parse errors queued for a match `k` -/
def namedErrs (k : Str) : List TTok :=
  if k.getLast? = some Ch.semi then [] else [perr "named-entity-without-semicolon"]

/-- the attribute exception ("for historical reasons"): in an attribute value, a match without `;` followed
by an ASCII letter, a digit or `=` is not decoded -/
def attrException (fromAttribute : Bool) (k s : Str) : Bool :=
  fromAttribute && (k.getLast? != some Ch.semi) &&
    (isIn s[k.length]? asciiLetters || isIn s[k.length]? digits || s[k.length]? == some Ch.eq)

/-- **C14 (named, no match).** If no name of the table is a prefix of the input, the `&` and some prefix of the
input come back as text, with the `expected-named-entity` error; nothing is lost. -/
theorem C14_named_nomatch {tbl : List (Str × Str)} (ok : TableOK tbl) (fromAttribute : Bool) (c0 : Nat) (s2 : Str)
    (h : longestMatch tbl (c0 :: s2) = none) :
    ∃ w r, consumeNamedEntity tbl fromAttribute (some c0) s2 = .ok (Ch.amp :: w, [perr "expected-named-entity"], r) ∧
      w ++ r = c0 :: s2 := by
  obtain ⟨w, x, r, h1, h3, h5, _⟩ := walk_facts (tbl := tbl) c0 s2
  have hlp := longestPrefix_of_longestMatch_none ok ⟨_, h3⟩ h
  refine ⟨w, Stream.unget r x, ?_, h3⟩
  have hdl : (List.map some w ++ [x]).dropLast = List.map some w := List.dropLast_concat
  have hlast : (List.map some w ++ [x]).getLast? = some x := by simp
  unfold consumeNamedEntity
  simp only [h1, bind, Except.bind, pure, Except.pure, hdl, joinChars_map_some, hlp, charStackLast, hlast]

/-- **C14 (named, longest match).** If `(k, v)` is the longest match on the input `s = c0 :: s2` and the attribute
exception does not apply, the output is the table value `v` followed by some characters `w`, and
`w ++ remaining input` is exactly `s` without the name `k`; the `named-entity-without-semicolon` error is queued
iff `k` does not end in `;`. -/
theorem C14_named_match {tbl : List (Str × Str)} (ok : TableOK tbl) (fromAttribute : Bool) (c0 : Nat) (s2 k v : Str)
    (h : longestMatch tbl (c0 :: s2) = some (k, v)) (hex : attrException fromAttribute k (c0 :: s2) = false) :
    ∃ w r, consumeNamedEntity tbl fromAttribute (some c0) s2 = .ok (v ++ w, namedErrs k, r) ∧
      w ++ r = (c0 :: s2).drop k.length := by
  obtain ⟨w, x, r, h1, h3, h5, h7⟩ := walk_facts (tbl := tbl) c0 s2
  obtain ⟨hm, hks, _⟩ := longestMatch_sound h
  have hkw : k <+: w := h7 k v hm hks
  have hlp := longestPrefix_of_longestMatch_some ok ⟨_, h3⟩ h hkw
  have hv := entityValue_of_mem ok hm
  have hget := charStackGet_walk h3 h5 k.length hkw.length_le
  obtain ⟨l, hl⟩ : ∃ l, k.getLast? = some l := by
    cases hk : k.getLast? with
    | none => exact absurd (List.getLast?_eq_none_iff.mp hk) (ok.nonempty _ hm)
    | some l => exact ⟨l, rfl⟩
  refine ⟨w.drop k.length, Stream.unget r x, ?_, ?_⟩
  · have hdl : (List.map some w ++ [x]).dropLast = List.map some w := List.dropLast_concat
    have hlast : (List.map some w ++ [x]).getLast? = some x := by simp
    have hj : joinChars (List.drop k.length (List.map some w)) = .ok (w.drop k.length) := by
      rw [← List.map_drop]; exact joinChars_map_some _
    unfold consumeNamedEntity
    simp only [h1, bind, Except.bind, pure, Except.pure, hdl, joinChars_map_some, hlp, hl, hget, charStackLast,
      hlast]
    simp only [attrException, hl] at hex
    by_cases hs : l = Ch.semi
    · subst hs
      simp [namedErrs, hl, hv, hj]
    · cases fromAttribute with
      | false => simp [namedErrs, hl, hv, hj, hs]
      | true =>
        have hne : (some l != some Ch.semi) = true := by simpa using hs
        simp only [Bool.true_and, hne, Bool.or_eq_false_iff, beq_eq_false_iff_ne, ne_eq] at hex
        obtain ⟨⟨a, b⟩, c⟩ := hex
        simp [namedErrs, hl, hv, hj, hs, a, b, c]
  · rw [← h3, List.drop_append_of_le_length hkw.length_le]

/-- **C14 (named, attribute exception).** In an attribute value, if the longest match `k` has no `;` and is followed
by an ASCII letter, a digit or `=`, nothing is decoded: `&` and a prefix `w` of the input (containing `k`) come back
as text; the error `named-entity-without-semicolon` is still queued. -/
theorem C14_named_attr_exception {tbl : List (Str × Str)} (ok : TableOK tbl) (fromAttribute : Bool) (c0 : Nat)
    (s2 k v : Str) (h : longestMatch tbl (c0 :: s2) = some (k, v))
    (hex : attrException fromAttribute k (c0 :: s2) = true) :
    ∃ w r, consumeNamedEntity tbl fromAttribute (some c0) s2 = .ok (Ch.amp :: w, namedErrs k, r) ∧
      w ++ r = c0 :: s2 ∧ k <+: w := by
  obtain ⟨w, x, r, h1, h3, h5, h7⟩ := walk_facts (tbl := tbl) c0 s2
  obtain ⟨hm, hks, _⟩ := longestMatch_sound h
  have hkw : k <+: w := h7 k v hm hks
  have hlp := longestPrefix_of_longestMatch_some ok ⟨_, h3⟩ h hkw
  have hget := charStackGet_walk h3 h5 k.length hkw.length_le
  obtain ⟨l, hl⟩ : ∃ l, k.getLast? = some l := by
    cases hk : k.getLast? with
    | none => exact absurd (List.getLast?_eq_none_iff.mp hk) (ok.nonempty _ hm)
    | some l => exact ⟨l, rfl⟩
  refine ⟨w, Stream.unget r x, ?_, h3, hkw⟩
  have hdl : (List.map some w ++ [x]).dropLast = List.map some w := List.dropLast_concat
  have hlast : (List.map some w ++ [x]).getLast? = some x := by simp
  unfold consumeNamedEntity
  simp only [h1, bind, Except.bind, pure, Except.pure, hdl, joinChars_map_some, hlp, hl, hget, charStackLast,
    hlast]
  simp only [attrException, hl, Bool.and_eq_true, bne_iff_ne, ne_eq, Option.some.injEq] at hex
  obtain ⟨⟨hfa, hs⟩, hnx⟩ := hex
  subst hfa
  simp [namedErrs, hl, hs, hnx]

/-- what `consumeNamedEntity tbl fromAttribute (some c0) s2` returns, given the longest match `m` of the table
on the input `c0 :: s2` -/
def NamedResult (tbl : List (Str × Str)) (fromAttribute : Bool) (c0 : Nat) (s2 : Str) : Option (Str × Str) → Prop
  | some (k, v) =>
    if attrException fromAttribute k (c0 :: s2) then
      ∃ w r, consumeNamedEntity tbl fromAttribute (some c0) s2 = .ok (Ch.amp :: w, namedErrs k, r) ∧
        w ++ r = c0 :: s2 ∧ k <+: w
    else
      ∃ w r, consumeNamedEntity tbl fromAttribute (some c0) s2 = .ok (v ++ w, namedErrs k, r) ∧
        w ++ r = (c0 :: s2).drop k.length
  | none =>
    ∃ w r, consumeNamedEntity tbl fromAttribute (some c0) s2 = .ok (Ch.amp :: w, [perr "expected-named-entity"], r) ∧
      w ++ r = c0 :: s2

/-- **C14 (named, general).** The three cases together, by the longest match of the table on the input:
the model decodes exactly the standard's "maximum number of characters possible" match.
(`m` is a variable so that instantiating `tbl` with a big literal table never makes Lean evaluate the lookup.) -/
theorem C14_named_longest {tbl : List (Str × Str)} (ok : TableOK tbl) (fromAttribute : Bool) (c0 : Nat) (s2 : Str)
    (m : Option (Str × Str)) (h : longestMatch tbl (c0 :: s2) = m) : NamedResult tbl fromAttribute c0 s2 m := by
  cases m with
  | none => exact C14_named_nomatch ok fromAttribute c0 s2 h
  | some kv =>
    obtain ⟨k, v⟩ := kv
    by_cases hex : attrException fromAttribute k (c0 :: s2) = true
    · simp only [NamedResult, hex, if_true]
      exact C14_named_attr_exception ok fromAttribute c0 s2 k v h hex
    · simp only [NamedResult, hex, Bool.false_eq_true, if_false]
      exact C14_named_match ok fromAttribute c0 s2 k v h (by simpa using hex)

/-! ### Non-vacuity (toy table: `amp`, `amp;`, `lt;`, `not`, `not;`, `notin;`) -/

def toyTable : List (Str × Str) :=
  [([97, 109, 112], [38]), ([97, 109, 112, 59], [38]), ([108, 116, 59], [60]),
   ([110, 111, 116], [172]), ([110, 111, 116, 59], [172]), ([110, 111, 116, 105, 110, 59], [8713])]

theorem toy_TableOK : TableOK toyTable := TableOK.of_bool _ (by decide) (by decide)

-- `&amp;x` : decoded, `x` left
example : consumeNamedEntity toyTable false (some 97) [109, 112, 59, 120] = .ok ([38], [], [120]) := by decide +kernel
-- the theorem gives the same
example : consumeNamedEntity toyTable true (some 97) ([109, 112, 59] ++ [120]) = .ok ([38], [], [120]) :=
  C14_named_semicolon toy_TableOK (by decide) (by decide) [120] true
-- `&not;in;` : `not;` wins although `notin;` is a key
example : consumeNamedEntity toyTable false (some 110) ([111, 116, 59] ++ [105, 110, 59]) = .ok ([172], [], [105, 110, 59]) :=
  C14_named_semicolon toy_TableOK (by decide) (by decide) _ false
-- the hypotheses are satisfiable for the real table: `amp;` is in it
example : ([97, 109, 112, 59], [38]) ∈ entities := by decide +kernel


-- longest match: `&notit;` — the match is `not` (value `¬`), `i` was read ahead and comes back as text
example : longestMatch toyTable [110, 111, 116, 105, 116, 59] = some ([110, 111, 116], [172]) := by decide +kernel
example : attrException false [110, 111, 116] [110, 111, 116, 105, 116, 59] = false := by decide +kernel
example : consumeNamedEntity toyTable false (some 110) [111, 116, 105, 116, 59]
    = .ok ([172] ++ [105], namedErrs [110, 111, 116], [116, 59]) := by decide +kernel
example : namedErrs [110, 111, 116] = [perr "named-entity-without-semicolon"] := by decide +kernel
-- the same in an attribute value: not decoded
example : attrException true [110, 111, 116] [110, 111, 116, 105, 116, 59] = true := by decide +kernel
example : consumeNamedEntity toyTable true (some 110) [111, 116, 105, 116, 59]
    = .ok (Ch.amp :: [110, 111, 116, 105], namedErrs [110, 111, 116], [116, 59]) := by decide +kernel
-- no match: `&xyz`
example : longestMatch toyTable [120, 121, 122] = none := by decide +kernel
example : consumeNamedEntity toyTable false (some 120) [121, 122]
    = .ok (Ch.amp :: [], [perr "expected-named-entity"], [120, 121, 122]) := by decide +kernel

/-- instance of the general theorem for html5lib's table -/
theorem C14_named_longest_entities (fromAttribute : Bool) (c0 : Nat) (s2 : Str) (m : Option (Str × Str))
    (h : longestMatch entities (c0 :: s2) = m) : NamedResult entities fromAttribute c0 s2 m :=
  C14_named_longest entities_TableOK fromAttribute c0 s2 m h

end H5.Props.C14
