/-
  C03c — pushing and popping the protected elements (`table`, the row groups, `tr`, the cells): what the table phases
  do to the protected part of the stack.
-/
import H5.Props.C03cScope
set_option linter.unusedSimpArgs false
set_option linter.unusedVariables false
namespace H5.Props.C03c
open H5 H5.Model H5.Model.TB H5.Model.Dom
open H5.Props.C02c (NF Post Post_bind Post_mono Post_pure Post_ok Post_error Post_throw Post_ite
  NF_typeError NF_keyError NF_indexError NF_assertFail NF_valueError NF_lookupError)
open H5.Props.C03b

/-- what a push does to the structural part, when the new element sits properly on the stack -/
structure PushedG (st st' : PState) (x : NodeId) (e : El) : Prop where
  str : ST st'
  keep : Keep st st'
  stack : stackK st' = stackK st ++ [e]
  op : st'.openElements = st.openElements ++ [x]
  af : st'.activeFormattingElements = st.activeFormattingElements
  fm : st'.formPointer = st.formPointer
  hd : st'.headPointer = st.headPointer
  el : IsEl st'.arena x
  k : elemK st'.arena x = e
  fresh : st.arena.nodes.size ≤ x

theorem ST_pushed_gen {st st' : PState} {x : NodeId} {e : El} (hs : ST st) (hp : Pushed st st' x e)
    (hns : isH e = true → e.1 = dnsOf st) (hadj : adjJ (stackK st ++ [e]) = true) : PushedG st st' x e := by
  obtain ⟨st1, h1, h2, h3, h4, h5, h6⟩ := hp
  have hs1 : ST st1 := ST_of_Same h1 hs
  have hd1 : dnsOf st1 = dnsOf st := dnsOf_of_cfg h1.cf
  have hsk : stackK st1 = stackK st := stackK_of_Same h1 hs
  have hnin : x ∉ st1.openElements := by
    rw [h1.op]; intro hm; exact absurd (IsEl_lt (hs.elem x hm)) (Nat.not_lt.2 h6)
  have hst' : st' = wo st1 (st1.openElements ++ [x]) := by rw [h1.op]; exact h5
  subst hst'
  have hsk' : stackK (wo st1 (st1.openElements ++ [x])) = stackK st ++ [e] := by
    rw [stackK_wo, List.map_append, ← hsk]; simp only [List.map_cons, List.map_nil, h3]; rfl
  refine ⟨⟨?_, ?_, hs1.hp, hs1.fp, ?_, ?_, ?_, hs1.afe⟩, ⟨h1.f, h1.cf, h1.ar⟩, hsk', by show st1.openElements ++ [x] = _; rw [h1.op],
    h1.af, h1.fm, h1.hd, h2, h3, h6⟩
  · intro i hi
    rcases List.mem_append.1 hi with h | h
    · exact hs1.elem i h
    · simp only [List.mem_singleton] at h; subst h; exact h2
  · exact List.nodup_append.2 ⟨hs1.nodup, (by simp), by
      intro a ha b hb; simp only [List.mem_singleton] at hb; subst hb; intro hab; subst hab; exact hnin ha⟩
  · intro e' he'
    rw [hsk'] at he'
    rcases List.mem_append.1 he' with h | h
    · show isH e' = true → e'.1 = dnsOf st1; rw [hd1]; exact hs.ns e' h
    · simp only [List.mem_singleton] at h; subst h; show isH e' = true → e'.1 = dnsOf st1; rw [hd1]; exact hns
  · rw [hsk']; exact hadj
  · intro e' he'
    rw [hsk'] at he'
    show e' = (dnsOf st1, nHtml)
    rw [hd1]
    refine hs.bot e' ?_
    cases hst : stackK st with
    | nil =>
      unfold stackK at hst
      exact absurd (List.map_eq_nil_iff.1 hst) h4
    | cons y r => rw [hst] at he'; simpa using he'

/-- `adjOK` when an element is pushed: its pair with the previous current node -/
theorem adjOK_snoc : ∀ (l : List El) (e : El),
    adjOK (l ++ [e]) = (adjOK l && (match l.getLast? with | some p => pairOK p e | none => true))
  | [], e => by simp [adjOK]
  | [x], e => by simp [adjOK]
  | x :: y :: l, e => by
    have ih := adjOK_snoc (y :: l) e
    simp only [List.cons_append, adjOK] at ih ⊢
    rw [ih, Bool.and_assoc]
    simp

/-- a protected element is not a formatting element -/
theorem prot_not_junk {e : El} (h : prot e = true) : junk e = false := by
  cases hj : junk e with
  | false => rfl
  | true => rw [junk_unprot hj] at h; cases h

/-- pushing a protected element onto a current node that is not a formatting element -/
theorem adjJ_push_on {s : List El} {t e : El} (h : adjJ s = true) (ht : s.getLast? = some t) (htj : junk t = false)
    (hej : junk e = false) (hp : pairOK t e = true) : adjJ (s ++ [e]) = true := by
  unfold adjJ at h ⊢
  have hl : (nj s).getLast? = some t := by
    have hs := list_snoc_of_getLast? ht
    rw [hs, nj_append, nj_cons_nj htj]; simp [nj]
  rw [nj_append, nj_cons_nj hej]
  have : nj ([] : List El) = [] := rfl
  rw [this, adjOK_snoc, hl, h]; simpa using hp

/-- `insertElement(token)` for a token without a namespace: the general form -/
theorem insertElementTok_pushedG (tok : Token) (site : String) (st : PState) (hs : ST st) (hn : NsNone tok)
    (hadj : adjJ (stackK st ++ [(dnsOf st, tokName tok)]) = true) :
    Tr (insertElementTok tok site) st (fun x st' => PushedG st st' x (dnsOf st, tokName tok)) := by
  unfold insertElementTok
  simp only [Tr_bind, Tr_monadLift]
  cases ht : tok.tag site with
  | error e =>
    have := (ENF_tag tok site).out
    rw [ht] at this; exact this
  | ok d =>
    simp only [Post_ok]
    refine Tr_mono (insertElement_spec d st hs.elem) ?_
    intro x st' hpu
    have he : dEl (dnsOf st) d = (dnsOf st, tokName tok) := by
      unfold dEl; rw [tag_ns ht hn, tag_name ht]
    rw [he] at hpu
    exact ST_pushed_gen hs hpu (fun _ => rfl) hadj

/-- the stack after `clearStackTo…Context`: the current node is an element of the default namespace with one of
the names -/
theorem clearStack_spec (names : List Str) (site : String) (st : PState) (hs : ST st) :
    Tr (popWhile (fun n => do
        return !(names.contains (← nodeName n)) || (← nodeNs n) != (← getCfg).defaultNamespace) site) st
      (fun _ st' => ∃ pre post, st.openElements = pre ++ post ∧ st' = wo st pre ∧
        ∃ x, pre.getLast? = some x ∧ names.contains (elemK st.arena x).2 = true ∧ (elemK st.arena x).1 = dnsOf st) := by
  refine Tr_mono (popWhile_spec _ site st
    (fun e => !(names.contains e.2) || e.1 != st.cfg.defaultNamespace) ?_ hs.elem) ?_
  · intro l n hn Q
    have hn' : IsEl (wo st l).arena n := hn
    simp only [Tr_bind, Tr_nodeName hn', Tr_nodeNs hn', Tr_getCfg, Tr_pure]
  · rintro _ st' ⟨pre, post, h1, h2, ⟨x, hx, hc⟩, _⟩
    refine ⟨pre, post, h1, h2, x, hx, ?_⟩
    simp only [Bool.or_eq_false_iff, Bool.not_eq_false', bne_eq_false_iff_eq] at hc
    exact ⟨hc.1, hc.2⟩

theorem Same_wo {a b : PState} {l : List NodeId} (h : Same (wo a l) b) (l' : List NodeId) :
    Same (wo a l') (wo b l') := ⟨h.f, rfl, h.af, h.cf, h.hd, h.fm, h.ar⟩

/-- `popWhile` with a callback that keeps the stack (`parseError`) -/
theorem popWhileLoop_spec_each (cond : NodeId → M Bool) (each : NodeId → M Unit) [he : ∀ n, SV (each n)]
    (site : String) (c : Cfg → El → Bool)
    (hc : ∀ (s : PState) n, IsEl s.arena n → ∀ Q, Tr (cond n) s Q ↔ Q (c s.cfg (elemK s.arena n)) s)
    (st : PState) :
    ∀ fuel (l : List NodeId) (s : PState), Same (wo st l) s → (∀ i ∈ l, IsEl st.arena i) → l.length + 1 ≤ fuel →
      Tr (popWhileLoop cond each site fuel) s (fun _ st' => ∃ pre post, l = pre ++ post ∧
        Same (wo st pre) st' ∧ (∃ x, pre.getLast? = some x ∧ c st.cfg (elemK st.arena x) = false) ∧
        ∀ y ∈ post, c st.cfg (elemK st.arena y) = true) := by
  intro fuel
  induction fuel with
  | zero => intro l s _ _ h; omega
  | succ fuel ih =>
    intro l s hsame hel h
    have hop : s.openElements = l := hsame.op
    unfold popWhileLoop
    simp only [Tr_bind, Tr_openLast]
    intro x hx
    rw [hop] at hx
    have hxe0 : IsEl st.arena x := hel x (List.mem_of_getLast? hx)
    obtain ⟨hxe, hxk⟩ := hxe0.ext (show Ext (wo st l).arena s.arena from hsame.ar)
    rw [hc s x hxe]
    have hval : c s.cfg (elemK s.arena x) = c st.cfg (elemK st.arena x) := by
      rw [hxk, show s.cfg = st.cfg from hsame.cf]
    rw [hval]
    split
    · rename_i hcx
      simp only [Tr_bind]
      refine Tr_mono ((he x).out s) ?_
      intro _ s2 hs2
      simp only [Tr_openPop]
      intro y hy
      have hsame2 : Same (wo st l) s2 := hsame.trans hs2
      have hl : l = l.dropLast ++ [x] := list_snoc_of_getLast? hx
      have hlen : l.dropLast.length + 1 ≤ fuel := by
        have := getLast?_length_pos hx
        simp; omega
      have hop2 : s2.openElements = l := hsame2.op
      rw [hop2]
      refine Tr_mono (ih l.dropLast (wo s2 l.dropLast) (Same_wo hsame2 _) (fun i hi => hel i (List.dropLast_subset _ hi)) hlen) ?_
      intro _ st' ⟨pre, post, h1, h2, h3, h4⟩
      refine ⟨pre, post ++ [x], ?_, h2, h3, ?_⟩
      · rw [← List.append_assoc, ← h1]; exact hl
      · intro z hz
        rcases List.mem_append.1 hz with hz | hz
        · exact h4 z hz
        · simp only [List.mem_singleton] at hz; subst hz; exact hcx
    · rename_i hcx
      simp only [Tr_pure]
      exact ⟨l, [], by simp, hsame, ⟨x, hx, by simpa using hcx⟩, by simp⟩

/-- what `clearStackTo…Context` leaves: a prefix of the stack whose last element has one of the names and is in the
default namespace; all the rest is as before, up to the recorded parse errors -/
def Cleared (names : List Str) (st st' : PState) : Prop :=
  ∃ pre post, st.openElements = pre ++ post ∧ Same (wo st pre) st' ∧
    ∃ x, pre.getLast? = some x ∧ names.contains (elemK st.arena x).2 = true ∧ (elemK st.arena x).1 = dnsOf st

theorem clearStack_spec_each (names : List Str) (site : String) (each : NodeId → M Unit) [he : ∀ n, SV (each n)]
    (st : PState) (hs : ST st) :
    Tr (popWhile (fun n => do
        return !(names.contains (← nodeName n)) || (← nodeNs n) != (← getCfg).defaultNamespace) site each) st
      (fun _ st' => Cleared names st st') := by
  unfold popWhile
  simp only [Tr_bind, Tr_openElems]
  refine Tr_mono (popWhileLoop_spec_each _ each site
    (fun cfg e => !(names.contains e.2) || e.1 != cfg.defaultNamespace) ?_ st _ st.openElements st (Same.refl _)
    hs.elem (by omega)) ?_
  · intro s n hn Q
    simp only [Tr_bind, Tr_nodeName hn, Tr_nodeNs hn, Tr_getCfg, Tr_pure]
  · rintro _ st' ⟨pre, post, h1, h2, ⟨x, hx, hc⟩, _⟩
    refine ⟨pre, post, h1, h2, x, hx, ?_⟩
    simp only [Bool.or_eq_false_iff, Bool.not_eq_false', bne_eq_false_iff_eq] at hc
    exact ⟨hc.1, hc.2⟩

/-- the structural part after `clearStackTo…Context`, and the current node -/
theorem Cleared.st {names : List Str} {st st' : PState} (hs : ST st) (h : Cleared names st st') :
    ST st' ∧ Keep st st' ∧ ∃ t, (stackK st').getLast? = some t ∧ names.contains t.2 = true ∧ t.1 = dnsOf st' := by
  obtain ⟨pre, post, h1, h2, x, hx, hn, hd⟩ := h
  have hs1 : ST (wo st pre) := ST_prefix (post := post) (by rw [← h1]; exact hs)
  have hs' : ST st' := ST_of_Same h2 hs1
  refine ⟨hs', ⟨h2.f, h2.cf, h2.ar⟩, elemK st.arena x, ?_, hn, by rw [hd, dnsOf_of_cfg h2.cf]; rfl⟩
  rw [stackK_of_Same h2 hs1, stackK_wo, List.getLast?_map, hx]; rfl

/-! ### the pairs (parent, table part) -/

theorem pairOK_table (t e : El) (he : e.2 = nTable) : pairOK t e = true := by
  unfold pairOK
  split
  · have h1 : (e.2 == nTr) = false := by rw [he]; decide
    have h2 : [nTbody, nThead, nTfoot].contains e.2 = false := by rw [he]; decide
    have h3 : (e.2 == nTd || e.2 == nTh) = false := by rw [he]; decide
    simp only [h1, h2, h3, Bool.false_eq_true, if_false]
  · rfl

theorem pairOK_group (t e : El) (ht : isH t = true) (htn : [nTable, nHtml].contains t.2 = true)
    (hen : [nTbody, nThead, nTfoot].contains e.2 = true) : pairOK t e = true := by
  unfold pairOK
  split
  · have h1 : (e.2 == nTr) = false := by
      simp only [List.contains_cons, List.contains_nil, Bool.or_false, Bool.or_eq_true, beq_iff_eq] at hen
      rcases hen with h | h | h <;> rw [h] <;> decide
    simp only [h1, hen, Bool.false_eq_true, if_false, if_true, ht, htn, Bool.and_self]
  · rfl

theorem pairOK_tr (t e : El) (ht : isH t = true) (htn : [nTbody, nThead, nTfoot, nHtml].contains t.2 = true)
    (hen : e.2 = nTr) : pairOK t e = true := by
  unfold pairOK
  split
  · simp only [hen, beq_self_eq_true, if_true, ht, htn, Bool.and_self]
  · rfl

theorem pairOK_cell (t e : El) (ht : isH t = true) (htn : [nTr, nHtml].contains t.2 = true)
    (hen : e.2 = nTd ∨ e.2 = nTh) : pairOK t e = true := by
  unfold pairOK
  split
  · have h1 : (e.2 == nTr) = false := by rcases hen with h | h <;> rw [h] <;> decide
    have h2 : [nTbody, nThead, nTfoot].contains e.2 = false := by rcases hen with h | h <;> rw [h] <;> decide
    have h3 : (e.2 == nTd || e.2 == nTh) = true := by rcases hen with h | h <;> rw [h] <;> decide
    simp only [h1, h2, h3, Bool.false_eq_true, if_false, if_true, ht, htn, Bool.and_self]
  · rfl

/-- an element of the default namespace with a name that is not that of a formatting element is not one -/
theorem not_junk_of_name {e : El} (h : FMT.contains e.2 = false) : junk e = false := by
  unfold junk; rw [h]; simp

/-- `insertElement(token)` after `clearStackTo…Context`: the new element sits on the current node -/
theorem insertElementTok_on (tok : Token) (site : String) (st : PState) (hs : ST st) (hn : NsNone tok)
    {t : El} (ht : (stackK st).getLast? = some t) (htj : FMT.contains t.2 = false)
    (hej : FMT.contains (tokName tok) = false) (hp : pairOK t (dnsOf st, tokName tok) = true) :
    Tr (insertElementTok tok site) st (fun x st' => PushedG st st' x (dnsOf st, tokName tok)) :=
  insertElementTok_pushedG tok site st hs hn
    (adjJ_push_on hs.adj ht (not_junk_of_name htj) (not_junk_of_name hej) hp)

/-- the protected part after a push of a protected element -/
theorem P_push_prot {st st' : PState} {x : NodeId} {e : El} (h : PushedG st st' x e) (hp : prot e = true) :
    P (stackK st') = P (stackK st) ++ [e.2] := by
  rw [h.stack, P_append]; simp [P, hp]

theorem prot_dns (cfg : Cfg) (n : Str) (h : PN.contains n = true) : prot (cfg.defaultNamespace, n) = true := by
  unfold prot; rw [isH_dns]; simpa using h

/-- the tokens of the table parts -/
def isTableTok (tok : Token) : Prop := tokName tok = nTable
def isGroupTok (tok : Token) : Prop := [nTbody, nThead, nTfoot].contains (tokName tok) = true
def isTrTok (tok : Token) : Prop := tokName tok = nTr
def isCellTok (tok : Token) : Prop := tokName tok = nTd ∨ tokName tok = nTh
instance (a s) : Fct (isGroupTok (impliedStart "tbody" a s)) := ⟨(by decide : [nTbody, nThead, nTfoot].contains (lit "tbody") = true)⟩
instance (a s) : Fct (isTrTok (impliedStart "tr" a s)) := ⟨rfl⟩

instance : Fct (isCellTok (impliedEnd "td")) := ⟨Or.inl rfl⟩
instance : Fct (isCellTok (impliedEnd "th")) := ⟨Or.inr rfl⟩

theorem split_after {α : Type} (l1 : List α) (x : α) (l2 p q : List α) (h : l1 ++ x :: l2 = p ++ q) (hx : x ∉ q) :
    ∃ l2', l2 = l2' ++ q ∧ p = l1 ++ x :: l2' := by
  rcases List.append_eq_append_iff.1 h with ⟨a', h1, h2⟩ | ⟨c', h1, h2⟩
  · cases a' with
    | nil => simp at h2; rw [← h2] at hx; simp at hx
    | cons y a'' =>
      simp only [List.cons_append, List.cons.injEq] at h2
      exact ⟨a'', h2.2, by rw [h1, h2.1]⟩
  · rw [h2] at hx; simp at hx

/-- `ROW` for the stacks that `InCellPhase.endTagTableCell` leaves -/
theorem ROW_after_cell (p0 : List Str) (q nm : Str) (hq : q = nTr ∨ q = nHtml) (hnm : nm = nTd ∨ nm = nTh) :
    ROW (p0 ++ [q]) = true ∧ ROW (p0 ++ [q] ++ [nm]) = true := by
  constructor
  · rcases hq with h | h <;> rw [h]
    · exact ROW_tr _
    · exact ROW_html _
  · unfold ROW
    have h1 : tsc [nTr] (p0 ++ [q] ++ [nm]) = tsc [nTr] (p0 ++ [q]) := by
      rw [tsc_snoc]; rcases hnm with h | h <;> rw [h] <;> rfl
    have h2 : tsc [nTbody, nThead, nTfoot] (p0 ++ [q] ++ [nm]) = tsc [nTbody, nThead, nTfoot] (p0 ++ [q]) := by
      rw [tsc_snoc]; rcases hnm with h | h <;> rw [h] <;> rfl
    rw [h1, h2]
    rcases hq with h | h <;> rw [h]
    · have := ROW_tr p0; unfold ROW at this; exact this
    · have := ROW_html p0; unfold ROW at this; exact this

theorem Tr_SV_keep_ST {α : Type} (m : M α) [h : SV m] {st : PState} (hs : ST st) (Q : α → PState → Prop)
    (hq : ∀ a st', ST st' → Same st st' → Q a st') : Tr m st Q :=
  Tr_mono (h.out st) (fun a st' e => hq a st' (ST_of_Same e hs) e)

end H5.Props.C03c
