/-
  C03d — the rounds of the reprocess loop for tokens that are not tags, and `reprocess_total_partial`.
-/
import H5.Props.C03dRank
set_option linter.unusedSimpArgs false
set_option linter.unusedVariables false
namespace H5.Props.C03d
open H5 H5.Model H5.Model.TB H5.Model.Dom
open H5.Props.C02c (NF Post Post_bind Post_mono Post_pure Post_ok Post_error Post_throw Post_ite
  NF_typeError NF_keyError NF_indexError NF_assertFail NF_valueError NF_lookupError)
open H5.Props.C03b H5.Props.C03c

/-! ### the rounds of the reprocess loop -/

/-- a token that is not a tag -/
def nonTag : Token → Bool
  | .startTag _ => false
  | .endTag _ => false
  | _ => true

theorem NsNone_of_nonTag {tok : Token} (h : nonTag tok = true) : NsNone tok := by
  cases tok <;> first | trivial | cases h

/-- a round of the reprocess loop for a token that is not a tag, from a state with the invariant: if the token is handed
back, the rank of the phase register has decreased -/
theorem round_rank {n : Nat} (hn : depthBound ≤ n) (tok : Token) (hk : nonTag tok = true) (st : PState) (hi : Inv st) :
    Tr (reprocessRound (mkRec n) tok) st (fun a st' => a = some tok → psi st'.phase < psi st.phase) := by
  have hround := round_inv hn tok (NsNone_of_nonTag hk) st hi
  have hn1 : 0 < n := by unfold depthBound maxNeed at hn; omega
  obtain ⟨k, rfl⟩ : ∃ k, n = k + 1 := ⟨n - 1, by omega⟩
  have hr := mkRec_inv k
  have hk0 : 0 < k := by unfold depthBound maxNeed at hn; omega
  -- partial correctness of the round
  have key : ∀ t st', (reprocessRound (mkRec (k + 1)) tok).run st = .ok (some t, st') →
      psi st'.phase < psi st.phase := by
    intro t st' hrun
    unfold reprocessRound at hrun
    rw [StateT.run_bind] at hrun
    have hu := useCurrentPhase_spec tok st hi.str
    unfold Tr at hu
    cases hown : (useCurrentPhase tok).run st with
    | error e => rw [hown] at hrun; cases hrun
    | ok po =>
      obtain ⟨own, s0⟩ := po
      rw [hown] at hu hrun
      obtain ⟨hs0, _⟩ := hu
      have hs0' : s0 = st := hs0
      subst hs0'
      simp only [ok_bind] at hrun
      rw [StateT.run_bind] at hrun
      -- the phase that handles the token
      have hph : ∀ p s1, (if own = true then curPhase "HTMLParser.mainLoop" else pure Phase.inForeignContent : M Phase).run s0
          = .ok (p, s1) → s1 = s0 ∧ (p = .inForeignContent ∨ s0.phase = some p) := by
        intro p s1 h
        split at h
        · have hc : Tr (curPhase "HTMLParser.mainLoop") s0 (fun p' s' => s' = s0 ∧ s0.phase = some p') :=
            (Tr_curPhase _ _ _).2 (fun p' hp' => ⟨rfl, hp'⟩)
          unfold Tr at hc
          rw [h] at hc
          exact ⟨hc.1, Or.inr hc.2⟩
        · cases h; exact ⟨rfl, Or.inl rfl⟩
      cases hp : (if own = true then curPhase "HTMLParser.mainLoop" else pure Phase.inForeignContent : M Phase).run s0 with
      | error e => rw [hp] at hrun; cases hrun
      | ok pp =>
        obtain ⟨p, s1⟩ := pp
        obtain ⟨hs1, hreg⟩ := hph p s1 hp
        subst hs1
        rw [hp] at hrun
        simp only [ok_bind] at hrun
        cases tok with
        | chars d => exact runProcess_rank hr hk0 p _ (by simp [plain4]) _ s1 hi hreg t st' hrun
        | space d => exact runProcess_rank hr hk0 p _ (by simp [plain4]) _ s1 hi hreg t st' hrun
        | comment d => exact runProcess_rank hr hk0 p _ (by simp [plain4]) _ s1 hi hreg t st' hrun
        | doctype a b c d => exact runProcess_rank hr hk0 p _ (by simp [plain4]) _ s1 hi hreg t st' hrun
        | startTag d => cases hk
        | endTag d => cases hk
  unfold Tr at hround ⊢
  cases hrun : (reprocessRound (mkRec (k + 1)) tok).run st with
  | error e => rw [hrun] at hround; exact hround
  | ok p =>
    obtain ⟨a, st'⟩ := p
    intro ha
    subst ha
    exact key tok st' hrun

theorem psi_le (p : Option Phase) : psi p ≤ 9 := by
  cases p with
  | none => decide
  | some q => cases q <;> decide

/-- the reprocess loop for a token that is not a tag, with fuel above the rank of the phase register: no fuel error
(of any site), and the invariant is preserved -/
theorem reprocessLoop_nonTag {n : Nat} (hn : depthBound ≤ n) (tok : Token) (hk : nonTag tok = true) :
    ∀ fuel st, C03c.Inv st → psi st.phase < fuel →
      Tr (reprocessLoop (mkRec n) fuel tok) st (fun _ st' => C03c.Inv st') := by
  intro fuel
  induction fuel with
  | zero => intro st _ h; omega
  | succ fuel ih =>
    intro st hi hlt
    have hround := round_inv hn tok (NsNone_of_nonTag hk) st hi
    have hdec := round_rank hn tok hk st hi
    unfold Tr
    rw [reprocessLoop_succ]
    unfold Tr at hround hdec
    cases hr : (reprocessRound (mkRec n) tok).run st with
    | error e =>
      rw [hr] at hround
      exact hround
    | ok p =>
      rw [hr] at hround hdec
      obtain ⟨nt, st'⟩ := p
      simp only [ok_bind]
      cases nt with
      | none => exact hround.1
      | some t =>
        have ht : t = tok := by
          rcases hround.2 with h | h
          · cases h
          · exact Option.some.inj h
        subst ht
        have hlt' : psi st'.phase < psi st.phase := hdec rfl
        exact ih st' hround.1 (by omega)

/-- **`reprocess_total_partial`**: in a state reachable by parsing, the reprocess loop of `mainLoop` for a token that
is not a tag (characters, space characters, comment, doctype) never fails with an exhausted-fuel error, as soon as
its fuel is at least 10 (the driver's default is 512) -/
theorem reprocess_total_partial (cfg : Cfg) (hd : depthBound ≤ cfg.dispatchDepth) {st : PState} (h : Reach cfg st)
    (tok : Token) (hk : nonTag tok = true) (fuel : Nat) (hf : 10 ≤ fuel) (site : String) :
    (reprocessLoop (mkRec cfg.dispatchDepth) fuel tok).run st ≠ .error (.outOfFuel site) := by
  have hi := Reach_Inv cfg hd h
  have := reprocessLoop_nonTag hd tok hk fuel st hi (by have := psi_le st.phase; omega)
  intro he
  unfold Tr at this
  rw [he] at this
  exact this site rfl

/-- a tokenizer token that is not a tag -/
def nonTagT : TTok → Bool
  | .startTag .. => false
  | .endTag .. => false
  | _ => true

/-- … and the whole step `TB.step` for such a token: no fuel error of any site -/
theorem step_total_nonTag (cfg : Cfg) (hd : depthBound ≤ cfg.dispatchDepth) (hf : 10 ≤ cfg.reprocessFuel)
    {st : PState} (h : Reach cfg st) (t : TTok) (hk : nonTagT t = true) (site : String) :
    TB.step cfg st t ≠ .error (.outOfFuel site) := by
  obtain ⟨hi, hc⟩ := Reach_Inv_cfg cfg hd h
  have hst : ({ st with cfg := cfg } : PState) = st := by rw [← hc]
  have key : Tr (stepM t) st (fun _ _ => True) := by
    unfold stepM
    simp only [Tr_bind, Tr_modify]
    generalize hs1 : ({ st with tokSwitch := none, selfClosingAcknowledged := false } : PState) = st1
    have hi1 : C03c.Inv st1 := by
      rw [← hs1]; exact Inv_of_Same (st := st) ⟨rfl, rfl, rfl, rfl, rfl, rfl, Ext.refl _⟩ hi
    have hc1 : st1.cfg = cfg := by rw [← hs1]; exact hc
    split
    · exact Tr_mono (Tr_of_Pu _ st1 hi1) (fun _ _ _ => trivial)
    · split
      · simp only [Tr_pure]
      · rename_i tok htok
        have hkt : nonTag tok = true := by
          cases t <;> simp only [Token.ofTTok, Option.some.injEq, reduceCtorEq] at htok <;>
            first | (subst htok; rfl) | cases hk
        simp only [Tr_bind, Tr_getCfg]
        rw [hc1]
        refine Tr_mono (reprocessLoop_nonTag hd tok hkt _ st1 hi1 (by have := psi_le st1.phase; omega)) ?_
        intro _ st3 _
        cases tok <;> first | (cases hkt; done) | simp only [Tr_pure]
  unfold TB.step
  rw [hst]
  intro he
  unfold Tr at key
  cases hrun : (stepM t).run st with
  | ok r => rw [hrun] at he; cases he
  | error e =>
    rw [hrun] at he key
    cases he
    exact key site rfl

end H5.Props.C03d
