/-
  C01b — the list of active formatting elements under the invariant: "reconstruct" does nothing, "push onto the list"
  appends, and the adoption agency algorithm for the end tag of the current (formatting) element ends in its first
  iteration (no furthest block).
-/
import H5.Props.C01bInv
set_option linter.unusedSimpArgs false
set_option linter.unusedVariables false
namespace H5.Props.C01b
open H5 H5.Spec.TC
open H5.Props.C07b (fmtName fmtNames)

theorem afeEntry_node {g : SFrame} {e : AfeEntry} (h : afeEntry g = some e) : e.node? = some g.id ∧ e ≠ .marker := by
  unfold afeEntry at h
  split at h
  · split at h
    · cases h; exact ⟨rfl, by simp⟩
    · cases h
  · cases h

theorem mem_afeOf {gs : List SFrame} {e : AfeEntry} (h : e ∈ afeOf gs) : ∃ g ∈ gs, afeEntry g = some e := by
  simpa [afeOf] using h

theorem afeOf_append (a b : List SFrame) : afeOf (a ++ b) = afeOf a ++ afeOf b := by simp [afeOf]

theorem takeWhile_all {α : Type} (p : α → Bool) : ∀ (l : List α), (∀ x ∈ l, p x = true) → l.takeWhile p = l
  | [], _ => rfl
  | x :: rest, h => by
    rw [List.takeWhile_cons, h x (List.mem_cons_self ..)]
    simp only [↓reduceIte]
    rw [takeWhile_all p rest (fun y hy => h y (List.mem_cons_of_mem _ hy))]

theorem dropWhile_all {α : Type} (p : α → Bool) : ∀ (l : List α), (∀ x ∈ l, p x = true) → l.dropWhile p = []
  | [], _ => rfl
  | x :: rest, h => by
    rw [List.dropWhile_cons, h x (List.mem_cons_self ..)]
    simp only [↓reduceIte]
    exact dropWhile_all p rest (fun y hy => h y (List.mem_cons_of_mem _ hy))

theorem takeWhile_head_false {α : Type} (p : α → Bool) (l : List α) (h : ∀ x, l.head? = some x → p x = false) :
    l.takeWhile p = [] := by
  cases l with
  | nil => rfl
  | cons x rest => rw [List.takeWhile_cons, h x rfl]; rfl

theorem bne_marker {e : AfeEntry} (h : e ≠ .marker) : (e != .marker) = true := by
  cases e with
  | marker => exact absurd rfl h
  | elem _ _ _ => rfl

theorem afterLastMarker_noMarker_eq (l : List AfeEntry) (h : ∀ e ∈ l, e ≠ .marker) : afterLastMarker l = l := by
  unfold afterLastMarker
  have : l.reverse.takeWhile (· != .marker) = l.reverse := by
    apply takeWhile_all
    intro e he
    exact bne_marker (h e (List.mem_reverse.1 he))
  rw [this, List.reverse_reverse]

theorem beforeLastMarker_noMarker_eq (l : List AfeEntry) (h : ∀ e ∈ l, e ≠ .marker) : beforeLastMarker l = [] := by
  unfold beforeLastMarker
  have : l.reverse.dropWhile (· != .marker) = [] := by
    apply dropWhile_all
    intro e he
    exact bne_marker (h e (List.mem_reverse.1 he))
  rw [this]; rfl

/-- pushing an element whose name no entry has: the Noah's Ark clause does not fire -/
theorem noahPush_fresh (l : List AfeEntry) (node : NodeId) (name : Str) (attrs : List (Str × Str))
    (hm : ∀ e ∈ l, e ≠ .marker) (hn : ∀ e ∈ l, sameEntry name attrs e = false) :
    noahPush l node name attrs = l ++ [.elem node name attrs] := by
  unfold noahPush
  rw [afterLastMarker_noMarker_eq l hm, beforeLastMarker_noMarker_eq l hm]
  have : l.filter (sameEntry name attrs) = [] := by
    rw [List.filter_eq_nil_iff]
    intro e he
    rw [hn e he]; simp
  simp [this]

/-- "reconstruct the active formatting elements": every entry is an open element -/
theorem reconstructAFE_run_noop (s : St) (h : ∀ e ∈ s.afe, ∃ n, e.node? = some n ∧ s.stack.contains n = true) :
    reconstructAFE.run s = .ok ((), s) := by
  unfold reconstructAFE
  simp only [run_bind, get_run, ok_bind]
  rw [takeWhile_head_false]
  · simp only [List.reverse_nil, List.length_nil, Nat.sub_zero, List.take_length, List.forIn_nil, run_pure, ok_bind,
      modify_run, List.append_nil]
  · intro x hx
    have hx' : x ∈ s.afe := List.mem_reverse.1 (List.mem_of_mem_head? hx)
    obtain ⟨n, hn1, hn2⟩ := h x hx'
    cases x with
    | marker => simp [AfeEntry.node?] at hn1
    | elem n' nm at_ =>
      simp only [AfeEntry.node?, Option.some.injEq] at hn1
      subst hn1
      have : n' ∈ s.stack := by simpa using hn2
      simp [this]

theorem SInv.afe_open {m s fs f} (h : SInv m s fs f) : ∀ e ∈ s.afe, ∃ n, e.node? = some n ∧ s.stack.contains n = true := by
  intro e he
  rw [h.afe] at he
  obtain ⟨g, hg, hge⟩ := mem_afeOf he
  refine ⟨g.id, (afeEntry_node hge).1, ?_⟩
  rw [h.stack]
  simp only [List.contains_eq_mem, List.mem_reverse, List.mem_map, decide_eq_true_eq]
  exact ⟨g, hg, rfl⟩

theorem SInv.reconstruct {m s fs f} (h : SInv m s fs f) : reconstructAFE.run s = .ok ((), s) :=
  reconstructAFE_run_noop s h.afe_open

theorem SInv.afe_noMarker {m s fs f} (h : SInv m s fs f) : ∀ e ∈ s.afe, e ≠ .marker := by
  intro e he
  rw [h.afe] at he
  obtain ⟨g, hg, hge⟩ := mem_afeOf he
  exact (afeEntry_node hge).2

theorem inAfe_run (s : St) (n : Nat) : (inAfe n).run s = .ok (s.afe.any (fun e => e.node? == some n), s) := rfl

theorem removeFromAfe_run (s : St) (n : Nat) :
    (removeFromAfe n).run s = .ok ((), { s with afe := s.afe.filter fun e => e.node? != some n }) := rfl

theorem popUntilNode_run_top (s : St) (c : Nat) (rest : List Nat) (hs : s.stack = c :: rest) :
    (popUntilNode c).run s = .ok ((), { s with stack := rest }) := by
  unfold popUntilNode popUntil
  simp only [run_bind, get_run, ok_bind, hs, popUntilAux, pop_run, run_pure, beq_self_eq_true, ↓reduceIte, List.tail_cons]

theorem furthestBlockOf_nil (s : St) : (furthestBlockOf []).run s = .ok (none, s) := by
  unfold furthestBlockOf
  simp only [List.forIn_nil, run_bind, run_pure, ok_bind]

theorem aaaFormattingElement_run_top (s : St) (c : Nat) (nm : Str) (l : List AfeEntry) (pairs : List (Str × Str))
    (hafe : s.afe = l ++ [.elem c nm pairs]) (hl : ∀ e ∈ l, e ≠ .marker) :
    (aaaFormattingElement nm).run s = .ok (some (c, nm, pairs), s) := by
  have hnm : ∀ e ∈ l ++ [AfeEntry.elem c nm pairs], e ≠ .marker := by
    intro e he
    rcases List.mem_append.1 he with he | he
    · exact hl e he
    · simp at he; subst he; simp
  unfold aaaFormattingElement
  simp only [run_bind, get_run, ok_bind, hafe, afterLastMarker_noMarker_eq _ hnm, List.reverse_append, List.reverse_cons,
    List.reverse_nil, List.nil_append, List.cons_append, List.find?_cons, beq_self_eq_true, run_pure]

/-- one iteration of the outer loop of the adoption agency algorithm for the current node: a formatting element that
is the last entry of the list of active formatting elements; no furthest block -/
theorem aaaIteration_run_top (s : St) (c : Nat) (rest : List Nat) (nm : Str)
    (l : List AfeEntry) (pairs : List (Str × Str))
    (hs : s.stack = c :: rest) (hafe : s.afe = l ++ [.elem c nm pairs])
    (hl : ∀ e ∈ l, e ≠ .marker ∧ e.node? ≠ some c)
    (hscope : (hasNodeInScope .default c).run s = .ok (true, s)) :
    ∃ r, (aaaIteration nm).run s = .ok (r, { s with stack := rest, afe := l }) ∧ r = .done := by
  have hfilter : ((l ++ [AfeEntry.elem c nm pairs]).filter fun e => e.node? != some c) = l := by
    rw [List.filter_append]
    have h1 : l.filter (fun e => e.node? != some c) = l := by
      rw [List.filter_eq_self]
      intro e he
      have := (hl e he).2
      simpa using this
    rw [h1]
    simp [AfeEntry.node?]
  refine ⟨.done, ?_, rfl⟩
  unfold aaaIteration
  simp only [run_bind, aaaFormattingElement_run_top s c nm l pairs hafe (fun e he => (hl e he).1), ok_bind, get_run, hs,
    List.contains_cons, beq_self_eq_true, Bool.true_or, Bool.not_true, Bool.false_eq_true, ↓reduceIte,
    hscope, List.takeWhile_cons, bne_self_eq_false, furthestBlockOf_nil,
    popUntilNode_run_top s c rest hs, removeFromAfe_run, run_pure, hafe]
  rw [hfilter]

theorem adoptionAgency_run_top (s : St) (c : Nat) (rest : List Nat) (n : Node) (nm : Str) (at_ : List Attr)
    (l : List AfeEntry) (pairs : List (Str × Str))
    (hd : s.dev = {}) (hs : s.stack = c :: rest) (hn : s.arena[c]? = some n) (hk : n.kind = .element .html nm at_)
    (hafe : s.afe = l ++ [.elem c nm pairs])
    (hl : ∀ e ∈ l, e ≠ .marker ∧ e.node? ≠ some c)
    (hscope : (hasNodeInScope .default c).run s = .ok (true, s)) :
    (adoptionAgency nm).run s = .ok ((), { s with stack := rest, afe := l }) := by
  have hin : s.afe.any (fun e => e.node? == some c) = true := by
    rw [hafe]; simp [AfeEntry.node?]
  obtain ⟨r, hr, hrd⟩ := aaaIteration_run_top s c rest nm l pairs hs hafe hl hscope
  subst hrd
  have hout : (aaaOuter nm (9 + 1) 0).run s = .ok (false, { s with stack := rest, afe := l }) := by
    unfold aaaOuter
    have h8 : ¬ ((0 : Nat) ≥ 8) := by decide
    simp only [h8, if_false, run_bind, hr, ok_bind, run_pure]
  unfold adoptionAgency
  simp only [run_bind, currentNode_run s c rest hs, ok_bind, isHtml_run s c n _ nm at_ nm hd hn hk, inAfe_run, hin,
    Bool.not_true, Bool.and_false, Bool.false_eq_true, ↓reduceIte]
  rw [show (10 : Nat) = 9 + 1 from rfl, hout]
  simp only [ok_bind, Bool.false_eq_true, ↓reduceIte, run_pure]

end H5.Props.C01b
