/-
  C01b — step lemmas of the "in body" insertion mode of the SPECIFICATION: list items and void elements.
-/
import H5.Props.C01bStep2
set_option linter.unusedSimpArgs false
set_option linter.unusedVariables false
namespace H5.Props.C01b
open H5 H5.Spec.TC
open H5.Props.C07b (fmtName fmtNames)

theorem isSpecialM_run (s : St) (e : EType) (hd : s.dev = {}) : (isSpecialM e).run s = .ok (isSpecial e, s) := by
  unfold isSpecialM
  have : s.dev.specialHtml5lib = false := by rw [hd]
  simp only [run_bind, get_run, ok_bind, this, Bool.false_eq_true, ↓reduceIte, run_pure]

/-- the li / dd / dt loop stops at once at a special element that is not address, div, p -/
theorem listItemLoop_stop (s : St) (closers : List Str) (c : Nat) (rest : List Nat) (n : Node) (pn : Str) (pattrs : List Attr)
    (hd : s.dev = {}) (hn : s.arena[c]? = some n) (hk : n.kind = .element .html pn pattrs)
    (h1 : among pn closers = false) (h2 : isSpecial (.html, pn) = true)
    (h3 : among pn (strs ["address", "div", "p"]) = false) :
    (listItemLoop closers (c :: rest)).run s = .ok ((), s) := by
  have hno : s.dev.nameOnly = false := by rw [hd]
  unfold listItemLoop
  simp only [run_bind, etypeOf_run s c n _ pn pattrs hn hk, ok_bind, get_run, hno, Bool.false_eq_true, ↓reduceIte, h1,
    isSpecialM_run s _ hd, h2, h3, Bool.not_false, Bool.and_self, run_pure]

def specItems : List Str := strs ["li", "dd", "dt"]

/-- an `li` / `dd` / `dt` start tag below a special element (its list), no `p` element open -/
theorem step_start_item {s fs f} (h : SInv .inBody s fs f) (nm : Str) (pairs : List (Str × Str))
    (hK : among nm specItems = true) (hnp : NoneNamed fs f (lit "p")) (pn : Str) (pattrs : List Attr)
    (hpk : f.node.kind = .element .html pn pattrs) (hp1 : among pn specItems = false)
    (hp2 : isSpecial (.html, pn) = true) (hp3 : among pn (strs ["address", "div", "p"]) = false) :
    ∃ s', (processToken (.startTag nm pairs false)).run s = .ok ((), s') ∧
      SInv .inBody s' (fs ++ [f.withChild s.arena.size]) (newFrame s.arena.size f.id nm (plainAttrs pairs)) := by
  have hnt : (nm == lit "template") = false := beq_disjoint _ hK (by decide +kernel)
  have hsc : s.dev = {} := h.dev
  let s1 : St := { s with framesetOk := false }
  have h1 : SInv .inBody s1 fs f :=
    h.sameTop ⟨rfl, rfl, rfl, rfl, rfl, rfl, rfl⟩ h.mode rfl rfl rfl rfl rfl h.frames h.noTextLast
  have hli : (listItemLoop (strs ["li"]) s.stack).run s1 = .ok ((), s1) := by
    rw [h.stackCons]
    exact listItemLoop_stop s1 _ f.id _ f.node pn pattrs hsc h.topNode hpk
      (among_notin (B := specItems) hp1 (by decide +kernel)) hp2 hp3
  have hdd : (listItemLoop (strs ["dd", "dt"]) s.stack).run s1 = .ok ((), s1) := by
    rw [h.stackCons]
    exact listItemLoop_stop s1 _ f.id _ f.node pn pattrs hsc h.topNode hpk
      (among_notin (B := specItems) hp1 (by decide +kernel)) hp2 hp3
  have hcp : closePForListItem.run s1 = .ok ((), s1) := by
    unfold closePForListItem
    simp only [run_bind, h1.hasInScope_false .button _ hnp, ok_bind, Bool.false_eq_true, ↓reduceIte, run_pure]
  have hfs : setFramesetNotOk.run s = .ok ((), s1) := rfl
  refine ⟨{ s1 with arena := addChild s.arena f.id (.element .html nm (plainAttrs pairs)), stack := s.arena.size :: s.stack },
    processToken_of_mode h _ (fun r => ?_), ?_⟩
  · show (bodyStartTag r (.startTag nm pairs false) nm pairs false).run s = _
    have hins := h1.insertHtmlElement_run nm pairs hnt
    unfold bodyStartTag
    by_cases hl : (nm == lit "li") = true
    · simp (disch := decide +kernel) only [hsc, run_bind, get_run, ok_bind, among_disjoint hK, beq_disjoint _ hK, hl,
        Bool.false_eq_true, ↓reduceIte, Bool.or_false, Bool.false_and, Bool.and_false, Bool.false_or, Bool.not_false,
        Bool.and_true, hfs, hli, hcp, hins, run_pure]
      rfl
    · have hl' : (nm == lit "li") = false := by simpa using hl
      have hdt : among nm (strs ["dd", "dt"]) = true := by
        have hm : nm ∈ specItems := by simpa [among] using hK
        have : nm ≠ lit "li" := by simpa using hl'
        simp only [specItems, strs, List.map_cons, List.map_nil, List.mem_cons, List.not_mem_nil, or_false] at hm
        rcases hm with hm | hm | hm
        · exact absurd hm this
        · subst hm; decide +kernel
        · subst hm; decide +kernel
      simp (disch := decide +kernel) only [hsc, run_bind, get_run, ok_bind, among_disjoint hK, beq_disjoint _ hK, hl', hdt,
        Bool.false_eq_true, ↓reduceIte, Bool.or_false, Bool.false_and, Bool.and_false, Bool.false_or, Bool.not_false,
        Bool.and_true, hfs, hdd, hcp, hins, run_pure]
      rfl
  · refine h.pushed nm (plainAttrs pairs) ⟨rfl, rfl, rfl, rfl, rfl, rfl, rfl⟩ h.mode rfl ?_ rfl
    have : fmtName nm = false := by
      have := among_disjoint (L := fmtNames) hK (by decide +kernel)
      simpa [fmtName, among] using this
    rw [this]; exact (List.append_nil _).symm

/-- the tree of a void element -/
def voidTree (nm : Str) (pairs : List (Str × Str)) : Tree := .elem (some NS.html.uri) nm (plainAttrs pairs) []

theorem SInv.addVoid {m s fs f} (h : SInv m s fs f) {s' : St} (nm : Str) (pairs : List (Str × Str)) (hc : Core s s')
    (hm : s'.mode = m) (hst : s'.stack = s.stack) (hafe : s'.afe = s.afe)
    (ha : s'.arena = addChild s.arena f.id (.element .html nm (plainAttrs pairs))) :
    SInv m s' fs (f.withLeaf s.arena.size (voidTree nm pairs)) := by
  have hlt : f.id < s.arena.size := (Array.getElem?_eq_some_iff.1 h.topNode).1
  refine h.addLeaf _ _ hc hm hst hafe ha ?_ (by intro d hd; cases hd)
  have := SShape.elem (a := addChild s.arena f.id (.element .html nm (plainAttrs pairs))) (hi := s.arena.size + 1)
    (kids := []) (addChild_new_get s.arena f.id _ hlt) rfl rfl (Nat.lt_succ_self _) (by intro c hc; cases hc) .nil
  exact this

def specVoid : List Str := specVoidA ++ specVoidB ++ [lit "hr"]

/-- a void element start tag (`hr`: no `p` element open) -/
theorem step_start_void {s fs f} (h : SInv .inBody s fs f) (nm : Str) (pairs : List (Str × Str))
    (hK : among nm specVoid = true) (hnp : nm = lit "hr" → NoneNamed fs f (lit "p")) :
    ∃ s', (processToken (.startTag nm pairs false)).run s = .ok ((), s') ∧
      SInv .inBody s' fs (f.withLeaf s.arena.size (voidTree nm pairs)) := by
  have hnt : (nm == lit "template") = false := beq_disjoint _ hK (by decide +kernel)
  have hsc : s.dev = {} := h.dev
  have hins := h.insertHtmlElement_run nm pairs hnt
  have hm : nm ∈ specVoidA ∨ nm ∈ specVoidB ∨ nm = lit "hr" := by
    have : nm ∈ specVoid := by simpa [among] using hK
    simpa [specVoid, or_assoc] using this
  rcases hm with hA | hB | hH
  · have hKA : among nm specVoidA = true := by simpa [among] using hA
    refine ⟨{ s with arena := addChild s.arena f.id (.element .html nm (plainAttrs pairs)), framesetOk := false },
      processToken_of_mode h _ (fun r => ?_), h.addVoid nm pairs ⟨rfl, rfl, rfl, rfl, rfl, rfl, rfl⟩ h.mode rfl rfl rfl⟩
    show (bodyStartTag r (.startTag nm pairs false) nm pairs false).run s = _
    unfold bodyStartTag
    simp (disch := decide +kernel) only [hsc, run_bind, get_run, ok_bind, among_disjoint hKA, among_sub hKA,
      beq_disjoint _ hKA, Bool.false_eq_true, ↓reduceIte, Bool.or_false, Bool.false_and, Bool.and_false, Bool.false_or,
      Bool.not_false, Bool.and_true, h.reconstruct, hins, run_pure, pop_run, List.tail_cons]
    rfl
  · have hKB : among nm specVoidB = true := by simpa [among] using hB
    refine ⟨{ s with arena := addChild s.arena f.id (.element .html nm (plainAttrs pairs)) },
      processToken_of_mode h _ (fun r => ?_), h.addVoid nm pairs ⟨rfl, rfl, rfl, rfl, rfl, rfl, rfl⟩ h.mode rfl rfl rfl⟩
    show (bodyStartTag r (.startTag nm pairs false) nm pairs false).run s = _
    unfold bodyStartTag
    simp (disch := decide +kernel) only [hsc, run_bind, get_run, ok_bind, among_disjoint hKB, among_sub hKB,
      beq_disjoint _ hKB, Bool.false_eq_true, ↓reduceIte, Bool.or_false, Bool.false_and, Bool.and_false, Bool.false_or,
      Bool.not_false, Bool.and_true, hins, run_pure, pop_run, List.tail_cons]
  · subst hH
    have hKH : among (lit "hr") [lit "hr"] = true := among_singleton _
    refine ⟨{ s with arena := addChild s.arena f.id (.element .html (lit "hr") (plainAttrs pairs)), framesetOk := false },
      processToken_of_mode h _ (fun r => ?_), h.addVoid _ pairs ⟨rfl, rfl, rfl, rfl, rfl, rfl, rfl⟩ h.mode rfl rfl rfl⟩
    show (bodyStartTag r (.startTag (lit "hr") pairs false) (lit "hr") pairs false).run s = _
    unfold bodyStartTag
    simp (disch := decide +kernel) only [hsc, run_bind, get_run, ok_bind, among_disjoint hKH, beq_disjoint _ hKH,
      beq_self_eq_true, Bool.false_eq_true, ↓reduceIte, Bool.or_false, Bool.false_and, Bool.and_false, Bool.false_or,
      Bool.not_false, Bool.and_true, h.closePIfInButtonScope_run (hnp rfl), hins, run_pure, pop_run, List.tail_cons]
    rfl

end H5.Props.C01b
