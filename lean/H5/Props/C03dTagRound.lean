/-
  C03d — "other" start tags: through the dispatcher, and `reprocess_total_partial` for non-tag tokens and "other"
  start tags.
-/
import H5.Props.C03dTag
set_option linter.unusedSimpArgs false
set_option linter.unusedVariables false
namespace H5.Props.C03d
open H5 H5.Model H5.Model.TB H5.Model.Dom
open H5.Props.C02c (NF Post Post_bind Post_mono Post_pure Post_ok Post_error Post_throw Post_ite
  NF_typeError NF_keyError NF_indexError NF_assertFail NF_valueError NF_lookupError)
open H5.Props.C03b H5.Props.C03c

set_option maxHeartbeats 8000000 in
theorem plainS_rank {r : Rec} [hrn : RecRN r] {n : Nat} (hr : RecInv r n) (hn : 0 < n) (q : String) (hq : q ∈ plainS)
    (tok : Token) (ho : otherS tok = true) (st : PState) (hi : C03c.Inv st)
    (hreg : q = "InTableTextPhase.processStartTag" → st.phase = some .inTableText) :
    RetLe (runProcessPlain r q tok) st (retBoundS q) := by
  haveI h1 : RN (InForeignContent_processStartTag tok) := RN_InForeignContent_processStartTag_other tok ho
  delta runProcessPlain
  delta runProcessPlain.match_1
  repeat (refine RetLe_dite _ _ _ _ (fun heq => ?_) (fun _ => ?_); (· subst heq; dsimp only [Eq.ndrec_symm]; rks_close))
  exact RetLe_none _ _ _

/-- all keys of the start tag tables are in `keysS` -/
theorem keysS_items : ∀ ph ∈ Phase.all, ∀ it ∈ itemsOf Gen.startTagHandlers ph, keysS.contains it.1 = true := by
  decide +kernel

theorem dflt_of_other {ph : Phase} {nm : Str} {h : String}
    (hl : lookupHandler Gen.startTagHandlers "startTagHandler" ph nm = .ok h) (hk : keysS.contains nm = false) :
    dfltOf Gen.startTagHandlers ph = some h := by
  rcases lookup_item hl with hi | ⟨hd, _⟩
  · have := keysS_items ph (Phase.mem_all ph) (nm, h) hi
    rw [hk] at this; cases this
  · exact hd

/-- `Phase.processStartTag` for an "other" start tag: the default handler of the phase -/
theorem phaseS_rank {r : Rec} [hrn : RecRN r] [hrs : RecRNS r] (p : Phase) (tok : Token) (ho : otherS tok = true)
    (st : PState) (hd : ∀ h, dfltOf Gen.startTagHandlers p = some h → h ∈ dfltS) :
    RetLe (Phase_processStartTag r p tok) st
      (match dfltOf Gen.startTagHandlers p with | some h => retBoundS h | none => none) := by
  unfold Phase_processStartTag
  refine RetLe_liftE_bind _ _ _ _ ?_
  intro d hdt
  refine RetLe_liftE_bind _ _ _ _ ?_
  intro h hl
  have hdf := dflt_of_other hl (by rw [tag_name hdt]; exact otherS_name ho)
  rw [hdf]
  exact tagS_rank h (hd h hdf) tok ho st

theorem run_liftE_bind {α : Type} (x : Except PyErr α) (f : α → M (Option Token)) (st : PState) (R : PState → Prop)
    (h : ∀ a, x = .ok a → ∀ t st', (f a).run st = .ok (some t, st') → R st') :
    ∀ t st', (liftM x >>= f).run st = .ok (some t, st') → R st' := by
  cases x with
  | error e => intro t st' hrun; cases hrun
  | ok a => exact h a rfl

def rankOKS (p : Phase) : Bool :=
  match resolveMethod p "processStartTag" with
  | .ok q =>
    if q = "Phase.processStartTag" then
      (match dfltOf Gen.startTagHandlers p with
       | some h => dfltS.contains h && p != .inForeignContent &&
           (match retBoundS h with | some k => decide (k < psi (some p)) | none => true)
       | none => false)
    else q != "Phase.processEndTag" && q != "InBodyPhase.<slot>" && plainS.contains q &&
      (match retBoundS q with
       | some k => decide (k < psi (some p)) && p != .inForeignContent &&
           (q != "InTableTextPhase.processStartTag" || p == .inTableText)
       | none => true)
  | .error _ => true

theorem rankS_static : ∀ p ∈ Phase.all, rankOKS p = true := by decide +kernel

/-- `phases[p].processStartTag(token)` for an "other" start tag -/
theorem runProcessS_rank {r : Rec} [hrn : RecRN r] [hrs : RecRNS r] {n : Nat} (hr : RecInv r n) (hn : 0 < n) (p : Phase)
    (tok : Token) (ho : otherS tok = true) (st : PState) (hi : C03c.Inv st)
    (hreg : p = .inForeignContent ∨ st.phase = some p) :
    ∀ t st', (runProcess r p "processStartTag" tok).run st = .ok (some t, st') → psi st'.phase < psi st.phase := by
  have hs := rankS_static p (Phase.mem_all p)
  unfold rankOKS at hs
  unfold runProcess
  refine run_liftE_bind _ _ _ _ ?_
  intro q hq
  rw [hq] at hs
  dsimp only at hs
  split
  · -- the generic method
    rw [if_pos rfl] at hs
    cases hdf : dfltOf Gen.startTagHandlers p with
    | none => rw [hdf] at hs; cases hs
    | some h =>
      rw [hdf] at hs
      simp only [Bool.and_eq_true, List.contains_eq_mem, decide_eq_true_eq, bne_iff_ne, ne_eq] at hs
      obtain ⟨⟨hmem, hnf⟩, hb⟩ := hs
      have := phaseS_rank (r := r) p tok ho st (fun h' hh' => by rw [hdf] at hh'; cases hh'; exact hmem)
      rw [hdf] at this
      dsimp only at this
      intro t st' hrun
      obtain ⟨k, hk, hle⟩ := this t st' hrun
      rw [hk] at hb
      have hlt : k < psi (some p) := by simpa using hb
      have hph : st.phase = some p := by
        rcases hreg with h' | h'
        · exact absurd h' hnf
        · exact h'
      rw [hph]; omega
  · simp at hs
  · simp at hs
  · rename_i h1 h2 h3
    rw [if_neg h1] at hs
    simp only [Bool.and_eq_true, List.contains_eq_mem, decide_eq_true_eq, bne_iff_ne, ne_eq] at hs
    obtain ⟨⟨_, hmem⟩, hb⟩ := hs
    cases hbd : retBoundS q with
    | none =>
      have := plainS_rank hr hn q hmem tok ho st hi (fun he => by rw [he] at hbd; exact absurd hbd (by decide))
      rw [hbd] at this
      intro t st' hrun
      obtain ⟨k, hk, _⟩ := this t st' hrun
      cases hk
    | some k =>
      rw [hbd] at hb
      simp only [Bool.and_eq_true, decide_eq_true_eq, bne_iff_ne, ne_eq, Bool.or_eq_true, beq_iff_eq] at hb
      obtain ⟨⟨hlt, hnf⟩, hitt⟩ := hb
      have hph : st.phase = some p := by
        rcases hreg with h' | h'
        · exact absurd h' hnf
        · exact h'
      have := plainS_rank hr hn q hmem tok ho st hi (fun he => by
        rcases hitt with h' | h'
        · exact absurd he h'
        · rw [hph, h'])
      rw [hbd] at this
      intro t st' hrun
      obtain ⟨k', hk', hle⟩ := this t st' hrun
      cases hk'
      rw [hph]; omega

end H5.Props.C03d
