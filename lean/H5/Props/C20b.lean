/-
  Property C20 (part b) — XML-name coercion is reversible: `fromXmlName (toXmlName name) = name` for BMP names that
  do not already contain something that looks like an escape (`U` + five digits), hence `toXmlName` is injective there.
  Python: `_ihatexml.py` `InfosetFilter.toXmlName` / `fromXmlName` / `escapeChar` / `unescapeChar`.
-/
import H5.Props.C20
import H5.Proofs.ExceptLemmas
namespace H5.Props.C20b
open H5 H5.Gen H5.Model.Infoset H5.Props.C20

/-! ### (a) `unescapeChar (escapeChar c) = c` -/

/-- value of an upper-case hex digit character -/
def hv (d : Nat) : Nat := if d ≤ 57 then d - 48 else d - 55

theorem hv_hexDigitCharU (m : Nat) (h : m < 16) : hv (hexDigitCharU m) = m := by
  unfold hv hexDigitCharU; split <;> split <;> omega

theorem digitClass_head : ∃ tl, escapeDigitClass = (48, 57) :: tl := ⟨_, rfl⟩

theorem unicodeDigitValue_hex (d : Nat) (h : isHexU d) : unicodeDigitValue d = some (hv d) := by
  obtain ⟨tl, e⟩ := digitClass_head
  unfold unicodeDigitValue hv
  unfold isHexU at h
  by_cases h1 : 65 ≤ d ∧ d ≤ 70
  · have : ¬ d ≤ 57 := by omega
    simp [h1, this]
  · have h2 : 48 ≤ d ∧ d ≤ 57 := by omega
    rw [e]
    simp only [h1, if_false, List.find?_cons]
    simp [h2]
    omega

def decode (a : Nat) (l : Str) : Nat := l.foldl (fun a d => a * 16 + hv d) a

theorem decode_toHexAux (fuel : Nat) : ∀ (n : Nat) (acc : Str), n < fuel →
    decode 0 (toHexAux hexDigitCharU fuel n acc) = decode n acc := by
  induction fuel with
  | zero => intro n acc h; omega
  | succ k ih =>
    intro n acc h
    simp only [toHexAux]
    split
    · rename_i h16
      simp [decode, hv_hexDigitCharU n h16]
    · rename_i h16
      rw [ih (n / 16) _ (by omega)]
      have : n / 16 * 16 + n % 16 = n := by omega
      simp [decode, hv_hexDigitCharU (n % 16) (Nat.mod_lt _ (by omega)), this]

theorem decode_zeros (k : Nat) (l : Str) : decode 0 (List.replicate k 48 ++ l) = decode 0 l := by
  induction k with
  | zero => rfl
  | succ k ih =>
    simp only [List.replicate_succ, List.cons_append, decode, List.foldl_cons] at ih ⊢
    simpa [hv] using ih

theorem mapM_some (g : Nat → Option Nat) (v : Nat → Nat) (l : Str) (h : ∀ d ∈ l, g d = some (v d)) :
    l.mapM g = some (l.map v) := by
  induction l with
  | nil => rfl
  | cons a r ih =>
    rw [List.mapM_cons, h a (by simp), ih (fun d hd => h d (by simp [hd]))]
    rfl

theorem escape_digits_hex (c : Nat) : ∀ d ∈ padZero 5 (toHexUpper c), isHexU d := by
  obtain ⟨ds, e, hds⟩ := escapeChar_shape c
  simp only [escapeChar, List.cons.injEq, true_and] at e
  rw [e]; exact hds

/-- `chr(int(("U%05X" % c)[1:], 16)) == c`, for every code point (also when more than five digits are needed) -/
theorem unescape_escape_any (c : Nat) : unescapeChar (escapeChar c) = .ok [c] := by
  unfold unescapeChar escapeChar
  simp only [List.drop_succ_cons, List.drop_zero]
  rw [mapM_some unicodeDigitValue hv _ (fun d hd => unicodeDigitValue_hex d (escape_digits_hex c d hd))]
  simp only [List.foldl_map]
  have h1 : decode 0 (padZero 5 (toHexUpper c)) = c := by
    rw [padZero, decode_zeros, toHexUpper, decode_toHexAux _ _ _ (by omega)]
    rfl
  unfold decode at h1
  rw [h1]

/-- (a) as stated: five hex digits suffice up to U+FFFFF -/
theorem unescape_escape (c : Nat) (_h : c ≤ 0xFFFFF) : unescapeChar (escapeChar c) = .ok [c] :=
  unescape_escape_any c

theorem escapeChar_inj (c x : Nat) (h : escapeChar c = escapeChar x) : c = x := by
  have h1 := unescape_escape_any c
  rw [h, unescape_escape_any x] at h1
  simpa using h1.symm

theorem toHexAux_length (fuel : Nat) : ∀ (k n : Nat) (acc : Str), 1 ≤ k → n < 16 ^ k →
    (toHexAux hexDigitCharU fuel n acc).length ≤ acc.length + k := by
  induction fuel with
  | zero => intro k n acc _ _; simp [toHexAux]
  | succ f ih =>
    intro k n acc hk hn
    simp only [toHexAux]
    split
    · simp; omega
    · rename_i h16
      cases k with
      | zero => omega
      | succ k =>
        cases k with
        | zero => simp at hn; omega
        | succ k =>
          have hlt : n / 16 < 16 ^ (k + 1) := by
            apply Nat.div_lt_of_lt_mul
            rw [Nat.pow_succ] at hn
            omega
          have := ih (k + 1) (n / 16) (hexDigitCharU (n % 16) :: acc) (by omega) hlt
          simp at this ⊢
          omega

/-- shape of an escape of a code point ≤ U+FFFFF: `U` and exactly five upper-case hex digits -/
theorem escapeChar_shape5 (c : Nat) (h : c ≤ 0xFFFFF) :
    ∃ ds, escapeChar c = 85 :: ds ∧ ds.length = 5 ∧ ∀ d ∈ ds, isHexU d := by
  refine ⟨padZero 5 (toHexUpper c), rfl, ?_, escape_digits_hex c⟩
  have := toHexAux_length (c + 1) 5 c [] (by omega) (by simp; omega)
  simp only [padZero, List.length_append, List.length_replicate, toHexUpper]
  simp at this
  omega

/-! ### fuel-free equations of `str.replace` and `re.findall` -/

theorem go_fuel (old new : Str) : ∀ (f1 f2 : Nat) (s : Str), s.length ≤ f1 → s.length ≤ f2 →
    Str.replaceSub.go old new s f1 = Str.replaceSub.go old new s f2 := by
  intro f1
  induction f1 with
  | zero =>
    intro f2 s h1 _
    have : s = [] := by cases s <;> simp_all
    subst this
    cases f2 <;> simp [Str.replaceSub.go]
  | succ k ih =>
    intro f2 s h1 h2
    cases s with
    | nil => cases f2 <;> simp [Str.replaceSub.go]
    | cons c r =>
      cases f2 with
      | zero => simp at h2
      | succ m =>
        simp only [Str.replaceSub.go]
        simp only [List.length_cons] at h1 h2
        split
        · rename_i hp
          have hl : 1 ≤ old.length := by
            cases old with
            | nil => exact absurd rfl hp.1
            | cons _ _ => simp
          rw [ih m _ (by simp; omega) (by simp; omega)]
        · rw [ih m r (by omega) (by omega)]

theorem replaceSub_nil (old new : Str) : Str.replaceSub [] old new = [] := by
  simp [Str.replaceSub, Str.replaceSub.go]

theorem replaceSub_cons_prefix (old new : Str) (c : Nat) (r : Str) (h1 : old ≠ [])
    (h2 : old <+: c :: r) :
    Str.replaceSub (c :: r) old new = new ++ Str.replaceSub ((c :: r).drop old.length) old new := by
  have hl : 1 ≤ old.length := by
    cases old with
    | nil => exact absurd rfl h1
    | cons _ _ => simp
  have hp : old.isPrefixOf (c :: r) = true := List.isPrefixOf_iff_prefix.mpr h2
  simp only [Str.replaceSub, List.length_cons, Str.replaceSub.go, h1, hp, ne_eq, not_false_eq_true, and_self, if_true]
  rw [go_fuel old new r.length ((c :: r).drop old.length).length _ (by simp; omega) (Nat.le_refl _)]

theorem replaceSub_cons_noprefix (old new : Str) (c : Nat) (r : Str) (h : ¬ old <+: c :: r) :
    Str.replaceSub (c :: r) old new = c :: Str.replaceSub r old new := by
  have hp : ¬ old.isPrefixOf (c :: r) = true := fun e => h (List.isPrefixOf_iff_prefix.mp e)
  simp [Str.replaceSub, Str.replaceSub.go, hp]

theorem findEscapes_fuel : ∀ (f1 f2 : Nat) (s : Str), s.length ≤ f1 → s.length ≤ f2 →
    findEscapes f1 s = findEscapes f2 s := by
  intro f1
  induction f1 with
  | zero =>
    intro f2 s h1 _
    have : s = [] := by cases s <;> simp_all
    subst this
    cases f2 <;> simp [findEscapes]
  | succ k ih =>
    intro f2 s h1 h2
    cases s with
    | nil => cases f2 <;> simp [findEscapes]
    | cons c r =>
      cases f2 with
      | zero => simp at h2
      | succ m =>
        simp only [findEscapes]
        simp only [List.length_cons] at h1 h2
        split
        · rw [ih m _ (by simp; omega) (by simp; omega)]
        · rw [ih m r (by omega) (by omega)]

/-- `replacementRegexp.findall(s)` -/
def fe (s : Str) : List Str := findEscapes (s.length + 1) s

theorem fe_nil : fe [] = [] := rfl

theorem fe_cons (c : Nat) (r : Str) : fe (c :: r) =
    if c = 85 ∧ 5 ≤ r.length ∧ (r.take 5).all isEscDigit = true then (c :: r.take 5) :: fe (r.drop 5) else fe r := by
  simp only [fe, findEscapes, List.length_cons]
  split
  · rw [findEscapes_fuel (r.length + 1) ((r.drop 5).length + 1) _ (by simp; omega) (by omega)]
  · rfl

/-! ### the hypothesis: the name contains nothing that looks like an escape -/

/-- no position of the name starts with `U` followed by five characters of the regexp's digit class -/
def noEsc : Str → Bool
  | [] => true
  | c :: r => !(c == 85 && decide (5 ≤ r.length) && (r.take 5).all isEscDigit) && noEsc r

def NoEscapePattern (name : Str) : Prop := noEsc name = true

instance (name : Str) : Decidable (NoEscapePattern name) := by unfold NoEscapePattern; infer_instance

theorem noEsc_cons (c : Nat) (r : Str) : noEsc (c :: r) = true ↔
    ¬ (c = 85 ∧ 5 ≤ r.length ∧ (r.take 5).all isEscDigit = true) ∧ noEsc r = true := by
  by_cases h1 : c = 85 <;> by_cases h2 : 5 ≤ r.length <;> by_cases h3 : (r.take 5).all isEscDigit = true <;>
    simp [noEsc, h1, h2, h3]

/-- `NoEscapePattern` says exactly that `findall` finds nothing in any suffix of the name -/
theorem noEscape_iff (name : Str) : NoEscapePattern name ↔ ∀ i, fe (name.drop i) = [] := by
  unfold NoEscapePattern
  induction name with
  | nil => simp [noEsc, fe_nil]
  | cons c r ih =>
    rw [noEsc_cons, ih]
    constructor
    · rintro ⟨h1, h2⟩ i
      cases i with
      | zero => simp only [List.drop_zero, fe_cons, h1, if_false]; simpa using h2 0
      | succ i => simpa using h2 i
    · intro h
      refine ⟨?_, fun i => by simpa using h (i + 1)⟩
      intro hc
      have := h 0
      simp [fe_cons, hc] at this

/-! ### pieces: the coerced name, and every intermediate string of `fromXmlName`, as a list of pieces -/

/-- one character of the original name: never escaped / escaped and still a block / escaped and already unescaped -/
inductive Pc where
  | plain (c : Nat)
  | blk (c : Nat)
  | un (c : Nat)
  deriving DecidableEq

def Pc.orig : Pc → Nat
  | .plain c => c
  | .blk c => c
  | .un c => c

def Pc.rnd : Pc → Str
  | .plain c => [c]
  | .blk c => escapeChar c
  | .un c => [c]

/-- the escaped character of a piece -/
def Pc.esc? : Pc → Option Nat
  | .plain _ => none
  | .blk c => some c
  | .un c => some c

def render (pcs : List Pc) : Str := pcs.flatMap Pc.rnd

/-- effect of `name.replace(escapeChar x, x)` on a piece -/
def step (x : Nat) : Pc → Pc
  | .blk c => if c = x then .un c else .blk c
  | p => p

/-- characters of the pieces that are still blocks -/
def blks : List Pc → List Nat
  | [] => []
  | .blk c :: t => c :: blks t
  | _ :: t => blks t

theorem step_orig (x : Nat) (p : Pc) : (step x p).orig = p.orig := by
  cases p with
  | blk c => by_cases h : c = x <;> simp [step, Pc.orig, h]
  | plain c => rfl
  | un c => rfl

theorem step_esc (x : Nat) (p : Pc) : (step x p).esc? = p.esc? := by
  cases p with
  | blk c => by_cases h : c = x <;> simp [step, Pc.esc?, h]
  | plain c => rfl
  | un c => rfl

theorem map_step_orig (x : Nat) (pcs : List Pc) : (pcs.map (step x)).map Pc.orig = pcs.map Pc.orig := by
  simp [List.map_map, Function.comp_def, step_orig]

theorem blks_step (x : Nat) (pcs : List Pc) : blks (pcs.map (step x)) = (blks pcs).filter (· ≠ x) := by
  induction pcs with
  | nil => rfl
  | cons p t ih =>
    cases p with
    | plain c => simpa [step, blks] using ih
    | un c => simpa [step, blks] using ih
    | blk c =>
      by_cases h : c = x
      · simp [step, blks, h, ih]
      · simp [step, blks, h, ih]

theorem render_no_blks (pcs : List Pc) (h : blks pcs = []) : render pcs = pcs.map Pc.orig := by
  induction pcs with
  | nil => rfl
  | cons p t ih =>
    cases p with
    | plain c => simp only [blks] at h; simp [render, Pc.rnd, Pc.orig] at ih ⊢; exact ih h
    | un c => simp only [blks] at h; simp [render, Pc.rnd, Pc.orig] at ih ⊢; exact ih h
    | blk c => simp [blks] at h

/-- every escaped character is not `U` and needs at most five hex digits -/
def EscOK (pcs : List Pc) : Prop := ∀ p ∈ pcs, ∀ y, p.esc? = some y → y ≠ 85 ∧ y ≤ 0xFFFFF

/-- every escaped character is not an upper-case hex digit -/
def NonHex (pcs : List Pc) : Prop := ∀ p ∈ pcs, ∀ y, p.esc? = some y → ¬ isHexU y

theorem EscOK_step (x : Nat) (pcs : List Pc) (h : EscOK pcs) : EscOK (pcs.map (step x)) := by
  intro p hp y hy
  obtain ⟨q, hq, rfl⟩ := List.mem_map.mp hp
  rw [step_esc] at hy
  exact h q hq y hy

theorem NonHex_step (x : Nat) (pcs : List Pc) (h : NonHex pcs) : NonHex (pcs.map (step x)) := by
  intro p hp y hy
  obtain ⟨q, hq, rfl⟩ := List.mem_map.mp hp
  rw [step_esc] at hy
  exact h q hq y hy

def hexB (d : Nat) : Bool := (decide (48 ≤ d) && decide (d ≤ 57)) || (decide (65 ≤ d) && decide (d ≤ 70))

theorem hexB_iff (d : Nat) : hexB d = true ↔ isHexU d := by simp [hexB, isHexU]

theorem hex_isEscDigit (d : Nat) (h : isHexU d) : isEscDigit d = true := by
  have hm : d ∈ [48, 49, 50, 51, 52, 53, 54, 55, 56, 57, 65, 66, 67, 68, 69, 70] := by
    simp only [List.mem_cons, List.not_mem_nil, or_false]
    unfold isHexU at h; omega
  have key : ∀ d ∈ [48, 49, 50, 51, 52, 53, 54, 55, 56, 57, 65, 66, 67, 68, 69, 70], isEscDigit d = true := by
    decide +kernel
  exact key d hm

theorem U_not_digit : isEscDigit 85 = false := by decide +kernel
theorem U_not_hex : ¬ isHexU 85 := by unfold isHexU; omega
theorem U_legal_first : illegalFirst 85 = false := by decide +kernel

/-- a run of digits that is a prefix of the rendered string is a prefix of the original name: a block starts with
`U`, and an unescaped character is no digit -/
theorem digit_run (dig : Nat → Bool) (hU : dig 85 = false) : ∀ (es : Str) (tail : List Pc),
    (∀ p ∈ tail, ∀ y, p = .un y → dig y = false) → (∀ d ∈ es, dig d = true) → es <+: render tail →
    es <+: tail.map Pc.orig := by
  intro es
  induction es with
  | nil => intro tail _ _ _; exact List.nil_prefix
  | cons e es ih =>
    intro tail hun hes hpre
    have he : dig e = true := hes e (by simp)
    cases tail with
    | nil => simp [render] at hpre
    | cons p t =>
      have hun2 : ∀ p ∈ t, ∀ y, p = .un y → dig y = false := fun q hq => hun q (by simp [hq])
      have hes2 : ∀ d ∈ es, dig d = true := fun d hd => hes d (by simp [hd])
      cases p with
      | plain c =>
        simp only [render, List.flatMap_cons, Pc.rnd, List.cons_append, List.nil_append,
          List.cons_prefix_cons] at hpre
        simp only [List.map_cons, Pc.orig, List.cons_prefix_cons]
        exact ⟨hpre.1, ih t hun2 hes2 hpre.2⟩
      | un c =>
        simp only [render, List.flatMap_cons, Pc.rnd, List.cons_append, List.nil_append,
          List.cons_prefix_cons] at hpre
        have := hun (.un c) (by simp) c rfl
        rw [← hpre.1, he] at this
        exact absurd this (by simp)
      | blk c =>
        simp only [render, List.flatMap_cons, Pc.rnd, escapeChar, List.cons_append,
          List.cons_prefix_cons] at hpre
        rw [hpre.1, hU] at he
        exact absurd he (by simp)

theorem run_in_name (es l : Str) (hp : es <+: l) (hl : es.length = 5) (hd : ∀ d ∈ es, isEscDigit d = true) :
    5 ≤ l.length ∧ (l.take 5).all isEscDigit = true := by
  have h1 := hp.length_le
  have h2 := List.prefix_iff_eq_take.mp hp
  rw [hl] at h2
  refine ⟨by omega, ?_⟩
  rw [← h2]
  exact List.all_eq_true.mpr hd

theorem replace_noU (es new : Str) : ∀ (ds R : Str), (∀ d ∈ ds, d ≠ 85) →
    Str.replaceSub (ds ++ R) (85 :: es) new = ds ++ Str.replaceSub R (85 :: es) new := by
  intro ds
  induction ds with
  | nil => intro R _; rfl
  | cons d ds ih =>
    intro R h
    have hd : d ≠ 85 := h d (by simp)
    rw [List.cons_append, replaceSub_cons_noprefix, ih R (fun x hx => h x (by simp [hx]))]
    · rfl
    · intro hp
      exact hd (List.cons_prefix_cons.mp hp).1.symm

/-- one iteration of the loop of `fromXmlName`: replacing the item `escapeChar x` by `x` turns exactly the blocks of
`x` into `x` (no other occurrence exists, none is created or destroyed) -/
theorem replace_step (x : Nat) (hx : x ≤ 0xFFFFF) : ∀ pcs : List Pc, EscOK pcs → NonHex pcs.tail →
    noEsc (pcs.map Pc.orig) = true →
    Str.replaceSub (render pcs) (escapeChar x) [x] = render (pcs.map (step x)) := by
  obtain ⟨es, hes, hlen, hhex⟩ := escapeChar_shape5 x hx
  intro pcs
  induction pcs with
  | nil => intro _ _ _; exact replaceSub_nil _ _
  | cons p t ih =>
    intro hok hnh hne
    simp only [List.tail_cons] at hnh
    simp only [List.map_cons] at hne
    rw [noEsc_cons] at hne
    have ih2 := ih (fun q hq => hok q (by simp [hq])) (fun q hq => hnh q (List.mem_of_mem_tail hq)) hne.2
    have hplain : ∀ c, c = p.orig → ¬ (85 :: es) <+: c :: render t ∨ p.esc? ≠ none := by
      intro c hc
      by_cases hpe : p.esc? = none
      · left
        intro hpre
        obtain ⟨h85, hrun⟩ := List.cons_prefix_cons.mp hpre
        have hrun2 := digit_run hexB (by decide) es t
          (by
            intro q hq y hy
            have := hnh q hq y (by rw [hy]; rfl)
            cases hb : hexB y with
            | false => rfl
            | true => exact absurd ((hexB_iff y).mp hb) this)
          (fun d hd => (hexB_iff d).mpr (hhex d hd)) hrun
        have := run_in_name es _ hrun2 hlen (fun d hd => hex_isEscDigit d (hhex d hd))
        exact hne.1 ⟨by rw [← hc, ← h85], this⟩
      · right; exact hpe
    cases p with
    | plain c =>
      have hnp : ¬ (85 :: es) <+: c :: render t := by
        rcases hplain c rfl with h | h
        · exact h
        · exact absurd rfl h
      have e1 : render (Pc.plain c :: t) = c :: render t := rfl
      have e2 : render ((Pc.plain c :: t).map (step x)) = c :: render (t.map (step x)) := rfl
      rw [e1, e2, hes, replaceSub_cons_noprefix _ _ _ _ hnp, ← hes, ih2]
    | un c =>
      have hc : c ≠ 85 := (hok (.un c) (by simp) c rfl).1
      have hnp : ¬ (85 :: es) <+: c :: render t := by
        intro hpre
        exact hc (List.cons_prefix_cons.mp hpre).1.symm
      have e1 : render (Pc.un c :: t) = c :: render t := rfl
      have e2 : render ((Pc.un c :: t).map (step x)) = c :: render (t.map (step x)) := rfl
      rw [e1, e2, hes, replaceSub_cons_noprefix _ _ _ _ hnp, ← hes, ih2]
    | blk c =>
      have hc := (hok (.blk c) (by simp) c rfl).2
      obtain ⟨ds, hds, hdl, hdh⟩ := escapeChar_shape5 c hc
      have e1 : render (Pc.blk c :: t) = 85 :: (ds ++ render t) := by
        show escapeChar c ++ render t = _
        rw [hds]; rfl
      by_cases hcx : c = x
      · subst hcx
        have hdes : ds = es := by
          rw [hds] at hes
          simpa using hes
        subst hdes
        have e2 : render ((Pc.blk c :: t).map (step c)) = c :: render (t.map (step c)) := by
          simp [render, step, Pc.rnd]
        rw [e1, e2, hes, replaceSub_cons_prefix _ _ _ _ (by simp)
          (by rw [← List.cons_append]; exact List.prefix_append _ _)]
        have : List.drop (85 :: ds).length (85 :: (ds ++ render t)) = render t := by
          rw [← List.cons_append]; exact List.drop_left
        rw [this, ← hes, ih2]
        rfl
      · have e2 : render ((Pc.blk c :: t).map (step x)) = 85 :: (ds ++ render (t.map (step x))) := by
          simp only [List.map_cons, step, hcx, if_false]
          show escapeChar c ++ render _ = _
          rw [hds]; rfl
        have hnp : ¬ (85 :: es) <+: 85 :: (ds ++ render t) := by
          intro hpre
          obtain ⟨_, tl, htl⟩ := List.cons_prefix_cons.mp hpre
          have : es = ds := List.append_inj_left htl (by omega)
          apply hcx
          apply escapeChar_inj
          rw [hes, hds, this]
        rw [e1, e2, hes, replaceSub_cons_noprefix _ _ _ _ hnp,
          replace_noU es [x] ds (render t) (fun d hd => by
            have := hdh d hd
            unfold isHexU at this; omega), ← hes, ih2]

theorem mem_blks (pcs : List Pc) (c : Nat) : c ∈ blks pcs ↔ Pc.blk c ∈ pcs := by
  induction pcs with
  | nil => simp [blks]
  | cons p t ih => cases p <;> simp [blks, ih]

/-- the matches `findall` finds in a freshly coerced name are exactly the inserted blocks, in order -/
theorem fe_render : ∀ pcs : List Pc, (∀ p ∈ pcs, ∀ y, p ≠ .un y) → EscOK pcs → noEsc (pcs.map Pc.orig) = true →
    fe (render pcs) = (blks pcs).map escapeChar := by
  intro pcs
  induction pcs with
  | nil => intro _ _ _; rfl
  | cons p t ih =>
    intro hun hok hne
    simp only [List.map_cons] at hne
    rw [noEsc_cons] at hne
    have ih2 := ih (fun q hq => hun q (by simp [hq])) (fun q hq => hok q (by simp [hq])) hne.2
    cases p with
    | un c => exact absurd rfl (hun (.un c) (by simp) c)
    | plain c =>
      have e1 : render (Pc.plain c :: t) = c :: render t := rfl
      rw [e1, fe_cons]
      have hcond : ¬ (c = 85 ∧ 5 ≤ (render t).length ∧ ((render t).take 5).all isEscDigit = true) := by
        rintro ⟨h85, h5, hall⟩
        have hrun := digit_run isEscDigit U_not_digit ((render t).take 5) t
          (fun q hq y hy => absurd hy (hun q (by simp [hq]) y))
          (fun d hd => List.all_eq_true.mp hall d hd) (List.take_prefix _ _)
        have := run_in_name _ _ hrun (by simp; omega) (fun d hd => List.all_eq_true.mp hall d hd)
        exact hne.1 ⟨h85, this⟩
      simp only [hcond, if_false, blks]
      exact ih2
    | blk c =>
      have hc := (hok (.blk c) (by simp) c rfl).2
      obtain ⟨ds, hds, hdl, hdh⟩ := escapeChar_shape5 c hc
      have e1 : render (Pc.blk c :: t) = 85 :: (ds ++ render t) := by
        show escapeChar c ++ render t = _
        rw [hds]; rfl
      rw [e1, fe_cons, List.take_left' hdl, List.drop_left' hdl]
      have hall : ds.all isEscDigit = true := List.all_eq_true.mpr (fun d hd => hex_isEscDigit d (hdh d hd))
      have h5 : 5 ≤ (ds ++ render t).length := by simp; omega
      simp only [hall, h5, and_self, if_true, blks, List.map_cons, ih2, hds]

theorem mem_distinctStrs (l : List Str) (s : Str) : s ∈ distinctStrs l ↔ s ∈ l := by
  induction l with
  | nil => simp [distinctStrs]
  | cons a r ih =>
    simp only [distinctStrs, List.mem_cons, List.mem_filter, ih]
    by_cases h : s = a <;> simp [h]

/-- the whole loop of `fromXmlName` over a list of items that are escapes -/
theorem fold_items : ∀ (items : List Str) (pcs : List Pc),
    (∀ it ∈ items, ∃ x, x ≤ 0xFFFFF ∧ it = escapeChar x) →
    EscOK pcs → NonHex pcs.tail → noEsc (pcs.map Pc.orig) = true →
    ∃ pcs2, items.foldlM (fun acc item => do let ch ← unescapeChar item; pure (acc.replaceSub item ch)) (render pcs)
        = .ok (render pcs2) ∧
      pcs2.map Pc.orig = pcs.map Pc.orig ∧ ∀ c ∈ blks pcs2, c ∈ blks pcs ∧ escapeChar c ∉ items := by
  intro items
  induction items with
  | nil =>
    intro pcs _ _ _ _
    exact ⟨pcs, rfl, rfl, fun c hc => ⟨hc, by simp⟩⟩
  | cons it items ih =>
    intro pcs hit hok hnh hne
    obtain ⟨x, hx, rfl⟩ := hit it (by simp)
    have hnh2 : NonHex (pcs.map (step x)).tail := by
      rw [← List.map_tail]; exact NonHex_step x _ hnh
    obtain ⟨pcs2, h1, h2, h3⟩ := ih (pcs.map (step x)) (fun i hi => hit i (by simp [hi]))
      (EscOK_step x pcs hok) hnh2 (by rw [map_step_orig]; exact hne)
    refine ⟨pcs2, ?_, by rw [h2, map_step_orig], ?_⟩
    · rw [List.foldlM_cons, unescape_escape_any]
      simp only [ok_bind, pure_eq_ok]
      rw [replace_step x hx pcs hok hnh hne]
      exact h1
    · intro c hc
      obtain ⟨hc1, hc2⟩ := h3 c hc
      rw [blks_step] at hc1
      simp only [List.mem_filter, decide_eq_true_eq] at hc1
      refine ⟨hc1.1, ?_⟩
      simp only [List.mem_cons, not_or]
      exact ⟨fun e => hc1.2 (escapeChar_inj _ _ e), hc2⟩

/-- the pieces of `toXmlName (f :: rest)` -/
def pieces0 (f : Nat) (rest : Str) : List Pc :=
  (if illegalFirst f then .blk f else .plain f) :: rest.map (fun c => if illegalRest c then .blk c else .plain c)

theorem render_pieces0 (f : Nat) (rest : Str) :
    render (pieces0 f rest) = (if illegalFirst f then escapeChar f else [f]) ++ rest.flatMap escMap := by
  simp only [render, pieces0, List.flatMap_cons, List.flatMap_map]
  congr 1
  · split <;> rfl
  · apply flatMap_congr2
    intro c _
    unfold escMap
    split <;> rfl

theorem orig_pieces0 (f : Nat) (rest : Str) : (pieces0 f rest).map Pc.orig = f :: rest := by
  simp only [pieces0, List.map_cons, List.map_map]
  congr 1
  · split <;> rfl
  · have : (Pc.orig ∘ fun c => if illegalRest c = true then Pc.blk c else Pc.plain c) = id := by
      funext c; simp only [Function.comp]; split <;> rfl
    rw [this, List.map_id]

/-- **C20 (inverse).** for a BMP name that contains no escape-like pattern, `fromXmlName` undoes `toXmlName`. -/
theorem C20_inverse (name out : Str) (hbmp : ∀ c ∈ name, c ≤ 65535) (hne : NoEscapePattern name)
    (h : toXmlName name = .ok out) : fromXmlName out = .ok name := by
  cases name with
  | nil => simp [toXmlName] at h
  | cons f rest =>
    rw [toXmlName_spec, ← render_pieces0] at h
    injection h with h
    subst h
    have horig := orig_pieces0 f rest
    have hnoun : ∀ p ∈ pieces0 f rest, ∀ y, p ≠ .un y := by
      intro p hp y
      simp only [pieces0, List.mem_cons, List.mem_map] at hp
      rcases hp with rfl | ⟨c, _, rfl⟩ <;> split <;> simp
    have hok : EscOK (pieces0 f rest) := by
      intro p hp y hy
      simp only [pieces0, List.mem_cons, List.mem_map] at hp
      rcases hp with rfl | ⟨c, hc, rfl⟩
      · split at hy
        · rename_i hi
          simp only [Pc.esc?, Option.some.injEq] at hy
          subst hy
          refine ⟨?_, ?_⟩
          · intro e; rw [e, U_legal_first] at hi; exact absurd hi (by simp)
          · have := hbmp f (by simp); omega
        · simp [Pc.esc?] at hy
      · split at hy
        · rename_i hi
          simp only [Pc.esc?, Option.some.injEq] at hy
          subst hy
          refine ⟨?_, ?_⟩
          · intro e
            rw [e, (escape_chars_ok 85 (Or.inl rfl)).2.1] at hi
            exact absurd hi (by simp)
          · have := hbmp c (by simp [hc]); omega
        · simp [Pc.esc?] at hy
    have hnh : NonHex (pieces0 f rest).tail := by
      intro p hp y hy
      simp only [pieces0, List.tail_cons, List.mem_map] at hp
      obtain ⟨c, _, rfl⟩ := hp
      split at hy
      · rename_i hi
        simp only [Pc.esc?, Option.some.injEq] at hy
        subst hy
        intro hh
        rw [(escape_chars_ok c (Or.inr hh)).2.1] at hi
        exact absurd hi (by simp)
      · simp [Pc.esc?] at hy
    have hne2 : noEsc ((pieces0 f rest).map Pc.orig) = true := by rw [horig]; exact hne
    have hfe := fe_render (pieces0 f rest) hnoun hok hne2
    have hitems : ∀ it ∈ distinctStrs (fe (render (pieces0 f rest))), ∃ x, x ≤ 0xFFFFF ∧ it = escapeChar x := by
      intro it hit
      rw [mem_distinctStrs, hfe, List.mem_map] at hit
      obtain ⟨x, hx, rfl⟩ := hit
      exact ⟨x, (hok (.blk x) ((mem_blks _ _).mp hx) x rfl).2, rfl⟩
    obtain ⟨pcs2, h1, h2, h3⟩ := fold_items _ _ hitems hok hnh hne2
    have hb : blks pcs2 = [] := by
      rw [List.eq_nil_iff_forall_not_mem]
      intro c hc
      obtain ⟨hc1, hc2⟩ := h3 c hc
      apply hc2
      rw [mem_distinctStrs, hfe]
      exact List.mem_map_of_mem hc1
    unfold fromXmlName
    change (distinctStrs (fe (render (pieces0 f rest)))).foldlM _ _ = _
    rw [h1, render_no_blks pcs2 hb, h2, horig]

/-- **C20 (injective).** two BMP names without escape-like patterns that are coerced to the same XML name are equal. -/
theorem C20_injective (n1 n2 out : Str) (hb1 : ∀ c ∈ n1, c ≤ 65535) (hb2 : ∀ c ∈ n2, c ≤ 65535)
    (he1 : NoEscapePattern n1) (he2 : NoEscapePattern n2)
    (h1 : toXmlName n1 = .ok out) (h2 : toXmlName n2 = .ok out) : n1 = n2 := by
  have a := C20_inverse n1 out hb1 he1 h1
  have b := C20_inverse n2 out hb2 he2 h2
  rw [a] at b
  injection b

/-- (b) the single-character case, as a corollary -/
theorem C20_inverse_char (c : Nat) (hc : c ≤ 65535) (out : Str) (h : toXmlName [c] = .ok out) :
    fromXmlName out = .ok [c] :=
  C20_inverse [c] out (by simpa using hc) (by simp [NoEscapePattern, noEsc]) h

/-- non-vacuity: `a b:c` (space and colon escaped) satisfies the hypotheses and round-trips; the hypothesis
`NoEscapePattern` is needed: the legal name `U0003A` is left alone by `toXmlName` but unescaped to `:` -/
example : NoEscapePattern [97, 32, 98, 58, 99] := by decide +kernel
example : toXmlName [97, 32, 98, 58, 99] = .ok [97, 85, 48, 48, 48, 50, 48, 98, 85, 48, 48, 48, 51, 65, 99] := by
  decide +kernel
example : fromXmlName [97, 85, 48, 48, 48, 50, 48, 98, 85, 48, 48, 48, 51, 65, 99] = .ok [97, 32, 98, 58, 99] := by
  decide +kernel
example : ¬ NoEscapePattern [85, 48, 48, 48, 51, 65] := by decide +kernel
example : toXmlName [85, 48, 48, 48, 51, 65] = .ok [85, 48, 48, 48, 51, 65] ∧
    fromXmlName [85, 48, 48, 48, 51, 65] = .ok [58] := by decide +kernel

end H5.Props.C20b
