/-
  C07 identity — the head of a covered document, symbolically: `<title>` in the `inHead` phase (RCDATA), its text in the
  `text` phase, `</title>`, `</head>`, `<body>`.
-/
import H5.Props.C07bStep3
set_option linter.unusedSimpArgs false
set_option linter.unusedVariables false
namespace H5.Props.C07b
open H5 H5.Model H5.Model.TB H5.Model.Dom


/-! ### the dispatcher in the phases of the head -/

theorem runProcess_S (r : Rec) (ph : Phase) (hres : resolveMethod ph "processStartTag" = .ok "Phase.processStartTag")
    (tok : Token) : runProcess r ph "processStartTag" tok = Phase_processStartTag r ph tok := by
  unfold runProcess
  rw [hres]
  show (match "Phase.processStartTag" with
    | "Phase.processStartTag" => Phase_processStartTag r ph tok
    | "Phase.processEndTag" => Phase_processEndTag r ph tok
    | "InBodyPhase.<slot>" =>
      if "processStartTag" == "processSpaceCharacters" then InBody_processSpaceCharacters tok
      else throw (PyErr.lookupError ("no-model-for-slot:" ++ "processStartTag"))
    | _ => runProcessPlain r "Phase.processStartTag" tok) = _
  rfl

theorem runProcess_E (r : Rec) (ph : Phase) (hres : resolveMethod ph "processEndTag" = .ok "Phase.processEndTag")
    (tok : Token) : runProcess r ph "processEndTag" tok = Phase_processEndTag r ph tok := by
  unfold runProcess
  rw [hres]
  show (match "Phase.processEndTag" with
    | "Phase.processStartTag" => Phase_processStartTag r ph tok
    | "Phase.processEndTag" => Phase_processEndTag r ph tok
    | "InBodyPhase.<slot>" =>
      if "processEndTag" == "processSpaceCharacters" then InBody_processSpaceCharacters tok
      else throw (PyErr.lookupError ("no-model-for-slot:" ++ "processEndTag"))
    | _ => runProcessPlain r "Phase.processEndTag" tok) = _
  split
  · rename_i h; exact absurd h (by decide)
  · rfl
  · rename_i h; exact absurd h (by decide)
  · exact absurd rfl ‹"Phase.processEndTag" = "Phase.processEndTag" → False›

theorem resolve_text_Ch : resolveMethod .text "processCharacters" = .ok "TextPhase.processCharacters" := by decide
theorem resolve_text_Sp : resolveMethod .text "processSpaceCharacters" = .ok "Phase.processSpaceCharacters" := by decide

theorem runPlain_Text_processCharacters (r : Rec) (tok : Token) :
    runProcessPlain r "TextPhase.processCharacters" tok = Text_processCharacters tok := by
  glue_eval runProcessPlain runProcessPlain.match_1

theorem runPlain_Phase_processSpaceCharacters (r : Rec) (tok : Token) :
    runProcessPlain r "Phase.processSpaceCharacters" tok = Phase_processSpaceCharacters tok := by
  glue_eval runProcessPlain runProcessPlain.match_1

theorem runProcess_text_Ch (r : Rec) (tok : Token) :
    runProcess r .text "processCharacters" tok = Text_processCharacters tok := by
  unfold runProcess
  rw [resolve_text_Ch, ← runPlain_Text_processCharacters r tok]
  show (match "TextPhase.processCharacters" with
    | "Phase.processStartTag" => Phase_processStartTag r .text tok
    | "Phase.processEndTag" => Phase_processEndTag r .text tok
    | "InBodyPhase.<slot>" =>
      if "processCharacters" == "processSpaceCharacters" then InBody_processSpaceCharacters tok
      else throw (PyErr.lookupError ("no-model-for-slot:" ++ "processCharacters"))
    | _ => runProcessPlain r "TextPhase.processCharacters" tok) = _
  run_process_match

theorem runProcess_text_Sp (r : Rec) (tok : Token) :
    runProcess r .text "processSpaceCharacters" tok = Phase_processSpaceCharacters tok := by
  unfold runProcess
  rw [resolve_text_Sp, ← runPlain_Phase_processSpaceCharacters r tok]
  show (match "Phase.processSpaceCharacters" with
    | "Phase.processStartTag" => Phase_processStartTag r .text tok
    | "Phase.processEndTag" => Phase_processEndTag r .text tok
    | "InBodyPhase.<slot>" =>
      if "processSpaceCharacters" == "processSpaceCharacters" then InBody_processSpaceCharacters tok
      else throw (PyErr.lookupError ("no-model-for-slot:" ++ "processSpaceCharacters"))
    | _ => runProcessPlain r "Phase.processSpaceCharacters" tok) = _
  run_process_match

theorem runTag_InHead_startTagTitle (r : Rec) (tok : Token) :
    runTagHandler r "InHeadPhase.startTagTitle" tok = InHead_startTagTitle tok := by
  glue_eval runTagHandler runTagHandler.match_1

theorem runTag_InHead_endTagHead (r : Rec) (tok : Token) :
    runTagHandler r "InHeadPhase.endTagHead" tok = InHead_endTagHead tok := by
  glue_eval runTagHandler runTagHandler.match_1

theorem runTag_Text_endTagOther (r : Rec) (tok : Token) :
    runTagHandler r "TextPhase.endTagOther" tok = Text_endTagOther tok := by
  glue_eval runTagHandler runTagHandler.match_1

theorem runTag_AfterHead_startTagBody (r : Rec) (tok : Token) :
    runTagHandler r "AfterHeadPhase.startTagBody" tok = AfterHead_startTagBody tok := by
  glue_eval runTagHandler runTagHandler.match_1

/-! ### `<title>` in the head -/

theorem step_head_title {ps fs f} (h : PhInv .inHead ps fs f) :
    ∃ ps', TB.step cfg0 ps (.startTag sTitle [] false) = .ok (ps', some .rcdata) ∧
      PhInv .text ps' (fs ++ [withChild f ps.arena.nodes.size]) (newFrame ps.arena.nodes.size f.id sTitle []) ∧
      ps'.originalPhase = some .inHead := by
  obtain ⟨fnm, hfk⟩ := h.topk
  have hr := resetFor_BodyInv h
  let d : TagData := { name := sTitle, attrs := attrsOfPairs [], selfClosing := false, orig := true }
  let st' : PState := { resetFor ps with
    arena := addChild ps.arena f.id f.node (.element (some htmlNs) sTitle) [],
    openElements := ps.openElements ++ [ps.arena.nodes.size],
    tokSwitch := some .rcdata, originalPhase := some .inHead, phase := some .text }
  have hcall : (callOf (mkRec 48) .inHead (.startTag d)).run (resetFor ps) = .ok (none, st') := by
    show (runProcess (mkRec 47) .inHead "processStartTag" (.startTag d)).run (resetFor ps) = _
    rw [runProcess_S _ _ (by decide)]
    unfold Phase_processStartTag
    have e1 : (Token.startTag d).tag "Phase.processStartTag" = .ok d := rfl
    simp only [run_bind, liftExcept_run _ _ _ e1, monadLift_run _ _ _ e1, ok_bind]
    have e2 : lookupHandler Gen.startTagHandlers "startTagHandler" .inHead d.name = .ok "InHeadPhase.startTagTitle" := by
      decide +kernel
    simp only [liftExcept_run _ _ _ e2, monadLift_run _ _ _ e2, ok_bind, runTag_InHead_startTagTitle]
    unfold InHead_startTagTitle parseRCDataRawtext insertElementTok
    have hpa : ∀ s, (pyAssert (Gen.Lit.HTMLParser_parseRCDataRawtext_0.contains (lit "RCDATA")) s).run (resetFor ps) =
        .ok ((), resetFor ps) := fun _ => by
      have : Gen.Lit.HTMLParser_parseRCDataRawtext_0.contains (lit "RCDATA") = true := by decide +kernel
      rw [this]; rfl
    have e3 : (Token.startTag d).tag "HTMLParser.parseRCDataRawtext" = .ok d := rfl
    simp only [run_bind, hpa, ok_bind, liftExcept_run _ _ _ e3, monadLift_run _ _ _ e3]
    rw [insertElement_run (resetFor ps) d f.id f.node rfl rfl hr.ift hr.last hr.topNode]
    have hph : (resetFor ps).phase = some .inHead := hr.phase
    have hne : ("RCDATA" == "RAWTEXT") = false := by decide
    simp only [ok_bind, hne, Bool.false_eq_true, ↓reduceIte]
    show Except.ok (none, ({ resetFor ps with
      arena := addChild ps.arena f.id f.node (.element (some htmlNs) sTitle) [],
      openElements := ps.openElements ++ [ps.arena.nodes.size],
      tokSwitch := some .rcdata, originalPhase := (resetFor ps).phase, phase := some .text } : PState)) = _
    rw [hph]
  refine ⟨st', ?_, ?_, rfl⟩
  · exact step_of_call ps st' (.startTag sTitle [] false) (.startTag d) f.id f.node fnm .inHead rfl
      (fun d' hd' => by cases hd'; rfl) h.phase h.last h.topNode hfk hcall
  · refine ⟨rfl, ?_, ?_, h.ift, h.errs, h.dropNl, h.docId, ?_, ⟨sTitle, rfl⟩, by simp⟩
    · show ps.openElements ++ [ps.arena.nodes.size] = _
      rw [h.opens]
      cases fs with
      | nil => exact absurd rfl h.fsne
      | cons e rest => simp [withChild, newFrame]
    · rw [h.afe_push, show fmtName sTitle = false by decide]
      simp; rfl
    · exact h.frames.push (.element (some htmlNs) sTitle) []

/-! ### text in the `text` phase -/

theorem tb_text_chars {ps fs f} (h : PhInv .text ps fs f) (ho : ps.originalPhase = some .inHead) (data : Str) :
    ∃ ps', TB.step cfg0 ps (.chars data) = .ok (ps', none) ∧
      PhInv .text ps' fs (withLeaf f ps.arena.nodes.size (.text data)) ∧ ps'.originalPhase = some .inHead := by
  obtain ⟨fnm, hfk⟩ := h.topk
  have hr := resetFor_BodyInv h
  let st' : PState := { resetFor ps with arena := addChild ps.arena f.id f.node (.text data) [] }
  have hcall : (callOf (mkRec 48) .text (.chars data)).run (resetFor ps) = .ok (none, st') := by
    show (runProcess (mkRec 47) .text "processCharacters" (.chars data)).run (resetFor ps) = _
    rw [runProcess_text_Ch]
    unfold Text_processCharacters
    have e1 : (Token.chars data).text "TextPhase.processCharacters" = .ok data := rfl
    simp only [run_bind, liftExcept_run _ _ _ e1, monadLift_run _ _ _ e1, ok_bind,
      insertText_run (resetFor ps) data f.id f.node hr.ift hr.last hr.topNode]
    rfl
  refine ⟨st', ?_, ?_, ho⟩
  · exact step_of_call ps st' (.chars data) (.chars data) f.id f.node fnm .text rfl
      (fun d' hd' => by cases hd') h.phase h.last h.topNode hfk hcall
  · exact h.addLeaf (.text data) (.text data) (fun n hn a i hi hg hlt => .text hg hn hlt) rfl rfl rfl rfl rfl rfl rfl rfl

theorem tb_text_space {ps fs f} (h : PhInv .text ps fs f) (ho : ps.originalPhase = some .inHead) (data : Str) :
    ∃ ps', TB.step cfg0 ps (.space data) = .ok (ps', none) ∧
      PhInv .text ps' fs (withLeaf f ps.arena.nodes.size (.text data)) ∧ ps'.originalPhase = some .inHead := by
  obtain ⟨fnm, hfk⟩ := h.topk
  have hr := resetFor_BodyInv h
  let st' : PState := { resetFor ps with arena := addChild ps.arena f.id f.node (.text data) [] }
  have hcall : (callOf (mkRec 48) .text (.space data)).run (resetFor ps) = .ok (none, st') := by
    show (runProcess (mkRec 47) .text "processSpaceCharacters" (.space data)).run (resetFor ps) = _
    rw [runProcess_text_Sp]
    unfold Phase_processSpaceCharacters
    have e1 : (Token.space data).text "Phase.processSpaceCharacters" = .ok data := rfl
    simp only [run_bind, liftExcept_run _ _ _ e1, monadLift_run _ _ _ e1, ok_bind,
      insertText_run (resetFor ps) data f.id f.node hr.ift hr.last hr.topNode]
    rfl
  refine ⟨st', ?_, ?_, ho⟩
  · exact step_of_call ps st' (.space data) (.space data) f.id f.node fnm .text rfl
      (fun d' hd' => by cases hd') h.phase h.last h.topNode hfk hcall
  · exact h.addLeaf (.text data) (.text data) (fun n hn a i hi hg hlt => .text hg hn hlt) rfl rfl rfl rfl rfl rfl rfl rfl

/-- `</title>` in the `text` phase: back to `inHead` -/
theorem step_text_endTitle {ps fs p g} (h : PhInv .text ps (fs ++ [p]) g) (ho : ps.originalPhase = some .inHead)
    (hfs : fs ≠ []) (hg : g.node.kind = .element (some htmlNs) sTitle)
    (hpk : ∃ pn, p.node.kind = .element (some htmlNs) pn) :
    ∃ ps', TB.step cfg0 ps (.endTag sTitle [] false) = .ok (ps', none) ∧
      PhInv .inHead ps' fs { p with kids := p.kids ++ [g.tree] } := by
  have hr := resetFor_BodyInv h
  let d : TagData := { name := sTitle, attrs := attrsOfPairs [], selfClosing := false, orig := true }
  let st' : PState := { resetFor ps with openElements := ps.openElements.dropLast, phase := some .inHead }
  have hcall : (callOf (mkRec 48) .text (.endTag d)).run (resetFor ps) = .ok (none, st') := by
    show (runProcess (mkRec 47) .text "processEndTag" (.endTag d)).run (resetFor ps) = _
    rw [runProcess_E _ _ (by decide)]
    unfold Phase_processEndTag
    have e1 : (Token.endTag d).tag "Phase.processEndTag" = .ok d := rfl
    simp only [run_bind, liftExcept_run _ _ _ e1, monadLift_run _ _ _ e1, ok_bind]
    have e2 : lookupHandler Gen.endTagHandlers "endTagHandler" .text d.name = .ok "TextPhase.endTagOther" := by
      decide +kernel
    simp only [liftExcept_run _ _ _ e2, monadLift_run _ _ _ e2, ok_bind, runTag_Text_endTagOther]
    unfold Text_endTagOther restoreOriginalPhase
    simp only [run_bind, openPop_run (resetFor ps) _ g.id hr.last, ok_bind]
    have hop : (resetFor ps).originalPhase = some .inHead := ho
    show Except.ok (none, ({ resetFor ps with
      openElements := ps.openElements.dropLast, phase := (resetFor ps).originalPhase } : PState)) = _
    rw [hop]
  refine ⟨st', step_of_call ps st' (.endTag sTitle [] false) (.endTag d) g.id g.node sTitle .text rfl
      (fun d' hd' => by cases hd') h.phase h.last h.topNode hg hcall, ?_⟩
  refine ⟨rfl, ?_, ?_, h.ift, h.errs, h.dropNl, h.docId, h.frames.pop (Or.inl ⟨_, _, hg⟩), hpk, hfs⟩
  · show ps.openElements.dropLast = _
    rw [h.opens]
    cases fs with
    | nil => exact absurd rfl hfs
    | cons e rest => simp [List.dropLast_append_of_ne_nil]
  · have := h.afe_pop hfs (p.kids ++ [g.tree])
    rw [isFmt_of_kind hg, show fmtName sTitle = false by decide] at this
    show ps.activeFormattingElements = _
    simpa using this

/-! ### `</head>` and `<body>` -/

theorem step_head_end {ps fs p g} (h : PhInv .inHead ps (fs ++ [p]) g) (hfs : fs ≠ [])
    (hg : g.node.kind = .element (some htmlNs) sHead) (hpk : ∃ pn, p.node.kind = .element (some htmlNs) pn) :
    ∃ ps', TB.step cfg0 ps (.endTag sHead [] false) = .ok (ps', none) ∧
      PhInv .afterHead ps' fs { p with kids := p.kids ++ [g.tree] } := by
  have hr := resetFor_BodyInv h
  let d : TagData := { name := sHead, attrs := attrsOfPairs [], selfClosing := false, orig := true }
  let st' : PState := { resetFor ps with openElements := ps.openElements.dropLast, phase := some .afterHead }
  have hcall : (callOf (mkRec 48) .inHead (.endTag d)).run (resetFor ps) = .ok (none, st') := by
    show (runProcess (mkRec 47) .inHead "processEndTag" (.endTag d)).run (resetFor ps) = _
    rw [runProcess_E _ _ (by decide)]
    unfold Phase_processEndTag
    have e1 : (Token.endTag d).tag "Phase.processEndTag" = .ok d := rfl
    simp only [run_bind, liftExcept_run _ _ _ e1, monadLift_run _ _ _ e1, ok_bind]
    have e2 : lookupHandler Gen.endTagHandlers "endTagHandler" .inHead d.name = .ok "InHeadPhase.endTagHead" := by
      decide +kernel
    simp only [liftExcept_run _ _ _ e2, monadLift_run _ _ _ e2, ok_bind, runTag_InHead_endTagHead]
    unfold InHead_endTagHead
    have hn2 : ({ resetFor ps with openElements := (resetFor ps).openElements.dropLast } : PState).arena.nodes[g.id]? =
        some g.node := hr.topNode
    have hni : (nameIs g.id "head").run { resetFor ps with openElements := (resetFor ps).openElements.dropLast } =
        .ok (true, { resetFor ps with openElements := (resetFor ps).openElements.dropLast }) := by
      have := nameIs_run { resetFor ps with openElements := (resetFor ps).openElements.dropLast } g.id g.node _ sHead "head" hn2 hg
      rw [this]; rfl
    simp only [run_bind, openPop_run (resetFor ps) _ g.id hr.last, ok_bind, hni]
    rfl
  refine ⟨st', step_of_call ps st' (.endTag sHead [] false) (.endTag d) g.id g.node sHead .inHead rfl
      (fun d' hd' => by cases hd') h.phase h.last h.topNode hg hcall, ?_⟩
  refine ⟨rfl, ?_, ?_, h.ift, h.errs, h.dropNl, h.docId, h.frames.pop (Or.inl ⟨_, _, hg⟩), hpk, hfs⟩
  · show ps.openElements.dropLast = _
    rw [h.opens]
    cases fs with
    | nil => exact absurd rfl hfs
    | cons e rest => simp [List.dropLast_append_of_ne_nil]
  · have := h.afe_pop hfs (p.kids ++ [g.tree])
    rw [isFmt_of_kind hg, show fmtName sHead = false by decide] at this
    show ps.activeFormattingElements = _
    simpa using this

theorem step_afterHead_body {ps fs f} (h : PhInv .afterHead ps fs f) :
    ∃ ps', TB.step cfg0 ps (.startTag sBody [] false) = .ok (ps', none) ∧
      BodyInv ps' (fs ++ [withChild f ps.arena.nodes.size]) (newFrame ps.arena.nodes.size f.id sBody []) := by
  obtain ⟨fnm, hfk⟩ := h.topk
  have hr := resetFor_BodyInv h
  let d : TagData := { name := sBody, attrs := attrsOfPairs [], selfClosing := false, orig := true }
  let st' : PState := { resetFor ps with
    arena := addChild ps.arena f.id f.node (.element (some htmlNs) sBody) [],
    openElements := ps.openElements ++ [ps.arena.nodes.size], framesetOK := false, phase := some .inBody }
  have hcall : (callOf (mkRec 48) .afterHead (.startTag d)).run (resetFor ps) = .ok (none, st') := by
    show (runProcess (mkRec 47) .afterHead "processStartTag" (.startTag d)).run (resetFor ps) = _
    rw [runProcess_S _ _ (by decide)]
    unfold Phase_processStartTag
    have e1 : (Token.startTag d).tag "Phase.processStartTag" = .ok d := rfl
    simp only [run_bind, liftExcept_run _ _ _ e1, monadLift_run _ _ _ e1, ok_bind]
    have e2 : lookupHandler Gen.startTagHandlers "startTagHandler" .afterHead d.name = .ok "AfterHeadPhase.startTagBody" := by
      decide +kernel
    simp only [liftExcept_run _ _ _ e2, monadLift_run _ _ _ e2, ok_bind, runTag_AfterHead_startTagBody]
    unfold AfterHead_startTagBody insertElementTok setFramesetOK
    have e3 : (Token.startTag d).tag "AfterHeadPhase.startTagBody" = .ok d := rfl
    have hm : (modify fun st => { st with framesetOK := false } : M PUnit).run (resetFor ps) =
        .ok (⟨⟩, { resetFor ps with framesetOK := false }) := rfl
    simp only [run_bind, hm, ok_bind, liftExcept_run _ _ _ e3, monadLift_run _ _ _ e3]
    rw [insertElement_run { resetFor ps with framesetOK := false } d f.id f.node rfl rfl hr.ift hr.last hr.topNode]
    rfl
  refine ⟨st', ?_, ?_⟩
  · exact step_of_call ps st' (.startTag sBody [] false) (.startTag d) f.id f.node fnm .afterHead rfl
      (fun d' hd' => by cases hd'; rfl) h.phase h.last h.topNode hfk hcall
  · refine ⟨rfl, ?_, ?_, h.ift, h.errs, h.dropNl, h.docId, ?_, ⟨sBody, rfl⟩, by simp⟩
    · show ps.openElements ++ [ps.arena.nodes.size] = _
      rw [h.opens]
      cases fs with
      | nil => exact absurd rfl h.fsne
      | cons e rest => simp [withChild, newFrame]
    · rw [h.afe_push, show fmtName sBody = false by decide]
      simp; rfl
    · exact h.frames.push (.element (some htmlNs) sBody) []

end H5.Props.C07b
