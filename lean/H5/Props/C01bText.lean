/-
  C01b — runs of the fold: single tokens, and the character tokens of a text node.
-/
import H5.Props.C01bToks
set_option linter.unusedSimpArgs false
set_option linter.unusedVariables false
namespace H5.Props.C01b
open H5 H5.Spec.TC

/-- the fold leads from `s` to `s'` -/
def Reach (s : St) (ts : List TTok) (s' : St) : Prop := specFold s ts = .ok s'

theorem Reach.nil (s : St) : Reach s [] s := rfl

theorem Reach.trans {s s1 s2 : St} {a b : List TTok} (h1 : Reach s a s1) (h2 : Reach s1 b s2) : Reach s (a ++ b) s2 := by
  unfold Reach at *
  rw [specFold_append, h1]
  exact h2

theorem Reach.single {s s' : St} {t : TTok} (h : (tokRun t).run { s with tokSwitch := none } = .ok ((), s')) :
    Reach s [t] s' := by
  unfold Reach specFold
  rw [h]
  rfl

/-- resetting the recorded tokenizer switch does not touch the invariant -/
theorem SInv.resetSwitch {m s fs f} (h : SInv m s fs f) : SInv m { s with tokSwitch := none } fs f :=
  h.sameTop ⟨rfl, rfl, rfl, rfl, rfl, rfl, rfl⟩ h.mode rfl rfl rfl rfl rfl h.frames h.noTextLast

theorem tokRun_one (t : TTok) (tk : Token) (h : ofTTok false t = [tk]) (s s' : St)
    (hp : (processToken tk).run s = .ok ((), s')) : (tokRun t).run s = .ok ((), s') := by
  unfold tokRun
  rw [h]
  simp only [List.forIn_cons, List.forIn_nil, run_bind, hp, ok_bind, run_pure]

/-- one non-character token -/
theorem Reach.token {m s s' fs f} (h : SInv m s fs f) (t : TTok) (tk : Token) (ht : ofTTok false t = [tk])
    (hp : ∀ s0, SInv m s0 fs f → s0.arena = s.arena → ∃ s1, (processToken tk).run s0 = .ok ((), s1) ∧ s' = s1) :
    Reach s [t] s' := by
  obtain ⟨s1, h1, rfl⟩ := hp _ h.resetSwitch rfl
  exact Reach.single (tokRun_one t tk ht _ _ h1)

/-! ### the characters of a text node -/

/-- the frame after the characters `d` were inserted -/
def SFrame.withText (f : SFrame) (size : Nat) (d : Str) : SFrame := d.foldl (fun g c => g.withChar size c) f

theorem withChar_txt (f : SFrame) (n c : Nat) : (f.withChar n c).txt = some (f.txt.getD [] ++ [c]) := by
  unfold SFrame.withChar; cases f.txt <;> rfl

theorem withChar_size (f : SFrame) (n m c : Nat) (h : f.txt ≠ none) : f.withChar n c = f.withChar m c := by
  unfold SFrame.withChar
  cases ht : f.txt with
  | none => exact absurd ht h
  | some d => rfl

theorem withText_size (n m : Nat) : ∀ (d : Str) (f : SFrame), f.txt ≠ none → f.withText n d = f.withText m d := by
  intro d
  induction d with
  | nil => intro f _; rfl
  | cons c rest ih =>
    intro f h
    simp only [SFrame.withText, List.foldl_cons]
    rw [withChar_size f n m c h]
    exact ih _ (by rw [withChar_txt]; simp)

theorem withChar_same (f : SFrame) (n c : Nat) :
    (f.withChar n c).id = f.id ∧ (f.withChar n c).node.kind = f.node.kind ∧ (f.withChar n c).kids = f.kids := by
  unfold SFrame.withChar; cases f.txt <;> exact ⟨rfl, rfl, rfl⟩

theorem withText_facts (n : Nat) : ∀ (d : Str) (f : SFrame), d ≠ [] →
    (f.withText n d).id = f.id ∧ (f.withText n d).node.kind = f.node.kind ∧ (f.withText n d).kids = f.kids ∧
      (f.withText n d).txt = some (f.txt.getD [] ++ d) := by
  intro d
  induction d with
  | nil => intro f h; exact absurd rfl h
  | cons c rest ih =>
    intro f _
    simp only [SFrame.withText, List.foldl_cons]
    have h1 := withChar_same f n c
    by_cases hr : rest = []
    · subst hr
      exact ⟨h1.1, h1.2.1, h1.2.2, withChar_txt f n c⟩
    · have := ih (f.withChar n c) hr
      simp only [SFrame.withText] at this
      refine ⟨this.1.trans h1.1, this.2.1.trans h1.2.1, this.2.2.1.trans h1.2.2, ?_⟩
      rw [this.2.2.2, withChar_txt]
      simp

/-- the character tokens of (a piece of) a text node, in a mode whose rule for them is `step`; `Q` is an additional
property of the state that the rule preserves -/
theorem chars_run {m : Mode} (Q : St → Prop)
    (step : ∀ {s fs f} (c : Nat), c ≠ 0 → SInv m s fs f → Q s →
      ∃ s', (processToken (.char c)).run s = .ok ((), s') ∧ SInv m s' fs (f.withChar s.arena.size c) ∧ Q s') :
    ∀ (d : Str), (∀ c ∈ d, c ≠ 0) → ∀ {s fs f}, SInv m s fs f → Q s →
      ∃ s', (forIn (d.map Token.char) PUnit.unit (fun tk _ => do processToken tk; pure (ForInStep.yield PUnit.unit)) : M PUnit).run s
          = .ok (PUnit.unit, s') ∧ SInv m s' fs (f.withText s.arena.size d) ∧ Q s' := by
  intro d
  induction d with
  | nil => intro _ s fs f h hq; exact ⟨s, rfl, h, hq⟩
  | cons c rest ih =>
    intro h0 s fs f h hq
    obtain ⟨s1, hs1, hi1, hq1⟩ := step c (h0 c (List.mem_cons_self ..)) h hq
    obtain ⟨s2, hs2, hi2, hq2⟩ := ih (fun x hx => h0 x (List.mem_cons_of_mem _ hx)) hi1 hq1
    refine ⟨s2, ?_, ?_, hq2⟩
    · simp only [List.map_cons, List.forIn_cons, run_bind, hs1, ok_bind, run_pure]
      exact hs2
    · have : (f.withChar s.arena.size c).withText s1.arena.size rest = (f.withChar s.arena.size c).withText s.arena.size rest :=
        withText_size _ _ rest _ (by rw [withChar_txt]; simp)
      rw [this] at hi2
      exact hi2

end H5.Props.C01b
