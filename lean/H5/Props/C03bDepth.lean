/-
  C03 fuel part, level 2 — `mkRec_ok` and `dispatch_depth_bound`.
-/
import H5.Props.C03bGraph
set_option linter.unusedSimpArgs false
set_option linter.unusedVariables false
namespace H5.Props.C03b
open H5 H5.Model H5.Model.TB H5.Model.Dom
open H5.Props.C02c (NF Post Post_bind Post_mono Post_pure Post_ok Post_error Post_throw Post_ite
  NF_typeError NF_keyError NF_indexError NF_assertFail NF_valueError NF_lookupError)

instance ENF_resolveMethod (ph m) : ENF (resolveMethod ph m) := by unfold resolveMethod; enf_auto
instance ENF_lookupHandler (tbl attr ph nm) : ENF (lookupHandler tbl attr ph nm) := by
  unfold lookupHandler; enf_auto

theorem Post_cases {α : Type} {x : Except PyErr α} [h : ENF x] {Q : α → Prop} (hq : ∀ a, x = .ok a → Q a) :
    Post x Q := by
  have := h.out
  cases hx : x with
  | ok a => exact hq a hx
  | error e => rw [hx] at this; exact this

theorem tag_tokName {tok : Token} {site : String} {d : TagData} (h : tok.tag site = .ok d) :
    tokName tok = d.name := by
  cases tok <;> simp [Token.tag] at h <;> simp [tokName, h]

theorem needSb_le (ph a b) : needSb ph a b ≤ 5 := by cases ph <;> cases a <;> cases b <;> decide
theorem needEb_le (ph a) : needEb ph a ≤ 5 := by cases ph <;> cases a <;> decide

theorem holds_of_boundS {q : Req} {tok : Token} {n : Nat} {ph : Phase}
    (hq : q.boundS (isHtml tok) (leafInBody.contains (tokName tok)) <
      needSb ph (isHtml tok) (leafInBody.contains (tokName tok)))
    (hneed : needS ph tok ≤ n) : q.holds tok n := by
  rw [needS_eq] at hneed
  cases q with
  | S ph' => simp only [Req.holds, Req.boundS, needS_eq] at *; omega
  | K k => simp only [Req.holds, Req.boundS] at *; omega
  | E ph' => simp only [Req.boundS] at hq; have := needSb_le ph (isHtml tok) (leafInBody.contains (tokName tok)); omega

theorem holds_of_boundE {q : Req} {tok : Token} {n : Nat} {ph : Phase}
    (hq : q.boundE (isCaption tok) < needEb ph (isCaption tok)) (hneed : needE ph tok ≤ n) : q.holds tok n := by
  rw [needE_eq] at hneed
  cases q with
  | E ph' => simp only [Req.holds, Req.boundE, needE_eq] at *; omega
  | K k => simp only [Req.holds, Req.boundE] at *; omega
  | S ph' => simp only [Req.boundE] at hq; have := needEb_le ph (isCaption tok); omega

theorem holds_of_kOnly {q : Req} {tok : Token} {n b : Nat} (hq : kOnly b q = true) (hb : b ≤ n) : q.holds tok n := by
  cases q with
  | K k => simp only [kOnly, decide_eq_true_eq] at hq; simp only [Req.holds]; omega
  | S _ => simp [kOnly] at hq
  | E _ => simp [kOnly] at hq

/-- `Phase.processStartTag` : the handler table lookup, then the handler -/
theorem Pv_Phase_processStartTag {r : Rec} {n : Nat} (hr : RecOK r n) (ph : Phase) (tok : Token)
    (hneed : needS ph tok ≤ n) : Pv (Phase_processStartTag r ph tok) :=
  ⟨fun st hi => by
    unfold Phase_processStartTag
    simp only [Tr_bind, Tr_monadLift, Tr_lift]
    refine Post_cases ?_
    intro d hd
    refine Post_cases ?_
    intro h hl
    refine (runTagHandler_pv hr tok h ?_).out st hi
    intro q hq
    have hname := tag_tokName hd
    refine holds_of_boundS ?_ hneed
    by_cases hleaf : leafInBody.contains d.name = true
    · have hm : d.name ∈ leafInBody := by simpa using hleaf
      have := graphS_exact ph (Phase.mem_all ph) d.name hm h (lookup_exact hl) q hq
      simpa only [isHtml, hname, hleaf] using this
    · have hleaf' : leafInBody.contains d.name = false := by simpa using hleaf
      have hne : (d.name == nmHtml) = false := by
        cases he : d.name == nmHtml with
        | false => rfl
        | true =>
          have : d.name = nmHtml := by simpa using he
          rw [this] at hleaf'
          exact absurd hleaf' (by decide)
      have := graphS_other ph (Phase.mem_all ph) h (lookup_other leafInBody hl hleaf') q hq
      simpa only [isHtml, hname, hleaf', hne] using this⟩

theorem Pv_Phase_processEndTag {r : Rec} {n : Nat} (hr : RecOK r n) (ph : Phase) (tok : Token)
    (hneed : needE ph tok ≤ n) : Pv (Phase_processEndTag r ph tok) :=
  ⟨fun st hi => by
    unfold Phase_processEndTag
    simp only [Tr_bind, Tr_monadLift, Tr_lift]
    refine Post_cases ?_
    intro d hd
    refine Post_cases ?_
    intro h hl
    refine (runTagHandler_pv hr tok h ?_).out st hi
    intro q hq
    have hname := tag_tokName hd
    refine holds_of_boundE ?_ hneed
    by_cases hcap : (d.name == nmCaption) = true
    · have hdn : d.name = nmCaption := by simpa using hcap
      rw [hdn] at hl
      have := graphE_exact ph (Phase.mem_all ph) h (lookup_exact hl) q hq
      simpa only [isCaption, hname, hcap] using this
    · have hcap' : (d.name == nmCaption) = false := by simpa using hcap
      have hex : [nmCaption].contains d.name = false := by
        simp only [List.contains_cons, List.contains_nil, Bool.or_false]
        exact hcap'
      have := graphE_other ph (Phase.mem_all ph) h (lookup_other [nmCaption] hl hex) q hq
      simpa only [isCaption, hname, hcap'] using this⟩

/-! ### `phases[ph].<method>(token)` -/

theorem plain_holds {ph : Phase} {m : String} {b : Nat} {q : String} {tok : Token} {n : Nat}
    (hp : plainOK ph m b = true) (hq : resolveMethod ph m = .ok q) (hb : b ≤ n) :
    ∀ req ∈ reqsOf q, req.holds tok n := by
  unfold plainOK at hp
  rw [hq] at hp
  simp only [List.all_eq_true] at hp
  intro req hr
  exact holds_of_kOnly (hp req hr) hb

theorem isHtml_leaf {tok : Token} (h : isHtml tok = true) : leafInBody.contains (tokName tok) = true := by
  have : tokName tok = nmHtml := by simpa [isHtml] using h
  rw [this]; decide

theorem minS_le_needS (ph : Phase) (tok : Token) : minS ph ≤ needS ph tok := by
  rw [needS_eq]
  unfold minS
  cases h1 : isHtml tok with
  | true => rw [isHtml_leaf h1]; omega
  | false => cases leafInBody.contains (tokName tok) <;> omega

theorem minE_le_needE (ph : Phase) (tok : Token) : minE ph ≤ needE ph tok := by
  rw [needE_eq]
  unfold minE
  cases isCaption tok <;> omega

theorem runProcess_S {r : Rec} {n : Nat} (hr : RecOK r n) (ph : Phase) (tok : Token)
    (hneed : needS ph tok ≤ n) : Pv (runProcess r ph "processStartTag" tok) :=
  ⟨fun st hi => by
    unfold runProcess
    simp only [Tr_bind, Tr_monadLift, Tr_lift]
    refine Post_cases ?_
    intro q hq
    obtain ⟨g1, g2, g3⟩ := resolve_generic ph (Phase.mem_all ph)
    obtain ⟨p1, p2, p3, p4, p5, p6, p7⟩ := graphPlain ph (Phase.mem_all ph)
    split
    · exact (Pv_Phase_processStartTag hr ph tok hneed).out st hi
    · exact absurd hq g1
    · exact (inferInstance : Pv _).out st hi
    · exact (runProcessPlain_pv hr tok q
        (plain_holds p1 hq (Nat.le_trans (minS_le_needS ph tok) hneed))).out st hi⟩

theorem runProcess_E {r : Rec} {n : Nat} (hr : RecOK r n) (ph : Phase) (tok : Token)
    (hneed : needE ph tok ≤ n) : Pv (runProcess r ph "processEndTag" tok) :=
  ⟨fun st hi => by
    unfold runProcess
    simp only [Tr_bind, Tr_monadLift, Tr_lift]
    refine Post_cases ?_
    intro q hq
    obtain ⟨g1, g2, g3⟩ := resolve_generic ph (Phase.mem_all ph)
    obtain ⟨p1, p2, p3, p4, p5, p6, p7⟩ := graphPlain ph (Phase.mem_all ph)
    split
    · exact absurd hq g2
    · exact (Pv_Phase_processEndTag hr ph tok hneed).out st hi
    · exact (inferInstance : Pv _).out st hi
    · exact (runProcessPlain_pv hr tok q
        (plain_holds p2 hq (Nat.le_trans (minE_le_needE ph tok) hneed))).out st hi⟩

/-- the four methods that never go through the tag handler tables -/
theorem runProcess_plain {r : Rec} {n : Nat} (hr : RecOK r n) (ph : Phase) (m : String) (tok : Token) (b : Nat)
    (hm : m ∈ ["processCharacters", "processSpaceCharacters", "processComment", "processDoctype"])
    (hp : plainOK ph m b = true) (hb : b ≤ n) : Pv (runProcess r ph m tok) :=
  ⟨fun st hi => by
    unfold runProcess
    simp only [Tr_bind, Tr_monadLift, Tr_lift]
    refine Post_cases ?_
    intro q hq
    obtain ⟨g1, g2, g3⟩ := resolve_generic ph (Phase.mem_all ph)
    split
    · exact absurd hq (g3 m hm).1
    · exact absurd hq (g3 m hm).2
    · exact (inferInstance : Pv _).out st hi
    · exact (runProcessPlain_pv hr tok q (plain_holds hp hq hb)).out st hi⟩

theorem runProcessEOF_pv {r : Rec} {n : Nat} (hr : RecOK r n) (ph : Phase) (hneed : needEOF ph ≤ n) :
    Pv (runProcessEOF r ph) :=
  ⟨fun st hi => by
    unfold runProcessEOF
    simp only [Tr_bind, Tr_monadLift, Tr_lift]
    refine Post_cases ?_
    intro q hq
    obtain ⟨p1, p2, p3, p4, p5, p6, p7⟩ := graphPlain ph (Phase.mem_all ph)
    exact (runEOF_pv hr (.comment []) q (plain_holds p7 hq hneed)).out st hi⟩

/-- **the induction**: `mkRec n` serves every entry point of rank `< n` -/
theorem mkRec_ok : ∀ n, RecOK (mkRec n) n
  | 0 =>
    { S := fun _ _ h => absurd h (Nat.not_lt_zero _)
      E := fun _ _ h => absurd h (Nat.not_lt_zero _)
      Ch := fun _ _ h => absurd h (Nat.not_lt_zero _)
      Sp := fun _ _ h => absurd h (Nat.not_lt_zero _)
      Cm := fun _ _ h => absurd h (Nat.not_lt_zero _)
      D := fun _ _ h => absurd h (Nat.not_lt_zero _)
      EOF := fun _ h => absurd h (Nat.not_lt_zero _) }
  | n + 1 =>
    have hr := mkRec_ok n
    { S := fun ph tok h => runProcess_S hr ph tok (Nat.le_of_lt_succ h)
      E := fun ph tok h => runProcess_E hr ph tok (Nat.le_of_lt_succ h)
      Ch := fun ph tok h => runProcess_plain hr ph _ tok (needCh ph) (by simp)
        (graphPlain ph (Phase.mem_all ph)).2.2.1 (Nat.le_of_lt_succ h)
      Sp := fun ph tok h => runProcess_plain hr ph _ tok (needSp ph) (by simp)
        (graphPlain ph (Phase.mem_all ph)).2.2.2.1 (Nat.le_of_lt_succ h)
      Cm := fun ph tok h => runProcess_plain hr ph _ tok (needCm ph) (by simp)
        (graphPlain ph (Phase.mem_all ph)).2.2.2.2.1 (Nat.le_of_lt_succ h)
      D := fun ph tok h => runProcess_plain hr ph _ tok 0 (by simp)
        (graphPlain ph (Phase.mem_all ph)).2.2.2.2.2.1 (Nat.zero_le _)
      EOF := fun ph h => runProcessEOF_pv hr ph (Nat.le_of_lt_succ h) }

/-- the depth that always suffices -/
def depthBound : Nat := maxNeed + 1

/-- `mkRec n` with `n ≥ 6` serves every entry point -/
theorem mkRec_total {n : Nat} (hn : depthBound ≤ n) (ph : Phase) (tok : Token) :
    Pv ((mkRec n).processStartTag ph tok) ∧ Pv ((mkRec n).processEndTag ph tok) ∧
    Pv ((mkRec n).processCharacters ph tok) ∧ Pv ((mkRec n).processSpaceCharacters ph tok) ∧
    Pv ((mkRec n).processComment ph tok) ∧ Pv ((mkRec n).processDoctype ph tok) ∧ Pv ((mkRec n).processEOF ph) := by
  have hr := mkRec_ok n
  unfold depthBound at hn
  exact ⟨hr.S ph tok (by have := needS_le ph tok; omega), hr.E ph tok (by have := needE_le ph tok; omega),
    hr.Ch ph tok (by have := needCh_le ph; omega), hr.Sp ph tok (by have := needSp_le ph; omega),
    hr.Cm ph tok (by have := needCm_le ph; omega), hr.D ph tok (by unfold maxNeed at hn; omega),
    hr.EOF ph (by have := needEOF_le ph; omega)⟩

end H5.Props.C03b
