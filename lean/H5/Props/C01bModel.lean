/-
  C01b — html5lib's TREE-CONSTRUCTION MODEL (`H5.Model.TreeBuilder`) on the token sequences of a covered document
  (`H5.Props.C01b.DocToks`): `TB.build` returns the document, with no parse error.  The induction of C07b
  (`node_run` / `forest_run`) over token lists instead of the coupled tokenizer loop; all step lemmas are C07b's.
-/
import H5.Props.C07b
import H5.Props.C01bToks
set_option linter.unusedSimpArgs false
set_option linter.unusedVariables false
namespace H5.Props.C01bM
open H5 H5.Model H5.Model.TB H5.Model.Dom H5.Props.C07b
open H5.Props.C08c (tagNameOK startTagOK valueOK)
open H5.Props.C01b (TextToks NodeToks ForestToks HeadToks DocToks pairsOf)

/-- the fold of `TB.build` leads from `ps` to `ps'` -/
def MReach (ps : PState) (ts : List TTok) (ps' : PState) : Prop := TB.foldSteps cfg0 ps ts = .ok ps'

theorem MReach.nil (ps : PState) : MReach ps [] ps := rfl

theorem foldSteps_append (ps : PState) (a b : List TTok) :
    TB.foldSteps cfg0 ps (a ++ b) = (TB.foldSteps cfg0 ps a >>= fun p => TB.foldSteps cfg0 p b) := by
  induction a generalizing ps with
  | nil => rfl
  | cons t rest ih =>
    simp only [List.cons_append, TB.foldSteps]
    split
    · exact ih _
    · rfl

theorem MReach.trans {p1 p2 p3 : PState} {a b : List TTok} (h1 : MReach p1 a p2) (h2 : MReach p2 b p3) :
    MReach p1 (a ++ b) p3 := by
  unfold MReach at *
  rw [foldSteps_append, h1]
  exact h2

theorem MReach.one {ps ps' : PState} {t : TTok} {sw : Option TokStateSwitch} (h : TB.step cfg0 ps t = .ok (ps', sw)) :
    MReach ps [t] ps' := by
  unfold MReach TB.foldSteps
  rw [h]
  rfl

/-- the tokens of a text node, in the `inBody` phase: one text node per token -/
theorem mtext {d : Str} {ts : List TTok} (htt : TextToks d ts) : valueOK d = true →
    ∀ {ps fs f}, BodyInv ps fs f →
    ∃ ps' f' ds, MReach ps ts ps' ∧ BodyInv ps' fs f' ∧ SameFrame f f' ∧ f'.kids = f.kids ++ ds.map Tree.text ∧
      ds.flatten = d ∧ (∀ x ∈ ds, x ≠ []) ∧ ds ≠ [] := by
  induction htt with
  | @one d tok hd htok =>
    intro hok ps fs f hinv
    have hstep : ∃ ps1, TB.step cfg0 ps tok = .ok (ps1, none) ∧ BodyInv ps1 fs (withLeaf f ps.arena.nodes.size (.text d)) := by
      rcases htok with rfl | rfl
      · exact step_chars hinv d (valueOK_ne_nul hok)
      · exact step_space hinv d
    obtain ⟨ps1, hs1, hinv1⟩ := hstep
    exact ⟨ps1, _, [d], MReach.one hs1, hinv1, SameFrame.withLeaf _ _ _, rfl, by simp, by simp [hd], by simp⟩
  | @cons d1 d2 tok rest hd htok _ ih =>
    intro hok ps fs f hinv
    have hok12 := valueOK_append hok
    have hstep : ∃ ps1, TB.step cfg0 ps tok = .ok (ps1, none) ∧ BodyInv ps1 fs (withLeaf f ps.arena.nodes.size (.text d1)) := by
      rcases htok with rfl | rfl
      · exact step_chars hinv d1 (valueOK_ne_nul hok12.1)
      · exact step_space hinv d1
    obtain ⟨ps1, hs1, hinv1⟩ := hstep
    obtain ⟨ps', f', ds, hr, hinv', hsf, hkids, hfl, hall, hne⟩ := ih hok12.2 hinv1
    refine ⟨ps', f', d1 :: ds, (MReach.one hs1).trans hr, hinv', (SameFrame.withLeaf _ _ _).trans hsf, ?_,
      by simp [hfl], ?_, by simp⟩
    · rw [hkids]; simp [withLeaf]
    · intro x hx
      rcases List.mem_cons.1 hx with rfl | hx
      · exact hd
      · exact hall x hx

mutual
theorem mnode (x : Ctx) : ∀ (u : Tree), okNode commentOKm x u = true →
    ∀ (ps : PState) (fs : List Frame) (f : Frame) (ts : List TTok), BodyInv ps fs f → CtxOK x fs f → NodeToks u ts →
    ∃ ps' f' ks, MReach ps ts ps' ∧ BodyInv ps' fs f' ∧ SameFrame f f' ∧ f'.kids = f.kids ++ ks ∧ NodePieces u ks
  | .text d, hu, ps, fs, f, ts, hinv, hnop, htoks => by
    simp only [okNode, Bool.and_eq_true, Bool.not_eq_true', List.isEmpty_eq_false_iff] at hu
    obtain ⟨ps', f', ds, h1, h3, h5, h6, h7, h8, h9⟩ := mtext (by simpa [NodeToks] using htoks) hu.2 hinv
    exact ⟨ps', f', _, h1, h3, h5, h6, ds, h9, h8, h7, rfl⟩
  | .comment d, hu, ps, fs, f, ts, hinv, hnop, htoks => by
    have hts : ts = [.comment d] := by simpa [NodeToks] using htoks
    subst hts
    obtain ⟨ps1, hs1, hinv1⟩ := step_comment hinv d
    exact ⟨ps1, _, [.comment d], MReach.one hs1, hinv1, SameFrame.withLeaf _ _ _, rfl, rfl⟩
  | .elem ns nm attrs cs, hu, ps, fs, f, ts, hinv, hnop, htoks => by
    simp only [okNode, Bool.and_eq_true, beq_iff_eq] at hu
    obtain ⟨⟨⟨hns, hplain⟩, hst⟩, hbody⟩ := hu
    have hnd : (attrs.map (·.name)).Nodup := by
      simp only [startTagOK, Bool.and_eq_true, C08c.namesDistinct, decide_eq_true_eq] at hst
      exact hst.2
    by_cases hv : voidName nm = true
    · simp only [hv, if_true, List.isEmpty_iff, Bool.and_eq_true] at hbody
      obtain ⟨hbody, hval⟩ := hbody
      subst hbody
      have hts : ts = [.startTag nm (pairsOf attrs) false] := by simpa [NodeToks, hv] using htoks
      subst hts
      obtain ⟨ps1, hs1, hinv1⟩ := void_step hv x hval hinv hnop (attrs.map fun a => (a.name, a.value))
      have htree : (newFrame ps.arena.nodes.size f.id nm (attrsOfPairs (attrs.map fun a => (a.name, a.value)))).tree =
          .elem ns nm attrs [] := by
        show Tree.elem (some htmlNs) nm ((attrsOfPairs (attrs.map fun a => (a.name, a.value))).map attrToTree)
          (mergeText []) = _
        rw [attrs_roundtrip attrs hplain hnd, hns]
        rfl
      refine ⟨ps1, _, [.elem ns nm attrs []], MReach.one hs1, hinv1, ⟨rfl, rfl, rfl⟩, ?_, rfl⟩
      show f.kids ++ [_] = _
      rw [htree]
    · have hv' : voidName nm = false := by simpa using hv
      simp only [hv', Bool.false_eq_true, if_false] at hbody
      cases hc : catOf nm with
      | none => simp [hc] at hbody
      | some c =>
        simp only [hc, Bool.and_eq_true] at hbody
        obtain ⟨hal, hcs⟩ := hbody
        obtain ⟨hstart, hend⟩ := cat_steps hc x hal
        obtain ⟨mid, hmid, hts⟩ : ∃ mid, ForestToks cs mid ∧
            ts = .startTag nm (pairsOf attrs) false :: (mid ++ [.endTag nm [] false]) := by
          simpa [NodeToks, hv'] using htoks
        subst hts
        obtain ⟨ps1, hs1, hinv1, hnop1⟩ := hstart ps fs f (attrs.map fun a => (a.name, a.value)) hinv hnop
        obtain ⟨ps2, g, ks, hsteps, hinv2, hsf, hkids, hpieces⟩ := mforest (x.inner c nm) cs hcs ps1 _ _ mid hinv1 hnop1 hmid
        have hgk : g.node.kind = .element (some htmlNs) nm := hsf.2.1
        have hbot : x.inP = false → HtmlBottom (fs ++ [withChild f ps.arena.nodes.size]) g := fun hi =>
          (((hnop.1 hi).htmlBottom.push hinv.fsne (withChild f ps.arena.nodes.size)
            (newFrame ps.arena.nodes.size f.id nm (attrsOfPairs (attrs.map fun a => (a.name, a.value)))) nm rfl rfl).same
            hgk)
        obtain ⟨ps3, hs3, hinv3⟩ := hend ps2 fs _ g hinv2 hinv.fsne hgk hinv.topk hbot
        have htree : g.tree = .elem ns nm attrs cs := by
          unfold Frame.tree
          rw [hgk]
          have ha : g.node.attrs = attrsOfPairs (attrs.map fun a => (a.name, a.value)) := hsf.2.2
          have hk' : g.kids = ks := by rw [hkids]; rfl
          rw [ha, attrs_roundtrip attrs hplain hnd, hk', hpieces.merge, hns]
        refine ⟨ps3, _, [.elem ns nm attrs cs], ?_, hinv3, ⟨rfl, rfl, rfl⟩, ?_, rfl⟩
        · have := (MReach.one hs1).trans (hsteps.trans (MReach.one hs3))
          simpa [pairsOf] using this
        · show (withChild f ps.arena.nodes.size).kids ++ [g.tree] = _
          rw [htree]; rfl
  | .doc cs, hu, _, _, _, _, _, _, _ => by simp [okNode] at hu
  | .frag cs, hu, _, _, _, _, _, _, _ => by simp [okNode] at hu
  | .doctype a b c, hu, _, _, _, _, _, _, _ => by simp [okNode] at hu
theorem mforest (x : Ctx) : ∀ (cs : List Tree), okForest commentOKm x cs = true →
    ∀ (ps : PState) (fs : List Frame) (f : Frame) (ts : List TTok), BodyInv ps fs f → CtxOK x fs f → ForestToks cs ts →
    ∃ ps' f' ks, MReach ps ts ps' ∧ BodyInv ps' fs f' ∧ SameFrame f f' ∧ f'.kids = f.kids ++ ks ∧ Pieces cs ks
  | [], _, ps, fs, f, ts, hinv, _, htoks => by
    have : ts = [] := by simpa [ForestToks] using htoks
    subst this
    exact ⟨ps, f, [], MReach.nil ps, hinv, SameFrame.refl f, by simp, .nil⟩
  | u :: cs, hu, ps, fs, f, ts, hinv, hnop, htoks => by
    simp only [okForest, Bool.and_eq_true, Bool.not_eq_true'] at hu
    obtain ⟨⟨hu1, hadj⟩, hcs⟩ := hu
    obtain ⟨a, b, ha, hb, rfl⟩ : ∃ a b, NodeToks u a ∧ ForestToks cs b ∧ ts = a ++ b := by
      simpa [ForestToks] using htoks
    obtain ⟨ps1, f1, ks1, hst1, hinv1, hsf1, hkids1, hp1⟩ := mnode x u hu1 ps fs f a hinv hnop ha
    obtain ⟨ps2, f2, ks2, hst2, hinv2, hsf2, hkids2, hp2⟩ := mforest x cs hcs ps1 fs f1 b hinv1 (hnop.same hsf1.2.1) hb
    refine ⟨ps2, f2, ks1 ++ ks2, hst1.trans hst2, hinv2, hsf1.trans hsf2, ?_, ?_⟩
    · rw [hkids2, hkids1, List.append_assoc]
    · cases u with
      | text d =>
        obtain ⟨ds, h1, h2, h3, h4⟩ := hp1
        rw [h4]
        refine .text h1 h2 h3 ?_ hp2
        cases cs with
        | nil => rfl
        | cons v cs' => simpa [isText] using hadj
      | comment d => have : ks1 = [.comment d] := hp1; rw [this]; exact .other rfl hp2
      | elem a b c e => have : ks1 = [.elem a b c e] := hp1; rw [this]; exact .other rfl hp2
      | doc e => simp [okNode] at hu1
      | frag e => simp [okNode] at hu1
      | doctype a b c => simp [okNode] at hu1
end

/-- the tokens of the text of `title`, in the `text` phase -/
theorem mrc_text {d : Str} {ts : List TTok} (htt : TextToks d ts) : valueOK d = true →
    ∀ {ps fs f}, PhInv .text ps fs f → ps.originalPhase = some .inHead →
    ∃ ps' f' ds, MReach ps ts ps' ∧ PhInv .text ps' fs f' ∧ ps'.originalPhase = some .inHead ∧ SameFrame f f' ∧
      f'.kids = f.kids ++ ds.map Tree.text ∧ ds.flatten = d ∧ (∀ x ∈ ds, x ≠ []) ∧ ds ≠ [] := by
  induction htt with
  | @one d tok hd htok =>
    intro hok ps fs f hinv ho
    have hstep : ∃ ps1, TB.step cfg0 ps tok = .ok (ps1, none) ∧
        PhInv .text ps1 fs (withLeaf f ps.arena.nodes.size (.text d)) ∧ ps1.originalPhase = some .inHead := by
      rcases htok with rfl | rfl
      · exact tb_text_chars hinv ho d
      · exact tb_text_space hinv ho d
    obtain ⟨ps1, hs1, hinv1, ho1⟩ := hstep
    exact ⟨ps1, _, [d], MReach.one hs1, hinv1, ho1, SameFrame.withLeaf _ _ _, rfl, by simp, by simp [hd], by simp⟩
  | @cons d1 d2 tok rest hd htok _ ih =>
    intro hok ps fs f hinv ho
    have hok12 := valueOK_append hok
    have hstep : ∃ ps1, TB.step cfg0 ps tok = .ok (ps1, none) ∧
        PhInv .text ps1 fs (withLeaf f ps.arena.nodes.size (.text d1)) ∧ ps1.originalPhase = some .inHead := by
      rcases htok with rfl | rfl
      · exact tb_text_chars hinv ho d1
      · exact tb_text_space hinv ho d1
    obtain ⟨ps1, hs1, hinv1, ho1⟩ := hstep
    obtain ⟨ps', f', ds, hr, hinv', ho', hsf, hkids, hfl, hall, hne⟩ := ih hok12.2 hinv1 ho1
    refine ⟨ps', f', d1 :: ds, (MReach.one hs1).trans hr, hinv', ho', (SameFrame.withLeaf _ _ _).trans hsf, ?_,
      by simp [hfl], ?_, by simp⟩
    · rw [hkids]; simp [withLeaf]
    · intro x hx
      rcases List.mem_cons.1 hx with rfl | hx
      · exact hd
      · exact hall x hx

/-- the covered head content under the open `head` -/
theorem mhead : ∀ (hd : List Tree), headOK hd = true → ∀ (ts : List TTok), HeadToks hd ts →
    ∀ {ps fs f}, PhInv .inHead ps fs f →
    ∃ ps' f', MReach ps ts ps' ∧ PhInv .inHead ps' fs f' ∧ SameFrame f f' ∧ f'.kids = f.kids ++ hd := by
  intro hd hok ts htoks ps fs f hinv
  match hd, hok, htoks with
  | [], _, htoks =>
    have : ts = [] := htoks
    subst this
    exact ⟨ps, f, MReach.nil ps, hinv, SameFrame.refl f, by simp⟩
  | [.elem ns nm attrs cs], hok, htoks =>
    simp only [headOK, Bool.and_eq_true, beq_iff_eq, List.isEmpty_iff] at hok
    obtain ⟨⟨⟨hns, hnm⟩, hattrs⟩, hcs⟩ := hok
    subst hns hnm hattrs
    obtain ⟨mid, hmid, rfl⟩ := htoks
    obtain ⟨ps1, hs1, hinv1, horig1⟩ := step_head_title hinv
    have finish : ∀ (cs' : List Tree) (ps2 : PState) (g : Frame), MReach ps1 mid ps2 →
        PhInv .text ps2 (fs ++ [withChild f ps.arena.nodes.size]) g → ps2.originalPhase = some .inHead →
        SameFrame (newFrame ps.arena.nodes.size f.id sTitle []) g → mergeText g.kids = cs' →
        ∃ ps' f', MReach ps (.startTag sTitle [] false :: (mid ++ [.endTag sTitle [] false])) ps' ∧
          PhInv .inHead ps' fs f' ∧ SameFrame f f' ∧ f'.kids = f.kids ++ [.elem (some htmlNs) sTitle [] cs'] := by
      intro cs' ps2 g hr2 hinv2 horig2 hsf hkids
      have hgk : g.node.kind = .element (some htmlNs) sTitle := hsf.2.1
      obtain ⟨ps3, hs3, hinv3⟩ := step_text_endTitle hinv2 horig2 hinv.fsne hgk hinv.topk
      have htree : g.tree = .elem (some htmlNs) sTitle [] cs' := by
        unfold Frame.tree
        rw [hgk]
        have ha : g.node.attrs = [] := hsf.2.2
        rw [ha, hkids]
        rfl
      refine ⟨ps3, _, ?_, hinv3, ⟨rfl, rfl, rfl⟩, ?_⟩
      · have := (MReach.one hs1).trans (hr2.trans (MReach.one hs3))
        simpa using this
      · show (withChild f ps.arena.nodes.size).kids ++ [g.tree] = _
        rw [htree]; rfl
    match cs, hcs, hmid with
    | [], _, hmid =>
      have : mid = [] := hmid
      subst this
      exact finish [] ps1 _ (MReach.nil ps1) hinv1 horig1 (SameFrame.refl _) rfl
    | [.text d], hcs, hmid =>
      simp only [Bool.and_eq_true, Bool.not_eq_true', List.isEmpty_eq_false_iff] at hcs
      have hmid' : TextToks d mid := hmid
      obtain ⟨ps2, g, ds, hr2, hinv2, horig2, hsf, hkids, hfl, hall, hdsne⟩ := mrc_text hmid' hcs.2 hinv1 horig1
      refine finish [.text d] ps2 g hr2 hinv2 horig2 hsf ?_
      rw [hkids]
      have := mergeText_texts ds [] [] hdsne hall rfl rfl
      simp only [List.append_nil] at this
      show mergeText ([] ++ ds.map Tree.text) = _
      rw [List.nil_append, this, hfl]

/-- **html5lib's tree-construction model builds the covered document** from its token sequences, without a parse error -/
theorem model_doc (hd cs : List Tree) (hhd : headOK hd = true) (hcs : okForest commentOKm {} cs = true)
    (ts : List TTok) (htoks : DocToks hd cs ts) :
    ∃ ps, TB.build cfg0 ts = .ok ps ∧ TB.resultE ps = .ok (docTree hd cs) ∧ TB.errorCodes ps = [] := by
  obtain ⟨th, tb, hth, htb, rfl⟩ := htoks
  -- prefix
  have r1 : MReach p0 [.doctype (some sHtml) none none true] p1 := MReach.one step_p1
  have r2 : MReach p1 [.startTag sHtml [] false] p2 := MReach.one step_p2
  have r3 : MReach p2 [.startTag sHead [] false] p3 := MReach.one step_p3
  -- the head
  obtain ⟨ps4, fh, r4, hinv4, hsfH, hkidsH⟩ := mhead hd hhd th hth p3_inv
  have hhk : fh.node.kind = .element (some htmlNs) sHead := hsfH.2.1
  obtain ⟨ps5, hs5, hinv5⟩ := step_head_end (fs := [docFrame]) (p := htmlFrame3) hinv4 (by simp) hhk ⟨sHtml, rfl⟩
  obtain ⟨ps6, hs6, hinv6⟩ := step_afterHead_body hinv5
  -- body
  have hctx : CtxOK {} ([docFrame] ++ [withChild { htmlFrame3 with kids := htmlFrame3.kids ++ [fh.tree] } ps5.arena.nodes.size])
      (newFrame ps5.arena.nodes.size htmlFrame3.id sBody []) := ctx_of_body rfl rfl rfl
  obtain ⟨ps7, fb, ks, r7, hinv7, hsf, hkids, hpieces⟩ := mforest {} cs hcs ps6 _ _ tb hinv6 hctx htb
  -- suffix
  have hbk : fb.node.kind = .element (some htmlNs) sBody := hsf.2.1
  have s8 := step_endBody hinv7 hbk
  have hlast : ps7.openElements.getLast? = some fb.id := by rw [hinv7.opens]; simp
  have s9 := step_endHtml { resetFor ps7 with phase := some .afterBody } fb.id fb.node sBody rfl
    hlast hinv7.frames.2.1 hbk
  have hall : MReach p0 ([.doctype (some sHtml) none none true, .startTag sHtml [] false, .startTag sHead [] false] ++ th ++
      [.endTag sHead [] false, .startTag sBody [] false] ++ tb ++ [.endTag sBody [] false, .endTag sHtml [] false])
      { resetFor { resetFor ps7 with phase := some .afterBody } with phase := some .afterAfterBody } := by
    have := r1.trans (r2.trans (r3.trans (r4.trans ((MReach.one hs5).trans ((MReach.one hs6).trans
      (r7.trans ((MReach.one s8).trans (MReach.one s9))))))))
    simpa [List.append_assoc] using this
  -- the result tree
  have hfr := hinv7.frames
  have hpop1 := FramesOK.pop (fs := [docFrame]) hfr (Or.inl ⟨_, _, hbk⟩)
  have hpop2 := FramesOK.pop (fs := []) (f := docFrame) hpop1 (Or.inl ⟨_, _, rfl⟩)
  have hres := FramesOK.result hpop2 (Or.inr rfl)
  have hbody : fb.tree = .elem (some htmlNs) sBody [] cs := by
    unfold Frame.tree
    rw [hbk]
    have ha : fb.node.attrs = [] := hsf.2.2
    have hk' : fb.kids = ks := by rw [hkids]; rfl
    rw [ha, hk', hpieces.merge]
    rfl
  have hhead : fh.tree = .elem (some htmlNs) sHead [] hd := by
    unfold Frame.tree
    rw [hhk]
    have ha : fh.node.attrs = [] := hsfH.2.2
    have hk' : fh.kids = hd := by rw [hkidsH]; rfl
    rw [ha, hk', mergeText_head hhd]
    rfl
  rw [hbody, hhead] at hres
  let psEnd : PState := { resetFor { resetFor ps7 with phase := some .afterBody } with phase := some .afterAfterBody }
  have hbuild : TB.build cfg0 ([.doctype (some sHtml) none none true, .startTag sHtml [] false, .startTag sHead [] false] ++
      th ++ [.endTag sHead [] false, .startTag sBody [] false] ++ tb ++ [.endTag sBody [] false, .endTag sHtml [] false]) =
      .ok { psEnd with cfg := cfg0 } := by
    unfold TB.build
    rw [init_p0]
    simp only [ok_bind]
    rw [show TB.foldSteps cfg0 p0 _ = .ok psEnd from hall]
    simp only [ok_bind]
    exact finish_afterAfterBody _ rfl
  refine ⟨_, hbuild, ?_, ?_⟩
  · unfold TB.resultE
    have hdoc : ps7.document = 0 := hinv7.docId
    show (toTreeE ps7.arena ps7.document) = _
    rw [hdoc]
    exact hres
  · show ps7.errors.toList.map (·.1) = []
    rw [hinv7.errs]
    rfl

end H5.Props.C01bM
