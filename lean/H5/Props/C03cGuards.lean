/-
  C03c — the guards G1–G5 of the reprocess loop hold in every state reachable by parsing, in the terms of the model:
  the stuck states S1–S6 of `tools/c03b/replay_states.py` (`reprocess_not_total`) are NOT reachable.

    G1 (S1, S6)  in `inSelectInTable`, `select` is in select scope;
    G2 (S2)      in `inCell`, when `table`/`tbody`/`tfoot`/`thead`/`tr` is in table scope, so is `td` or `th`;
    G3 (S3)      in `inTableText`, the phase to return to is an ordinary one (not `inTableText` itself);
    G4 (S4)      the phase register never holds `inForeignContent`;
    G5 (S5)      in `inRow`, when `tbody`/`thead`/`tfoot` is in table scope, so is `tr`.

  "In table / select scope" is what `TreeBuilder.elementInScope` computes on the stack of open elements
  (`Tr_elementInScope` of C03cStack: `scopeRev` on the (namespace, name) pairs of the stack).
-/
import H5.Props.C03cTop
set_option linter.unusedSimpArgs false
set_option linter.unusedVariables false
namespace H5.Props.C03c
open H5 H5.Model H5.Model.TB H5.Model.Dom
open H5.Props.C02c (NF Post Post_bind Post_mono Post_pure Post_ok Post_error Post_throw Post_ite
  NF_typeError NF_keyError NF_indexError NF_assertFail NF_valueError NF_lookupError)
open H5.Props.C03b

/-- `elementInScope(nm, variant="table")` on the stack `s` (bottom first) -/
def inTableScope (s : List El) (nm : Str) : Option Bool := scopeRev (htmlNs, nm) [mHtml, mTable] false s.reverse

/-- `elementInScope("select", variant="select")` -/
def inSelectScope (s : List El) : Option Bool :=
  scopeRev (htmlNs, nSelect) [(htmlNs, nOptgroup), (htmlNs, nOption)] true s.reverse

/-- the model's `elementInScope` computes these -/
theorem Tr_inTableScope (nm : Str) (st : PState) (hs : ST st) (Q : Bool → PState → Prop) :
    Tr (elementInScope nm (some "table")) st Q ↔ ∀ b, inTableScope (stackK st) nm = some b → Q b st := by
  have h := Tr_elementInScope nm (some "table") scTable.1 scTable.2 listElements_table st hs.elem Q
  rw [scTable_eq] at h
  exact h

theorem Tr_inSelectScope (st : PState) (hs : ST st) (Q : Bool → PState → Prop) :
    Tr (elementInScope nSelect (some "select")) st Q ↔ ∀ b, inSelectScope (stackK st) = some b → Q b st := by
  have h := Tr_elementInScope nSelect (some "select") scSelect.1 scSelect.2 listElements_select st hs.elem Q
  rw [scSelect_eq] at h
  exact h

/-! ### table scope on the protected names -/

theorem tup_target {e : El} {nm : Str} (h : (tup e == (htmlNs, nm)) = true) : isH e = true ∧ e.2 = nm := by
  have h' : tup e = (htmlNs, nm) := by simpa using h
  unfold tup at h'
  have h1 := (Prod.mk.inj h').1
  have h2 := (Prod.mk.inj h').2
  exact ⟨by unfold isH; rw [h1]; exact beq_self_eq_true _, h2⟩

theorem marker_cases {e : El} (h : [mHtml, mTable].contains (tup e) = true) :
    isH e = true ∧ (e.2 = nHtml ∨ e.2 = nTable) := by
  simp only [List.contains_cons, List.contains_nil, Bool.or_false, Bool.or_eq_true] at h
  rcases h with h | h
  · have := tup_target (nm := nHtml) (by simpa [mHtml] using h); exact ⟨this.1, Or.inl this.2⟩
  · have := tup_target (nm := nTable) (by simpa [mTable] using h); exact ⟨this.1, Or.inr this.2⟩

theorem not_marker_of {e : El} (h1 : e.2 ≠ nHtml) (h2 : e.2 ≠ nTable) : [mHtml, mTable].contains (tup e) = false := by
  cases hc : [mHtml, mTable].contains (tup e) with
  | false => rfl
  | true =>
    rcases (marker_cases hc).2 with h | h
    · exact absurd h h1
    · exact absurd h h2

/-- a protected name in table scope, as computed by the model, is in table scope on the protected names -/
theorem tscRev_of_scope {nm : Str} (hnm : PN.contains nm = true) : ∀ (r : List El),
    scopeRev (htmlNs, nm) [mHtml, mTable] false r = some true → tscRev [nm] ((r.filter prot).map (·.2)) = true
  | [], h => by simp [scopeRev] at h
  | e :: r, h => by
    simp only [scopeRev] at h
    by_cases ht : (tup e == (htmlNs, nm)) = true
    · obtain ⟨hH, hn⟩ := tup_target ht
      have hp : prot e = true := by unfold prot; rw [hH, hn, hnm]; rfl
      rw [List.filter_cons_of_pos hp, List.map_cons]
      simp [tscRev, hn]
    · rw [if_neg ht] at h
      by_cases hm : [mHtml, mTable].contains (tup e) = true
      · rw [if_pos (by simpa using hm)] at h; cases h
      · rw [if_neg (by simpa using hm)] at h
        have ih := tscRev_of_scope hnm r h
        by_cases hp : prot e = true
        · rw [List.filter_cons_of_pos hp, List.map_cons]
          have hH : isH e = true := by simp only [prot, Bool.and_eq_true] at hp; exact hp.1
          have hne : e.2 ≠ nm := by
            intro he; apply ht; rw [tup_of hH, he]; exact beq_self_eq_true _
          have hnmk : ¬ (e.2 = nHtml ∨ e.2 = nTable) := by
            intro hc; apply hm
            rw [tup_of hH]
            rcases hc with hc | hc <;> (rw [hc]; decide)
          simp only [tscRev, List.contains_cons, List.contains_nil, Bool.or_false]
          rw [if_neg (by simpa using hne), if_neg (by simpa using hnmk)]
          exact ih
        · rw [List.filter_cons_of_neg hp]; exact ih

/-- … and conversely -/
theorem scope_of_tscRev {nm : Str} (hnm : PN.contains nm = true) : ∀ (r : List El),
    tscRev [nm] ((r.filter prot).map (·.2)) = true → scopeRev (htmlNs, nm) [mHtml, mTable] false r = some true
  | [], h => by simp [tscRev] at h
  | e :: r, h => by
    simp only [scopeRev]
    by_cases hp : prot e = true
    · rw [List.filter_cons_of_pos hp, List.map_cons] at h
      have hH : isH e = true := by simp only [prot, Bool.and_eq_true] at hp; exact hp.1
      simp only [tscRev, List.contains_cons, List.contains_nil, Bool.or_false] at h
      by_cases hn : e.2 = nm
      · rw [if_pos (by rw [tup_of hH, hn]; exact beq_self_eq_true _)]
      · rw [if_neg (by simpa using hn)] at h
        by_cases hmk : (e.2 == nHtml || e.2 == nTable) = true
        · rw [if_pos hmk] at h; cases h
        · rw [if_neg hmk] at h
          have hne : ¬ (tup e == (htmlNs, nm)) = true := by
            intro hc; exact hn (tup_target hc).2
          have hnm' : [mHtml, mTable].contains (tup e) = false := by
            simp only [Bool.or_eq_true, beq_iff_eq, not_or] at hmk
            exact not_marker_of hmk.1 hmk.2
          rw [if_neg hne, hnm']
          simp only [bne_self_eq_false, Bool.false_eq_true, ↓reduceIte]
          exact scope_of_tscRev hnm r h
    · rw [List.filter_cons_of_neg hp] at h
      have hne : ¬ (tup e == (htmlNs, nm)) = true := by
        intro hc
        obtain ⟨hH, hn⟩ := tup_target hc
        apply hp; unfold prot; rw [hH, hn, hnm]; rfl
      have hnm' : [mHtml, mTable].contains (tup e) = false := by
        cases hc : [mHtml, mTable].contains (tup e) with
        | false => rfl
        | true =>
          exfalso
          obtain ⟨hH, hn⟩ := marker_cases hc
          apply hp; unfold prot; rw [hH]
          rcases hn with hn | hn <;> (rw [hn]; decide)
      rw [if_neg hne, hnm']
      simp only [bne_self_eq_false, Bool.false_eq_true, ↓reduceIte]
      exact scope_of_tscRev hnm r h

theorem P_reverse (s : List El) : (P s).reverse = (s.reverse.filter prot).map (·.2) := by
  unfold P; rw [← List.map_reverse, List.filter_reverse]

theorem tsc_of_inTableScope {nm : Str} (hnm : PN.contains nm = true) {s : List El}
    (h : inTableScope s nm = some true) : tsc [nm] (P s) = true := by
  unfold tsc; rw [P_reverse]; exact tscRev_of_scope hnm _ h

theorem inTableScope_of_tsc {nm : Str} (hnm : PN.contains nm = true) {s : List El}
    (h : tsc [nm] (P s) = true) : inTableScope s nm = some true := by
  unfold tsc at h; rw [P_reverse] at h; exact scope_of_tscRev hnm _ h

/-- one target among several -/
theorem tscRev_mono {a : Str} {l : List Str} (ha : l.contains a = true) : ∀ (p : List Str),
    tscRev [a] p = true → tscRev l p = true
  | [], h => by simp [tscRev] at h
  | n :: r, h => by
    simp only [tscRev, List.contains_cons, List.contains_nil, Bool.or_false] at h ⊢
    by_cases hn : (n == a) = true
    · have : n = a := by simpa using hn
      rw [this, if_pos ha]
    · rw [if_neg hn] at h
      by_cases hl : l.contains n = true
      · rw [if_pos hl]
      · rw [if_neg hl]
        by_cases hm : (n == nHtml || n == nTable) = true
        · rw [if_pos hm] at h; cases h
        · rw [if_neg hm] at h ⊢; exact tscRev_mono ha r h

/-- … and a hit for two targets is a hit for one of them -/
theorem tscRev_two {a b : Str} : ∀ (p : List Str), tscRev [a, b] p = true → tscRev [a] p = true ∨ tscRev [b] p = true
  | [], h => by simp [tscRev] at h
  | n :: r, h => by
    simp only [tscRev, List.contains_cons, List.contains_nil, Bool.or_false] at h ⊢
    by_cases ha : (n == a) = true
    · left; rw [if_pos ha]
    · by_cases hb : (n == b) = true
      · right; rw [if_pos hb]
      · rw [if_neg (by simp [ha, hb])] at h
        by_cases hm : (n == nHtml || n == nTable) = true
        · rw [if_pos hm] at h; cases h
        · rw [if_neg hm] at h
          rw [if_neg ha, if_neg hm, if_neg hb, if_neg hm]
          exact tscRev_two r h

/-- **G2 on a stack**: with the clause `CELL`, a table part in table scope comes with a cell in table scope -/
theorem cell_of_CELL {s : List El} (hc : CELL (P s) = true) {nm : Str}
    (hnm : [nTable, nTbody, nTfoot, nThead, nTr].contains nm = true) (h : inTableScope s nm = some true) :
    inTableScope s nTd = some true ∨ inTableScope s nTh = some true := by
  have hpn : PN.contains nm = true := by
    have : ∀ x ∈ [nTable, nTbody, nTfoot, nThead, nTr], PN.contains x = true := by decide
    exact this nm (by simpa using hnm)
  have h1 : tsc [nTable, nTbody, nTfoot, nThead, nTr] (P s) = true := tscRev_mono hnm _ (tsc_of_inTableScope hpn h)
  unfold CELL at hc
  rw [h1] at hc
  simp only [Bool.not_true, Bool.or_false] at hc
  rcases tscRev_two _ hc with h2 | h2
  · exact Or.inl (inTableScope_of_tsc (by decide) h2)
  · exact Or.inr (inTableScope_of_tsc (by decide) h2)

/-- **G5 on a stack** -/
theorem row_of_ROW {s : List El} (hc : ROW (P s) = true) {nm : Str}
    (hnm : [nTbody, nThead, nTfoot].contains nm = true) (h : inTableScope s nm = some true) :
    inTableScope s nTr = some true := by
  have hpn : PN.contains nm = true := by
    have : ∀ x ∈ [nTbody, nThead, nTfoot], PN.contains x = true := by decide
    exact this nm (by simpa using hnm)
  have h1 : tsc [nTbody, nThead, nTfoot] (P s) = true := tscRev_mono hnm _ (tsc_of_inTableScope hpn h)
  unfold ROW at hc
  rw [h1] at hc
  simp only [Bool.not_true, Bool.or_false] at hc
  exact inTableScope_of_tsc (by decide) hc

/-- **G1 on a stack** -/
theorem select_of_selRev (dns : Option Str) : ∀ (r : List El), selRev dns r = true →
    scopeRev (htmlNs, nSelect) [(htmlNs, nOptgroup), (htmlNs, nOption)] true r = some true
  | [], h => by simp [selRev] at h
  | e :: r, h => by
    simp only [selRev] at h
    simp only [scopeRev]
    by_cases ht : (tup e == (htmlNs, nSelect)) = true
    · rw [if_pos ht]
    · rw [if_neg ht] at h ⊢
      by_cases ho : isOpt e = true
      · rw [if_pos ho] at h
        simp only [Bool.and_eq_true] at h
        have hc : [(htmlNs, nOptgroup), (htmlNs, nOption)].contains (tup e) = true := by
          simp only [isOpt, Bool.or_eq_true] at ho
          simp only [List.contains_cons, List.contains_nil, Bool.or_false, Bool.or_eq_true]
          rcases ho with ho | ho
          · right; exact ho
          · left; exact ho
        rw [hc]
        simp only [bne_self_eq_false, Bool.false_eq_true, ↓reduceIte]
        exact select_of_selRev dns r h.2
      · rw [if_neg ho] at h; cases h

/-! ### in reachable states -/

variable {cfg : Cfg} {st : PState}

/-- **G4**: the phase register never holds `inForeignContent` (nor do the two saved phases) -/
theorem Reach_G4 (hd : depthBound ≤ cfg.dispatchDepth) (h : Reach cfg st) : PhInv st := (Reach_Inv cfg hd h).reg.ph

/-- **G3**: while `InTableTextPhase` is active, the phase it returns to is an ordinary one — not `inTableText` -/
theorem Reach_G3 (hd : depthBound ≤ cfg.dispatchDepth) (h : Reach cfg st) (hp : st.phase = some .inTableText) :
    st.tableTextOriginalPhase ≠ some .inTableText ∧ st.tableTextOriginalPhase ≠ some .text ∧
      st.tableTextOriginalPhase ≠ some .inForeignContent := by
  have := ((Reach_Inv cfg hd h).reg.tph hp).1
  exact ⟨this.2.1, this.1, this.2.2⟩

/-- … and in the `text` phase, the phase to return to is neither `text` nor `inTableText` -/
theorem Reach_G3_text (hd : depthBound ≤ cfg.dispatchDepth) (h : Reach cfg st) (hp : st.phase = some .text) :
    st.originalPhase ≠ some .text ∧ st.originalPhase ≠ some .inTableText ∧ st.originalPhase ≠ some .inForeignContent :=
  (Reach_Inv cfg hd h).reg.oph hp

/-- **G1**: in `inSelectInTable`, `elementInScope("select", variant="select")` is true -/
theorem Reach_G1 (hd : depthBound ≤ cfg.dispatchDepth) (h : Reach cfg st) (hp : st.phase = some .inSelectInTable) :
    inSelectScope (stackK st) = some true := by
  have hi := Reach_Inv cfg hd h
  have hn : NTp st.phase := by rw [hp]; decide
  have hsel := hi.sel (by rw [effP_eq_phase hn]; exact hp)
  unfold selStack at hsel
  rw [if_neg hn.1] at hsel
  exact select_of_selRev _ _ hsel

theorem Reach_G1_model (hd : depthBound ≤ cfg.dispatchDepth) (h : Reach cfg st)
    (hp : st.phase = some .inSelectInTable) :
    Tr (elementInScope nSelect (some "select")) st (fun b _ => b = true) := by
  rw [Tr_inSelectScope st (Reach_Inv cfg hd h).str]
  intro b hb
  rw [Reach_G1 hd h hp] at hb
  exact (Option.some.inj hb).symm

/-- **G2**: in `inCell`, when `table`, `tbody`, `tfoot`, `thead` or `tr` is in table scope (the test of
`InCellPhase.endTagImply`), `td` or `th` is in table scope (the tests of `closeCell`) -/
theorem Reach_G2 (hd : depthBound ≤ cfg.dispatchDepth) (h : Reach cfg st) (hp : st.phase = some .inCell) {nm : Str}
    (hnm : [nTable, nTbody, nTfoot, nThead, nTr].contains nm = true)
    (hsc : inTableScope (stackK st) nm = some true) :
    inTableScope (stackK st) nTd = some true ∨ inTableScope (stackK st) nTh = some true := by
  have hi := Reach_Inv cfg hd h
  have hn : NTp st.phase := by rw [hp]; decide
  exact cell_of_CELL (hi.pcl.1 (by rw [effP_eq_phase hn]; exact hp)) hnm hsc

/-- **G5**: in `inRow`, when `tbody`, `thead` or `tfoot` is in table scope (the test of
`InRowPhase.endTagTableRowGroup`), `tr` is in table scope (`ignoreEndTagTr` is false) -/
theorem Reach_G5 (hd : depthBound ≤ cfg.dispatchDepth) (h : Reach cfg st) (hp : st.phase = some .inRow) {nm : Str}
    (hnm : [nTbody, nThead, nTfoot].contains nm = true) (hsc : inTableScope (stackK st) nm = some true) :
    inTableScope (stackK st) nTr = some true := by
  have hi := Reach_Inv cfg hd h
  have hn : NTp st.phase := by rw [hp]; decide
  exact row_of_ROW (hi.pcl.2.1 (by rw [effP_eq_phase hn]; exact hp)) hnm hsc

/-- the stuck state of `reprocess_not_total` (S3) is not reachable -/
theorem stuckState_unreachable (hd : depthBound ≤ cfg.dispatchDepth) : ¬ Reach cfg stuckState := by
  intro h
  exact (Reach_G3 hd h rfl).1 rfl

end H5.Props.C03c
