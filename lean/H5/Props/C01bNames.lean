/-
  C01b — how the SPECIFICATION's "in body" rules classify a tag name, the sub-grammar `G1 ⊆ G0` on which the
  specification's classification agrees with html5lib's dispatch (C07b's `catOf` / `voidName`), and the lemmas that
  decide the guards of the specification's rule chains from a classification.
-/
import H5.Props.C01bEvents
set_option linter.unusedSimpArgs false
set_option linter.unusedVariables false
namespace H5.Props.C01b
open H5 H5.Spec.TC
open H5.Props.C07b (fmtName fmtNames catOf voidName Cat okNode okForest G0 headOK docTree commentOKm htmlNs)

/-- every tag name an entry of "in body" start-tag rules mentions (13.2.6.4.7; `noscript` because its rule depends on
the scripting flag): a name outside this list is handled by "any other start tag" -/
def specStartNames : List Str := strs
  ["html", "base", "basefont", "bgsound", "link", "meta", "noframes", "script", "style", "template", "title", "body",
   "frameset", "address", "article", "aside", "blockquote", "center", "details", "dialog", "dir", "div", "dl",
   "fieldset", "figcaption", "figure", "footer", "header", "hgroup", "main", "menu", "nav", "ol", "p", "section",
   "summary", "ul", "h1", "h2", "h3", "h4", "h5", "h6", "pre", "listing", "form", "li", "dd", "dt", "plaintext",
   "button", "a", "b", "big", "code", "em", "font", "i", "s", "small", "strike", "strong", "tt", "u", "nobr", "applet",
   "marquee", "object", "table", "area", "br", "embed", "img", "keygen", "wbr", "input", "param", "source", "track",
   "hr", "image", "textarea", "xmp", "iframe", "noembed", "noscript", "select", "optgroup", "option", "rb", "rtc", "rp",
   "rt", "math", "svg", "caption", "col", "colgroup", "frame", "head", "tbody", "td", "tfoot", "th", "thead", "tr"]

/-- every tag name an entry of the "in body" end-tag rules mentions: a name outside is "any other end tag" -/
def specEndNames : List Str := strs
  ["template", "body", "html", "address", "article", "aside", "blockquote", "button", "center", "details", "dialog",
   "dir", "div", "dl", "fieldset", "figcaption", "figure", "footer", "header", "hgroup", "listing", "main", "menu",
   "nav", "ol", "pre", "section", "summary", "ul", "form", "p", "li", "dd", "dt", "h1", "h2", "h3", "h4", "h5", "h6",
   "a", "b", "big", "code", "em", "font", "i", "nobr", "s", "small", "strike", "strong", "tt", "u", "applet", "marquee",
   "object", "br"]

/-- "any other start tag" and "any other end tag" -/
def specOrdinary (nm : Str) : Bool := !among nm specStartNames && !among nm specEndNames

/-- the elements whose start tag closes a `p` and whose end tag is in the block list (without `p`, `pre`, `listing`,
`button`, `dialog`) -/
def specBlock : List Str := strs
  ["address", "article", "aside", "blockquote", "center", "details", "dir", "div", "dl", "fieldset", "figcaption",
   "figure", "footer", "header", "hgroup", "main", "menu", "nav", "ol", "section", "summary", "ul"]

def specVoidA : List Str := strs ["area", "br", "embed", "img", "wbr"]
def specVoidB : List Str := strs ["param", "source", "track"]
def specFmtB : List Str := strs ["b", "big", "code", "em", "font", "i", "s", "small", "strike", "strong", "tt", "u"]
def specHeadings : List Str := strs ["h1", "h2", "h3", "h4", "h5", "h6"]

/-- the specification classifies the element name as html5lib's dispatch tables do -/
def specAgrees (nm : Str) : Bool :=
  if voidName nm then among nm specVoidA || among nm specVoidB || nm == lit "hr"
  else match catOf nm with
    | some .ordinary => specOrdinary nm
    | some .block => among nm specBlock
    | _ => true

mutual
def specNode : Tree → Bool
  | .elem _ nm _ cs => specAgrees nm && specForest cs
  | _ => true
def specForest : List Tree → Bool
  | [] => true
  | t :: rest => specNode t && specForest rest
end

/-- **the sub-grammar**: the documents of `G0` all of whose element names the specification classifies like html5lib
(this excludes `template`, `rb`, `rtc`, which html5lib treats as ordinary elements) -/
def G1 : Tree → Bool
  | .doc [d, .elem ns1 h a1 [hd, .elem ns3 b a3 cs]] =>
    G0 (.doc [d, .elem ns1 h a1 [hd, .elem ns3 b a3 cs]]) && specForest cs
  | _ => false

/-! ### deciding the guards -/

theorem among_disjoint {nm : Str} {K L : List Str} (hK : among nm K = true)
    (hd : K.all (fun x => !L.contains x) = true) : among nm L = false := by
  unfold among at *
  rw [List.all_eq_true] at hd
  have hm : nm ∈ K := by simpa using hK
  have := hd nm hm
  simpa using this

theorem among_sub {nm : Str} {K L : List Str} (hK : among nm K = true)
    (hs : K.all (fun x => L.contains x) = true) : among nm L = true := by
  unfold among at *
  rw [List.all_eq_true] at hs
  have hm : nm ∈ K := by simpa using hK
  exact hs nm hm

theorem beq_disjoint {nm : Str} {K : List Str} (x : Str) (hK : among nm K = true) (hd : (!K.contains x) = true) :
    (nm == x) = false := by
  unfold among at hK
  have hm : nm ∈ K := by simpa using hK
  have hx : x ∉ K := by simpa using hd
  have : nm ≠ x := fun h => hx (h ▸ hm)
  simpa using this

theorem among_notin {nm : Str} {B L : List Str} (hB : among nm B = false)
    (hs : L.all (fun x => B.contains x) = true) : among nm L = false := by
  unfold among at *
  rw [List.all_eq_true] at hs
  have hm : nm ∉ B := by simpa using hB
  have : nm ∉ L := fun h => hm (by simpa using hs nm h)
  simpa using this

theorem beq_notin {nm : Str} {B : List Str} (x : Str) (hB : among nm B = false) (hx : B.contains x = true) :
    (nm == x) = false := by
  unfold among at hB
  have hm : nm ∉ B := by simpa using hB
  have hx' : x ∈ B := by simpa using hx
  have : nm ≠ x := fun h => hm (h ▸ hx')
  simpa using this

theorem among_singleton (nm : Str) : among nm [nm] = true := by simp [among]

end H5.Props.C01b
