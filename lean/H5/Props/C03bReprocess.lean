/-
  C03 fuel part, level 3 — the `while new_token is not None` loop of `mainLoop` (`reprocessLoop`).

  RESULT: `reprocess_total` (for every state, fuel 512 suffices) is FALSE, in the model and in html5lib:
  `reprocess_not_total` below exhibits a state (satisfying the invariant `PhInv` used for levels 1/2/4) from which
  the model loop exhausts EVERY fuel, and `tools_c03b/replay_states.py` shows the real `mainLoop` spinning forever
  (growing `parser.errors` without bound) from six preset states.  None of the states is produced by parsing: a
  targeted random search (`tools_c03b/search_states.py`, 200 000 documents/fragments, state predicate tested after
  every token) never reaches one, and the arguments below say why.  Termination of the loop is therefore a
  REACHABILITY property of the open-element stack, not a property of the handlers; what is proved here is
  `reprocessLoop_trx` (C03bTop): the loop can only fail with its own fuel error.

  The reprocess graph (every handler that executes `return token`; "pop" = `len(openElements)` strictly decreases):

    initial        chars/start/end            → beforeHtml
    beforeHtml     chars/start/end(head,body,html,br) → beforeHead           (push html)
    beforeHead     chars/start other/end(head,body,html,br) → inHead         (push head)
    inHead         chars/start other/end(html,body,br) → afterHead           (pop head;  assert name == "head")
    inHeadNoscript chars/start other/end(br)  → inHead                       (pop noscript; assert)
    afterHead      chars/start other/end(html,body,br) → inBody              (push body)
    inBody         (<button> with a button in scope no longer hands the token back: repo fix 6523d65)
    inBody         </html> with body in scope → afterBody                    (otherwise the token is dropped)
    afterBody      chars / start other / end other → inBody;  afterAfterBody likewise
    inTable        <col> → inColumnGroup (push colgroup);  <td>/<th>/<tr> → inTableBody (push tbody)
    inTable        <table> → self.parser.phase.processEndTag(</table>); returned only if not innerHTML:
                   then the assert of the `else` branch guarantees a pop + resetInsertionMode
    inTableText    comment/start/end → InTableTextPhase.originalPhase        (GUARD G3: ≠ inTableText)
    inCaption      caption…tr start, </table> → inTable, pop                 (returned only if caption in table scope)
    inColumnGroup  chars / start other / end other → inTable, pop            (returned only if current node ≠ html)
    inTableBody    <td>/<th> → inRow (push tr);  caption…thead start, </table> → inTable, pop (guard: tbody|thead|
                   tfoot in table scope;  since the repair of `clearStackToTableBodyContext` the pop hits an HTML
                   element — before it, `<table><tbody><svg><thead></table>` stopped at the SVG `thead` and
                   `endTagTableRowGroup` refused it: same state forever, the cycle inTableBody → inTableBody)
    inRow          caption…tr start, </table> → inTableBody, pop             (returned only if tr in table scope)
    inRow          </tbody>,</tfoot>,</thead> in table scope → `endTagTr`, token returned UNCONDITIONALLY
                                                                             (GUARD G5: tr in table scope)
    inCell         caption…tr start → inRow, pop                             (returned only if td|th in table scope)
    inCell         </table>,</tbody>,</tfoot>,</thead>,</tr> in table scope → `closeCell`, returned UNCONDITIONALLY
                                                                             (GUARD G2: td|th in table scope)
    inSelect       <input>/<keygen>/<textarea> → pop select, resetInsertionMode (returned only if select in select scope)
    inSelectInTable caption…th start → `endTagOther(</select>)`, returned UNCONDITIONALLY
                   caption…th end in table scope → same                      (GUARD G1: select in select scope)
    inForeignContent breakout start tag → pop (the current node is foreign and no integration point, else mainLoop
                   would have used self.phase);  end tag → self.parser.phase.processEndTag, whatever that returns
                                                                             (GUARD G4: self.phase ≠ inForeignContent)

  Mode cycles and what breaks them:
    inBody ⇄ afterBody        : token class (only </html> goes inBody → afterBody, and afterBody consumes </html>)
    inTable → … → inTable     : every round pops (`<table>` inside inRow: inRow → inTableBody → inTable → reset)
    inSelect → reset → inSelect, inTable → reset → inTable : a pop per round
    inTableBody → inTableBody : (repaired) namespace test in `clearStackToTableBodyContext`
    G1, G2, G3, G5            : NOT checked by the handler; they hold in reachable states because
       G1  inSelectInTable is only entered by `InBodyPhase.startTagSelect` right after pushing `select`, and in that
           phase only option/optgroup are pushed above it (script: phase text; everything else is ignored)
       G2  inCell is entered by pushing td/th or by resetInsertionMode finding td/th (or a td/th container at the
           bottom, where no table/tbody/tr can be in table scope below it)
       G3  `enterInTableText` runs in `InTablePhase.process(Space)Characters`, reached from inTable/inTableBody/inRow
       G5  like G2 for tr
    G4 is the invariant `PhInv` proved for all handlers (level 2).
-/
import H5.Props.C03bTop
set_option linter.unusedSimpArgs false
set_option linter.unusedVariables false
namespace H5.Props.C03b
open H5 H5.Model H5.Model.TB H5.Model.Dom

/-! ### a stuck state, formally -/

theorem resolve_itt_comment :
    resolveMethod .inTableText "processComment" = .ok "InTableTextPhase.processComment" := by decide

theorem runPlain_itt_comment (r : Rec) (tok : Token) :
    runProcessPlain r "InTableTextPhase.processComment" tok = InTableText_processComment r tok := by
  delta runProcessPlain
  delta runProcessPlain.match_1
  repeat (first | rw [dif_pos rfl] | rw [dif_neg (by decide)])

theorem runProcess_itt_comment (r : Rec) (tok : Token) :
    runProcess r .inTableText "processComment" tok = InTableText_processComment r tok := by
  unfold runProcess
  rw [resolve_itt_comment]
  show (match "InTableTextPhase.processComment" with
    | "Phase.processStartTag" => Phase_processStartTag r .inTableText tok
    | "Phase.processEndTag" => Phase_processEndTag r .inTableText tok
    | "InBodyPhase.<slot>" =>
      if "processComment" == "processSpaceCharacters" then InBody_processSpaceCharacters tok
      else throw (PyErr.lookupError ("no-model-for-slot:" ++ "processComment"))
    | _ => runProcessPlain r "InTableTextPhase.processComment" tok) = _
  rw [← runPlain_itt_comment]
  split
  · rename_i h; exact absurd h (by decide)
  · rename_i h; exact absurd h (by decide)
  · rename_i h; exact absurd h (by decide)
  · rfl

/-- a state in which `InTableTextPhase` has saved ITSELF as the phase to return to (violates guard G3) -/
def stuckState : PState :=
  { cfg := {}, arena := Arena.empty, document := 0, phase := some .inTableText,
    tableTextOriginalPhase := some .inTableText }

theorem stuckState_PhInv : PhInv stuckState := ⟨by decide, by decide, by decide⟩

/-- one round: `InTableTextPhase.processComment` flushes nothing, "restores" the phase and returns the token:
the state is unchanged -/
theorem stuck_step (r : Rec) :
    (InTableText_processComment r (.comment [])).run stuckState = .ok (some (.comment []), stuckState) := rfl

/-- **`reprocess_not_total`**: from `stuckState` the reprocess loop exhausts every fuel, with any dispatch depth
`≥ 1` — so no statement of the form "∀ st, fuel f(st) suffices" holds, with or without `PhInv`. -/
theorem reprocess_not_total (n : Nat) : ∀ fuel,
    (reprocessLoop (mkRec (n + 1)) fuel (.comment [])).run stuckState =
      .error (.outOfFuel "HTMLParser.mainLoop:reprocess") := by
  intro fuel
  induction fuel with
  | zero => rfl
  | succ fuel ih =>
    have h1 : (useCurrentPhase (.comment [])).run stuckState = .ok (true, stuckState) := rfl
    have h2 : (curPhase "HTMLParser.mainLoop").run stuckState = .ok (.inTableText, stuckState) := rfl
    have h3 : ((mkRec (n + 1)).processComment .inTableText (.comment [])).run stuckState =
        .ok (some (.comment []), stuckState) := by
      show (runProcess (mkRec n) .inTableText "processComment" (.comment [])).run stuckState = _
      rw [runProcess_itt_comment]
      exact stuck_step _
    unfold reprocessLoop
    simp only [StateT.run_bind, h1, ok_bind, ↓reduceIte, h2, h3, ih]

/-- with the driver's defaults (depth 48, fuel 512) -/
theorem reprocess_stuck_default :
    (reprocessLoop (mkRec 48) 512 (.comment [])).run stuckState =
      .error (.outOfFuel "HTMLParser.mainLoop:reprocess") := reprocess_not_total 47 512

/-! ### what a termination proof has to provide -/

/-- One round of the loop from `(st, tok)`: the phase that `mainLoop` selects handles the token; `none` = consumed. -/
def reprocessRound (r : Rec) (tok : Token) : M (Option Token) := do
  let own ← useCurrentPhase tok
  let phase ← (if own then curPhase "HTMLParser.mainLoop" else pure .inForeignContent : M Phase)
  match tok with
  | .chars _ => r.processCharacters phase tok
  | .space _ => r.processSpaceCharacters phase tok
  | .startTag _ => r.processStartTag phase tok
  | .endTag _ => r.processEndTag phase tok
  | .comment _ => r.processComment phase tok
  | .doctype .. => r.processDoctype phase tok

theorem reprocessLoop_succ (r : Rec) (fuel : Nat) (tok : Token) (st : PState) :
    (reprocessLoop r (fuel + 1) tok).run st =
      ((reprocessRound r tok).run st >>= fun p =>
        (match p.1 with
          | none => pure ()
          | some t => reprocessLoop r fuel t : M Unit).run p.2) := by
  conv => lhs; unfold reprocessLoop
  unfold reprocessRound
  simp only [StateT.run_bind, bind_assoc]
  rfl

/-- **`reprocess_total_of_measure`** (the reduction): if on a set `G` of states closed under rounds every round that
returns a token strictly decreases a measure `μ`, then with fuel `> μ st tok` the loop never fails with its own
fuel error: every error it returns is the error of one of its rounds (and those are never fuel errors, by
`mkRec_total`).  `G` has to exclude the stuck states, i.e. it must imply the guards G1–G5 of the header. -/
theorem reprocess_total_of_measure (r : Rec) (G : PState → Prop) (μ : PState → Token → Nat)
    (hround : ∀ st tok, G st → ∀ st' tok', (reprocessRound r tok).run st = .ok (some tok', st') →
      G st' ∧ μ st' tok' < μ st tok) :
    ∀ fuel st tok, G st → μ st tok < fuel → ∀ e, (reprocessLoop r fuel tok).run st = .error e →
      ∃ st1 tok1, G st1 ∧ (reprocessRound r tok1).run st1 = .error e := by
  intro fuel
  induction fuel with
  | zero => intro st tok hg h; omega
  | succ fuel ih =>
    intro st tok hg h e he
    rw [reprocessLoop_succ] at he
    cases hr : (reprocessRound r tok).run st with
    | error e' =>
      rw [hr] at he
      simp only [error_bind] at he
      cases he
      exact ⟨st, tok, hg, hr⟩
    | ok p =>
      obtain ⟨nt, st'⟩ := p
      rw [hr] at he
      simp only [ok_bind] at he
      cases nt with
      | none => cases he
      | some t =>
        obtain ⟨hg', hμ⟩ := hround st tok hg st' t hr
        exact ih st' t hg' (by omega) e he

end H5.Props.C03b
