/-
  Table obligations of C09 that no other module imports.  Which attributes are URI-valued, may carry `url()` references, or
  must keep only local references is a fact about browsers; the sets below are the tables of the pinned commit.  An entry
  dropped or re-keyed in the library (round-6 seed C09-6: `(xml, base)` became `(xlink, base)`) breaks this obligation; the
  harness then searches with the same pinned sets in its oracle.
-/
import H5.Gen.Sanitizer
namespace H5.Props.C09Tables
open H5 H5.Gen.San

/-- action background cite datasrc dynsrc href longdesc lowsrc ping poster src, xlink:href, xml:base -/
def uriValuedPinned : List (Option Str × Str) := [(none, [97, 99, 116, 105, 111, 110]), (none, [98, 97, 99, 107, 103, 114, 111, 117, 110, 100]), (none, [99, 105, 116, 101]), (none, [100, 97, 116, 97, 115, 114, 99]), (none, [100, 121, 110, 115, 114, 99]), (none, [104, 114, 101, 102]), (none, [108, 111, 110, 103, 100, 101, 115, 99]), (none, [108, 111, 119, 115, 114, 99]), (none, [112, 105, 110, 103]), (none, [112, 111, 115, 116, 101, 114]), (none, [115, 114, 99]), (some [104, 116, 116, 112, 58, 47, 47, 119, 119, 119, 46, 119, 51, 46, 111, 114, 103, 47, 49, 57, 57, 57, 47, 120, 108, 105, 110, 107], [104, 114, 101, 102]), (some [104, 116, 116, 112, 58, 47, 47, 119, 119, 119, 46, 119, 51, 46, 111, 114, 103, 47, 88, 77, 76, 47, 49, 57, 57, 56, 47, 110, 97, 109, 101, 115, 112, 97, 99, 101], [98, 97, 115, 101])]

/-- clip-path color-profile cursor fill filter marker marker-end marker-mid marker-start mask stroke -/
def svgRefPinned : List (Option Str × Str) := [(none, [99, 108, 105, 112, 45, 112, 97, 116, 104]), (none, [99, 111, 108, 111, 114, 45, 112, 114, 111, 102, 105, 108, 101]), (none, [99, 117, 114, 115, 111, 114]), (none, [102, 105, 108, 108]), (none, [102, 105, 108, 116, 101, 114]), (none, [109, 97, 114, 107, 101, 114]), (none, [109, 97, 114, 107, 101, 114, 45, 101, 110, 100]), (none, [109, 97, 114, 107, 101, 114, 45, 109, 105, 100]), (none, [109, 97, 114, 107, 101, 114, 45, 115, 116, 97, 114, 116]), (none, [109, 97, 115, 107]), (none, [115, 116, 114, 111, 107, 101])]

/-- altGlyph animate animateColor animateMotion animateTransform cursor feImage filter linearGradient pattern
radialGradient set textpath tref use -/
def svgLocalHrefPinned : List (Option Str × Str) := [(none, [97, 108, 116, 71, 108, 121, 112, 104]), (none, [97, 110, 105, 109, 97, 116, 101]), (none, [97, 110, 105, 109, 97, 116, 101, 67, 111, 108, 111, 114]), (none, [97, 110, 105, 109, 97, 116, 101, 77, 111, 116, 105, 111, 110]), (none, [97, 110, 105, 109, 97, 116, 101, 84, 114, 97, 110, 115, 102, 111, 114, 109]), (none, [99, 117, 114, 115, 111, 114]), (none, [102, 101, 73, 109, 97, 103, 101]), (none, [102, 105, 108, 116, 101, 114]), (none, [108, 105, 110, 101, 97, 114, 71, 114, 97, 100, 105, 101, 110, 116]), (none, [112, 97, 116, 116, 101, 114, 110]), (none, [114, 97, 100, 105, 97, 108, 71, 114, 97, 100, 105, 101, 110, 116]), (none, [115, 101, 116]), (none, [116, 101, 120, 116, 112, 97, 116, 104]), (none, [116, 114, 101, 102]), (none, [117, 115, 101])]

/-- every pinned URI-valued attribute is scheme-checked by the default configuration -/
theorem C09_uri_table : uriValuedPinned.all attrValIsUri.elem = true := by decide +kernel

/-- every pinned reference-carrying SVG attribute has its non-local `url()` values removed by the default configuration -/
theorem C09_svg_ref_table : svgRefPinned.all svgAttrValAllowsRef.elem = true := by decide +kernel

/-- every pinned local-href-only SVG element is on the default list -/
theorem C09_svg_local_href_table : svgLocalHrefPinned.all svgAllowLocalHref.elem = true := by decide +kernel

end H5.Props.C09Tables
