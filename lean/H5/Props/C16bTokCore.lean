/-
  Property C16b, tokenizer part — the tokenizer never fails with the Python exception `ParseError`
  (`PyErr.parseError`, raised only by the tree builder in strict mode; NOT the `ParseError` *token*
  `TTok.parseError`, which the tokenizer queues all the time).

  This file: the predicate `NP e` (`e` is not `PyErr.parseError _`), the post-condition `PostP x` (`x` is `.ok _` or an
  error with `NP`), the type class `PP x` carrying `PostP x`, its structural instances (`pure`, `Except.ok`,
  `bind`, `ite`, every other `Except.error` constructor, `throw`), the tactic `pp_auto`, and the instances for the
  Python idioms / character-reference functions of `H5.Model.CharRef`.
-/
import H5.Model.Tokenizer
set_option linter.unusedSimpArgs false
set_option linter.unusedVariables false
namespace H5.Props.C16b
open H5 H5.Gen H5.Model H5.Model.Tokenizer

/-- `e` is not the Python exception `ParseError` -/
def NP (e : PyErr) : Prop := ∀ c, e ≠ .parseError c

/-- `x` is `.ok _`, or an error that is not `ParseError` -/
def PostP {α : Type} (x : Except PyErr α) : Prop :=
  match x with
  | .ok _ => True
  | .error e => NP e

theorem PostP_ok {α : Type} (a : α) : PostP (Except.ok a : Except PyErr α) := trivial
theorem PostP_error {α : Type} (e : PyErr) : PostP (Except.error e : Except PyErr α) ↔ NP e := Iff.rfl

theorem PostP_bind {α β : Type} {x : Except PyErr α} {f : α → Except PyErr β}
    (hx : PostP x) (hf : ∀ a, PostP (f a)) : PostP (x >>= f) := by
  cases x with
  | ok a => exact hf a
  | error e => exact hx

/-- what `PostP` is for: the result is not `.error (.parseError c)` -/
theorem PostP_ne {α : Type} {x : Except PyErr α} (h : PostP x) (c : Str) : x ≠ .error (.parseError c) := by
  intro hx
  subst hx
  exact h c rfl

/-- errors that are visibly not `ParseError` (one instance per other constructor) -/
class NPC (e : PyErr) : Prop where
  out : NP e

instance NPC_typeError (s) : NPC (.typeError s) := ⟨fun _ h => by cases h⟩
instance NPC_keyError (s) : NPC (.keyError s) := ⟨fun _ h => by cases h⟩
instance NPC_indexError (s) : NPC (.indexError s) := ⟨fun _ h => by cases h⟩
instance NPC_assertFail (s) : NPC (.assertFail s) := ⟨fun _ h => by cases h⟩
instance NPC_valueError (s) : NPC (.valueError s) := ⟨fun _ h => by cases h⟩
instance NPC_recursion (s) : NPC (.recursion s) := ⟨fun _ h => by cases h⟩
instance NPC_outOfFuel (s) : NPC (.outOfFuel s) := ⟨fun _ h => by cases h⟩
instance NPC_unicodeEncode (s) : NPC (.unicodeEncode s) := ⟨fun _ h => by cases h⟩
instance NPC_lookupError (s) : NPC (.lookupError s) := ⟨fun _ h => by cases h⟩
instance NPC_attributeError (s) : NPC (.attributeError s) := ⟨fun _ h => by cases h⟩

/-- `x : Except PyErr α` never is `.error (.parseError _)` -/
class PP {α : Type} (x : Except PyErr α) : Prop where
  out : PostP x

instance PP_ok {α : Type} (a : α) : PP (Except.ok a : Except PyErr α) := ⟨trivial⟩
instance PP_pure {α : Type} (a : α) : PP (pure a : Except PyErr α) := ⟨trivial⟩
instance PP_bind {α β : Type} (x : Except PyErr α) (f : α → Except PyErr β) [h1 : PP x] [h2 : ∀ a, PP (f a)] :
    PP (x >>= f) := ⟨PostP_bind h1.out (fun a => (h2 a).out)⟩
instance PP_ite {α : Type} (c : Prop) [Decidable c] (a b : Except PyErr α) [h1 : PP a] [h2 : PP b] :
    PP (if c then a else b) := by split <;> assumption
instance PP_error {α : Type} (e : PyErr) [h : NPC e] : PP (Except.error e : Except PyErr α) := ⟨h.out⟩
instance PP_throw {α : Type} (e : PyErr) [h : NPC e] : PP (throw e : Except PyErr α) := ⟨h.out⟩

/-- re-raising an exception that a `PP` computation raised (`match x with … | .error e => .error e`) -/
theorem PP_error_of_eq {α β : Type} {x : Except PyErr α} {e : PyErr} (h : x = .error e) [hx : PP x] :
    PP (Except.error e : Except PyErr β) := by
  have := hx.out
  rw [h] at this
  exact ⟨this⟩

theorem PP_throw_of_eq {α β : Type} {x : Except PyErr α} {e : PyErr} (h : x = .error e) [hx : PP x] :
    PP (throw e : Except PyErr β) := PP_error_of_eq h

/-- one structural step: a known instance, or decompose a bind / `if` / `match` -/
macro "pp_step" : tactic => `(tactic| first
  | infer_instance
  | assumption
  | (exact PP_error_of_eq (by assumption))
  | (exact PP_throw_of_eq (by assumption))
  | (with_reducible refine @PP_bind _ _ _ _ ?_ ?_)
  | (intro _)
  | split
  | (dsimp only))
macro "pp_auto" : tactic => `(tactic| repeat' pp_step)

/-! ### Python idioms (`H5.Model.CharRef`) -/

instance PP_nonEOF (c) : PP (nonEOF c) := by unfold nonEOF; pp_auto

instance PP_joinChars (cs) : PP (joinChars cs) := by
  induction cs with
  | nil => unfold joinChars; pp_auto
  | cons c r ih =>
    cases c with
    | none => unfold joinChars; pp_auto
    | some c => unfold joinChars; pp_auto

instance PP_entityValue (t k) : PP (entityValue t k) := by unfold entityValue; pp_auto

instance PP_longestPrefixFrom (t p n) : PP (longestPrefixFrom t p n) := by
  induction n with
  | zero => unfold longestPrefixFrom; pp_auto
  | succ n ih => unfold longestPrefixFrom; pp_auto

instance PP_longestPrefix (t p) : PP (longestPrefix t p) := by unfold longestPrefix; pp_auto

instance PP_pyIntDigits (radix s acc) : PP (pyIntDigits radix s acc) := by
  induction s generalizing acc with
  | nil => unfold pyIntDigits; pp_auto
  | cons c r ih => unfold pyIntDigits; pp_auto

instance PP_pyInt (s r) : PP (pyInt s r) := by unfold pyInt; pp_auto

instance PP_consumeNumberEntity (h i) : PP (consumeNumberEntity h i) := by
  unfold consumeNumberEntity; pp_auto

instance PP_extendWhilePrefix (t i cs) : PP (extendWhilePrefix t i cs) := by
  induction i generalizing cs with
  | nil => unfold extendWhilePrefix; pp_auto
  | cons c r ih => unfold extendWhilePrefix; pp_auto

instance PP_charStackGet (cs i) : PP (charStackGet cs i) := by unfold charStackGet; pp_auto
instance PP_charStackLast (cs) : PP (charStackLast cs) := by unfold charStackLast; pp_auto

instance PP_consumeNamedEntity (t fa c0 i) : PP (consumeNamedEntity t fa c0 i) := by
  unfold consumeNamedEntity; pp_auto

instance PP_consumeEntityCore (ac fa i) : PP (consumeEntityCore ac fa i) := by
  unfold consumeEntityCore; pp_auto

end H5.Props.C16b
