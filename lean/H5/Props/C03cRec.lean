/-
  C03c — what may be assumed about the phase register when `phases[ph].<method>` is entered (`entryK`), what the nested
  dispatcher provides (`RecInv r n`: every entry point of rank `< n` preserves `Inv` from the states it can be entered in),
  and the tactics `pn_auto` / `pk_auto` that derive the specification of a handler from those of its parts.
-/
import H5.Props.C03cStack
set_option linter.unusedSimpArgs false
set_option linter.unusedVariables false
namespace H5.Props.C03c
open H5 H5.Model H5.Model.TB H5.Model.Dom
open H5.Props.C02c (NF Post Post_bind Post_mono Post_pure Post_ok Post_error Post_throw Post_ite
  NF_typeError NF_keyError NF_indexError NF_assertFail NF_valueError NF_lookupError)
open H5.Props.C03b

/-- kinds of assumptions on the phase register -/
inductive PreK where
  | nt      -- an ordinary phase
  | ntp     -- not `text`, `inTableText` (may be a select phase)
  | text | tt | sel | selT
  | fgn     -- the current node is not in the default namespace (`mainLoop` chose `InForeignContentPhase`)
  | at (p : Phase)   -- the phase register holds `p` (the handlers of the phases around `head`)
  | ne      -- an ordinary phase or one of the phases around `head`
  | any
  deriving DecidableEq, Repr

def PreK.holds : PreK → PState → Prop
  | .nt, st => NT st
  | .ntp, st => NTp st.phase
  | .text, st => st.phase = some .text
  | .tt, st => st.phase = some .inTableText
  | .sel, st => st.phase = some .inSelect ∨ st.phase = some .inSelectInTable
  | .selT, st => st.phase = some .inSelectInTable
  | .fgn, st => ∃ e, (stackK st).getLast? = some e ∧ e.1 ≠ dnsOf st
  | .at p, st => st.phase = some p
  | .ne, st => NTp st.phase ∧ NSel st.phase
  | .any, _ => True

/-- `a.le b` : `a` implies `b` -/
def PreK.le : PreK → PreK → Bool
  | _, .any => true
  | .nt, .nt | .nt, .ntp | .ntp, .ntp | .sel, .ntp | .selT, .ntp | .sel, .sel | .selT, .sel | .selT, .selT
  | .text, .text | .tt, .tt | .fgn, .fgn | .nt, .ne | .ne, .ne | .ne, .ntp => true
  | .at p, .at q => p == q
  | .at p, .ne => p == .inHead || p == .inHeadNoscript || p == .afterHead || p == .inTableBody || p == .inFrameset
  | .at p, .ntp => p == .inHead || p == .inHeadNoscript || p == .afterHead || p == .inTableBody || p == .inFrameset
  | .at p, .nt => p == .inTableBody || p == .inFrameset
  | _, _ => false

theorem NTpSel_of_headish {p : Phase}
    (h : (p == .inHead || p == .inHeadNoscript || p == .afterHead || p == .inTableBody || p == .inFrameset) = true)
    {st : PState} (ha : st.phase = some p) : NTp st.phase ∧ NSel st.phase := by
  simp only [Bool.or_eq_true, beq_iff_eq] at h
  rw [ha]
  rcases h with (((h | h) | h) | h) | h <;> subst h <;> decide

theorem NT_of_at {p : Phase} (h : (p == .inTableBody || p == .inFrameset) = true) {st : PState}
    (ha : st.phase = some p) : NT st := by
  simp only [Bool.or_eq_true, beq_iff_eq] at h
  unfold NT; rw [ha]
  rcases h with h | h <;> subst h <;> decide

theorem PreK.holds_of_le {a b : PreK} (h : a.le b = true) {st : PState} (ha : a.holds st) : b.holds st := by
  cases a <;> cases b <;> simp only [PreK.le] at h <;> simp only [PreK.holds] at ha ⊢ <;>
    first
    | exact ha
    | exact ha.1
    | exact ⟨ha.1, ha.2.1⟩
    | exact Or.inr ha
    | trivial
    | (rcases ha with h1 | h1 <;> (unfold NTp; rw [h1]; decide))
    | (unfold NTp; rw [ha]; decide)
    | (rw [ha]; rw [beq_iff_eq.1 h])
    | exact NTpSel_of_headish h ha
    | exact (NTpSel_of_headish h ha).1
    | exact NT_of_at h ha
    | (cases h; done)

/-- the register when `phases[ph]` is entered: handlers of the four special phases only run in "their" phase (the
select handlers also for `inSelectInTable`), `InForeignContentPhase` in any, all others in an ordinary phase — except
`InHeadPhase.startTagScript` (from `InSelectPhase.startTagScript`) and `InBodyPhase.processCharacters` (from
`InTableTextPhase.flushCharacters`), which have entries of their own in `RecInv` -/
def entryK : Phase → PreK
  | .text => .text
  | .inTableText => .tt
  | .inSelect => .sel
  | .inSelectInTable => .selT
  | .inForeignContent => .fgn
  | .inHead => .at .inHead
  | .inHeadNoscript => .at .inHeadNoscript
  | .afterHead => .at .afterHead
  | .inTableBody => .at .inTableBody
  | .inFrameset => .at .inFrameset
  | _ => .nt

/-- the dispatch `self.parser.phase.<method>` is always allowed -/
theorem entryK_cur {st : PState} {ph : Phase} (hi : Inv st) (h : st.phase = some ph) : (entryK ph).holds st := by
  have hf := hi.reg.ph.1
  cases ph <;> simp only [entryK, PreK.holds, NT, NTp, NSel, headish, h] <;>
    first | trivial | (simp; done) | (rw [h] at hf; simp at hf) | decide

def nmScript : Str := lit "script"

/-- a token as the tokenizer / `impliedTagToken` make it: without a `namespace` key -/
def NsNone : Token → Prop
  | .startTag d => d.ns = none
  | .endTag d => d.ns = none
  | _ => True

theorem tag_ns {tok : Token} {site : String} {d : TagData} (h : tok.tag site = .ok d) (hn : NsNone tok) : d.ns = none := by
  cases tok <;> simp only [Token.tag] at h <;> first | (cases h; exact hn) | cases h

theorem tag_name {tok : Token} {site : String} {d : TagData} (h : tok.tag site = .ok d) : d.name = tokName tok := by
  cases tok <;> simp only [Token.tag] at h <;> first | (cases h; rfl) | cases h

theorem NsNone_impliedStart (n a s) : NsNone (impliedStart n a s) := rfl
theorem NsNone_impliedEnd (n) : NsNone (impliedEnd n) := rfl
theorem NsNone_impliedEndS (n) : NsNone (impliedEndS n) := rfl

/-- the token's name is not one of the protected names -/
def notPN (tok : Token) : Prop := PN.contains (tokName tok) = false

/-- the token is not named `head` -/
def notHead (tok : Token) : Prop := tokName tok ≠ nHead

/-- end tags with a protected name reach `InBodyPhase` only when it is the current phase (`InBodyPhase.endTagOther`
pops whatever has the name of the token) -/
def CE (ph : Phase) (tok : Token) (st : PState) : Prop :=
  ph = .inBody → PN.contains (tokName tok) = true → st.phase = some .inBody

theorem CE_of_notPN {ph tok st} (h : notPN tok) : CE ph tok st := by
  intro _ h'; unfold notPN at h; rw [h] at h'; cases h'
theorem CE_of_ne {ph tok st} (h : ph ≠ .inBody) : CE ph tok st := fun h' => absurd h' h
theorem CE_of_phase {ph tok st} (h : st.phase = some ph) : CE ph tok st := by
  intro h' _; rw [h, h']

/-- the names of the end tags that `InBodyPhase.startTagListItem` / `startTagOpt` imply -/
def impliedNames : List Str := [lit "li", lit "dd", lit "dt", lit "p", lit "option"]

/-- an ordinary phase (as a dispatch target) -/
def ordinary (ph : Phase) : Prop := entryK ph = .nt
instance (ph : Phase) : Decidable (ordinary ph) := by unfold ordinary; infer_instance

/-- the start tags that other phases hand to `InHeadPhase` -/
def headLeaf : List Str := [lit "base", lit "basefont", lit "bgsound", lit "command", lit "link", lit "meta",
  lit "noframes", lit "script", lit "style", lit "title"]

/-- the state in which `AfterHeadPhase.startTagFromHead` calls `InHeadPhase.processStartTag`: the phase is `afterHead`,
the `head` element has just been pushed back -/
def FHpre (st : PState) (old : List NodeId) (h : NodeId) : Prop :=
  ST st ∧ REG st ∧ st.phase = some .afterHead ∧ st.openElements = old ++ [h] ∧ st.headPointer = some h ∧ h ∉ old ∧
    old ≠ []

/-- … and the state after it: unchanged up to the arena, or in the `text` phase with one more element -/
def FHpost (st' : PState) (old : List NodeId) (h : NodeId) : Prop :=
  ST st' ∧ REG st' ∧ st'.headPointer = some h ∧ h ∉ old ∧ old ≠ [] ∧
    ((st'.phase = some .afterHead ∧ st'.openElements = old ++ [h]) ∨
     (st'.phase = some .text ∧ st'.originalPhase = some .afterHead ∧ ∃ t, st'.openElements = old ++ [h, t] ∧
        txtOK (dnsOf st') (elemK st'.arena t) ∧ t ≠ h))

structure RecInv (r : Rec) (n : Nat) : Prop where
  S : ∀ ph tok, needS ph tok < n → NsNone tok → ∀ st, Inv st → (entryK ph).holds st →
    Tr (r.processStartTag ph tok) st (fun _ st' => Inv st')
  E : ∀ ph tok, needE ph tok < n → NsNone tok → ∀ st, Inv st → (entryK ph).holds st → CE ph tok st →
    Tr (r.processEndTag ph tok) st (fun _ st' => Inv st')
  Ch : ∀ ph tok, needCh ph < n → NsNone tok → ∀ st, Inv st → (entryK ph).holds st →
    Tr (r.processCharacters ph tok) st (fun _ st' => Inv st')
  Sp : ∀ ph tok, needSp ph < n → NsNone tok → ∀ st, Inv st → (entryK ph).holds st →
    Tr (r.processSpaceCharacters ph tok) st (fun _ st' => Inv st')
  Cm : ∀ ph tok, needCm ph < n → NsNone tok → ∀ st, Inv st → (entryK ph).holds st →
    Tr (r.processComment ph tok) st (fun _ st' => Inv st')
  D : ∀ ph tok, 0 < n → NsNone tok → ∀ st, Inv st → (entryK ph).holds st →
    Tr (r.processDoctype ph tok) st (fun _ st' => Inv st')
  EOF : ∀ ph, needEOF ph < n → ∀ st, Inv st → (entryK ph).holds st →
    Tr (r.processEOF ph) st (fun _ st' => Inv st')
  /-- the start tags handed to `InHeadPhase` from other phases (the select phases included) -/
  SheadLeaf : ∀ tok, headLeaf.contains (tokName tok) = true → needS .inHead tok < n → NsNone tok → ∀ st, Inv st →
    NTp st.phase → Tr (r.processStartTag .inHead tok) st (fun _ st' => Inv st')
  /-- … from `AfterHeadPhase.startTagFromHead` -/
  SfromHead : ∀ tok, headLeaf.contains (tokName tok) = true → needS .inHead tok < n → NsNone tok → ∀ st old h,
    FHpre st old h → Tr (r.processStartTag .inHead tok) st (fun _ st' => FHpost st' old h)
  /-- `<html>` handed to `InBodyPhase`, comments and space characters handed to `InHeadPhase`: from any state -/
  Shtml : ∀ tok, tokName tok = nmHtml → needS .inBody tok < n → NsNone tok → ∀ st, Inv st →
    Tr (r.processStartTag .inBody tok) st (fun _ st' => Inv st')
  CmHead : ∀ tok, needCm .inHead < n → NsNone tok → ∀ st, Inv st → Tr (r.processComment .inHead tok) st (fun _ st' => Inv st')
  SpHead : ∀ tok, needSp .inHead < n → NsNone tok → ∀ st, Inv st →
    Tr (r.processSpaceCharacters .inHead tok) st (fun _ st' => Inv st')
  /-- the implied end tags of `InBodyPhase.startTagListItem` / `startTagOpt` in the current (ordinary) phase stay in
  the ordinary phases -/
  EnCur : ∀ ph tok, impliedNames.contains (tokName tok) = true → needE ph tok < n → NsNone tok →
    ∀ st, Inv st → NT st → st.phase = some ph → Tr (r.processEndTag ph tok) st (fun _ st' => Inv st' ∧ NT st')
  /-- … handed on to `InTablePhase` by `InRowPhase` / `InTableBodyPhase` -/
  EnTable : ∀ tok, impliedNames.contains (tokName tok) = true → needE .inTable tok < n → NsNone tok →
    Pn (r.processEndTag .inTable tok)
  /-- the characters flushed by `InTableTextPhase` -/
  ChBody : ∀ tok, needCh .inBody < n → ∀ st, ST st →
    Tr (r.processCharacters .inBody tok) st (fun _ st' => KPpost st st' ∧ Grown st st')
  /-- the `InBodyPhase` handlers that `startTagIsIndex` calls one after the other stay in the ordinary phases -/
  SnBody : ∀ tok, leafInBody.contains (tokName tok) = true → needS .inBody tok < n → NsNone tok →
    Pn (r.processStartTag .inBody tok)
  EnBody : ∀ tok, needE .inBody tok < n → NsNone tok → notPN tok → Pn (r.processEndTag .inBody tok)

theorem RecInv.pkS {r n} (hr : RecInv r n) (ph : Phase) (ho : ordinary ph) (tok) (h : needS ph tok < n)
    (hns : NsNone tok) :
    Pk (r.processStartTag ph tok) := ⟨fun st hi hn => hr.S ph tok h hns st hi (by rw [ho]; exact hn)⟩
/-- a nested end-tag dispatch: either the target is not `InBodyPhase`, or the name of the token is not protected -/
theorem RecInv.pkE {r n} (hr : RecInv r n) (ph : Phase) (ho : ordinary ph) (tok) (h : needE ph tok < n)
    (hns : NsNone tok) (hc : ph ≠ .inBody ∨ notPN tok) :
    Pk (r.processEndTag ph tok) :=
  ⟨fun st hi hn => hr.E ph tok h hns st hi (by rw [ho]; exact hn)
    (by rcases hc with hc | hc; exact CE_of_ne hc; exact CE_of_notPN hc)⟩
theorem RecInv.pkCh {r n} (hr : RecInv r n) (ph : Phase) (ho : ordinary ph) (tok) (h : needCh ph < n) (hns : NsNone tok) :
    Pk (r.processCharacters ph tok) := ⟨fun st hi hn => hr.Ch ph tok h hns st hi (by rw [ho]; exact hn)⟩
theorem RecInv.pkSp {r n} (hr : RecInv r n) (ph : Phase) (ho : ordinary ph) (tok) (h : needSp ph < n) (hns : NsNone tok) :
    Pk (r.processSpaceCharacters ph tok) := ⟨fun st hi hn => hr.Sp ph tok h hns st hi (by rw [ho]; exact hn)⟩
theorem RecInv.pkCm {r n} (hr : RecInv r n) (ph : Phase) (ho : ordinary ph) (tok) (h : needCm ph < n) (hns : NsNone tok) :
    Pk (r.processComment ph tok) := ⟨fun st hi hn => hr.Cm ph tok h hns st hi (by rw [ho]; exact hn)⟩
theorem RecInv.pkEOF {r n} (hr : RecInv r n) (ph : Phase) (ho : ordinary ph) (h : needEOF ph < n) :
    Pk (r.processEOF ph) := ⟨fun st hi hn => hr.EOF ph h st hi (by rw [ho]; exact hn)⟩

/-- facts about the name of the token, as instance arguments -/
def isHtmlTok (tok : Token) : Prop := tokName tok = nmHtml
def isHeadLeaf (tok : Token) : Prop := headLeaf.contains (tokName tok) = true
def isImplied (tok : Token) : Prop := impliedNames.contains (tokName tok) = true


/-- `<html>` handed to `InBodyPhase` -/
theorem RecInv.puHtml {r n} (hr : RecInv r n) (tok : Token) (h : needS .inBody tok < n) (hns : NsNone tok)
    (hh : isHtmlTok tok) : Pu (r.processStartTag .inBody tok) := ⟨fun st hi => hr.Shtml tok hh h hns st hi⟩
theorem RecInv.puCmHead {r n} (hr : RecInv r n) (tok : Token) (h : needCm .inHead < n) (hns : NsNone tok) :
    Pu (r.processComment .inHead tok) := ⟨fun st hi => hr.CmHead tok h hns st hi⟩
theorem RecInv.puSpHead {r n} (hr : RecInv r n) (tok : Token) (h : needSp .inHead < n) (hns : NsNone tok) :
    Pu (r.processSpaceCharacters .inHead tok) := ⟨fun st hi => hr.SpHead tok h hns st hi⟩
/-- a start tag handed to `InHeadPhase` from an ordinary phase -/
theorem RecInv.pkHeadLeaf {r n} (hr : RecInv r n) (tok : Token) (h : needS .inHead tok < n) (hns : NsNone tok)
    (hh : isHeadLeaf tok) : Pk (r.processStartTag .inHead tok) :=
  ⟨fun st hi hn => hr.SheadLeaf tok hh h hns st hi hn.1⟩

/-- `self.parser.phase.processEndTag(impliedTagToken(…))` for `li`, `dd`, `dt`, `p`, `option`, in an ordinary phase -/
theorem RecInv.pnCurE {r n} (hr : RecInv r n) (site : String) (tok : Token) (h : 2 < n) (hns : NsNone tok)
    (hi : isImplied tok) {β : Type} (f : Option Token → M β) [hf : ∀ a, Pn (f a)] :
    Pn (curPhase site >>= fun ph => r.processEndTag ph tok >>= f) :=
  ⟨fun st hinv hn => by
    simp only [Tr_bind, Tr_curPhase]
    intro ph hph
    have hf' : ph ≠ .inForeignContent := by
      intro he; rw [he] at hph; exact hinv.reg.ph.1 hph
    have := hr.EnCur ph tok hi (needE_lt tok hf' h) hns st hinv hn hph
    exact Tr_mono this (fun a st' h' => (hf a).out st' h'.1 h'.2)⟩

/-- `self.parser.phase.<method>(…)` from a state with `Inv` (no assumption on the register): `Pu` -/
theorem Pu_curPhase_bind {β : Type} (site : String) (f : Phase → M β)
    (h : ∀ ph st, Inv st → st.phase = some ph → (entryK ph).holds st → Tr (f ph) st (fun _ st' => Inv st')) :
    Pu (curPhase site >>= f) :=
  ⟨fun st hi => by
    simp only [Tr_bind, Tr_curPhase]
    intro p hp
    exact h p st hi hp (entryK_cur hi hp)⟩

/-- `self.parser.phase.processEndTag(impliedTagToken(…))` followed by register-independent bookkeeping -/
theorem RecInv.puCurE {r n} (hr : RecInv r n) (site : String) (tok : Token) (h : 2 < n) (hns : NsNone tok) {β : Type}
    (f : Option Token → M β) [hf : ∀ a, Pu (f a)] :
    Pu (curPhase site >>= fun ph => r.processEndTag ph tok >>= f) :=
  Pu_curPhase_bind site _ (fun ph st hi hph hp => by
    have hf' : ph ≠ .inForeignContent := by
      intro he; rw [he] at hph; exact hi.reg.ph.1 hph
    simp only [Tr_bind]
    exact Tr_mono (hr.E ph tok (needE_lt tok hf' h) hns st hi hp (CE_of_phase hph)) (fun a st' h' => (hf a).out st' h'))

/-- … for the implied `</caption>` (rank 1 in the current phase) -/
theorem RecInv.puCurEcap {r n} (hr : RecInv r n) (site : String) (tok : Token) (hc : isCaption tok = true) (h : 1 < n)
    (hns : NsNone tok) {β : Type} (f : Option Token → M β) [hf : ∀ a, Pu (f a)] :
    Pu (curPhase site >>= fun ph => r.processEndTag ph tok >>= f) :=
  Pu_curPhase_bind site _ (fun ph st hi hph hp => by
    have hf' : ph ≠ .inForeignContent := by
      intro he; rw [he] at hph; exact hi.reg.ph.1 hph
    simp only [Tr_bind]
    exact Tr_mono (hr.E ph tok (needE_caption_lt hf' hc h) hns st hi hp (CE_of_phase hph))
      (fun a st' h' => (hf a).out st' h'))

/-! ### the phase assignments as instances (one per literal) -/

instance : Pzn (setPhase .initial) := Pzn_setPhase _ (by decide) (by decide)
instance : Pzn (setPhase .beforeHtml) := Pzn_setPhase _ (by decide) (by decide)
instance : Pzn (setPhase .beforeHead) := Pzn_setPhase _ (by decide) (by decide)
instance : Pzn (setPhase .inBody) := Pzn_setPhase _ (by decide) (by decide)
instance : Pzn (setPhase .inTable) := Pzn_setPhase _ (by decide) (by decide)
instance : Pzn (setPhase .inCaption) := Pzn_setPhase _ (by decide) (by decide)
instance : Pzn (setPhase .inColumnGroup) := Pzn_setPhase _ (by decide) (by decide)
instance : Pzn (setPhase .inTableBody) := Pzn_setPhase _ (by decide) (by decide)
instance : Pzn (setPhase .afterBody) := Pzn_setPhase _ (by decide) (by decide)
instance : Pzn (setPhase .inFrameset) := Pzn_setPhase _ (by decide) (by decide)
instance : Pzn (setPhase .afterFrameset) := Pzn_setPhase _ (by decide) (by decide)
instance : Pzn (setPhase .afterAfterBody) := Pzn_setPhase _ (by decide) (by decide)
instance : Pzn (setPhase .afterAfterFrameset) := Pzn_setPhase _ (by decide) (by decide)
instance : Pz (setPhase .initial) := Pz_setPhase _ (by decide) (by decide)
instance : Pz (setPhase .beforeHtml) := Pz_setPhase _ (by decide) (by decide)
instance : Pz (setPhase .beforeHead) := Pz_setPhase _ (by decide) (by decide)
instance : Pz (setPhase .inBody) := Pz_setPhase _ (by decide) (by decide)
instance : Pz (setPhase .inTable) := Pz_setPhase _ (by decide) (by decide)
instance : Pz (setPhase .inCaption) := Pz_setPhase _ (by decide) (by decide)
instance : Pz (setPhase .inColumnGroup) := Pz_setPhase _ (by decide) (by decide)
instance : Pz (setPhase .inTableBody) := Pz_setPhase _ (by decide) (by decide)
instance : Pz (setPhase .afterBody) := Pz_setPhase _ (by decide) (by decide)
instance : Pz (setPhase .inFrameset) := Pz_setPhase _ (by decide) (by decide)
instance : Pz (setPhase .afterFrameset) := Pz_setPhase _ (by decide) (by decide)
instance : Pz (setPhase .afterAfterBody) := Pz_setPhase _ (by decide) (by decide)
instance : Pz (setPhase .afterAfterFrameset) := Pz_setPhase _ (by decide) (by decide)
instance : Pz (setPhase .inSelect) := Pz_setPhase _ (by decide) (by decide)

/-! ### facts about tokens as instances -/

/-- a proposition as an instance argument -/
class Fct (p : Prop) : Prop where
  out : p

instance : Fct (isImplied (impliedEnd "p")) := ⟨(by decide : impliedNames.contains (lit "p") = true)⟩
instance : Fct (isImplied (impliedEnd "option")) := ⟨(by decide : impliedNames.contains (lit "option") = true)⟩
instance (d) : Fct (NsNone (.chars d)) := ⟨trivial⟩
instance (d) : Fct (NsNone (.space d)) := ⟨trivial⟩
instance (d) : Fct (NsNone (.comment d)) := ⟨trivial⟩
instance Fct_NsNone_impliedStart (n a s) : Fct (NsNone (impliedStart n a s)) := ⟨rfl⟩
instance Fct_NsNone_impliedEnd (n) : Fct (NsNone (impliedEnd n)) := ⟨rfl⟩
instance Fct_NsNone_impliedEndS (n) : Fct (NsNone (impliedEndS n)) := ⟨rfl⟩

theorem notPN_impliedStart (n : String) (a s) (h : PN.contains (lit n) = false) : notPN (impliedStart n a s) := h
theorem notPN_impliedEnd (n : String) (h : PN.contains (lit n) = false) : notPN (impliedEnd n) := h
instance (a s) : Fct (notPN (impliedStart "body" a s)) := ⟨notPN_impliedStart _ _ _ (by decide)⟩
instance (a s) : Fct (notPN (impliedStart "br" a s)) := ⟨notPN_impliedStart _ _ _ (by decide)⟩
instance (a s) : Fct (notPN (impliedStart "colgroup" a s)) := ⟨notPN_impliedStart _ _ _ (by decide)⟩
instance (a s) : Fct (notPN (impliedStart "form" a s)) := ⟨notPN_impliedStart _ _ _ (by decide)⟩
instance (a s) : Fct (notPN (impliedStart "head" a s)) := ⟨notPN_impliedStart _ _ _ (by decide)⟩
instance (a s) : Fct (notPN (impliedStart "hr" a s)) := ⟨notPN_impliedStart _ _ _ (by decide)⟩
instance (a s) : Fct (notPN (impliedStart "img" a s)) := ⟨notPN_impliedStart _ _ _ (by decide)⟩
instance (a s) : Fct (notPN (impliedStart "input" a s)) := ⟨notPN_impliedStart _ _ _ (by decide)⟩
instance (a s) : Fct (notPN (impliedStart "label" a s)) := ⟨notPN_impliedStart _ _ _ (by decide)⟩
instance (a s) : Fct (notPN (impliedStart "p" a s)) := ⟨notPN_impliedStart _ _ _ (by decide)⟩
instance : Fct (notPN (impliedEnd "a")) := ⟨notPN_impliedEnd _ (by decide)⟩
instance : Fct (notPN (impliedEnd "body")) := ⟨notPN_impliedEnd _ (by decide)⟩
instance : Fct (notPN (impliedEnd "button")) := ⟨notPN_impliedEnd _ (by decide)⟩
instance : Fct (notPN (impliedEnd "caption")) := ⟨notPN_impliedEnd _ (by decide)⟩
instance : Fct (notPN (impliedEnd "colgroup")) := ⟨notPN_impliedEnd _ (by decide)⟩
instance : Fct (notPN (impliedEnd "form")) := ⟨notPN_impliedEnd _ (by decide)⟩
instance : Fct (notPN (impliedEnd "head")) := ⟨notPN_impliedEnd _ (by decide)⟩
instance : Fct (notPN (impliedEnd "label")) := ⟨notPN_impliedEnd _ (by decide)⟩
instance : Fct (notPN (impliedEnd "nobr")) := ⟨notPN_impliedEnd _ (by decide)⟩
instance : Fct (notPN (impliedEnd "noscript")) := ⟨notPN_impliedEnd _ (by decide)⟩
instance : Fct (notPN (impliedEnd "option")) := ⟨notPN_impliedEnd _ (by decide)⟩
instance : Fct (notPN (impliedEnd "p")) := ⟨notPN_impliedEnd _ (by decide)⟩
instance : Fct (notPN (impliedEnd "select")) := ⟨notPN_impliedEnd _ (by decide)⟩

/-- the tag data of an unprotected token makes an unprotected element -/
theorem dOK_of_tag {tok : Token} {site : String} {d : TagData} (h : tok.tag site = .ok d) (hn : NsNone tok)
    (hp : notPN tok) : ∀ dns, dOK dns d := by
  intro dns
  have h1 := tag_ns h hn
  have h2 := tag_name h
  unfold dOK dEl
  rw [h1]
  refine ⟨prot_of_name ?_, fun _ => rfl⟩
  show PN.contains d.name = false
  rw [h2]; exact hp

instance KP_insertElement_inst (d : TagData) [h : Fct (∀ dns, dOK dns d)] : KP (insertElement d) :=
  KP_insertElement d h.out

/-- `let d ← tok.tag site; …` for an unprotected token: `d` makes an unprotected element -/
theorem KP_bind_tag {β : Type} (tok : Token) (site : String) (f : TagData → M β) [hn : Fct (NsNone tok)]
    [hp : Fct (notPN tok)] (h : ∀ d, Fct (∀ dns, dOK dns d) → KP (f d)) : KP (liftM (tok.tag site) >>= f) :=
  ⟨fun st hs => by
    simp only [Tr_bind, Tr_lift]
    cases ht : tok.tag site with
    | ok d => exact (h d ⟨dOK_of_tag ht hn.out hp.out⟩).out st hs
    | error e =>
      have := (ENF_tag tok site).out
      rw [ht] at this; exact this⟩

theorem KP_bind_tag_m {β : Type} (tok : Token) (site : String) (f : TagData → M β) [hn : Fct (NsNone tok)]
    [hp : Fct (notPN tok)] (h : ∀ d, Fct (∀ dns, dOK dns d) → KP (f d)) : KP (monadLift (tok.tag site) >>= f) :=
  KP_bind_tag tok site f h

instance KP_insertElementTok (tok : Token) (site : String) [hn : Fct (NsNone tok)] [hp : Fct (notPN tok)] :
    KP (insertElementTok tok site) := by
  unfold insertElementTok
  refine KP_bind_tag_m tok site _ ?_
  intro d hd
  infer_instance

/-- `insertElement(token); openElements.pop()` (void elements) -/
theorem KP_insert_pop_bind {β : Type} (d : TagData) (site : String) (f : NodeId → M β) [h : Fct (∀ dns, dOK dns d)]
    [hf : ∀ a, KP (f a)] : KP (insertElement d >>= fun _ => openPop site >>= f) :=
  ⟨fun st hs => by
    simp only [Tr_bind]
    refine Tr_mono (insertElement_spec d st hs.elem) ?_
    intro x st1 hp
    have hpu := ST_pushed hs hp (h.out _)
    simp only [Tr_openPop]
    intro y hy
    have hxy : y = x := by
      rw [hpu.op] at hy; simpa using hy.symm
    subst hxy
    have hprot : prot (elemK st1.arena y) = false := by rw [hpu.k]; exact (h.out _).1
    obtain ⟨g1, g2, g3⟩ := KP_pop hpu.str hy hprot
    refine Tr_mono ((hf y).out _ g1) ?_
    intro _ st' h'
    exact ⟨h'.1, (hpu.keep.trans g2).trans h'.2.1, by rw [h'.2.2, g3, hpu.p]⟩⟩

/-- `insertElement(token); openElements.pop()` for a token -/
theorem KP_insertTok_pop_bind {β : Type} (tok : Token) (site site' : String) (f : NodeId → M β) [hn : Fct (NsNone tok)]
    [hp : Fct (notPN tok)] [hf : ∀ a, KP (f a)] : KP (insertElementTok tok site >>= fun _ => openPop site' >>= f) :=
  ⟨fun st hs => by
    unfold insertElementTok
    simp only [Tr_bind, Tr_monadLift]
    cases ht : tok.tag site with
    | ok d =>
      simp only [Post_ok]
      haveI : Fct (∀ dns, dOK dns d) := ⟨dOK_of_tag ht hn.out hp.out⟩
      have := (KP_insert_pop_bind d site' f).out st hs
      simpa only [Tr_bind] using this
    | error e =>
      have := (ENF_tag tok site).out
      rw [ht] at this; exact this⟩

/-! ### tactics -/

set_option hygiene false in
/-- one structural step for `SV` / `KP` / `KS` goals -/
macro "kp_step" : tactic => `(tactic| first
  | assumption
  | infer_instance
  | exact @KP_of_SV _ _ (SV_modify _ (fun _ => ⟨rfl, rfl, rfl, rfl, rfl, rfl, Ext.refl _⟩))
  | exact @KS_of_KP _ _ (@KP_of_SV _ _ (SV_modify _ (fun _ => ⟨rfl, rfl, rfl, rfl, rfl, rfl, Ext.refl _⟩)))
  | (refine KP_bind_tag _ _ _ ?_; intro _ _)
  | (refine KP_bind_tag_m _ _ _ ?_; intro _ _)
  | exact KP_insert_pop_bind _ _ _
  | exact KP_insertTok_pop_bind _ _ _ _
  | (with_reducible refine @KP_bind _ _ _ _ ?_ ?_)
  | (with_reducible refine @KS_bind _ _ _ _ ?_ ?_)
  | (intro _)
  | (dsimp only)
  | split)
macro "kp_auto" : tactic => `(tactic| repeat' kp_step)

/-- `Pz`: stack manipulations (`KS`), an assignment to the phase register, register-independent bookkeeping (`Pu`) -/
macro "pz_step" : tactic => `(tactic| first
  | assumption
  | infer_instance
  | (refine Pz_bind_s _ _ ?_; intro _)
  | (refine Pz_bind_u _ _ ?_)
  | (refine Pz_ite _ _ _ ?_ ?_)
  | (dsimp only)
  | split)
macro "pz_auto" : tactic => `(tactic| repeat' pz_step)

macro "pzn_step" : tactic => `(tactic| first
  | assumption
  | infer_instance
  | (refine Pzn_bind_s _ _ ?_; intro _)
  | (refine Pzn_bind_n _ _ ?_)
  | (refine Pzn_ite _ _ _ ?_ ?_)
  | (dsimp only)
  | split)
macro "pzn_auto" : tactic => `(tactic| repeat' pzn_step)

set_option hygiene false in
/-- a computation all of whose parts stay in the ordinary phases (or keep the registers) -/
macro "pn_step" : tactic => `(tactic| first
  | assumption
  | infer_instance
  | exact RecInv.pnCurE hr _ _ (by omega) (by first | assumption | exact Fct.out | rfl) (by first | assumption | exact Fct.out) _
  | exact RecInv.puCurE hr _ _ (by omega) (by first | assumption | exact Fct.out | rfl) _
  | exact RecInv.puCurEcap hr _ _ (by decide) (by omega) (by first | assumption | exact Fct.out | rfl) _
  | exact RecInv.puHtml hr _ (by need_tac) (by first | assumption | exact Fct.out | rfl) (by first | assumption | exact Fct.out)
  | exact RecInv.puCmHead hr _ (by need_tac) (by first | assumption | exact Fct.out | trivial)
  | exact RecInv.puSpHead hr _ (by need_tac) (by first | assumption | exact Fct.out | trivial)
  | exact @Pn_of_KP _ _ (@KP_of_SV _ _ (SV_modify _ (fun _ => ⟨rfl, rfl, rfl, rfl, rfl, rfl, Ext.refl _⟩)))
  | exact @Pu_of_SV _ _ (SV_modify _ (fun _ => ⟨rfl, rfl, rfl, rfl, rfl, rfl, Ext.refl _⟩))
  | (refine @Pn_of_Pzn _ _ ?_; pzn_auto; done)
  | (refine @Pu_of_Pz _ _ ?_; pz_auto; done)
  | (with_reducible refine @Pn_bind _ _ _ _ ?_ ?_)
  | (with_reducible refine @Pu_bind _ _ _ _ ?_ ?_)
  | (intro _)
  | (dsimp only)
  | split)
macro "pn_auto" : tactic => `(tactic| repeat' pn_step)

set_option hygiene false in
/-- `Pk`: ordinary bookkeeping (`Pn`), one step that may leave the ordinary phases, register-independent bookkeeping (`Pu`) -/
macro "pk_step" : tactic => `(tactic| first
  | assumption
  | infer_instance
  | exact @Pk_of_Pn _ _ (@Pn_of_KP _ _ (@KP_of_SV _ _ (SV_modify _ (fun _ => ⟨rfl, rfl, rfl, rfl, rfl, rfl, Ext.refl _⟩))))
  | exact RecInv.pkS hr _ (by decide) _ (by need_tac) (by first | assumption | exact Fct.out | rfl)
  | exact RecInv.pkE hr _ (by decide) _ (by need_tac) (by first | assumption | exact Fct.out | rfl)
      (by first | (left; decide) | (right; assumption) | (right; exact Fct.out) | (right; decide))
  | exact RecInv.pkHeadLeaf hr _ (by need_tac) (by first | assumption | exact Fct.out | rfl) (by first | assumption | exact Fct.out)
  | exact @Pk_of_Pu _ _ (RecInv.puHtml hr _ (by need_tac) (by first | assumption | exact Fct.out | rfl) (by first | assumption | exact Fct.out))
  | exact @Pk_of_Pu _ _ (RecInv.puCmHead hr _ (by need_tac) (by first | assumption | exact Fct.out | trivial))
  | exact @Pk_of_Pu _ _ (RecInv.puSpHead hr _ (by need_tac) (by first | assumption | exact Fct.out | trivial))
  | exact RecInv.pkCh hr _ (by decide) _ (by need_tac) (by first | assumption | exact Fct.out | trivial)
  | exact RecInv.pkSp hr _ (by decide) _ (by need_tac) (by first | assumption | exact Fct.out | trivial)
  | exact RecInv.pkCm hr _ (by decide) _ (by need_tac) (by first | assumption | exact Fct.out | trivial)
  | exact RecInv.pkEOF hr _ (by decide) (by need_tac)
  | exact RecInv.puCurE hr _ _ (by omega) (by first | assumption | exact Fct.out | rfl) _
  | exact @Pk_of_Pu _ _ (RecInv.puCurE hr _ _ (by omega) (by first | assumption | exact Fct.out | rfl) _)
  | exact @Pk_of_Pu _ _ (RecInv.puCurEcap hr _ _ (by decide) (by omega) (by first | assumption | exact Fct.out | rfl) _)
  | (refine @Pk_bind_n _ _ _ _ (hr.SnBody _ (by first | rfl | decide) (by need_tac) (by first | assumption | exact Fct.out | rfl)) ?_; intro _)
  | (refine @Pk_bind_n _ _ _ _ (hr.EnBody _ (by need_tac) (by first | assumption | exact Fct.out | rfl) (by first | assumption | exact Fct.out | decide)) ?_; intro _)
  | (refine Pk_bind_n _ _ ?_; intro _)
  | (refine Pk_bind_u _ _ ?_)
  | (refine Pk_ite _ _ _ ?_ ?_)
  | (dsimp only)
  | split)
macro "pk_auto" : tactic => `(tactic| repeat' pk_step)

end H5.Props.C03c
