/-
  C07 identity, tree-construction side — exact evaluation (`m.run st = .ok (a, st')`) of the tree-builder primitives and
  of the dispatcher on the states of the covered documents.
-/
import H5.Props.C07bFrames
import H5.Model.TreeBuilder
import H5.Props.C07bGrammar
set_option linter.unusedSimpArgs false
set_option linter.unusedVariables false
namespace H5.Props.C07b
open H5 H5.Model H5.Model.TB H5.Model.Dom


/-- the configuration `Pipeline.roundTrip` parses with -/
def cfg0 : Cfg := { namespaceHTMLElements := true }

theorem run_bind {α β : Type} (m : M α) (f : α → M β) (st : PState) :
    (m >>= f).run st = (m.run st >>= fun p => (f p.1).run p.2) := rfl

theorem run_pure {α : Type} (a : α) (st : PState) : (pure a : M α).run st = .ok (a, st) := rfl

theorem openElems_run (st : PState) : openElems.run st = .ok (st.openElements, st) := rfl
theorem afe_run (st : PState) : afe.run st = .ok (st.activeFormattingElements, st) := rfl
theorem getCfg_run (st : PState) : getCfg.run st = .ok (st.cfg, st) := rfl
theorem getPhase_run (st : PState) : getPhase.run st = .ok (st.phase, st) := rfl
theorem get_run (st : PState) : (get : M PState).run st = .ok (st, st) := rfl

theorem getNode_run (st : PState) (i : Nat) (n : Node) (h : st.arena.nodes[i]? = some n) :
    (getNode i).run st = .ok (n, st) := by
  show (match st.arena.get i with | .ok n => pure n | .error e => throw e : M Node).run st = _
  rw [arena_get_of _ _ _ h]; rfl

theorem elemInfo_run (st : PState) (i : Nat) (n : Node) (ns nm) (h : st.arena.nodes[i]? = some n)
    (hk : n.kind = .element ns nm) : (elemInfo i).run st = .ok ((ns, nm), st) := by
  unfold elemInfo
  simp only [run_bind, getNode_run st i n h, ok_bind, hk]
  rfl

theorem nodeName_run (st : PState) (i : Nat) (n : Node) (ns nm) (h : st.arena.nodes[i]? = some n)
    (hk : n.kind = .element ns nm) : (nodeName i).run st = .ok (nm, st) := by
  unfold nodeName
  simp only [run_bind, elemInfo_run st i n ns nm h hk, ok_bind]
  rfl

theorem openLast_run (st : PState) (site : String) (cur : Nat) (hl : st.openElements.getLast? = some cur) :
    (openLast site).run st = .ok (cur, st) := by
  unfold openLast
  simp only [run_bind, openElems_run, ok_bind, hl]
  rfl

theorem curPhase_run (st : PState) (site : String) (p : Phase) (h : st.phase = some p) :
    (curPhase site).run st = .ok (p, st) := by
  unfold curPhase
  simp only [run_bind, getPhase_run, ok_bind, h]
  rfl

/-- `mainLoop`'s phase selection: the current node is an HTML element -/
theorem useCurrentPhase_run (st : PState) (tok : Token) (cur : Nat) (n : Node) (nm : Str)
    (hcfg : st.cfg = cfg0) (hl : st.openElements.getLast? = some cur) (h : st.arena.nodes[cur]? = some n)
    (hk : n.kind = .element (some htmlNs) nm) : (useCurrentPhase tok).run st = .ok (true, st) := by
  unfold useCurrentPhase
  simp only [run_bind, openElems_run, ok_bind, hl]
  simp only [run_bind, elemInfo_run st cur n _ _ h hk, ok_bind, getCfg_run, hcfg]
  rfl

/-! ### the dispatcher at the depth the parser uses, in the `inBody` phase -/

theorem resolve_inBody_S : resolveMethod .inBody "processStartTag" = .ok "Phase.processStartTag" := by decide
theorem resolve_inBody_E : resolveMethod .inBody "processEndTag" = .ok "Phase.processEndTag" := by decide
theorem resolve_inBody_Ch : resolveMethod .inBody "processCharacters" = .ok "InBodyPhase.processCharacters" := by decide
theorem resolve_inBody_Sp : resolveMethod .inBody "processSpaceCharacters" = .ok "InBodyPhase.<slot>" := by decide
theorem resolve_inBody_Cm : resolveMethod .inBody "processComment" = .ok "Phase.processComment" := by decide

/-- evaluation of the four-way string match of `runProcess` on a literal -/
macro "run_process_match" : tactic => `(tactic| (
  split
  all_goals first
    | rfl
    | (rename_i h; exact absurd h (by decide))
    | (rename_i h _; exact absurd h (by decide))
    | (rename_i h _ _; exact absurd h (by decide))))

theorem runProcess_inBody_S (r : Rec) (tok : Token) :
    runProcess r .inBody "processStartTag" tok = Phase_processStartTag r .inBody tok := by
  unfold runProcess
  rw [resolve_inBody_S]
  show (match "Phase.processStartTag" with
    | "Phase.processStartTag" => Phase_processStartTag r .inBody tok
    | "Phase.processEndTag" => Phase_processEndTag r .inBody tok
    | "InBodyPhase.<slot>" =>
      if "processStartTag" == "processSpaceCharacters" then InBody_processSpaceCharacters tok
      else throw (PyErr.lookupError ("no-model-for-slot:" ++ "processStartTag"))
    | _ => runProcessPlain r "Phase.processStartTag" tok) = _
  rfl

theorem runProcess_inBody_E (r : Rec) (tok : Token) :
    runProcess r .inBody "processEndTag" tok = Phase_processEndTag r .inBody tok := by
  unfold runProcess
  rw [resolve_inBody_E]
  show (match "Phase.processEndTag" with
    | "Phase.processStartTag" => Phase_processStartTag r .inBody tok
    | "Phase.processEndTag" => Phase_processEndTag r .inBody tok
    | "InBodyPhase.<slot>" =>
      if "processEndTag" == "processSpaceCharacters" then InBody_processSpaceCharacters tok
      else throw (PyErr.lookupError ("no-model-for-slot:" ++ "processEndTag"))
    | _ => runProcessPlain r "Phase.processEndTag" tok) = _
  split
  · rename_i h; exact absurd h (by decide)
  · rfl
  · rename_i h; exact absurd h (by decide)
  · exact absurd rfl ‹"Phase.processEndTag" = "Phase.processEndTag" → False›

/-- literal evaluation of the big string matches of Glue.lean: peel the `dite` chain -/
macro "glue_eval" f:ident m:ident : tactic => `(tactic| (
  delta $f
  delta $m
  repeat (first | rw [dif_pos rfl] | rw [dif_neg (by decide)])))

theorem runPlain_InBody_processCharacters (r : Rec) (tok : Token) :
    runProcessPlain r "InBodyPhase.processCharacters" tok = InBody_processCharacters tok := by
  glue_eval runProcessPlain runProcessPlain.match_1

theorem runPlain_Phase_processComment (r : Rec) (tok : Token) :
    runProcessPlain r "Phase.processComment" tok = Phase_processComment tok := by
  glue_eval runProcessPlain runProcessPlain.match_1

theorem runTag_InBody_startTagOther (r : Rec) (tok : Token) :
    runTagHandler r "InBodyPhase.startTagOther" tok = InBody_startTagOther tok := by
  glue_eval runTagHandler runTagHandler.match_1

theorem runTag_InBody_endTagOther (r : Rec) (tok : Token) :
    runTagHandler r "InBodyPhase.endTagOther" tok = InBody_endTagOther tok := by
  glue_eval runTagHandler runTagHandler.match_1

theorem runProcess_inBody_Ch (r : Rec) (tok : Token) :
    runProcess r .inBody "processCharacters" tok = InBody_processCharacters tok := by
  unfold runProcess
  rw [resolve_inBody_Ch, ← runPlain_InBody_processCharacters r tok]
  show (match "InBodyPhase.processCharacters" with
    | "Phase.processStartTag" => Phase_processStartTag r .inBody tok
    | "Phase.processEndTag" => Phase_processEndTag r .inBody tok
    | "InBodyPhase.<slot>" =>
      if "processCharacters" == "processSpaceCharacters" then InBody_processSpaceCharacters tok
      else throw (PyErr.lookupError ("no-model-for-slot:" ++ "processCharacters"))
    | _ => runProcessPlain r "InBodyPhase.processCharacters" tok) = _
  split
  · rename_i h; exact absurd h (by decide)
  · rename_i h; exact absurd h (by decide)
  · rename_i h; exact absurd h (by decide)
  · rfl

theorem runProcess_inBody_Cm (r : Rec) (tok : Token) :
    runProcess r .inBody "processComment" tok = Phase_processComment tok := by
  unfold runProcess
  rw [resolve_inBody_Cm, ← runPlain_Phase_processComment r tok]
  show (match "Phase.processComment" with
    | "Phase.processStartTag" => Phase_processStartTag r .inBody tok
    | "Phase.processEndTag" => Phase_processEndTag r .inBody tok
    | "InBodyPhase.<slot>" =>
      if "processComment" == "processSpaceCharacters" then InBody_processSpaceCharacters tok
      else throw (PyErr.lookupError ("no-model-for-slot:" ++ "processComment"))
    | _ => runProcessPlain r "Phase.processComment" tok) = _
  split
  · rename_i h; exact absurd h (by decide)
  · rename_i h; exact absurd h (by decide)
  · rename_i h; exact absurd h (by decide)
  · rfl

theorem runProcess_inBody_Sp (r : Rec) (tok : Token) :
    runProcess r .inBody "processSpaceCharacters" tok = InBody_processSpaceCharacters tok := by
  unfold runProcess
  rw [resolve_inBody_Sp]
  show (match "InBodyPhase.<slot>" with
    | "Phase.processStartTag" => Phase_processStartTag r .inBody tok
    | "Phase.processEndTag" => Phase_processEndTag r .inBody tok
    | "InBodyPhase.<slot>" =>
      if "processSpaceCharacters" == "processSpaceCharacters" then InBody_processSpaceCharacters tok
      else throw (PyErr.lookupError ("no-model-for-slot:" ++ "processSpaceCharacters"))
    | _ => runProcessPlain r "InBodyPhase.<slot>" tok) = _
  split
  · rename_i h; exact absurd h (by decide)
  · rename_i h; exact absurd h (by decide)
  · rfl
  · exact absurd rfl ‹"InBodyPhase.<slot>" = "InBodyPhase.<slot>" → False›

end H5.Props.C07b
