/-
  C01b — the arena of the tree-construction SPECIFICATION (H5.Spec.TreeConstruction): complete subtrees (`SShape`),
  their locality, their abstraction by `toTreeAux`.
-/
import H5.Spec.TreeConstruction
import H5.Proofs.ExceptLemmas
set_option linter.unusedSimpArgs false
set_option linter.unusedVariables false
namespace H5.Props.C01b
open H5 H5.Spec.TC

abbrev Arena := Array Node

mutual
/-- `SShape a hi i t`: the subtree rooted at node `i` is complete, occupies indices in `[i, hi)` with children after
their parents, and abstracts to `t` -/
inductive SShape (a : Arena) (hi : Nat) : Nat → Tree → Prop
  | text {i : Nat} {n : Node} {d : Str} : a[i]? = some n → n.kind = .text d → i < hi → SShape a hi i (.text d)
  | comment {i : Nat} {n : Node} {d : Str} : a[i]? = some n → n.kind = .comment d → i < hi → SShape a hi i (.comment d)
  | doctype {i : Nat} {n : Node} {nm p s} : a[i]? = some n → n.kind = .doctype nm p s → i < hi →
      SShape a hi i (.doctype (some nm) (some p) (some s))
  | elem {i : Nat} {n : Node} {ns nm attrs} {kids : List Tree} : a[i]? = some n → n.kind = .element ns nm attrs →
      n.content = none → i < hi → (∀ c ∈ n.children, i < c) → SShapeList a hi n.children kids →
      SShape a hi i (.elem (some ns.uri) nm attrs (mergeText kids))
  | doc {i : Nat} {n : Node} {kids : List Tree} : a[i]? = some n → n.kind = .document → n.content = none → i < hi →
      (∀ c ∈ n.children, i < c) → SShapeList a hi n.children kids → SShape a hi i (.doc (mergeText kids))
inductive SShapeList (a : Arena) (hi : Nat) : List Nat → List Tree → Prop
  | nil : SShapeList a hi [] []
  | cons {c : Nat} {cs : List Nat} {t : Tree} {ts : List Tree} : SShape a hi c t → SShapeList a hi cs ts →
      SShapeList a hi (c :: cs) (t :: ts)
end

mutual
theorem SShape.local {a a' : Arena} {hi : Nat} : ∀ {i : Nat} {t : Tree}, SShape a hi i t →
    (∀ j, i ≤ j → j < hi → a'[j]? = a[j]?) → SShape a' hi i t
  | _, _, .text h1 h2 h3, h => .text (by rw [h _ (Nat.le_refl _) h3]; exact h1) h2 h3
  | _, _, .comment h1 h2 h3, h => .comment (by rw [h _ (Nat.le_refl _) h3]; exact h1) h2 h3
  | _, _, .doctype h1 h2 h3, h => .doctype (by rw [h _ (Nat.le_refl _) h3]; exact h1) h2 h3
  | _, _, .elem h1 h2 hc h3 h4 h5, h =>
    .elem (by rw [h _ (Nat.le_refl _) h3]; exact h1) h2 hc h3 h4
      (SShapeList.local h5 (fun c hc j hj hj' => h j (Nat.le_trans (Nat.le_of_lt (h4 c hc)) hj) hj'))
  | _, _, .doc h1 h2 hc h3 h4 h5, h =>
    .doc (by rw [h _ (Nat.le_refl _) h3]; exact h1) h2 hc h3 h4
      (SShapeList.local h5 (fun c hc j hj hj' => h j (Nat.le_trans (Nat.le_of_lt (h4 c hc)) hj) hj'))
theorem SShapeList.local {a a' : Arena} {hi : Nat} : ∀ {cs : List Nat} {ts : List Tree}, SShapeList a hi cs ts →
    (∀ c ∈ cs, ∀ j, c ≤ j → j < hi → a'[j]? = a[j]?) → SShapeList a' hi cs ts
  | _, _, .nil, _ => .nil
  | _, _, .cons h1 h2, h =>
    .cons (SShape.local h1 (h _ (List.mem_cons_self ..)))
      (SShapeList.local h2 (fun c hc => h c (List.mem_cons_of_mem _ hc)))
end

mutual
theorem SShape.mono {a : Arena} {hi hi' : Nat} (hle : hi ≤ hi') : ∀ {i : Nat} {t : Tree}, SShape a hi i t → SShape a hi' i t
  | _, _, .text h1 h2 h3 => .text h1 h2 (Nat.lt_of_lt_of_le h3 hle)
  | _, _, .comment h1 h2 h3 => .comment h1 h2 (Nat.lt_of_lt_of_le h3 hle)
  | _, _, .doctype h1 h2 h3 => .doctype h1 h2 (Nat.lt_of_lt_of_le h3 hle)
  | _, _, .elem h1 h2 hc h3 h4 h5 => .elem h1 h2 hc (Nat.lt_of_lt_of_le h3 hle) h4 (SShapeList.mono hle h5)
  | _, _, .doc h1 h2 hc h3 h4 h5 => .doc h1 h2 hc (Nat.lt_of_lt_of_le h3 hle) h4 (SShapeList.mono hle h5)
theorem SShapeList.mono {a : Arena} {hi hi' : Nat} (hle : hi ≤ hi') : ∀ {cs : List Nat} {ts : List Tree},
    SShapeList a hi cs ts → SShapeList a hi' cs ts
  | _, _, .nil => .nil
  | _, _, .cons h1 h2 => .cons (SShape.mono hle h1) (SShapeList.mono hle h2)
end

theorem SShape.lt {a : Arena} {hi : Nat} {i : Nat} {t : Tree} (h : SShape a hi i t) : i < hi := by
  cases h <;> assumption

theorem SShapeList.lt {a : Arena} {hi : Nat} : ∀ {cs : List Nat} {ts : List Tree}, SShapeList a hi cs ts →
    ∀ c ∈ cs, c < hi
  | _, _, .nil, c, hc => by cases hc
  | _, _, .cons h1 h2, c, hc => by
    rcases List.mem_cons.1 hc with rfl | hc
    · exact h1.lt
    · exact SShapeList.lt h2 c hc

theorem sub_lt_aux (i c hi f : Nat) (e1 : i < c) (e2 : c < hi) (hf : hi - i < f + 1) : hi - c < f := by omega

mutual
/-- `toTreeAux` computes the abstraction of a complete subtree (fuel: the index distance to `hi`) -/
theorem SShape.toTree {a : Arena} {hi : Nat} : ∀ {i : Nat} {t : Tree}, SShape a hi i t → ∀ f, hi - i < f →
    toTreeAux a f i = [t]
  | i, _, .text h1 h2 h3, f, hf => by
    cases f with
    | zero => omega
    | succ f => simp only [toTreeAux, h1, h2]
  | i, _, .comment h1 h2 h3, f, hf => by
    cases f with
    | zero => omega
    | succ f => simp only [toTreeAux, h1, h2]
  | i, _, .doctype h1 h2 h3, f, hf => by
    cases f with
    | zero => omega
    | succ f => simp only [toTreeAux, h1, h2]
  | i, _, .elem h1 h2 hc h3 h4 h5, f, hf => by
    cases f with
    | zero => omega
    | succ f =>
      have := SShapeList.toTree h5 f (fun c hc => sub_lt_aux _ _ _ _ (h4 c hc) (h5.lt c hc) hf)
      simp only [toTreeAux, h1, h2, hc, this]
  | i, _, .doc h1 h2 hc h3 h4 h5, f, hf => by
    cases f with
    | zero => omega
    | succ f =>
      have := SShapeList.toTree h5 f (fun c hc => sub_lt_aux _ _ _ _ (h4 c hc) (h5.lt c hc) hf)
      simp only [toTreeAux, h1, h2, hc, this]
theorem SShapeList.toTree {a : Arena} {hi : Nat} : ∀ {cs : List Nat} {ts : List Tree}, SShapeList a hi cs ts →
    ∀ f, (∀ c ∈ cs, hi - c < f) → cs.flatMap (toTreeAux a f) = ts
  | _, _, .nil, f, _ => rfl
  | _, _, .cons h1 h2, f, hf => by
    rw [List.flatMap_cons, SShape.toTree h1 f (hf _ (List.mem_cons_self ..)),
      SShapeList.toTree h2 f (fun c hc => hf c (List.mem_cons_of_mem _ hc))]
    rfl
end

theorem SShapeList.append {a : Arena} {hi : Nat} : ∀ {cs : List Nat} {ts : List Tree} {c : Nat} {t : Tree},
    SShapeList a hi cs ts → SShape a hi c t → SShapeList a hi (cs ++ [c]) (ts ++ [t])
  | _, _, _, _, .nil, h => .cons h .nil
  | _, _, _, _, .cons h1 h2, h => .cons h1 (SShapeList.append h2 h)

end H5.Props.C01b
