/-
  Property C11 (part b) — the walker's stream is well formed (passes `filters/lint.py`) and reproduces the tree
  (a stack machine rebuilds the walked tree from it, up to text normalisation).
  `H5.Props.C11` proves `walk t = .ok (walkRec t)`; everything here is about `walkRec t`.
-/
import H5.Props.C11
namespace H5.Props.C11b
open H5 H5.Gen H5.Model.Walker H5.Spec

/-! ### 1. the lint filter -/

/-- lint.py lines 46-51: every attribute key `(namespace, name)` has `namespace != ""` and `name != ""` -/
def attrsOk (attrs : List Attr) : Bool := attrs.all fun a => a.ns != some [] && a.name != []

/-- `data.strip(spaceCharacters) == ""` (line 76) -/
def allSpace (d : Str) : Bool := d.all isSpaceCh

/-- `lint.Filter.__iter__` with `require_matching_tags=True` (lint.py lines 29-93): `true` iff no assertion fails
and `open_elements.pop()` never raises.  The first argument is `open_elements` (top of the stack first).
The `isinstance` assertions are vacuous in the typed model.  Like the Python filter, nothing is checked at the end
of the stream. -/
def lintOk : List (Option Str × Str) → List Tok → Bool
  | _, [] => true
  | st, .startTag ns name attrs :: rest =>               -- lines 33-51
      ns != some [] && name != [] && !isVoid ns name && attrsOk attrs && lintOk ((ns, name) :: st) rest
  | st, .emptyTag ns name attrs :: rest =>
      ns != some [] && name != [] && isVoid ns name && attrsOk attrs && lintOk st rest
  | st, .endTag ns name :: rest =>                       -- lines 53-64
      ns != some [] && name != [] && !isVoid ns name &&
        (match st with
         | [] => false                                   -- IndexError: pop from empty list
         | top :: st' => top == (ns, name) && lintOk st' rest)
  | st, .comment _ :: rest => lintOk st rest             -- lines 66-68
  | st, .chars d :: rest => d != [] && lintOk st rest    -- lines 70-76
  | st, .space d :: rest => d != [] && allSpace d && lintOk st rest
  | st, .doctype _ _ _ :: rest => lintOk st rest         -- lines 78-82
  | st, .entity _ :: rest => lintOk st rest              -- lines 84-85
  | _, .serr _ :: _ => false                             -- "SerializeError" ≠ "SerializerError": line 91 `assert False`

/-! ### 2. well-formed trees -/

mutual
/-- element/attribute names non-empty, namespaces not `""`, void elements childless -/
def WF : Tree → Prop
  | .doc cs => WFList cs
  | .frag cs => WFList cs
  | .elem ns name attrs cs =>
      ns ≠ some [] ∧ name ≠ [] ∧ attrsOk attrs = true ∧ (isVoid ns name = true → cs = []) ∧ WFList cs
  | .doctype _ _ _ => True
  | .text _ => True
  | .comment _ => True
def WFList : List Tree → Prop
  | [] => True
  | t :: ts => WF t ∧ WFList ts
end

/-! ### 3. `TreeWalker.text` -/

def tokData : Tok → Str
  | .chars d => d
  | .space d => d
  | _ => []

/-- one optional piece of `text()`: nothing for an empty string -/
def piece (f : Str → Tok) (d : Str) : List Tok := if d.isEmpty then [] else [f d]

theorem take_sub_dropWhile (p : Nat → Bool) (l : List Nat) :
    l.take (l.length - (l.dropWhile p).length) = l.takeWhile p := by
  induction l with
  | nil => rfl
  | cons a l ih =>
    by_cases h : p a = true
    · have hle : (l.dropWhile p).length ≤ l.length := (List.dropWhile_sublist p).length_le
      simp only [List.dropWhile_cons_of_pos h, List.takeWhile_cons_of_pos h, List.length_cons]
      rw [Nat.succ_sub hle, List.take_succ_cons, ih]
    · simp [List.dropWhile_cons_of_neg h, List.takeWhile_cons_of_neg h]

theorem mem_takeWhile_true (p : Nat → Bool) (l : List Nat) : ∀ c ∈ l.takeWhile p, p c = true := by
  induction l with
  | nil => simp
  | cons a l ih =>
    by_cases h : p a = true
    · simp only [List.takeWhile_cons_of_pos h, List.mem_cons]
      rintro c (rfl | hc)
      · exact h
      · exact ih c hc
    · simp [List.takeWhile_cons_of_neg h]

theorem drop_rstrip (p : Nat → Bool) (m : List Nat) :
    m.drop ((m.reverse.dropWhile p).reverse).length = (m.reverse.takeWhile p).reverse ∧
    (m.reverse.dropWhile p).reverse ++ (m.reverse.takeWhile p).reverse = m := by
  have h : (m.reverse.dropWhile p).reverse ++ (m.reverse.takeWhile p).reverse = m := by
    rw [← List.reverse_append, List.takeWhile_append_dropWhile, List.reverse_reverse]
  refine ⟨?_, h⟩
  conv => lhs; arg 2; rw [← h]
  simp

/-- **shape of `text(data)`**: `data = l ++ m ++ r` with `l`, `r` made of space characters, and the tokens are the
non-empty ones among `space l`, `chars m`, `space r`. -/
theorem textToks_spec (s : Str) : ∃ l m r, l ++ m ++ r = s ∧ allSpace l = true ∧ allSpace r = true ∧
    textToks s = piece .space l ++ piece .chars m ++ piece .space r := by
  refine ⟨s.takeWhile isSpaceCh, ((s.dropWhile isSpaceCh).reverse.dropWhile isSpaceCh).reverse,
    ((s.dropWhile isSpaceCh).reverse.takeWhile isSpaceCh).reverse, ?_, ?_, ?_, ?_⟩
  · rw [List.append_assoc, (drop_rstrip isSpaceCh (s.dropWhile isSpaceCh)).2, List.takeWhile_append_dropWhile]
  · simp only [allSpace, List.all_eq_true]
    intro c hc
    exact mem_takeWhile_true _ _ c hc
  · simp only [allSpace, List.all_eq_true]
    intro c hc
    exact mem_takeWhile_true _ _ c (List.mem_reverse.mp hc)
  · simp only [textToks, piece, take_sub_dropWhile, (drop_rstrip isSpaceCh (s.dropWhile isSpaceCh)).1]

/-- every token of `text()` is a non-empty `chars`, or a non-empty `space` made of space characters only -/
theorem textToks_tokens (s : Str) : ∀ t ∈ textToks s,
    (∃ d, t = .chars d ∧ d ≠ []) ∨ (∃ d, t = .space d ∧ d ≠ [] ∧ ∀ c ∈ d, c ∈ spaceCharacters) := by
  obtain ⟨l, m, r, -, hl, hr, ht⟩ := textToks_spec s
  have sp : ∀ d, allSpace d = true → ∀ c ∈ d, c ∈ spaceCharacters := by
    intro d hd c hc
    have := (List.all_eq_true.mp hd) c hc
    simpa [isSpaceCh] using this
  intro t
  rw [ht]
  simp only [piece, List.mem_append]
  rintro ((h | h) | h)
  · by_cases e : l.isEmpty = true
    · simp [e] at h
    · simp [e] at h; right; exact ⟨l, h, by simpa using e, sp l hl⟩
  · by_cases e : m.isEmpty = true
    · simp [e] at h
    · simp [e] at h; left; exact ⟨m, h, by simpa using e⟩
  · by_cases e : r.isEmpty = true
    · simp [e] at h
    · simp [e] at h; right; exact ⟨r, h, by simpa using e, sp r hr⟩

theorem piece_data (f : Str → Tok) (hf : ∀ d, tokData (f d) = d) (d : Str) : (piece f d).flatMap tokData = d := by
  cases d <;> simp [piece, hf]

/-- **C11 (text)**: the concatenation of the pieces is the text -/
theorem C11_text (s : Str) : (textToks s).flatMap tokData = s := by
  obtain ⟨l, m, r, hs, -, -, ht⟩ := textToks_spec s
  rw [ht, List.flatMap_append, List.flatMap_append, piece_data _ (fun _ => rfl), piece_data _ (fun _ => rfl),
    piece_data _ (fun _ => rfl), hs]

theorem C11_text_length (s : Str) : (textToks s).length ≤ 3 := by
  obtain ⟨l, m, r, -, -, -, ht⟩ := textToks_spec s
  rw [ht]
  simp only [piece, List.length_append]
  split <;> split <;> split <;> simp

theorem lint_piece_space (st : List (Option Str × Str)) (d : Str) (h : allSpace d = true) (rest : List Tok) :
    lintOk st (piece .space d ++ rest) = lintOk st rest := by
  cases d with
  | nil => simp [piece]
  | cons a d => simp [piece, lintOk, h]

theorem lint_piece_chars (st : List (Option Str × Str)) (d : Str) (rest : List Tok) :
    lintOk st (piece .chars d ++ rest) = lintOk st rest := by
  cases d with
  | nil => simp [piece]
  | cons a d => simp [piece, lintOk]

theorem lint_text (st : List (Option Str × Str)) (s : Str) (rest : List Tok) :
    lintOk st (textToks s ++ rest) = lintOk st rest := by
  obtain ⟨l, m, r, -, hl, hr, ht⟩ := textToks_spec s
  rw [ht, List.append_assoc, List.append_assoc, lint_piece_space _ _ hl, lint_piece_chars, lint_piece_space _ _ hr]

/-! ### the walked stream passes the lint filter -/

mutual
theorem lint_tree : ∀ t, WF t → ∀ st rest, lintOk st (walkRec t ++ rest) = lintOk st rest
  | .doc cs, h, st, rest => by
      simp only [walkRec]; exact lint_list cs (by simpa [WF] using h) st rest
  | .frag cs, h, st, rest => by
      simp only [walkRec]; exact lint_list cs (by simpa [WF] using h) st rest
  | .doctype _ _ _, _, st, rest => by simp [walkRec, lintOk]
  | .comment _, _, st, rest => by simp [walkRec, lintOk]
  | .text s, _, st, rest => by simp only [walkRec]; exact lint_text st s rest
  | .elem ns name attrs cs, h, st, rest => by
      simp only [WF] at h
      obtain ⟨hns, hname, hattrs, hvoid, hcs⟩ := h
      by_cases hv : isVoid ns name = true
      · have := hvoid hv
        subst this
        simp [walkRec, hv, lintOk, hns, hname, hattrs]
      · have ih := lint_list cs hcs ((ns, name) :: st) (.endTag ns name :: rest)
        simp only [walkRec, hv]
        simp [lintOk, hns, hname, hattrs, hv, ih]
theorem lint_list : ∀ ts, WFList ts → ∀ st rest, lintOk st (walkList ts ++ rest) = lintOk st rest
  | [], _, st, rest => by simp [walkList]
  | t :: ts, h, st, rest => by
      simp only [WFList] at h
      simp only [walkList, List.append_assoc]
      rw [lint_tree t h.1, lint_list ts h.2]
end

/-- **C11 (lint)**: the token stream of a well-formed tree is transparent for the lint filter. -/
theorem C11_lint (t : Tree) (h : WF t) (st : List (Option Str × Str)) (rest : List Tok) :
    lintOk st (walkRec t ++ rest) = lintOk st rest := lint_tree t h st rest

theorem C11_lint_list (ts : List Tree) (h : WFList ts) (st : List (Option Str × Str)) (rest : List Tok) :
    lintOk st (walkList ts ++ rest) = lintOk st rest := lint_list ts h st rest

/-- **C11 (lint), corollary**: `list(lint.Filter(TreeWalker(tree)))` raises nothing on a well-formed tree. -/
theorem C11_lint_ok (t : Tree) (h : WF t) : lintOk [] (walkRec t) = true := by
  have := C11_lint t h [] []
  simpa [lintOk] using this

/-- non-vacuity: `<p a="x">hi <br></p>` inside a document is well formed, and lint really accepts its stream -/
example : WF (.doc [.elem (some htmlNs) [112] [⟨none, [97], [120]⟩] [.text [104, 105, 32], .elem (some htmlNs) [98, 114] [] []]]) := by
  simp only [WF, WFList, and_true]
  decide
example : lintOk [] (walkRec (.doc [.elem (some htmlNs) [112] [⟨none, [97], [120]⟩]
    [.text [104, 105, 32], .elem (some htmlNs) [98, 114] [] []]])) = true := by decide
/-- lint does reject: a void element with children yields a `serr` token, an unbalanced end tag fails -/
example : lintOk [] (walkRec (.elem none [98, 114] [] [.text [120]])) = false := by decide
example : lintOk [] [.endTag none [112]] = false := by decide

/-! ### 4. rebuilding the tree from the stream -/

/-- an open element of the rebuilding stack machine: its tag and the (reversed) siblings collected before it -/
structure RFrame where
  ns : Option Str
  name : Str
  attrs : List Attr
  before : List Tree

/-- add text to a reversed child list, merging with a directly preceding text node (what every tree builder's
`insertText` does) -/
def addText (d : Str) : List Tree → List Tree
  | .text s :: r => .text (s ++ d) :: r
  | cur => .text d :: cur

/-- the stack machine: `st` = open elements (innermost first), `cur` = children of the innermost open element
collected so far, in reverse order -/
def rebuildFrom : List RFrame → List Tree → List Tok → Option (List Tree)
  | [], cur, [] => some cur.reverse
  | _ :: _, _, [] => none                                   -- unclosed element
  | st, cur, .startTag ns name attrs :: rest => rebuildFrom (⟨ns, name, attrs, cur⟩ :: st) [] rest
  | [], _, .endTag _ _ :: _ => none                         -- nothing to close
  | f :: st, cur, .endTag ns name :: rest =>
      if f.ns = ns ∧ f.name = name then rebuildFrom st (.elem f.ns f.name f.attrs cur.reverse :: f.before) rest
      else none
  | st, cur, .emptyTag ns name attrs :: rest => rebuildFrom st (.elem ns name attrs [] :: cur) rest
  | st, cur, .chars d :: rest => rebuildFrom st (addText d cur) rest
  | st, cur, .space d :: rest => rebuildFrom st (addText d cur) rest
  | st, cur, .comment d :: rest => rebuildFrom st (.comment d :: cur) rest
  | st, cur, .doctype n p s :: rest => rebuildFrom st (.doctype n p s :: cur) rest
  | _, _, .entity _ :: _ => none
  | _, _, .serr _ :: _ => none

def rebuild (toks : List Tok) : Option (List Tree) := rebuildFrom [] [] toks

/-- merge adjacent text nodes of a forest -/
def mergeAdj : List Tree → List Tree
  | [] => []
  | .text a :: ts =>
      match mergeAdj ts with
      | .text b :: r => .text (a ++ b) :: r
      | r => .text a :: r
  | t :: ts => t :: mergeAdj ts

mutual
/-- the forest a tree denotes: document / fragment nodes are spliced, empty text nodes dropped, children
normalised recursively -/
def flat : Tree → List Tree
  | .doc cs => flatList cs
  | .frag cs => flatList cs
  | .elem ns name attrs cs => [.elem ns name attrs (mergeAdj (flatList cs))]
  | .text s => if s = [] then [] else [.text s]
  | .doctype n p s => [.doctype n p s]
  | .comment s => [.comment s]
def flatList : List Tree → List Tree
  | [] => []
  | t :: ts => flat t ++ flatList ts
end

/-- text normalisation of a forest: drop empty text nodes, merge adjacent text nodes, recursively
(a `doc`/`frag` node stands for its children) -/
def normForest (ts : List Tree) : List Tree := mergeAdj (flatList ts)

/-- text normalisation of a single tree (same node, normalised children) -/
def normText : Tree → Tree
  | .doc cs => .doc (normForest cs)
  | .frag cs => .frag (normForest cs)
  | .elem ns name attrs cs => .elem ns name attrs (normForest cs)
  | t => t

/-- push one already normalised tree on a reversed child list -/
def push1 (c : List Tree) : Tree → List Tree
  | .text s => addText s c
  | t => t :: c

def pushForest (f cur : List Tree) : List Tree := f.foldl push1 cur

theorem pushForest_append (a b cur : List Tree) : pushForest (a ++ b) cur = pushForest b (pushForest a cur) := by
  simp [pushForest]

theorem addText_addText (a b : Str) (cur : List Tree) : addText b (addText a cur) = addText (a ++ b) cur := by
  cases cur with
  | nil => simp [addText]
  | cons x r => cases x <;> simp [addText]

theorem mergeAdj_text_text (a b : Str) (f : List Tree) :
    mergeAdj (.text (a ++ b) :: f) = mergeAdj (.text a :: .text b :: f) := by
  simp only [mergeAdj]
  split <;> simp_all

theorem mergeAdj_single (x : Tree) : mergeAdj [x] = [x] := by cases x <;> simp [mergeAdj]

/-- left-to-right merging on a reversed accumulator computes `mergeAdj` (only the last collected node can merge) -/
theorem pushForest_reverse_gen (f : List Tree) : ∀ cur : List Tree, (pushForest f cur).reverse =
    match cur with
    | [] => mergeAdj f
    | x :: r => r.reverse ++ mergeAdj (x :: f) := by
  induction f with
  | nil =>
    intro cur
    cases cur with
    | nil => simp [pushForest, mergeAdj]
    | cons x r => simp [pushForest, mergeAdj_single]
  | cons y f ih =>
    intro cur
    have hstep : pushForest (y :: f) cur = pushForest f (push1 cur y) := by simp [pushForest]
    rw [hstep]
    cases cur with
    | nil =>
      have := ih (push1 [] y)
      cases y <;> simpa [push1, addText] using this
    | cons x r =>
      have := ih (push1 (x :: r) y)
      cases y <;> cases x <;> simp [push1, addText] at this ⊢ <;> rw [this] <;> simp [mergeAdj]
      split <;> simp_all

theorem pushForest_reverse (f : List Tree) : (pushForest f []).reverse = mergeAdj f := pushForest_reverse_gen f []

/-- `addText`, except that an empty string adds nothing -/
def addTextN (d : Str) (cur : List Tree) : List Tree := if d = [] then cur else addText d cur

theorem addTextN_addTextN (a b : Str) (cur : List Tree) : addTextN b (addTextN a cur) = addTextN (a ++ b) cur := by
  cases a <;> cases b <;> simp [addTextN, addText_addText]

theorem rebuild_startTag (st : List RFrame) (cur : List Tree) (ns : Option Str) (name : Str) (attrs : List Attr)
    (rest : List Tok) :
    rebuildFrom st cur (.startTag ns name attrs :: rest) = rebuildFrom (⟨ns, name, attrs, cur⟩ :: st) [] rest := by
  cases st <;> simp [rebuildFrom]
theorem rebuild_emptyTag (st : List RFrame) (cur : List Tree) (ns : Option Str) (name : Str) (attrs : List Attr)
    (rest : List Tok) :
    rebuildFrom st cur (.emptyTag ns name attrs :: rest) = rebuildFrom st (.elem ns name attrs [] :: cur) rest := by
  cases st <;> simp [rebuildFrom]
theorem rebuild_chars (st : List RFrame) (cur : List Tree) (d : Str) (rest : List Tok) :
    rebuildFrom st cur (.chars d :: rest) = rebuildFrom st (addText d cur) rest := by
  cases st <;> simp [rebuildFrom]
theorem rebuild_space (st : List RFrame) (cur : List Tree) (d : Str) (rest : List Tok) :
    rebuildFrom st cur (.space d :: rest) = rebuildFrom st (addText d cur) rest := by
  cases st <;> simp [rebuildFrom]
theorem rebuild_comment (st : List RFrame) (cur : List Tree) (d : Str) (rest : List Tok) :
    rebuildFrom st cur (.comment d :: rest) = rebuildFrom st (.comment d :: cur) rest := by
  cases st <;> simp [rebuildFrom]
theorem rebuild_doctype (st : List RFrame) (cur : List Tree) (n p q : Option Str) (rest : List Tok) :
    rebuildFrom st cur (.doctype n p q :: rest) = rebuildFrom st (.doctype n p q :: cur) rest := by
  cases st <;> simp [rebuildFrom]

theorem rebuild_piece (f : Str → Tok)
    (hf : ∀ st cur d rest, rebuildFrom st cur (f d :: rest) = rebuildFrom st (addText d cur) rest)
    (st : List RFrame) (cur : List Tree) (d : Str) (rest : List Tok) :
    rebuildFrom st cur (piece f d ++ rest) = rebuildFrom st (addTextN d cur) rest := by
  cases d with
  | nil => simp [piece, addTextN]
  | cons a d => simp [piece, addTextN, hf]

/-- the (at most three) tokens of a text node add its whole text, merged with a preceding text node -/
theorem rebuild_text (st : List RFrame) (cur : List Tree) (s : Str) (rest : List Tok) :
    rebuildFrom st cur (textToks s ++ rest) = rebuildFrom st (addTextN s cur) rest := by
  obtain ⟨l, m, r, hs, -, -, ht⟩ := textToks_spec s
  rw [ht, List.append_assoc, List.append_assoc, rebuild_piece _ rebuild_space, rebuild_piece _ rebuild_chars,
    rebuild_piece _ rebuild_space, addTextN_addTextN, addTextN_addTextN, ← hs, List.append_assoc]

theorem pushForest_flat_text (s : Str) (cur : List Tree) : pushForest (flat (.text s)) cur = addTextN s cur := by
  by_cases h : s = [] <;> simp [flat, pushForest, addTextN, h, push1]

mutual
theorem rebuild_tree : ∀ t, WF t → ∀ st cur rest,
    rebuildFrom st cur (walkRec t ++ rest) = rebuildFrom st (pushForest (flat t) cur) rest
  | .doc cs, h, st, cur, rest => by
      simp only [walkRec, flat]; exact rebuild_list cs (by simpa [WF] using h) st cur rest
  | .frag cs, h, st, cur, rest => by
      simp only [walkRec, flat]; exact rebuild_list cs (by simpa [WF] using h) st cur rest
  | .doctype _ _ _, _, st, cur, rest => by simp [walkRec, flat, rebuild_doctype, pushForest, push1]
  | .comment _, _, st, cur, rest => by simp [walkRec, flat, rebuild_comment, pushForest, push1]
  | .text s, _, st, cur, rest => by
      rw [pushForest_flat_text]; simp only [walkRec]; exact rebuild_text st cur s rest
  | .elem ns name attrs cs, h, st, cur, rest => by
      simp only [WF] at h
      obtain ⟨_, _, _, hvoid, hcs⟩ := h
      by_cases hv : isVoid ns name = true
      · have := hvoid hv
        subst this
        simp [walkRec, hv, rebuild_emptyTag, flat, flatList, mergeAdj, pushForest, push1]
      · have ih := rebuild_list cs hcs (⟨ns, name, attrs, cur⟩ :: st) [] (.endTag ns name :: rest)
        simp only [walkRec, hv]
        have hp : pushForest [Tree.elem ns name attrs (mergeAdj (flatList cs))] cur =
            Tree.elem ns name attrs (mergeAdj (flatList cs)) :: cur := rfl
        simp [rebuild_startTag, ih, rebuildFrom, pushForest_reverse, flat, hp]
theorem rebuild_list : ∀ ts, WFList ts → ∀ st cur rest,
    rebuildFrom st cur (walkList ts ++ rest) = rebuildFrom st (pushForest (flatList ts) cur) rest
  | [], _, st, cur, rest => by simp [walkList, flatList, pushForest]
  | t :: ts, h, st, cur, rest => by
      simp only [WFList] at h
      simp only [walkList, flatList, List.append_assoc, pushForest_append]
      rw [rebuild_tree t h.1, rebuild_list ts h.2]
end

/-- **C11 (rebuild), general form**: inside any context of the stack machine, the stream of a well-formed forest
adds exactly the forest (text-normalised, left-to-right onto the children collected so far). -/
theorem C11_rebuild_from (ts : List Tree) (h : WFList ts) (st : List RFrame) (cur : List Tree) (rest : List Tok) :
    rebuildFrom st cur (walkList ts ++ rest) = rebuildFrom st (pushForest (flatList ts) cur) rest :=
  rebuild_list ts h st cur rest

/-- **C11 (rebuild)**: rebuilding the walker's stream of a well-formed tree gives back the walked tree up to text
normalisation.  `normForest [t]` is `[normText t]` for an element/comment/doctype/non-empty text root and the
normalised children for a `doc`/`frag` root (see `normForest_doc`, `normForest_elem` below). -/
theorem C11_rebuild (t : Tree) (h : WF t) : rebuild (walkRec t) = some (normForest [t]) := by
  have := rebuild_tree t h [] [] []
  simp only [List.append_nil] at this
  rw [rebuild, this]
  simp [rebuildFrom, pushForest_reverse, normForest, flatList]

theorem C11_rebuild_list (ts : List Tree) (h : WFList ts) : rebuild (walkList ts) = some (normForest ts) := by
  have := rebuild_list ts h [] [] []
  simp only [List.append_nil] at this
  rw [rebuild, this]
  simp [rebuildFrom, pushForest_reverse, normForest]

theorem normForest_doc (cs : List Tree) : normForest [.doc cs] = normForest cs := by simp [normForest, flatList, flat]
theorem normForest_frag (cs : List Tree) : normForest [.frag cs] = normForest cs := by simp [normForest, flatList, flat]
theorem normForest_elem (ns : Option Str) (name : Str) (attrs : List Attr) (cs : List Tree) :
    normForest [.elem ns name attrs cs] = [normText (.elem ns name attrs cs)] := by
  simp [normForest, flatList, flat, mergeAdj, normText]
theorem normForest_comment (s : Str) : normForest [.comment s] = [.comment s] := by
  simp [normForest, flatList, flat, mergeAdj]
theorem normForest_doctype (n p q : Option Str) : normForest [.doctype n p q] = [.doctype n p q] := by
  simp [normForest, flatList, flat, mergeAdj]
theorem normForest_text (s : Str) : normForest [.text s] = if s = [] then [] else [.text s] := by
  by_cases h : s = [] <;> simp [normForest, flatList, flat, mergeAdj, h]

/-- the walker composed with the rebuilder: `rebuild(list(TreeWalker(t)))` -/
theorem C11_walk_rebuild (t : Tree) (h : WF t) :
    (H5.Model.Walker.walk t).toOption.bind rebuild = some (normForest [t]) := by
  simp [H5.Props.C11.C11_walk, Except.toOption, C11_rebuild t h]

/-- non-vacuity / sanity: adjacent and empty text nodes are merged / dropped, the nesting is recovered -/
example : rebuild (walkRec (.doc [.elem none [112] [] [.text [104], .text [], .text [32, 105], .comment [33]], .text [10]]))
    = some [.elem none [112] [] [.text [104, 32, 105], .comment [33]], .text [10]] := by rfl
example : rebuild [.startTag none [112] [], .endTag none [113]] = none := by rfl
example : rebuild [.startTag none [112] []] = none := by rfl

end H5.Props.C11b
