/-
  C03d — the reprocess loop of `mainLoop` terminates for the tokens that are not tags (characters, space characters,
  comments, doctypes), from every state with the invariant: the rank `psi` of the phase register decreases on every
  round that hands the token back.
-/
import H5.Props.C03c
import H5.Props.C03dRet
set_option linter.unusedSimpArgs false
set_option linter.unusedVariables false
namespace H5.Props.C03d
open H5 H5.Model H5.Model.TB H5.Model.Dom
open H5.Props.C02c (NF Post Post_bind Post_mono Post_pure Post_ok Post_error Post_throw Post_ite
  NF_typeError NF_keyError NF_indexError NF_assertFail NF_valueError NF_lookupError)
open H5.Props.C03b H5.Props.C03c

/-- rank of the phase register for the tokens that are not tags: the implied-element chain `initial → beforeHtml →
beforeHead → inHead → afterHead → inBody`, `inHeadNoscript → inHead`, `afterBody`/`afterAfterBody → inBody`,
`inColumnGroup → inTable`, `inTableText →` the saved (ordinary) phase -/
def psi : Option Phase → Nat
  | some .inTableText => 9
  | some .initial => 8
  | some .beforeHtml => 7
  | some .beforeHead => 6
  | some .inHeadNoscript => 5
  | some .inHead => 4
  | some .afterHead => 3
  | some .afterBody => 1
  | some .afterAfterBody => 1
  | some .inColumnGroup => 1
  | _ => 0

/-- skip a step that keeps the phase registers -/
theorem Tr_fr_skip {α β : Type} (m : M α) [h : Fr m] (f : α → M β) (st : PState) (Q : β → PState → Prop)
    (hq : ∀ a st1, F st1 = F st → Tr (f a) st1 Q) : Tr (m >>= f) st Q :=
  (Tr_bind ..).2 (Tr_mono (h.out st) (fun a st1 e => hq a st1 e))

/-! ### the ten handlers that hand a non-tag token back -/

theorem K_Initial_processCharacters (tok : Token) (st : PState) :
    Tr (Initial_processCharacters tok) st (fun _ st' => st'.phase = some .beforeHtml) := by
  unfold Initial_processCharacters Initial_anythingElse setPhase
  refine Tr_fr_skip _ _ _ _ ?_
  intro _ st1 _
  simp only [Tr_bind, Tr_modify, Tr_pure]

theorem K_BeforeHtml_processCharacters (tok : Token) (st : PState) :
    Tr (BeforeHtml_processCharacters tok) st (fun _ st' => st'.phase = some .beforeHead) := by
  unfold BeforeHtml_processCharacters BeforeHtml_insertHtmlElement setPhase
  simp only [bind_assoc]
  refine Tr_fr_skip _ _ _ _ ?_
  intro _ st1 _
  simp only [Tr_bind, Tr_modify, Tr_pure]

theorem K_BeforeHead_processCharacters (tok : Token) (st : PState) :
    Tr (BeforeHead_processCharacters tok) st (fun _ st' => st'.phase = some .inHead) := by
  unfold BeforeHead_processCharacters BeforeHead_startTagHead setPhase
  simp only [bind_assoc]
  refine Tr_fr_skip _ _ _ _ ?_
  intro _ st1 _
  refine Tr_fr_skip _ _ _ _ ?_
  intro _ st2 _
  simp only [Tr_bind, Tr_modify, Tr_pure]

theorem K_InHead_processCharacters (tok : Token) (st : PState) :
    Tr (InHead_processCharacters tok) st (fun _ st' => st'.phase = some .afterHead) := by
  unfold InHead_processCharacters InHead_anythingElse InHead_endTagHead setPhase
  simp only [bind_assoc]
  refine Tr_fr_skip _ _ _ _ ?_
  intro _ st1 _
  refine Tr_fr_skip _ _ _ _ ?_
  intro _ st2 _
  simp only [Tr_bind, C03c.Tr_pyAssert, Tr_modify, Tr_pure]
  intro _; trivial

theorem K_InHeadNoscript_processCharacters (tok : Token) (st : PState) :
    Tr (InHeadNoscript_processCharacters tok) st (fun _ st' => st'.phase = some .inHead) := by
  unfold InHeadNoscript_processCharacters InHeadNoscript_anythingElse InHeadNoscript_endTagNoscript setPhase
  simp only [bind_assoc]
  refine Tr_fr_skip _ _ _ _ ?_
  intro _ st0 _
  refine Tr_fr_skip _ _ _ _ ?_
  intro _ st1 _
  refine Tr_fr_skip _ _ _ _ ?_
  intro _ st2 _
  simp only [Tr_bind, C03c.Tr_pyAssert, Tr_modify, Tr_pure]
  intro _; trivial

theorem K_AfterHead_processCharacters (tok : Token) (st : PState) :
    Tr (AfterHead_processCharacters tok) st (fun _ st' => st'.phase = some .inBody) := by
  unfold AfterHead_processCharacters AfterHead_anythingElse setPhase setFramesetOK
  simp only [bind_assoc]
  refine Tr_fr_skip _ _ _ _ ?_
  intro _ st1 _
  simp only [Tr_bind, Tr_modify, Tr_pure]

theorem K_AfterBody_processCharacters (tok : Token) (st : PState) :
    Tr (AfterBody_processCharacters tok) st (fun _ st' => st'.phase = some .inBody) := by
  unfold AfterBody_processCharacters setPhase
  refine Tr_fr_skip _ _ _ _ ?_
  intro _ st1 _
  simp only [Tr_bind, Tr_modify, Tr_pure]

theorem K_AfterAfterBody_processCharacters (tok : Token) (st : PState) :
    Tr (AfterAfterBody_processCharacters tok) st (fun _ st' => st'.phase = some .inBody) := by
  unfold AfterAfterBody_processCharacters setPhase
  refine Tr_fr_skip _ _ _ _ ?_
  intro _ st1 _
  simp only [Tr_bind, Tr_modify, Tr_pure]

/-- the value of a read-only test, twice -/
theorem Tr_RO_bind_run {β : Type} (m : M Bool) [h : RO m] (f : Bool → M β) (st : PState) (Q : β → PState → Prop)
    (hq : ∀ b, m.run st = .ok (b, st) → Tr (f b) st Q) : Tr (m >>= f) st Q := by
  have h0 := h.out st
  unfold Tr at h0 ⊢
  rw [StateT.run_bind]
  cases hm : m.run st with
  | error e => rw [hm] at h0; exact h0
  | ok p =>
    obtain ⟨b, s1⟩ := p
    rw [hm] at h0
    have : s1 = st := h0
    subst this
    exact hq b hm

theorem K_InColumnGroup_processCharacters (tok : Token) (st : PState) :
    Tr (InColumnGroup_processCharacters tok) st (fun a st' => a ≠ none → st'.phase = some .inTable) := by
  unfold InColumnGroup_processCharacters
  refine Tr_RO_bind_run _ _ _ _ ?_
  intro b hb
  unfold InColumnGroup_endTagColgroup setPhase
  simp only [bind_assoc]
  refine Tr_RO_bind_run _ _ _ _ ?_
  intro b2 hb2
  have hbb : b2 = b := by rw [hb] at hb2; cases hb2; rfl
  subst hbb
  cases b2 with
  | true =>
    simp only [if_true, bind_assoc]
    refine Tr_fr_skip _ _ _ _ ?_
    intro _ st1 _
    simp only [Tr_bind, C03c.Tr_pyAssert]
    intro _
    refine Tr_mono ((inferInstance : Fr parseErrorDefault).out st1) ?_
    intro _ st2 _
    simp only [Tr_bind, Tr_pure]
    intro h; exact absurd rfl h
  | false =>
    simp only [Bool.false_eq_true, if_false, bind_assoc]
    refine Tr_fr_skip _ _ _ _ ?_
    intro _ st1 _
    simp only [Tr_bind, Tr_modify, Tr_pure]
    intro _; rfl

/-- `InTableTextPhase.processComment`: back to the saved phase -/
theorem K_InTableText_processComment {r : Rec} {n : Nat} (hr : RecInv r n) (hn : 0 < n) (tok : Token) (st : PState)
    (hi : Inv st) (hp : st.phase = some .inTableText) :
    Tr (InTableText_processComment r tok) st (fun _ st' => psi st'.phase ≤ 8) := by
  unfold InTableText_processComment InTableText_restorePhase
  simp only [Tr_bind]
  refine Tr_mono (T_InTableText_flushCharacters hr hn st hi.str) ?_
  rintro _ st1 ⟨hk, _⟩
  simp only [Tr_modify, Tr_pure]
  have hF := hk.2.1.f
  have ht : st1.tableTextOriginalPhase = st.tableTextOriginalPhase := by
    simp only [F, Prod.mk.injEq] at hF; exact hF.2.2
  show psi st1.tableTextOriginalPhase ≤ 8
  rw [ht]
  have hne := (hi.reg.tph hp).1.2.1
  cases hq : st.tableTextOriginalPhase with
  | none => decide
  | some q => rw [hq] at hne; cases q <;> first | decide | exact absurd rfl hne

/-! ### the dispatcher -/

/-- if `m` hands a token back, the rank of the register is then at most `k` (`b = some k`; `none`: it never does) -/
def RetLe (m : M (Option Token)) (st : PState) (b : Option Nat) : Prop :=
  ∀ t st', m.run st = .ok (some t, st') → ∃ k, b = some k ∧ psi st'.phase ≤ k

theorem RetLe_none (m : M (Option Token)) [h : RN m] (st : PState) (b : Option Nat) : RetLe m st b := by
  intro t st' hrun
  have := h.out st
  rw [hrun] at this
  cases this

theorem RetLe_some {m : M (Option Token)} {st : PState} {k : Nat} {b : Option Nat}
    (h : Tr m st (fun a st' => a ≠ none → psi st'.phase ≤ k)) (hb : b = some k) : RetLe m st b := by
  intro t st' hrun
  unfold Tr at h
  rw [hrun] at h
  exact ⟨k, hb, h (by simp)⟩

theorem RetLe_dite {c : Prop} [Decidable c] (t : c → M (Option Token)) (e : ¬c → M (Option Token)) (st : PState)
    (b : Option Nat) (ht : ∀ h, RetLe (t h) st b) (he : ∀ h, RetLe (e h) st b) : RetLe (dite c t e) st b := by
  by_cases hc : c
  · rw [dif_pos hc]; exact ht _
  · rw [dif_neg hc]; exact he _

theorem RetLe_liftE_bind {α : Type} (x : Except PyErr α) (f : α → M (Option Token)) (st : PState) (b : Option Nat)
    (h : ∀ a, x = .ok a → RetLe (f a) st b) : RetLe (liftM x >>= f) st b := by
  cases x with
  | error e => intro t st' hrun; cases hrun
  | ok a => exact h a rfl

theorem le_of_phase {st' : PState} {X : Phase} {k : Nat} (h : st'.phase = some X) (hk : psi (some X) ≤ k) :
    psi st'.phase ≤ k := by rw [h]; exact hk

/-- an upper bound on the rank of the register after the method has handed the token back -/
def retBound (q : String) : Option Nat :=
  if q = "InitialPhase.processCharacters" then some 7
  else if q = "BeforeHtmlPhase.processCharacters" then some 6
  else if q = "BeforeHeadPhase.processCharacters" then some 4
  else if q = "InHeadPhase.processCharacters" then some 3
  else if q = "InHeadNoscriptPhase.processCharacters" then some 4
  else if q = "AfterHeadPhase.processCharacters" then some 0
  else if q = "InColumnGroupPhase.processCharacters" then some 0
  else if q = "AfterBodyPhase.processCharacters" then some 0
  else if q = "AfterAfterBodyPhase.processCharacters" then some 0
  else if q = "InTableTextPhase.processComment" then some 8
  else none

set_option hygiene false in
macro "rk_close" : tactic => `(tactic| first
  | exact RetLe_none _ _ _
  | exact RetLe_some (k := 7) (Tr_mono (K_Initial_processCharacters _ _) (fun _ _ h _ => le_of_phase h (by decide))) (by decide)
  | exact RetLe_some (k := 6) (Tr_mono (K_BeforeHtml_processCharacters _ _) (fun _ _ h _ => le_of_phase h (by decide))) (by decide)
  | exact RetLe_some (k := 4) (Tr_mono (K_BeforeHead_processCharacters _ _) (fun _ _ h _ => le_of_phase h (by decide))) (by decide)
  | exact RetLe_some (k := 3) (Tr_mono (K_InHead_processCharacters _ _) (fun _ _ h _ => le_of_phase h (by decide))) (by decide)
  | exact RetLe_some (k := 4) (Tr_mono (K_InHeadNoscript_processCharacters _ _) (fun _ _ h _ => le_of_phase h (by decide))) (by decide)
  | exact RetLe_some (k := 0) (Tr_mono (K_AfterHead_processCharacters _ _) (fun _ _ h _ => le_of_phase h (by decide))) (by decide)
  | exact RetLe_some (k := 0) (Tr_mono (K_AfterBody_processCharacters _ _) (fun _ _ h _ => le_of_phase h (by decide))) (by decide)
  | exact RetLe_some (k := 0) (Tr_mono (K_AfterAfterBody_processCharacters _ _) (fun _ _ h _ => le_of_phase h (by decide))) (by decide)
  | exact RetLe_some (k := 0) (Tr_mono (K_InColumnGroup_processCharacters _ _) (fun _ _ h ha => le_of_phase (h ha) (by decide))) (by decide)
  | exact RetLe_some (k := 8) (Tr_mono (K_InTableText_processComment hr hn _ _ hi (hreg rfl)) (fun _ _ h _ => h)) (by decide)
  | exact absurd hq (by decide))

set_option maxHeartbeats 4000000 in
theorem plain_rank {r : Rec} [hrn : RecRN r] {n : Nat} (hr : RecInv r n) (hn : 0 < n) (q : String) (tok : Token)
    (st : PState) (hi : Inv st) (hreg : q = "InTableTextPhase.processComment" → st.phase = some .inTableText)
    (hq : q ∈ rnPlain ∨ retBound q ≠ none) :
    RetLe (runProcessPlain r q tok) st (retBound q) := by
  delta runProcessPlain
  delta runProcessPlain.match_1
  repeat (refine RetLe_dite _ _ _ _ (fun heq => ?_) (fun _ => ?_); (· subst heq; dsimp only [Eq.ndrec_symm]; rk_close))
  exact RetLe_none _ _ _

/-! ### the static check: the bound is below the rank of the phase whose method it is -/

def plain4 : List String := ["processCharacters", "processSpaceCharacters", "processComment", "processDoctype"]

def rankOK (p : Phase) (m : String) : Bool :=
  match resolveMethod p m with
  | .ok q =>
    if q = "InBodyPhase.<slot>" then m == "processSpaceCharacters"
    else q != "Phase.processStartTag" && q != "Phase.processEndTag" &&
      (match retBound q with
       | some k => decide (k < psi (some p)) && p != .inForeignContent &&
           (q != "InTableTextPhase.processComment" || p == .inTableText)
       | none => rnPlain.contains q)
  | .error _ => true

theorem rank_static : ∀ p ∈ Phase.all, ∀ m ∈ plain4, rankOK p m = true := by decide +kernel

/-- `phases[p].<method>(token)` for a token that is not a tag, with `p` the phase register (or
`InForeignContentPhase`): if the token is handed back, the rank of the register has decreased -/
theorem runProcess_rank {r : Rec} [hrn : RecRN r] {n : Nat} (hr : RecInv r n) (hn : 0 < n) (p : Phase) (m : String)
    (hm : m ∈ plain4) (tok : Token) (st : PState) (hi : Inv st)
    (hreg : p = .inForeignContent ∨ st.phase = some p) :
    ∀ t st', (runProcess r p m tok).run st = .ok (some t, st') → psi st'.phase < psi st.phase := by
  have hs := rank_static p (Phase.mem_all p) m hm
  unfold rankOK at hs
  have key : RetLe (runProcess r p m tok) st
      (match resolveMethod p m with | .ok q => (if st.phase = some p then retBound q else none) | .error _ => none) := by
    unfold runProcess
    refine RetLe_liftE_bind _ _ _ _ ?_
    intro q hq
    rw [hq] at hs ⊢
    dsimp only at hs ⊢
    split
    · simp at hs
    · simp at hs
    · rw [if_pos rfl] at hs
      have hm2 : m = "processSpaceCharacters" := by simpa using hs
      subst hm2
      rw [if_pos (by decide)]
      exact RetLe_none _ _ _
    · rename_i h1 h2 h3
      rw [if_neg h3] at hs
      simp only [Bool.and_eq_true, bne_iff_ne, ne_eq] at hs
      cases hb : retBound q with
      | none =>
        rw [hb] at hs
        have hq2 : q ∈ rnPlain := by simpa using hs.2
        have := plain_rank hr hn q tok st hi (fun he => by rw [he] at hb; exact absurd hb (by decide)) (Or.inl hq2)
        rw [hb] at this
        intro t st' hrun
        obtain ⟨k, hk, _⟩ := this t st' hrun
        cases hk
      | some k =>
        rw [hb] at hs
        simp only [Bool.and_eq_true, decide_eq_true_eq, bne_iff_ne, ne_eq, Bool.or_eq_true, beq_iff_eq] at hs
        obtain ⟨_, ⟨hlt, hnf⟩, hitt⟩ := hs
        have hph : st.phase = some p := by
          rcases hreg with h | h
          · exact absurd h hnf
          · exact h
        rw [if_pos hph]
        have := plain_rank hr hn q tok st hi (fun he => by
          rcases hitt with h | h
          · exact absurd he h
          · rw [hph, h]) (Or.inr (by rw [hb]; simp))
        rw [hb] at this
        exact this
  intro t st' hrun
  obtain ⟨k, hk, hle⟩ := key t st' hrun
  cases hq : resolveMethod p m with
  | error e => rw [hq] at hk; cases hk
  | ok q =>
    rw [hq] at hk hs
    dsimp only at hk hs
    by_cases hph : st.phase = some p
    · rw [if_pos hph] at hk
      by_cases h3 : q = "InBodyPhase.<slot>"
      · have hn0 : retBound "InBodyPhase.<slot>" = none := by decide
        rw [h3, hn0] at hk; cases hk
      · rw [if_neg h3, hk] at hs
        simp only [Bool.and_eq_true, decide_eq_true_eq] at hs
        rw [hph]
        exact Nat.lt_of_le_of_lt hle hs.2.1.1
    · rw [if_neg hph] at hk; cases hk

end H5.Props.C03d
