/-
  Property C02 "total" (also needed by C03) — common definitions for the fuel-sufficiency proof of
  the tokenizer model `H5.Model.Tokenizer`.

  * `NF e`            : the error `e` is not an `outOfFuel`.
  * `Post x P`        : `x : Except PyErr α` is either `.ok a` with `P a` or an error that is not `outOfFuel`
                        (a weakest-precondition style predicate; `Post_bind` is an *iff*).
  * `w`, `μ`          : the potential `μ s = 8·|input| + w state`, `w ≤ 2` = length of the longest chain of
                        state calls without net consumption that can start in the state (NOTES "Fuel").
  * `Dec n W r`       : the result `r = (cont, s')` of a state call, when `cont = true`, has potential `< 8·n + W`.
  * facts about the stream helpers (`Stream.char / unget / charsUntil`, `matchExpected`,
    `consumeDigits`, `extendWhilePrefix`, `consumeEntityCore`, `cdataLoop`).
-/
import H5.Model.Tokenizer
namespace H5.Props.C02c
open H5 H5.Gen H5.Model H5.Model.Tokenizer

/-- the error is not an exhausted-fuel error -/
def NF (e : PyErr) : Prop := ∀ site, e ≠ .outOfFuel site

/-- `x` is `.ok a` with `P a`, or an error other than `outOfFuel` -/
def Post {α : Type} (x : Except PyErr α) (P : α → Prop) : Prop :=
  match x with
  | .ok a => P a
  | .error e => NF e

theorem Post_ok {α : Type} (a : α) (P : α → Prop) : Post (Except.ok a) P ↔ P a := Iff.rfl
theorem Post_pure {α : Type} (a : α) (P : α → Prop) : Post (pure a : Except PyErr α) P ↔ P a := Iff.rfl
theorem Post_error {α : Type} (e : PyErr) (P : α → Prop) : Post (Except.error e : Except PyErr α) P ↔ NF e :=
  Iff.rfl
theorem Post_throw {α : Type} (e : PyErr) (P : α → Prop) : Post (throw e : Except PyErr α) P ↔ NF e :=
  Iff.rfl

theorem Post_bind {α β : Type} (x : Except PyErr α) (f : α → Except PyErr β) (P : β → Prop) :
    Post (x >>= f) P ↔ Post x (fun a => Post (f a) P) := by
  cases x <;> rfl

theorem Post_ite {α : Type} (c : Prop) [Decidable c] (a b : Except PyErr α) (P : α → Prop) :
    Post (if c then a else b) P ↔ (if c then Post a P else Post b P) := by
  split <;> rfl

theorem Post_mono {α : Type} {x : Except PyErr α} {Q P : α → Prop} (h : Post x Q) (hq : ∀ a, Q a → P a) :
    Post x P := by
  cases x with
  | ok a => exact hq a h
  | error e => exact h

theorem Post_true_of_ok {α : Type} {x : Except PyErr α} (h : ∀ e, x = .error e → NF e) :
    Post x (fun _ => True) := by
  cases x with
  | ok a => trivial
  | error e => exact h e rfl

theorem NF_typeError (m) : NF (.typeError m) := by intro _ h; cases h
theorem NF_keyError (m) : NF (.keyError m) := by intro _ h; cases h
theorem NF_indexError (m) : NF (.indexError m) := by intro _ h; cases h
theorem NF_assertFail (m) : NF (.assertFail m) := by intro _ h; cases h
theorem NF_valueError (m) : NF (.valueError m) := by intro _ h; cases h
theorem NF_lookupError (m) : NF (.lookupError m) := by intro _ h; cases h

/-! ### the potential -/

/-- weight of a state = length of the longest chain of state calls without net consumption starting there
(0: the five text states, which consume a character or stop; 2: the states that may hand over, without net
consumption, to a weight-1 state; 1: the rest) -/
def w : State → Nat
  | .dataState | .rcdataState | .rawtextState | .scriptDataState | .plaintextState => 0
  | .tagOpenState | .closeTagOpenState | .scriptDataEscapedLessThanSignState
  | .scriptDataEscapedEndTagOpenState | .scriptDataEscapedEndTagNameState
  | .scriptDataDoubleEscapeStartState | .scriptDataDoubleEscapedLessThanSignState
  | .scriptDataDoubleEscapeEndState | .beforeAttributeValueState | .afterAttributeValueState
  | .selfClosingStartTagState | .markupDeclarationOpenState | .doctypeState | .afterDoctypeNameState
  | .afterDoctypePublicKeywordState | .afterDoctypeSystemKeywordState => 2
  | .entityDataState | .characterReferenceInRcdata | .tagNameState | .rcdataLessThanSignState
  | .rcdataEndTagOpenState | .rcdataEndTagNameState | .rawtextLessThanSignState | .rawtextEndTagOpenState
  | .rawtextEndTagNameState | .scriptDataLessThanSignState | .scriptDataEndTagOpenState
  | .scriptDataEndTagNameState | .scriptDataEscapeStartState | .scriptDataEscapeStartDashState
  | .scriptDataEscapedState | .scriptDataEscapedDashState | .scriptDataEscapedDashDashState
  | .scriptDataDoubleEscapedState | .scriptDataDoubleEscapedDashState
  | .scriptDataDoubleEscapedDashDashState | .beforeAttributeNameState | .attributeNameState
  | .afterAttributeNameState | .attributeValueDoubleQuotedState | .attributeValueSingleQuotedState
  | .attributeValueUnQuotedState | .bogusCommentState | .commentStartState | .commentStartDashState
  | .commentState | .commentEndDashState | .commentEndState | .commentEndBangState
  | .beforeDoctypeNameState | .doctypeNameState | .beforeDoctypePublicIdentifierState
  | .doctypePublicIdentifierDoubleQuotedState | .doctypePublicIdentifierSingleQuotedState
  | .afterDoctypePublicIdentifierState | .betweenDoctypePublicAndSystemIdentifiersState
  | .beforeDoctypeSystemIdentifierState | .doctypeSystemIdentifierDoubleQuotedState
  | .doctypeSystemIdentifierSingleQuotedState | .afterDoctypeSystemIdentifierState | .bogusDoctypeState
  | .cdataSectionState => 1

theorem w_le (st : State) : w st ≤ 2 := by cases st <;> decide

/-- the potential: independent of the token queue, the current token and the buffer -/
def μ (s : St) : Nat := 8 * s.input.length + w s.state

/-- what a state call must achieve when it returns `True` from a state of weight `W` with `n`
characters left -/
def Dec (n W : Nat) (r : Bool × St) : Prop :=
  r.1 = true → 8 * r.2.input.length + w r.2.state < 8 * n + W

/-! ### stream helpers -/

/-- number of real characters (not EOF) in a `charStack` -/
def somes : List (Option Nat) → Nat
  | [] => 0
  | none :: r => somes r
  | some _ :: r => somes r + 1

theorem somes_append (a b : List (Option Nat)) : somes (a ++ b) = somes a + somes b := by
  induction a with
  | nil => simp [somes]
  | cons x r ih => cases x <;> simp [somes, ih] <;> omega

theorem unget_length (i : List Nat) (c : Option Nat) : (Stream.unget i c).length = i.length + somes [c] := by
  cases c <;> simp [Stream.unget, somes]

theorem char_length (i : List Nat) : (Stream.char i).2.length + somes [(Stream.char i).1] = i.length := by
  cases i <;> simp [Stream.char, somes]

theorem span_loop_length {α : Type} (p : α → Bool) (i acc : List α) :
    (List.span.loop p i acc).2.length ≤ i.length := by
  induction i generalizing acc with
  | nil => simp [List.span.loop]
  | cons a r ih =>
    simp only [List.span.loop]
    split
    · exact Nat.le_trans (ih _) (by simp)
    · simp

theorem charsUntil_length (i cs : List Nat) (o : Bool) : (Stream.charsUntil i cs o).2.length ≤ i.length := by
  unfold Stream.charsUntil List.span
  exact span_loop_length _ _ _

theorem St_charsUntil_length (s : St) (cs : List Nat) (o : Bool) :
    (s.charsUntil cs o).2.input.length ≤ s.input.length := by
  simp only [St.charsUntil]
  exact charsUntil_length _ _ _

theorem St_charsUntil_state (s : St) (cs : List Nat) (o : Bool) : (s.charsUntil cs o).2.state = s.state := by
  simp [St.charsUntil]

/-- ungetting a whole char stack -/
theorem foldl_unget_input (cs : List (Option Nat)) (s : St) :
    (cs.foldl (fun s c => s.unget c) s).input.length = s.input.length + somes cs
    ∧ (cs.foldl (fun s c => s.unget c) s).state = s.state := by
  induction cs generalizing s with
  | nil => simp [somes]
  | cons c r ih =>
    simp only [List.foldl_cons]
    have := ih (s.unget c)
    cases c <;> simp_all [St.unget, Stream.unget, somes] <;> omega

theorem somes_reverse (cs : List (Option Nat)) : somes cs.reverse = somes cs := by
  induction cs with
  | nil => rfl
  | cons c r ih => simp [somes_append, ih]; cases c <;> simp [somes]

/-- `matchExpected` reads exactly the characters it reports -/
theorem matchExpected_length (l : List (List Nat)) (i : List Nat) (m : Bool) (cs : List (Option Nat))
    (r : List Nat) (h : matchExpected l i = (m, cs, r)) : r.length + somes cs = i.length := by
  induction l generalizing i m cs r with
  | nil => simp [matchExpected] at h; obtain ⟨_, rfl, rfl⟩ := h; simp [somes]
  | cons e more ih =>
    cases i with
    | nil =>
      simp [matchExpected, Stream.char, isIn] at h
      obtain ⟨_, rfl, rfl⟩ := h; simp [somes]
    | cons c rest =>
      simp only [matchExpected, Stream.char, isIn] at h
      by_cases hc : e.contains c = true
      · simp only [hc] at h
        have := ih rest _ _ _ rfl
        try simp only [Prod.mk.injEq] at h
        obtain ⟨_, rfl, rfl⟩ := h
        simp only [somes, List.length_cons]; omega
      · simp only [hc] at h
        try simp only [Prod.mk.injEq] at h
        obtain ⟨_, rfl, rfl⟩ := h
        simp [somes]

theorem getLast_somes (cs : List (Option Nat)) (c : Option Nat) (h : cs.getLast? = some c) :
    somes [c] ≤ somes cs := by
  induction cs with
  | nil => simp at h
  | cons x r ih =>
    cases r with
    | nil => simp at h; subst h; exact Nat.le_refl _
    | cons y r2 =>
      have : (y :: r2).getLast? = some c := by simpa [List.getLast?_cons_cons] using h
      have := ih this
      cases x <;> simp_all [somes] <;> omega

/-! ### character references -/

theorem consumeDigits_length (allowed i : List Nat) (cs : Str) (c : Option Nat) (r : List Nat)
    (h : consumeDigits allowed i = (cs, c, r)) : r.length + somes [c] ≤ i.length := by
  induction i generalizing cs c r with
  | nil => simp [consumeDigits] at h; obtain ⟨_, rfl, rfl⟩ := h; simp [somes]
  | cons x rest ih =>
    simp only [consumeDigits] at h
    by_cases hc : allowed.contains x = true
    · simp only [hc] at h
      have := ih _ _ _ rfl
      try simp only [Prod.mk.injEq] at h
      obtain ⟨_, rfl, rfl⟩ := h
      simp only [List.length_cons]; omega
    · simp only [hc] at h
      try simp only [Prod.mk.injEq] at h
      obtain ⟨_, rfl, rfl⟩ := h
      simp [somes]

theorem pyIntDigits_post (radix : Nat) (s : Str) (acc : Nat) : Post (pyIntDigits radix s acc) (fun _ => True) := by
  induction s generalizing acc with
  | nil => simp [pyIntDigits, Post]
  | cons c r ih =>
    simp only [pyIntDigits]
    split
    · split
      · exact ih _
      · exact NF_valueError _
    · exact NF_valueError _

theorem pyInt_post (s : Str) (radix : Nat) : Post (pyInt s radix) (fun _ => True) := by
  unfold pyInt
  split
  · exact NF_valueError _
  · split
    · exact NF_valueError _
    · exact pyIntDigits_post _ _ _

theorem cne_aux (c : Option Nat) (r i : List Nat) (hl : r.length + somes [c] ≤ i.length) (x : Except PyErr Nat)
    (hx : Post x fun _ => True) :
    Post (do
      let charAsInt ← x
      if c ≠ some Ch.semi then
          pure
            ((numCharRef charAsInt).fst, (numCharRef charAsInt).snd.toList ++ [perr "numeric-entity-without-semicolon"],
              Stream.unget r c)
        else pure ((numCharRef charAsInt).fst, (numCharRef charAsInt).snd.toList, r))
    fun r => r.snd.snd.length ≤ i.length := by
  simp only [Post_bind]
  refine Post_mono hx ?_
  intro a _
  split <;> simp only [Post_pure, unget_length] <;> omega

theorem consumeNumberEntity_post (isHex : Bool) (i : List Nat) :
    Post (consumeNumberEntity isHex i) (fun r => r.2.2.length ≤ i.length) := by
  unfold consumeNumberEntity
  cases isHex
  · simp only [Bool.false_eq_true, ↓reduceIte]
    generalize hcd : consumeDigits digits i = cd
    obtain ⟨cs, c, r⟩ := cd
    have hl := consumeDigits_length _ _ _ _ _ hcd
    split
    · exact cne_aux c r i hl _ trivial
    · exact cne_aux c r i hl _ (pyInt_post _ _)
  · simp only [↓reduceIte]
    generalize hcd : consumeDigits hexDigits i = cd
    obtain ⟨cs, c, r⟩ := cd
    have hl := consumeDigits_length _ _ _ _ _ hcd
    split
    · exact cne_aux c r i hl _ trivial
    · exact cne_aux c r i hl _ (pyInt_post _ _)

theorem joinChars_post (cs : List (Option Nat)) : Post (joinChars cs) (fun _ => True) := by
  induction cs with
  | nil => simp [joinChars, Post]
  | cons c r ih =>
    cases c with
    | none => exact NF_typeError _
    | some c =>
      simp only [joinChars, Post_bind]
      exact Post_mono ih (fun _ _ => trivial)

theorem extendWhilePrefix_post (table : List (Str × Str)) (i : List Nat) (cs : List (Option Nat)) :
    Post (extendWhilePrefix table i cs) (fun r => r.2.length + somes r.1 = i.length + somes cs) := by
  induction i generalizing cs with
  | nil =>
    unfold extendWhilePrefix
    split
    · exact NF_indexError _
    · simp [Post]
    · split
      · have := joinChars_post cs; simp_all [Post]
      · split <;> simp [Post, somes_append, somes]
  | cons c rest ih =>
    unfold extendWhilePrefix
    split
    · exact NF_indexError _
    · simp [Post]
    · split
      · have := joinChars_post cs; simp_all [Post]
      · split
        · simp [Post]
        · refine Post_mono (ih _) ?_
          intro a h
          simp [somes_append, somes] at h ⊢; omega

theorem longestPrefixFrom_post (table : List (Str × Str)) (pfx : Str) (n : Nat) :
    Post (longestPrefixFrom table pfx n) (fun _ => True) := by
  induction n with
  | zero => simp only [longestPrefixFrom]; split <;> simp [Post, NF_keyError]
  | succ n ih =>
    simp only [longestPrefixFrom]
    split
    · simp [Post]
    · exact ih

theorem entityValue_post (table : List (Str × Str)) (k : Str) : Post (entityValue table k) (fun _ => True) := by
  unfold entityValue; split <;> simp [Post, NF_keyError]

theorem charStackGet_post (cs : List (Option Nat)) (i : Nat) : Post (charStackGet cs i) (fun _ => True) := by
  unfold charStackGet; split <;> simp [Post, NF_indexError]

theorem charStackLast_post (cs : List (Option Nat)) :
    Post (charStackLast cs) (fun c => somes [c] ≤ somes cs) := by
  unfold charStackLast; split
  · rename_i c h; exact getLast_somes cs c h
  · exact NF_indexError _

theorem longestPrefix_post (table : List (Str × Str)) (pfx : Str) : Post (longestPrefix table pfx) (fun _ => True) :=
  longestPrefixFrom_post _ _ _

/-! ### a small verification-condition generator for `Post` goals -/

/-- extensible list of helper specifications: each rule is `apply Post_mono (spec …)` -/
syntax "post_helper" : tactic
macro_rules | `(tactic| post_helper) => `(tactic| with_reducible apply Post_mono (joinChars_post _))
macro_rules | `(tactic| post_helper) => `(tactic| with_reducible apply Post_mono (charStackLast_post _))
macro_rules | `(tactic| post_helper) => `(tactic| with_reducible apply Post_mono (charStackGet_post _ _))
macro_rules | `(tactic| post_helper) => `(tactic| with_reducible apply Post_mono (entityValue_post _ _))
macro_rules | `(tactic| post_helper) => `(tactic| with_reducible apply Post_mono (consumeNumberEntity_post _ _))

macro "post_simp" : tactic => `(tactic| simp only [Post_bind, Post_pure, Post_ok, Post_error, Post_throw, Post_ite,
  NF_typeError, NF_keyError, NF_indexError, NF_assertFail, NF_valueError, NF_lookupError])

/-- push `Post` through binds / ifs / matches, using the helper specifications -/
macro "post_loop" : tactic => `(tactic| repeat' (first
   | post_simp
   | (post_helper; intro _ _)
   | split ))

theorem consumeNamedEntity_post (table : List (Str × Str)) (fa : Bool) (c0 : Option Nat) (i : List Nat) :
    Post (consumeNamedEntity table fa c0 i) (fun r => r.2.2.length ≤ i.length + somes [c0]) := by
  unfold consumeNamedEntity
  simp only [Post_bind]
  refine Post_mono (extendWhilePrefix_post table i [c0]) ?_
  rintro ⟨cs, inp⟩ h
  simp only at h ⊢
  refine Post_mono (joinChars_post _) ?_
  intro pfx _
  have hlp := longestPrefix_post table pfx
  generalize longestPrefix table pfx = lp at hlp
  post_loop
  all_goals first
    | exact hlp
    | (simp only [unget_length]; omega)

macro_rules | `(tactic| post_helper) => `(tactic| with_reducible apply Post_mono (consumeNamedEntity_post _ _ _ _))

theorem char_eq_length (i : List Nat) (c : Option Nat) (r : List Nat) (h : Stream.char i = (c, r)) :
    r.length + somes [c] = i.length := by
  have := char_length i
  rw [h] at this; exact this

theorem char_nil : Stream.char [] = (none, []) := by simp [Stream.char]
theorem char_cons (c : Nat) (r : List Nat) : Stream.char (c :: r) = (some c, r) := by simp [Stream.char]
theorem isIn_none (l : List Nat) : isIn none l = false := by simp [isIn]
theorem isIn_some (c : Nat) (l : List Nat) : isIn (some c) l = l.contains c := by simp [isIn]

theorem consumeEntityCore_post (ac : Option Nat) (fa : Bool) (i : List Nat) :
    Post (consumeEntityCore ac fa i) (fun r => r.2.2.length ≤ i.length) := by
  unfold consumeEntityCore
  generalize entities = tbl
  rcases i with _ | ⟨c0, _ | ⟨c1, _ | ⟨c2, r⟩⟩⟩
  all_goals simp only [char_nil, char_cons, isIn_none, isIn_some]
  all_goals post_loop
  all_goals (simp only [unget_length, somes, List.length_cons, List.length_nil] at *)
  all_goals first
    | omega
    | (simp_all [somes]; try omega)

/-! ### the inner loop of `cdataSectionState`: its own fuel `len(input) + 1` always suffices -/

theorem charsUntil_eq_length (i cs : List Nat) (o : Bool) (a r : List Nat)
    (h : Stream.charsUntil i cs o = (a, r)) : r.length ≤ i.length := by
  have := charsUntil_length i cs o
  rw [h] at this; exact this

theorem cdataLoop_post (fuel : Nat) (data : List Str) (i : List Nat) (h : i.length < fuel) :
    Post (cdataLoop fuel data i) (fun r => r.2.length ≤ i.length) := by
  induction fuel generalizing data i with
  | zero => omega
  | succ fuel ih =>
    simp only [cdataLoop]
    have l1 := charsUntil_length i [Ch.rbracket] false
    have l2 := charsUntil_length (Stream.charsUntil i [Ch.rbracket]).snd [Ch.gt] false
    have l3 := char_length (Stream.charsUntil (Stream.charsUntil i [Ch.rbracket]).snd [Ch.gt]).snd
    split
    · simp only [Post_ok]; omega
    · split
      · exact NF_assertFail _
      · split
        · simp only [Post_ok]; omega
        · rename_i hc _ _
          generalize (Stream.char (Stream.charsUntil (Stream.charsUntil i [Ch.rbracket]).snd [Ch.gt]).snd) = p at *
          obtain ⟨c, i3⟩ := p
          have : c = some Ch.gt := by
            cases c with
            | none => exact absurd rfl hc
            | some x => simp_all
          subst this
          simp only [somes] at l3
          refine Post_mono (ih _ i3 (by omega)) ?_
          intro r hr
          omega

end H5.Props.C02c
