/-
  C03 fuel part, level 2 — the static call graph of the nested `phase.processX(...)` dispatches as a rank:
  `needS / needE / needCh / needSp / needCm / needEOF` give, for every entry point (phase, method, token class),
  the number of nested dispatch levels a call may need.  Every handler of the model only re-dispatches to entry
  points of strictly smaller rank (`H5.Props.C03bDispatch`), so `mkRec n` with `n > rank` never reaches
  `Rec.bottom`.  The token class only matters in two places where the phase graph alone has a cycle:

  * `<html>` start tags:  `InBodyPhase.startTagProcessInHead` → inHead, `InHeadPhase.startTagHtml` → inBody;
    the first is never selected for `html`, the second only for `html`.
  * `</caption>` end tags:  `InCaptionPhase.endTagTable` → `parser.phase.processEndTag(</caption>)`,
    which for an arbitrary current phase could be `InCaptionPhase` again — but there `</caption>` is a leaf.

  `RecOK r n` : every entry point of `r` of rank `< n` preserves `PhInv` and does not run out of fuel.
-/
import H5.Props.C03bHelpers
set_option linter.unusedSimpArgs false
set_option linter.unusedVariables false
namespace H5.Props.C03b
open H5 H5.Model H5.Model.TB H5.Model.Dom
open H5.Props.C02c (NF Post Post_bind Post_mono Post_pure Post_ok Post_error Post_throw Post_ite
  NF_typeError NF_keyError NF_indexError NF_assertFail NF_valueError NF_lookupError)

/-- `token["name"]` of a tag token (`[]` otherwise) -/
def tokName : Token → Str
  | .startTag d => d.name
  | .endTag d => d.name
  | _ => []

def nmHtml : Str := [104, 116, 109, 108]
def nmCaption : Str := [99, 97, 112, 116, 105, 111, 110]

def isHtml (t : Token) : Bool := tokName t == nmHtml
def isCaption (t : Token) : Bool := tokName t == nmCaption

def nmImg : Str := [105, 109, 103]
def nmForm : Str := [102, 111, 114, 109]
def nmHr : Str := [104, 114]
def nmLabel : Str := [108, 97, 98, 101, 108]
def nmInput : Str := [105, 110, 112, 117, 116]

/-- start tags that `InBodyPhase` handles without any nested dispatch and that other `InBodyPhase` handlers
re-dispatch to `phases["inBody"]` (`image` → `img`, `isindex` → `form`, `hr`, `label`, `input`; `html`) -/
def leafInBody : List Str := [nmHtml, nmImg, nmForm, nmHr, nmLabel, nmInput]

/-- rank of `phases[ph].processStartTag(tok)` -/
def needS (ph : Phase) (tok : Token) : Nat :=
  match ph with
  | .inBody => if leafInBody.contains (tokName tok) then 0 else 3
  | .beforeHead | .inHead | .afterBody | .afterAfterBody => if isHtml tok then 1 else 0
  | .inHeadNoscript | .afterHead | .afterAfterFrameset | .inTableText => 1
  | .inSelect | .afterFrameset => if isHtml tok then 0 else 1
  | .inSelectInTable => if isHtml tok then 1 else 2
  | .inTable | .inCaption | .inCell | .inFrameset => if isHtml tok then 0 else 4
  | .inTableBody | .inRow => if isHtml tok then 0 else 5
  | _ => 0

/-- rank of `phases[ph].processEndTag(tok)` -/
def needE (ph : Phase) (tok : Token) : Nat :=
  if isCaption tok then
    match ph with
    | .inSelectInTable | .inTableText => 1
    | .inForeignContent => 3
    | _ => 0
  else
    match ph with
    | .inTableBody | .inRow | .inCaption => 2
    | .inTable | .inCell | .inSelectInTable | .inTableText => 1
    | .inForeignContent => 3
    | _ => 0

def needCh : Phase → Nat
  | .inTableBody | .inRow => 2
  | .inTable | .inCaption | .inCell | .inSelectInTable => 1
  | _ => 0

def needSp : Phase → Nat
  | .inTableBody | .inRow => 2
  | .inTable | .inHeadNoscript | .afterAfterBody | .afterAfterFrameset => 1
  | _ => 0

def needCm : Phase → Nat
  | .inHeadNoscript | .inTableText => 1
  | _ => 0

def needEOF : Phase → Nat
  | .inTableText | .inCaption | .inCell | .inTableBody | .inRow | .inSelectInTable => 1
  | _ => 0

/-- the largest rank; `Cfg.dispatchDepth ≥ maxNeed + 1 = 6` suffices -/
def maxNeed : Nat := 5

theorem needS_le (ph tok) : needS ph tok ≤ maxNeed := by
  unfold needS maxNeed; split <;> (try split) <;> omega
theorem needE_le (ph tok) : needE ph tok ≤ maxNeed := by
  unfold needE maxNeed; split <;> cases ph <;> simp
theorem needCh_le (ph) : needCh ph ≤ maxNeed := by cases ph <;> simp [needCh, maxNeed]
theorem needSp_le (ph) : needSp ph ≤ maxNeed := by cases ph <;> simp [needSp, maxNeed]
theorem needCm_le (ph) : needCm ph ≤ maxNeed := by cases ph <;> simp [needCm, maxNeed]
theorem needEOF_le (ph) : needEOF ph ≤ maxNeed := by cases ph <;> simp [needEOF, maxNeed]

/-- `self.parser.phase.processEndTag(tok)` : the current phase is never `inForeignContent` -/
theorem needE_lt {ph : Phase} (tok : Token) {n : Nat} (hph : ph ≠ .inForeignContent) (hn : 2 < n) :
    needE ph tok < n := by
  unfold needE; split <;> cases ph <;> simp_all <;> omega

theorem needE_caption_lt {ph : Phase} {tok : Token} {n : Nat} (hph : ph ≠ .inForeignContent)
    (hc : isCaption tok = true) (hn : 1 < n) : needE ph tok < n := by
  unfold needE; rw [if_pos hc]; cases ph <;> simp_all <;> omega

structure RecOK (r : Rec) (n : Nat) : Prop where
  S : ∀ ph tok, needS ph tok < n → Pv (r.processStartTag ph tok)
  E : ∀ ph tok, needE ph tok < n → Pv (r.processEndTag ph tok)
  Ch : ∀ ph tok, needCh ph < n → Pv (r.processCharacters ph tok)
  Sp : ∀ ph tok, needSp ph < n → Pv (r.processSpaceCharacters ph tok)
  Cm : ∀ ph tok, needCm ph < n → Pv (r.processComment ph tok)
  D : ∀ ph tok, 0 < n → Pv (r.processDoctype ph tok)
  EOF : ∀ ph, needEOF ph < n → Pv (r.processEOF ph)

/-- `self.parser.phase.<method>` under `PhInv`: the phase is not `inForeignContent` -/
theorem Pv_curPhase_bind {β : Type} (site : String) (f : Phase → M β)
    (h : ∀ ph, ph ≠ .inForeignContent → Pv (f ph)) : Pv (curPhase site >>= f) :=
  ⟨fun st hi => by
    simp only [Tr_bind, Tr_curPhase]
    intro p hp
    exact (h p (by intro he; rw [he] at hp; exact hi.1 hp)).out st hi⟩

theorem needE_inBody (tok) : needE .inBody tok = 0 := by unfold needE; split <;> rfl
theorem needE_inSelect (tok) : needE .inSelect tok = 0 := by unfold needE; split <;> rfl
theorem needE_inHead (tok) : needE .inHead tok = 0 := by unfold needE; split <;> rfl
theorem needE_inTable_le (tok) : needE .inTable tok ≤ 1 := by unfold needE; split <;> simp
theorem needS_inBody_le (tok) : needS .inBody tok ≤ 3 := by simp only [needS]; split <;> omega
theorem needS_inHead_le (tok) : needS .inHead tok ≤ 1 := by simp only [needS]; split <;> omega
theorem needS_inSelect_le (tok) : needS .inSelect tok ≤ 1 := by simp only [needS]; split <;> omega
theorem needS_inTable_le (tok) : needS .inTable tok ≤ 4 := by simp only [needS]; split <;> omega

/-- `modify` with a function that preserves `PhInv` -/
theorem Pv_modify (f : PState → PState) (h : ∀ st, PhInv st → PhInv (f st)) : Pv (modify f : M PUnit) :=
  ⟨fun st hi => h st hi⟩

/-- closes `need… < n` side goals: by a hypothesis, by the bound for `parser.phase`, or by evaluation -/
macro "need_tac" : tactic => `(tactic| first
  | assumption
  | omega
  | (apply needE_caption_lt (by assumption) (by decide); omega)
  | (apply needE_lt _ (by assumption); omega)
  | (simp only [needE_inBody, needE_inSelect, needE_inHead, needCh, needSp, needCm, needEOF]; omega)
  | (show (0 : Nat) < _; omega))

set_option hygiene false in
/-- one structural step (extends `tb_step` by phase assignments and nested dispatches through `hr : RecOK r n`) -/
macro "hb_step" : tactic => `(tactic| first
  | assumption
  | (with_reducible refine Pv_curPhase_bind _ _ ?_; intro ph hph)
  | (with_reducible refine @RO_bind _ _ _ _ ?_ ?_)
  | (with_reducible refine @Fr_bind _ _ _ _ ?_ ?_)
  | (with_reducible refine @Pv_bind _ _ _ _ ?_ ?_)
  | (intro _)
  | exact Pv_setPhase _ (by decide)
  | exact Fr_modify _ (fun _ => rfl)
  | exact @Pv_of_Fr _ _ (Fr_modify _ (fun _ => rfl))
  | (refine Pv_modify _ ?_; intro st hi; obtain ⟨h1, h2, h3⟩ := hi;
     refine ⟨?_, ?_, ?_⟩ <;> first | assumption | (simp; done))
  | exact RecOK.S hr _ _ (by need_tac)
  | exact RecOK.E hr _ _ (by need_tac)
  | exact RecOK.Ch hr _ _ (by need_tac)
  | exact RecOK.Sp hr _ _ (by need_tac)
  | exact RecOK.Cm hr _ _ (by need_tac)
  | exact RecOK.D hr _ _ (by need_tac)
  | exact RecOK.EOF hr _ (by need_tac)
  | (dsimp only)
  | infer_instance
  | split)

macro "hb_auto" : tactic => `(tactic| repeat' hb_step)

/-! ### a `Tr`-mode tactic for the few functions that thread the state explicitly (`let st ← get … set …`) -/

theorem Tr_Fr {α : Type} (m : M α) [h : Fr m] (st : PState) (Q : α → PState → Prop)
    (hq : ∀ a st', F st' = F st → Q a st') : Tr m st Q :=
  Tr_mono (h.out st) hq

theorem Tr_Pv {α : Type} (m : M α) [h : Pv m] (st : PState) (hi : PhInv st) (Q : α → PState → Prop)
    (hq : ∀ a st', PhInv st' → Q a st') : Tr m st Q :=
  Tr_mono (h.out st hi) hq

theorem Post_ENF {α : Type} (x : Except PyErr α) [h : ENF x] (Q : α → Prop) (hq : ∀ a, Q a) : Post x Q :=
  Post_mono h.out (fun a _ => hq a)

macro "trf_step" : tactic => `(tactic| first
  | (simp only [Tr_bind, Tr_map, Tr_pure, Tr_get, Tr_set, Tr_modify, Tr_throw, Tr_monadLift, Tr_lift, Post_bind,
      Post_pure, Tr_afe, Tr_openElems, Tr_setAfe, Tr_setOpen, Tr_getPhase, Tr_getCfg])
  | exact NF_indexError _
  | exact NF_valueError _
  | exact NF_attributeError _
  | exact NF_assertFail _
  | exact NF_keyError _
  | exact NF_typeError _
  | exact NF_lookupError _
  | (apply Tr_RO; intro _)
  | (apply Tr_Fr; intro _ _ _)
  | (apply Post_ENF; intro _)
  | split
  | ((repeat (first | rfl | (refine Eq.trans (by assumption) ?_))); done)
  | (simp_all; done)
  | (simp only [F] at *; simp_all; done))

macro "trf_auto" : tactic => `(tactic| repeat' trf_step)

end H5.Props.C03b
