/-
  H5.Model.Walker — hand model of `treewalkers/base.py`:
  `TreeWalker.text` and `NonRecursiveTreeWalker.__iter__` over a cursor with
  firstChild / nextSibling / parent navigation.  The cursor is a zipper over the abstract tree: the faithful
  functional reading of pointer navigation (`node.firstChild`, `.nextSibling`, `.parentNode`; for the etree walker
  the `(element, key, parents, flag)` tuples with text/tail as pseudo nodes) on a tree without sharing.
  `self.tree is currentNode` is `ctx = []`.
-/
import H5.Basic
import H5.Gen.Constants
namespace H5.Model.Walker
open H5 H5.Gen

def htmlNs : Str := lit "http://www.w3.org/1999/xhtml"

def isSpaceCh (c : Nat) : Bool := spaceCharacters.contains c

/-- `TreeWalker.text(data)`: leading spaces / middle / trailing spaces (lines 104-136) -/
def textToks (data : Str) : List Tok :=
  let middle := data.dropWhile isSpaceCh                       -- data.lstrip(spaceCharacters)
  let left := data.take (data.length - middle.length)
  let middle' := (middle.reverse.dropWhile isSpaceCh).reverse  -- middle.rstrip(spaceCharacters)
  let right := middle.drop middle'.length
  (if left.isEmpty then [] else [.space left]) ++
  (if middle'.isEmpty then [] else [.chars middle']) ++
  (if right.isEmpty then [] else [.space right])

/-- `(not namespace or namespace == namespaces["html"]) and name in voidElements` -/
def isVoid (ns : Option Str) (name : Str) : Bool :=
  (match ns with | none => true | some n => n.isEmpty || n == htmlNs) && voidElements.elem name

def voidHasChildren : Str := lit "Void element has children"

/-- tokens emitted when a node is entered, and whether the walker descends into it -/
def openToks : Tree → List Tok × Bool
  | .doctype n p s => ([.doctype n p s], false)
  | .text s => (textToks s, false)
  | .elem ns name attrs cs =>
      if isVoid ns name then
        (.emptyTag ns name attrs :: (if cs.isEmpty then [] else [.serr voidHasChildren]), false)
      else ([.startTag ns name attrs], !cs.isEmpty)
  | .comment s => ([.comment s], false)
  | .doc cs => ([], !cs.isEmpty)        -- DOCUMENT: hasChildren = True, then firstChild may be None
  | .frag cs => ([], !cs.isEmpty)

/-- tokens emitted when a node is left (the inner `while` loop) -/
def closeToks : Tree → List Tok
  | .elem ns name _ _ => if isVoid ns name then [] else [.endTag ns name]
  | _ => []

def children : Tree → List Tree
  | .doc cs | .frag cs | .elem _ _ _ cs => cs
  | _ => []

/-- one ancestor of the focus: the ancestor node itself and the siblings to the right of the path -/
structure Frame where
  node : Tree
  rights : List Tree

structure Cursor where
  focus : Tree
  ctx : List Frame

inductive WState where
  | outer (c : Cursor)     -- top of the outer `while currentNode is not None`
  | inner (c : Cursor)     -- top of the inner `while currentNode is not None` (leaving a node)
  | done

/-- one iteration of either loop: tokens yielded and the next state -/
def stepW : WState → List Tok × WState
  | .done => ([], .done)
  | .outer c =>
      let (toks, descend) := openToks c.focus
      match descend, children c.focus with
      | true, child :: rest => (toks, .outer ⟨child, ⟨c.focus, rest⟩ :: c.ctx⟩)   -- getFirstChild
      | _, _ => (toks, .inner c)
  | .inner c =>
      let toks := closeToks c.focus
      match c.ctx with
      | [] => (toks, .done)                                                     -- self.tree is currentNode
      | fr :: up =>
        match fr.rights with
        | sib :: rest => (toks, .outer ⟨sib, ⟨fr.node, rest⟩ :: up⟩)           -- getNextSibling
        | [] => (toks, .inner ⟨fr.node, up⟩)                                    -- getParentNode

def run : Nat → WState → Except PyErr (List Tok)
  | _, .done => .ok []
  | 0, _ => .error (.outOfFuel "walker")
  | fuel + 1, s =>
      let (toks, s') := stepW s
      match run fuel s' with
      | .ok rest => .ok (toks ++ rest)
      | .error e => .error e

mutual
def size : Tree → Nat
  | .doc cs | .frag cs | .elem _ _ _ cs => 1 + sizeList cs
  | _ => 1
def sizeList : List Tree → Nat
  | [] => 0
  | t :: ts => size t + sizeList ts
end

/-- `list(TreeWalker(tree))` -/
def walk (t : Tree) : Except PyErr (List Tok) := run (2 * size t + 1) (.outer ⟨t, []⟩)

end H5.Model.Walker
