/-
  H5.Model.Regex — a small backtracking regular-expression engine with the semantics of
  Python's `re` (sre) for the constructs the sanitizer's patterns use.

  * patterns are values of `Re`, produced by tools/gen_sanitizer.py from Python's OWN parse of
    each pattern (`re._parser.parse`), so VERBOSE, escapes, `{m,n}`, `?`, `+`, `*`, lazy
    variants and group numbering are already resolved by Python;
  * matching is continuation-passing backtracking in sre's priority order: alternatives left
    to right, greedy repeats try one more iteration first, lazy repeats try the tail first;
  * `^` is start of string (no MULTILINE), `$` is end of string or just before a final "\n",
    `.` is anything but "\n" (no DOTALL); `\w \s \d` are the Unicode classes of `str` patterns,
    passed in as range lists (`Classes`, extracted by evaluating Python's `re`);
  * IGNORECASE (`re.I`, as reported in the flags of Python's parse) is resolved by the generator, not by the engine:
    every one-character item (literal, negated literal, class) of such a pattern is compiled on its own with sre's
    compiler and evaluated on all code points; where the flag changes the matched set the item is emitted as a class
    of the evaluated ranges (`u` ↦ `.cls false [.range 85 85, .range 117 117]`), otherwise in its ordinary form, so
    `[^)]` stays `.notLit 41` and `\s*` stays `.rep 0 none true (.cls false [.space])`;
  * a repeat iteration that consumes nothing is not iterated again (sre's MAX_UNTIL/MIN_UNTIL
    guard).  The generator refuses patterns with a nullable repeat body, so this corner is never
    exercised by the extracted patterns;
  * `finditer`-style iteration (`findall`, `sub`) follows sre: the next search starts at the
    end of the previous match and must not be an empty match at that same position when the
    previous match was empty (`state.must_advance`).

  Everything is total: explicit fuel, `.error (.outOfFuel _)` when it runs out.
-/
import H5.Basic
namespace H5.Model.Regex
open H5

inductive CItem where
  | range (a b : Nat)
  | word | space | digit
  | notWord | notSpace | notDigit
  deriving Repr, DecidableEq

inductive Re where
  | empty
  | lit (c : Nat)
  | notLit (c : Nat)
  | any
  | cls (neg : Bool) (items : List CItem)
  | cat (a b : Re)
  | alt (a b : Re)
  | group (idx : Nat) (r : Re)
  | rep (min : Nat) (max : Option Nat) (greedy : Bool) (r : Re)
  | bos
  | eos
  deriving Repr

/-- the Unicode categories `\w`, `\s`, `\d` as inclusive ranges -/
structure Classes where
  word : List (Nat × Nat)
  space : List (Nat × Nat)
  digit : List (Nat × Nat)

/-! ### constructors used by the generated patterns -/

def Re.seq (rs : List Re) : Re := rs.foldr Re.cat Re.empty

def Re.alts : List Re → Re
  | [] => Re.empty
  | [r] => r
  | r :: rs => Re.alt r (Re.alts rs)

def Re.str (s : Str) : Re := Re.seq (s.map Re.lit)

/-- size, counting the mandatory unrollings of `{m,n}` (used for the fuel) -/
def Re.size : Re → Nat
  | .cat a b => a.size + b.size + 1
  | .alt a b => a.size + b.size + 1
  | .group _ r => r.size + 1
  | .rep mn _ _ r => (mn + 2) * (r.size + 2)
  | _ => 1

def CItem.test (cl : Classes) (c : Nat) : CItem → Bool
  | .range a b => a ≤ c && c ≤ b
  | .word => inRanges cl.word c
  | .space => inRanges cl.space c
  | .digit => inRanges cl.digit c
  | .notWord => !inRanges cl.word c
  | .notSpace => !inRanges cl.space c
  | .notDigit => !inRanges cl.digit c

/-- `[...]` / `[^...]` -/
def classTest (cl : Classes) (neg : Bool) (items : List CItem) (c : Nat) : Bool :=
  (items.any (CItem.test cl c)) != neg

/-- captured groups, most recent first -/
abbrev Caps := List (Nat × Str)

/-- `none` = this branch fails (backtrack); `some (rest, caps)` = overall success -/
abbrev Res := Except PyErr (Option (Str × Caps))

abbrev Cont := Str → Caps → Res

/-- match `r` at the suffix `s` of a subject of length `total`, then continue with `k` -/
def run (cl : Classes) (total : Nat) : Nat → Re → Str → Caps → Cont → Res
  | 0, _, _, _, _ => .error (.outOfFuel "regex")
  | f + 1, r, s, caps, k =>
    match r with
    | .empty => k s caps
    | .lit c =>
      match s with
      | x :: t => if x = c then k t caps else .ok none
      | [] => .ok none
    | .notLit c =>
      match s with
      | x :: t => if x ≠ c then k t caps else .ok none
      | [] => .ok none
    | .any =>
      match s with
      | x :: t => if x ≠ 10 then k t caps else .ok none
      | [] => .ok none
    | .cls neg items =>
      match s with
      | x :: t => if classTest cl neg items x then k t caps else .ok none
      | [] => .ok none
    | .cat a b => run cl total f a s caps (fun s' c' => run cl total f b s' c' k)
    | .alt a b =>
      match run cl total f a s caps k with
      | .ok none => run cl total f b s caps k
      | x => x
    | .group i r =>
      run cl total f r s caps (fun s' c' => k s' ((i, s.take (s.length - s'.length)) :: c'))
    | .rep mn mx greedy r =>
      if mn > 0 then
        run cl total f r s caps (fun s' c' => run cl total f (.rep (mn - 1) (mx.map (· - 1)) greedy r) s' c' k)
      else if mx = some 0 then k s caps
      else
        let more : Unit → Res := fun _ =>
          run cl total f r s caps (fun s' c' =>
            if s'.length = s.length then k s' c'
            else run cl total f (.rep 0 (mx.map (· - 1)) greedy r) s' c' k)
        if greedy then
          match more () with
          | .ok none => k s caps
          | x => x
        else
          match k s caps with
          | .ok none => more ()
          | x => x
    | .bos => if s.length = total then k s caps else .ok none
    | .eos => if s = [] ∨ s = [10] then k s caps else .ok none

def fuelFor (r : Re) (s : Str) : Nat := (s.length + 2) * (r.size + 2) * 2

/-- a successful match: `start` = characters skipped before it (relative to where the search
began), `text` = group 0, `rest` = the subject after the match -/
structure Match where
  start : Nat
  text : Str
  rest : Str
  caps : Caps
  deriving Repr

/-- `m.group(i)` for a group that took part in the match -/
def Match.group (m : Match) (i : Nat) : Option Str := m.caps.lookup i

/-- one anchored attempt at suffix `s`; `mustAdv` forbids the empty match -/
def attempt (cl : Classes) (total fuel : Nat) (r : Re) (mustAdv : Bool) (skipped : Nat) (s : Str) :
    Except PyErr (Option Match) := do
  let res ← run cl total fuel r s [] (fun s' c' =>
    if mustAdv && s'.length == s.length then .ok none else .ok (some (s', c')))
  match res with
  | some (s', c') => pure (some { start := skipped, text := s.take (s.length - s'.length), rest := s', caps := c' })
  | none => pure none

/-- leftmost match at or after the suffix `s` (which begins `skipped` characters after the
search start); `mustAdv` applies to the first position only (sre resets it) -/
def searchAux (cl : Classes) (total fuel : Nat) (r : Re) : Bool → Nat → Str → Except PyErr (Option Match)
  | mustAdv, skipped, [] => attempt cl total fuel r mustAdv skipped []
  | mustAdv, skipped, x :: t => do
    match ← attempt cl total fuel r mustAdv skipped (x :: t) with
    | some m => pure (some m)
    | none => searchAux cl total fuel r false (skipped + 1) t

/-- `re.match(r, s)` -/
def matchAt (cl : Classes) (r : Re) (s : Str) : Except PyErr (Option Match) :=
  attempt cl s.length (fuelFor r s) r false 0 s

/-- `re.search(r, s)` -/
def search (cl : Classes) (r : Re) (s : Str) : Except PyErr (Option Match) :=
  searchAux cl s.length (fuelFor r s) r false 0 s

/-- `re.finditer(r, s)`: each match together with the unmatched text before it, and the unmatched tail -/
def allMatchesAux (cl : Classes) (total fuel : Nat) (r : Re) :
    Nat → Bool → Str → List (Str × Match) → Except PyErr (List (Str × Match) × Str)
  | 0, _, _, _ => .error (.outOfFuel "regex.finditer")
  | n + 1, mustAdv, s, acc => do
    match ← searchAux cl total fuel r mustAdv 0 s with
    | none => pure (acc.reverse, s)
    | some m => allMatchesAux cl total fuel r n m.text.isEmpty m.rest ((s.take m.start, m) :: acc)

def allMatches (cl : Classes) (r : Re) (s : Str) : Except PyErr (List (Str × Match) × Str) :=
  allMatchesAux cl s.length (fuelFor r s) r (2 * s.length + 2) false s []

/-- `re.sub(r, repl, s)` for a replacement without back-references -/
def sub (cl : Classes) (r : Re) (repl : Str) (s : Str) : Except PyErr Str := do
  let (ms, tail) ← allMatches cl r s
  pure (ms.foldr (fun pm acc => pm.1 ++ repl ++ acc) tail)

/-- `re.findall(r, s)` for a pattern with exactly two groups (a group that took no part gives "") -/
def findall2 (cl : Classes) (r : Re) (s : Str) : Except PyErr (List (Str × Str)) := do
  let (ms, _) ← allMatches cl r s
  pure (ms.map fun pm => ((pm.2.group 1).getD [], (pm.2.group 2).getD []))

/-- `re.findall(r, s)` for a pattern without groups -/
def findall0 (cl : Classes) (r : Re) (s : Str) : Except PyErr (List Str) := do
  let (ms, _) ← allMatches cl r s
  pure (ms.map fun pm => pm.2.text)

end H5.Model.Regex
