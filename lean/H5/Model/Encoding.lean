/-
  H5.Model.Encoding — hand model of the encoding determination of `_inputstream.HTMLBinaryInputStream`
  (html5lib/_inputstream.py 385-924) and of the late `<meta>` handling in html5parser.py
  (`InHeadPhase.startTagMeta` 711-734, `HTMLParser._parse` 116-126).

  * `lookupEncoding`: webencodings' label table is extracted (H5.Gen.Encodings.encodingLabels); normalisation =
    strip ASCII whitespace + ASCII lower-casing, as `webencodings.lookup` does.  An encoding is represented by its
    canonical name (`Encoding.name`); `Encoding` objects are cached per name, so `==` on them is name equality.
  * `EncodingBytes` is a lower-cased byte string with a position `_position : Int` (-1 initially).
    `StopIteration` (raised when the position runs off the end) is control flow in the Python code and is explicit
    here (`R.stop`); the Python code never uses the position again after catching it, so `stop` carries no state.
  * Byte-scanning loops that advance one byte per iteration are written by structural recursion on the remaining
    bytes (no fuel); loops around sub-parsers take explicit fuel.
  * assumption: `chardet` is not importable (H5.Gen.chardetInstalled = false) — the branch 484-503 is pruned.
  * assumption: the raw stream is seekable and `read(n)` returns `n` bytes when available (bytes / BytesIO).
-/
import H5.Basic
import H5.Gen.Encodings
namespace H5.Model.Encoding
open H5 H5.Gen

abbrev Bytes := List Nat

/-! ### lookupEncoding (903-918) + webencodings.lookup -/

def isStripChar (c : Nat) : Bool := labelStripChars.elem c

/-- `label.strip('\t\n\f\r ')` -/
def stripLabel (s : Str) : Str := ((s.dropWhile isStripChar).reverse.dropWhile isStripChar).reverse

/-- `ascii_lower(label.strip(...))` then `LABELS.get(label)` -/
def lookupLabel (s : Str) : Option Str :=
  let label := (stripLabel s).asciiLower
  (encodingLabels.find? (fun kv => kv.1 == label)).map (·.2)

def isSurrogate (c : Nat) : Bool := 0xD800 ≤ c && c ≤ 0xDFFF

/-- `lookupEncoding(encoding)` for `None` / a `str`: `ascii_lower` is `string.encode().lower().decode()`, so a lone
surrogate raises UnicodeEncodeError inside webencodings — caught since repair 4d54525 (920): an unknown label.
(The `Except` type is kept for the callers; this function no longer raises.) -/
def lookupEncodingStr (enc : Option Str) : Except PyErr (Option Str) :=
  match enc with
  | none => .ok none                                                                     -- 922-923
  | some s =>
    if (stripLabel s).any isSurrogate then .ok none                                      -- 920-921
    else .ok (lookupLabel s)                                                             -- 917-919

/-- `lookupEncoding(encoding)` for `bytes`: decoded as ASCII, `None` when that fails (906-910) -/
def lookupEncodingBytes (b : Bytes) : Option Str :=
  if b.any (fun c => c ≥ 128) then none else lookupLabel b

/-! ### detectBOM (535-568) -/

def bomLookup (k : Bytes) : Option Str := (bomDict.find? (fun kv => kv.1 == k)).map (·.2)

/-- returns (encoding or None, raw stream position afterwards); `string` is the result of `rawStream.read(4)` at
position 0.  Two probes, `string[:3]` (UTF-8) then `string[:2]` (UTF-16) — repair 907ffcc removed the UTF-32 entries
and the 4-byte probe; the seek is clamped to the bytes actually read (repair 7aa7032), because on a stream shorter
than 3 bytes the first slice is the whole string and can equal a 2-byte BOM. -/
def detectBOM (data : Bytes) : Except PyErr (Option Str × Nat) :=
  let string := data.take 4                                                              -- 546
  let r : Option Str × Nat :=
    match bomLookup (string.take 3) with                                                 -- 550-551
    | some e => (some e, 3)
    | none => (bomLookup (string.take 2), 2)                                             -- 555-556
  match r.1 with
  | some e =>                                                                            -- 560-563
    match lookupEncodingStr (some e) with
    | .error x => .error x
    | .ok enc => .ok (enc, min r.2 string.length)
  | none => .ok (none, 0)                                                                -- 564-566

/-! ### EncodingBytes (578-673) -/

/-- result of an operation on an `EncodingBytes`: value + new `_position`, StopIteration, or another exception -/
inductive R (α : Type) where
  | ok (a : α) (pos : Int)
  | stop
  | err (e : PyErr)
  deriving Repr

def R.bind {α β : Type} (r : R α) (f : α → Int → R β) : R β :=
  match r with
  | .ok a p => f a p
  | .stop => .stop
  | .err e => .err e

def lowerByte (c : Nat) : Nat := if 65 ≤ c ∧ c ≤ 90 then c + 32 else c

/-- `EncodingBytes.__new__`: `value.lower()` (582-584) -/
def mkEB (value : Bytes) : Bytes := value.map lowerByte

def blen (d : Bytes) : Int := d.length

/-- `__next__` (593-599) -/
def next (d : Bytes) (pos : Int) : R Nat :=
  let p := pos + 1
  if p ≥ blen d then .stop
  else if p < 0 then .err (.typeError "EncodingBytes.__next__")
  else match d[p.toNat]? with
    | some c => .ok c p
    | none => .stop

/-- `previous()` (605-612); the byte returned is never used by the callers -/
def previous (d : Bytes) (pos : Int) : R Unit :=
  if pos ≥ blen d then .stop
  else if pos < 0 then .err (.typeError "EncodingBytes.previous")
  else .ok () (pos - 1)

/-- `getPosition` (619-625): `none` is Python `None` -/
def getPosition (d : Bytes) (pos : Int) : R (Option Nat) :=
  if pos ≥ blen d then .stop
  else if pos ≥ 0 then .ok (some pos.toNat) pos
  else .ok none pos

/-- `setPosition` (614-617) -/
def setPosition (d : Bytes) (pos : Int) (newPos : Int) : R Unit :=
  if pos ≥ blen d then .stop else .ok () newPos

/-- `self.position += n` : getter, `None + n` is a TypeError, setter -/
def addPosition (d : Bytes) (pos : Int) (n : Nat) : R Unit :=
  (getPosition d pos).bind fun q _ =>
    match q with
    | none => .err (.typeError "EncodingBytes: None + int")
    | some q => setPosition d pos (q + n)

/-- `self.position -= n` : getter, `None - n` is a TypeError, setter -/
def subPosition (d : Bytes) (pos : Int) (n : Nat) : R Unit :=
  (getPosition d pos).bind fun q _ =>
    match q with
    | none => .err (.typeError "EncodingBytes: None - int")
    | some q => setPosition d pos ((q : Int) - n)

/-- `currentByte` (629-630): `self[self.position:self.position + 1]` -/
def currentByte (d : Bytes) (pos : Int) : R (Option Nat) :=
  (getPosition d pos).bind fun q p =>
    match q with
    | none => .err (.typeError "EncodingBytes.currentByte: None + 1")
    | some q => .ok d[q]? p

/-- common loop of `skip` / `skipUntil` (636-644, 647-655): from the current position, pass over the bytes
satisfying `pass`; the new position is the first other byte (or the end); returns that byte or `None` -/
def scan (d : Bytes) (pos : Int) (pass : Nat → Bool) (site : String) : R (Option Nat) :=
  (getPosition d pos).bind fun q _ =>
    match q with
    | none => .err (.typeError site)             -- `None < len(self)`
    | some q =>
      let k := ((d.drop q).takeWhile pass).length
      .ok d[q + k]? (q + k : Nat)

/-- `skip(chars)` (634-644) -/
def skip (d : Bytes) (pos : Int) (chars : List Nat) : R (Option Nat) :=
  scan d pos (fun c => chars.elem c) "EncodingBytes.skip: None < int"

/-- `skipUntil(chars)` (646-655) -/
def skipUntil (d : Bytes) (pos : Int) (chars : List Nat) : R (Option Nat) :=
  scan d pos (fun c => !chars.elem c) "EncodingBytes.skipUntil: None < int"

/-- first index `i ≥ start` of `rest` (which starts at index `start`) where `needle` begins -/
def findSubAux (needle : Bytes) : Bytes → Nat → Option Nat
  | [], i => if needle.isEmpty then some i else none
  | c :: r, i => if needle.isPrefixOf (c :: r) then some i else findSubAux needle r (i + 1)

/-- `bytes.find(needle, start)` -/
def findSub (d : Bytes) (needle : Bytes) (start : Nat) : Option Nat :=
  if start > d.length then none else findSubAux needle (d.drop start) start

/-- `matchBytes(bytes)` (657-664): `startswith(bytes, None)` tests at 0 -/
def matchBytes (d : Bytes) (pos : Int) (key : Bytes) : R Bool :=
  (getPosition d pos).bind fun q p =>
    let start := q.getD 0
    if key.isPrefixOf (d.drop start) then
      (addPosition d p key.length).bind fun _ p' => .ok true p'
    else .ok false p

/-- `jumpTo(bytes)` (666-673): `index(bytes, None)` searches from 0 -/
def jumpTo (d : Bytes) (pos : Int) (key : Bytes) : R Bool :=
  (getPosition d pos).bind fun q _ =>
    match findSub d key (q.getD 0) with
    | some i => .ok true ((i + key.length : Nat) - 1 : Int)
    | none => .stop

/-! ### ContentAttrParser.parse (869-900) -/

def litB (s : String) : Bytes := s.toList.map Char.toNat

/-- the `while True` loop of `ContentAttrParser.parse`: find a "charset" that is followed (after whitespace) by `=`;
ends with the position on that `=` -/
def contentCharsetLoop (d : Bytes) : Nat → Int → R Unit
  | 0, _ => .err (.outOfFuel "ContentAttrParser.parse")
  | fuel + 1, pos =>
    (jumpTo d pos (litB "charset")).bind fun _ p =>                       -- self.data.jumpTo(b"charset")
    (addPosition d p 1).bind fun _ p =>                                   -- self.data.position += 1
    (skip d p spaceBytes).bind fun _ p =>                                 -- self.data.skip()
    (currentByte d p).bind fun c p =>
    if c = some 61 then .ok () p                                          -- break
    else contentCharsetLoop d fuel p                                      -- keep looking for the next one

/-- returns the encoding label bytes or `None`; `data` is an `EncodingBytes` at its initial position -1 -/
def contentAttrParse (d : Bytes) : Except PyErr (Option Bytes) :=
  let pos0 : Int := -1
  let r : R (Option Bytes) :=
    (contentCharsetLoop d (d.length + 2) pos0).bind fun _ p =>
    (addPosition d p 1).bind fun _ p =>                                   -- self.data.position += 1
    (skip d p spaceBytes).bind fun _ p =>                                 -- self.data.skip()
    (currentByte d p).bind fun c p =>
    if c = some 34 ∨ c = some 39 then
      let quoteMark := c.getD 0
      (addPosition d p 1).bind fun _ p =>
      (getPosition d p).bind fun oldPosition p =>
      (jumpTo d p [quoteMark]).bind fun _ p =>                            -- returns True or raises
      (getPosition d p).bind fun newPosition p =>
      match oldPosition, newPosition with
      | some a, some b => .ok (some ((d.drop a).take (b - a))) p
      | _, _ => .err (.typeError "ContentAttrParser: slice with None")
    else
      (getPosition d p).bind fun oldPosition p =>
      match oldPosition with
      | none => .err (.typeError "ContentAttrParser: slice with None")
      | some a =>
        -- the inner try: skipUntil never raises once `position` is valid; its StopIteration handler
        -- returns the rest of the data.  The unquoted value ends at whitespace or ";"
        match skipUntil d p (spaceBytes ++ [59]) with
        | .ok _ p' =>
          match getPosition d p' with
          | .ok (some b) p'' => .ok (some ((d.drop a).take (b - a))) p''
          | .ok none _ => .err (.typeError "ContentAttrParser: slice with None")
          | .stop => .ok (some (d.drop a)) p'
          | .err e => .err e
        | .stop => .ok (some (d.drop a)) p
        | .err e => .err e
  match r with
  | .ok v _ => .ok v
  | .stop => .ok none
  | .err e => .error e

/-! ### EncodingParser (676-861) -/

abbrev AttrB := Bytes × Bytes

def isSpaceB (c : Nat) : Bool := spaceBytes.elem c
def isUpperB (c : Nat) : Bool := asciiUpperBytes.elem c
def isLetterB (c : Nat) : Bool := asciiLetterBytes.elem c

/-- the byte appended to attrName / attrValue (810-815, 838-842 …): `c.lower()` for upper-case bytes -/
def appendByte (c : Nat) : Nat := if isUpperB c then lowerByte c else c

/-- step 11 loop (852-861): `rest` are the bytes after the current position `p`; each iteration is `next(data)` -/
def attrValueUnquoted (name value : Bytes) : Bytes → Nat → R (Option AttrB)
  | [], _ => .stop                                                        -- next(data) runs off the end
  | c :: rest, p =>
    if spacesClosingBracket.elem c then .ok (some (name, value)) (p + 1 : Nat)     -- 854-855
    else attrValueUnquoted name (value ++ [appendByte c]) rest (p + 1)

/-- 10.2-10.5 (830-842) -/
def attrValueQuoted (quote : Nat) (name value : Bytes) : Bytes → Nat → R (Option AttrB)
  | [], _ => .stop
  | c :: rest, p =>
    if c = quote then
      -- 835: next(data) past the quote; raises StopIteration when the quote is the last byte
      match rest with
      | [] => .stop
      | _ :: _ => .ok (some (name, value)) (p + 2 : Nat)
    else attrValueQuoted quote name (value ++ [appendByte c]) rest (p + 1)

/-- steps 7-11 (818-861), entered with `c` = current byte (or `None`) at position `pos` -/
def attrAfterName (d : Bytes) (name : Bytes) (c : Option Nat) (pos : Int) : R (Option AttrB) :=
  if c ≠ some 61 then                                                     -- 819
    (previous d pos).bind fun _ p => .ok (some (name, [])) p              -- 820-821
  else
    (next d pos).bind fun _ p =>                                          -- 823
    (skip d p spaceBytes).bind fun c p =>                                 -- 825
    match c with
    | none => .ok none p                                                  -- 847-848
    | some c =>
      if c = 39 ∨ c = 34 then attrValueQuoted c name [] (d.drop (p.toNat + 1)) p.toNat     -- 827-842
      else if c = 62 then .ok (some (name, [])) p                         -- 843-844
      else attrValueUnquoted name [appendByte c] (d.drop (p.toNat + 1)) p.toNat             -- 845-861

/-- step 4 loop (801-817); `cur :: rest` are the bytes from the current position `p` on -/
def attrName (d : Bytes) (name : Bytes) : Bytes → Nat → R (Option AttrB)
  | [], _ => .stop                                                        -- unreachable: entered with a current byte
  | c :: rest, p =>
    if c = 61 ∧ !name.isEmpty then attrAfterName d name (some c) p        -- 802-803
    else if isSpaceB c then                                               -- 804-807
      (skip d p spaceBytes).bind fun c' p' => attrAfterName d name c' p'
    else if c = 47 ∨ c = 62 then .ok (some (name, [])) p                  -- 808-809
    else
      -- 810-817: append, then `c = next(data)`
      match rest with
      | [] => .stop
      | _ :: _ => attrName d (name ++ [appendByte c]) rest (p + 1)

/-- `getAttribute()` (787-861) -/
def getAttribute (d : Bytes) (pos : Int) : R (Option AttrB) :=
  (skip d pos (spaceBytes ++ [47])).bind fun c p =>                       -- 792
    match c with
    | none => .ok none p                                                  -- 795-796
    | some c =>
      if c = 62 then .ok none p
      else attrName d [] (d.drop p.toNat) p.toNat

/-- the local variables of `handleMeta`: attribute names seen, got pragma, need pragma (`None` / bool), charset
(`none` = Python `None`: nothing declared yet; `some none` = `False`: a charset attribute that is no encoding label) -/
structure MetaSt where
  seen : List Bytes := []
  gotPragma : Bool := false
  needPragma : Option Bool := none
  charset : Option (Option Str) := none

/-- the decision after all attributes have been read: (keepParsing, self.encoding) -/
def metaDecide (st : MetaSt) : Bool × Option Str :=
  match st.needPragma with
  | none => (true, none)
  | some need =>
    if need && !st.gotPragma then (true, none)
    else match st.charset with
      | some (some e) => (false, some e)
      | _ => (true, none)

/-- the `while True` loop of `handleMeta`; returns (keepParsing, self.encoding) -/
def handleMetaLoop (d : Bytes) : Nat → MetaSt → Int → R (Bool × Option Str)
  | 0, _, _ => .err (.outOfFuel "handleMeta")
  | fuel + 1, st, pos =>
    (getAttribute d pos).bind fun attr p =>
      match attr with
      | none =>
        -- ">" ends the element; at the end of the data `currentByte` raises StopIteration
        (currentByte d p).bind fun c p =>
          if c = some 62 then .ok (metaDecide st) p else .ok (true, none) p
      | some (name, value) =>
        if st.seen.elem name then handleMetaLoop d fuel st p              -- only the first attribute of a name counts
        else
          let st := { st with seen := name :: st.seen }
          if name = litB "http-equiv" then
            handleMetaLoop d fuel (if value = litB "content-type" then { st with gotPragma := true } else st) p
          else if name = litB "charset" then
            handleMetaLoop d fuel { st with charset := some (lookupEncodingBytes value), needPragma := some false } p
          else if name = litB "content" then
            match contentAttrParse (mkEB value) with
            | .error e => .err e
            | .ok none => handleMetaLoop d fuel st p
            | .ok (some tentative) =>
              if st.charset.isSome then handleMetaLoop d fuel st p
              else match lookupEncodingBytes tentative with
                | none => handleMetaLoop d fuel st p
                | some codec => handleMetaLoop d fuel { st with charset := some (some codec), needPragma := some true } p
          else handleMetaLoop d fuel st p

/-- the `while attr is not None` loop of `handlePossibleTag` (779-781) -/
def readAllAttributes (d : Bytes) : Nat → Int → R Unit
  | 0, _ => .err (.outOfFuel "handlePossibleTag")
  | fuel + 1, pos =>
    (getAttribute d pos).bind fun attr p =>
      match attr with
      | none => .ok () p
      | some _ => readAllAttributes d fuel p

/-- `handleOther()` (784-785) -/
def handleOther (d : Bytes) (pos : Int) : R Bool := jumpTo d pos [62]

/-- `handlePossibleTag(endTag)` -/
def handlePossibleTag (d : Bytes) (endTag : Bool) (pos : Int) : R Bool :=
  (currentByte d pos).bind fun c p =>
    if !(c.map isLetterB).getD false then
      if endTag then
        (previous d p).bind fun _ p => (handleOther d p).bind fun _ p => .ok true p
      else
        -- nothing starts at this "<": step back so that the main loop examines the byte after it
        (previous d p).bind fun _ p => .ok true p
    else
      (skipUntil d p spacesClosingBracket).bind fun _ p =>
        (readAllAttributes d (d.length + 2) p).bind fun _ p => .ok true p

/-- `handleMeta()` -/
def handleMeta (d : Bytes) (pos : Int) : R (Bool × Option Str) :=
  (currentByte d pos).bind fun c p =>
    if !(c.map fun c => isSpaceB c || c = 47).getD false then
      -- "<meta" is only the beginning of the name of some other tag
      (subPosition d p 4).bind fun _ p => (handlePossibleTag d false p).bind fun b p => .ok (b, none) p
    else handleMetaLoop d (d.length + 2) {} p

/-- one dispatch row (701-708): `none` = key did not match; StopIteration of the handler is caught (706-708) -/
def dispatchRow (d : Bytes) (pos : Int) (key : Bytes) (handler : String) : R (Option (Bool × Option Str)) :=
  (matchBytes d pos key).bind fun m p =>
    if !m then .ok none p
    else
      let r : R (Bool × Option Str) :=
        if handler = "handleComment" then
          -- the two dashes of "<!--" may also be those of the closing "-->"
          (subPosition d p 2).bind fun _ p => (jumpTo d p (litB "-->")).bind fun b p => .ok (b, none) p
        else if handler = "handleMeta" then handleMeta d p
        else if handler = "handlePossibleEndTag" then
          (handlePossibleTag d true p).bind fun b p => .ok (b, none) p
        else if handler = "handleOther" then (handleOther d p).bind fun b p => .ok (b, none) p
        else if handler = "handlePossibleStartTag" then
          (handlePossibleTag d false p).bind fun b p => .ok (b, none) p                                     -- 754-755
        else .err (.keyError "methodDispatch")
      match r with
      | .ok v p' => .ok (some v) p'
      | .stop => .ok (some (false, none)) p                               -- 706-708: keepParsing = False
      | .err e => .err e

def dispatch (d : Bytes) (pos : Int) : List (Bytes × String) → R (Bool × Option Str)
  | [] => .ok (true, none) pos                                            -- no key matched: keepParsing stays True
  | (key, h) :: rows =>
    (dispatchRow d pos key h).bind fun r p =>
      match r with
      | some v => .ok v p
      | none => dispatch d p rows

/-- the `for _ in self.data` loop of `getEncoding` (695-710) -/
def getEncodingLoop (d : Bytes) : Nat → Int → Except PyErr (Option Str)
  | 0, _ => .error (.outOfFuel "getEncoding")
  | fuel + 1, pos =>
    match next d pos with                                                 -- 695
    | .stop => .ok none
    | .err e => .error e
    | .ok _ p =>
      match jumpTo d p [60] with                                          -- 697-700
      | .stop => .ok none
      | .err e => .error e
      | .ok _ p =>
        match dispatch d p methodDispatch with                            -- 701-708
        | .stop => .error (.valueError "StopIteration escapes getEncoding")     -- matchBytes outside the try
        | .err e => .error e
        | .ok (keepParsing, enc) p =>
          if !keepParsing then .ok enc                                    -- 709-712
          else getEncodingLoop d fuel p

/-- `EncodingParser(data).getEncoding()` (679-712) -/
def getEncoding (data : Bytes) : Except PyErr (Option Str) :=
  let d := mkEB data
  if (findSub d (litB "<meta") 0).isNone then .ok none                    -- 685-686
  else getEncodingLoop d (d.length + 2) (-1)

/-- `detectEncodingMeta()` (563-575): prescan of the next `numBytesMeta` bytes from the current position -/
def detectEncodingMeta (data : Bytes) (pos : Nat) : Except PyErr (Option Str) :=
  match getEncoding ((data.drop pos).take numBytesMeta) with
  | .error e => .error e
  | .ok (some e) =>
    if e = lit "utf-16be" ∨ e = lit "utf-16le" then lookupEncodingStr (some (lit "utf-8"))
    else if e = lit "x-user-defined" then lookupEncodingStr (some (lit "windows-1252"))
    else .ok (some e)
  | .ok none => .ok none

/-! ### determineEncoding (451-511) -/

inductive Conf where
  | certain | tentative
  deriving Repr, DecidableEq

structure Args where
  override : Option Str := none
  transport : Option Str := none
  parent : Option Str := none
  likely : Option Str := none
  default : Option Str := some defaultEncodingDefault

structure Determined where
  encoding : Str
  conf : Conf
  offset : Nat            -- position of the raw stream when decoding starts
  deriving Repr, DecidableEq

/-- `determineEncoding()` + the assert of `__init__` (423).  `metaScan` abstracts `detectEncodingMeta` for the
precedence theorems (instantiated with the real prescan below). -/
def determineWith (metaScan : Nat → Except PyErr (Option Str)) (data : Bytes) (a : Args) : Except PyErr Determined :=
  match detectBOM data with                                                               -- 454
  | .error x => .error x
  | .ok (some e, pos) => .ok ⟨e, .certain, pos⟩                                           -- 455-456
  | .ok (none, pos) =>
  match lookupEncodingStr a.override with                                                 -- 459
  | .error x => .error x
  | .ok (some e) => .ok ⟨e, .certain, pos⟩                                                -- 460-461
  | .ok none =>
  match lookupEncodingStr a.transport with                                                -- 464
  | .error x => .error x
  | .ok (some e) => .ok ⟨e, .certain, pos⟩                                                -- 465-466
  | .ok none =>
  match metaScan pos with                            -- 469: reads from the current position, then seek(0)
  | .error x => .error x
  | .ok (some e) => .ok ⟨e, .tentative, 0⟩                                                -- 470-471
  | .ok none =>
  match lookupEncodingStr a.parent with                                                   -- 474
  | .error x => .error x
  | .ok pa =>
  if let some e := pa.filter (fun e => !e.startsWith (lit "utf-16")) then .ok ⟨e, .tentative, 0⟩    -- 475-476
  else
  match lookupEncodingStr a.likely with                                                   -- 479
  | .error x => .error x
  | .ok (some e) => .ok ⟨e, .tentative, 0⟩                                                -- 480-481
  | .ok none =>
  if chardetInstalled then .error (.valueError "chardet branch is not modelled")          -- 484-503 pruned
  else
  match lookupEncodingStr a.default with                                                  -- 506
  | .error x => .error x
  | .ok (some e) => .ok ⟨e, .tentative, 0⟩                                                -- 507-508
  | .ok none =>
  match lookupEncodingStr (some finalFallbackLabel) with                                  -- 511
  | .error x => .error x
  | .ok (some e) => .ok ⟨e, .tentative, 0⟩
  | .ok none => .error (.assertFail "charEncoding[0] is not None")                        -- 423

def determineEncoding (data : Bytes) (a : Args) : Except PyErr Determined :=
  determineWith (detectEncodingMeta data) data a

/-! ### changeEncoding (513-527) and the late `<meta>` (html5parser.py 711-734) -/

inductive Change where
  | unchanged                     -- falls off the end: nothing happens
  | nowCertain                    -- 522: same encoding, confidence becomes certain
  | reparse (enc : Str)           -- 524-527: _ReparseException, parse restarts with `enc` (certain)
  deriving Repr, DecidableEq

/-- the argument `changeEncoding` receives -/
inductive Label where
  | none | str (s : Str) | bytes (b : Bytes)
  deriving Repr, DecidableEq

def lookupEncodingAny : Label → Except PyErr (Option Str)
  | .none => .ok none
  | .str s => lookupEncodingStr (some s)
  | .bytes b => .ok (lookupEncodingBytes b)

def changeEncoding (cur : Str) (conf : Conf) (newEncoding : Label) : Except PyErr Change :=
  if conf = .certain then .error (.assertFail "changeEncoding: charEncoding[1] != certain")     -- 520
  else
    match lookupEncodingAny newEncoding with                                                     -- 521
    | .error e => .error e
    | .ok none => .ok .unchanged                                                                 -- 522-523
    | .ok (some ne) =>
      -- a document being read as UTF-16 keeps its encoding
      if cur = lit "utf-16be" ∨ cur = lit "utf-16le" then .ok .nowCertain
      else
      -- a declared UTF-16 means UTF-8, a declared x-user-defined means windows-1252
      let mapped : Except PyErr (Option Str) :=
        if ne = lit "utf-16be" ∨ ne = lit "utf-16le" then lookupEncodingStr (some (lit "utf-8"))
        else if ne = lit "x-user-defined" then lookupEncodingStr (some (lit "windows-1252"))
        else .ok (some ne)
      match mapped with
      | .error e => .error e
      | .ok none => .error (.assertFail "changeEncoding: assert newEncoding is not None")
      | .ok (some ne) =>
        if ne = cur then .ok .nowCertain
        else .ok (.reparse ne)

/-- `str.lower()`, exact wherever the result contains an ASCII character (A-Z, U+212A → k, U+0130 → i U+0307);
only compared with the ASCII string "content-type" -/
def pyLowerChar (c : Nat) : Str :=
  if 65 ≤ c ∧ c ≤ 90 then [c + 32]
  else if c = 0x212A then [107]
  else if c = 0x0130 then [105, 0x0307]
  else [c]

/-- `s.encode("utf-8")` (strict): lone surrogates raise UnicodeEncodeError -/
def utf8Char (c : Nat) : Bytes :=
  if c < 0x80 then [c]
  else if c < 0x800 then [0xC0 + c / 64, 0x80 + c % 64]
  else if c < 0x10000 then [0xE0 + c / 4096, 0x80 + (c / 64) % 64, 0x80 + c % 64]
  else [0xF0 + c / 262144, 0x80 + (c / 4096) % 64, 0x80 + (c / 64) % 64, 0x80 + c % 64]

def utf8Encode (s : Str) : Except PyErr Bytes :=
  if s.any isSurrogate then .error (.unicodeEncode "str.encode('utf-8')") else .ok (s.flatMap utf8Char)

def attrGet (attrs : List (Str × Str)) (k : String) : Option Str := (attrs.find? (fun kv => kv.1 == lit k)).map (·.2)

/-- which argument (if any) `startTagMeta` passes to `changeEncoding` (721-734); `none` = no call -/
def startTagMetaArg (conf : Conf) (attrs : List (Str × Str)) : Except PyErr (Option Label) :=
  if conf = .tentative then                                                                     -- 721
    match attrGet attrs "charset" with
    | some v => .ok (some (.str v))                                                             -- 722-723
    | none =>
      match attrGet attrs "content", attrGet attrs "http-equiv" with
      | some content, some he =>
        if he.flatMap pyLowerChar = lit "content-type" then                                     -- 724-726
          match utf8Encode content with                                                         -- 731
          | .error e => .error e
          | .ok b =>
            match contentAttrParse (mkEB b) with                                                -- 732-733
            | .error e => .error e
            | .ok none => .ok (some .none)                                                      -- 734 changeEncoding(None)
            | .ok (some codec) => .ok (some (.bytes codec))
        else .ok none
      | _, _ => .ok none
  else .ok none

/-- the late-meta decision: what happens to the parse when a `<meta>` start tag reaches `InHeadPhase` -/
def startTagMeta (cur : Str) (conf : Conf) (attrs : List (Str × Str)) : Except PyErr Change :=
  match startTagMetaArg conf attrs with
  | .error e => .error e
  | .ok none => .ok .unchanged
  | .ok (some l) => changeEncoding cur conf l

end H5.Model.Encoding
