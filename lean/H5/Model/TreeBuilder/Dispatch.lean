/-
  H5.Model.TreeBuilder.Dispatch — method resolution and tag dispatch THROUGH the generated
  tables of `H5.Gen.Dispatch` (`processMethods`, `startTagHandlers`, `endTagHandlers`), and the
  recursion knot `mkRec`.
-/
import H5.Model.TreeBuilder.Glue
namespace H5.Model.TB
open H5

/-- qualified name of the function that `phases[ph].<method>` resolves to -/
def resolveMethod (ph : Phase) (method : String) : Except PyErr String := do
  let cls ← ph.className
  match Gen.processMethods.find? (fun p => p.1 == cls) with
  | none => .error (.keyError ("processMethods:" ++ cls))
  | some (_, ms) =>
    match ms.find? (fun p => p.1 == method) with
    | some (_, q) =>
      if q == "<missing>" then .error (.attributeError (cls ++ "." ++ method)) else .ok q
    | none => .error (.attributeError (cls ++ "." ++ method))

/-- `self.startTagHandler[name]` / `self.endTagHandler[name]` (MethodDispatcher.__getitem__:
`dict.get(key, self.default)`) on the class of phase `ph` -/
def lookupHandler (tbl : List (String × (List (Str × String) × Option String))) (attr : String)
    (ph : Phase) (name : Str) : Except PyErr String := do
  let cls ← ph.className
  match tbl.find? (fun p => p.1 == cls) with
  | none => .error (.attributeError (cls ++ "." ++ attr))
  | some (_, (items, dflt)) =>
    match items.find? (fun p => p.1 == name) with
    | some (_, h) => .ok h
    | none =>
      match dflt with
      | some h => .ok h
      | none => .error (.typeError (cls ++ "." ++ attr ++ ":default-is-None-not-callable"))

/-- `Phase.processStartTag` (428-443); the `__startTagCache` only memoises the lookup -/
def Phase_processStartTag (r : Rec) (ph : Phase) (tok : Token) : M (Option Token) := do
  let d ← tok.tag "Phase.processStartTag"
  let h ← lookupHandler Gen.startTagHandlers "startTagHandler" ph d.name
  runTagHandler r h tok

/-- `Phase.processEndTag` (455-470) -/
def Phase_processEndTag (r : Rec) (ph : Phase) (tok : Token) : M (Option Token) := do
  let d ← tok.tag "Phase.processEndTag"
  let h ← lookupHandler Gen.endTagHandlers "endTagHandler" ph d.name
  runTagHandler r h tok

/-- `phases[ph].<method>(token)` -/
def runProcess (r : Rec) (ph : Phase) (method : String) (tok : Token) : M (Option Token) := do
  let q ← resolveMethod ph method
  match q with
  | "Phase.processStartTag" => Phase_processStartTag r ph tok
  | "Phase.processEndTag" => Phase_processEndTag r ph tok
  | "InBodyPhase.<slot>" =>
    if method == "processSpaceCharacters" then InBody_processSpaceCharacters tok
    else throw (.lookupError ("no-model-for-slot:" ++ method))
  | _ => runProcessPlain r q tok

/-- `phases[ph].processEOF()` -/
def runProcessEOF (r : Rec) (ph : Phase) : M Bool := do
  let q ← resolveMethod ph "processEOF"
  runEOF r q

/-- depth 0: every nested call fails -/
def Rec.bottom : Rec where
  processStartTag := fun _ _ => throw (.outOfFuel "dispatch-depth")
  processEndTag := fun _ _ => throw (.outOfFuel "dispatch-depth")
  processCharacters := fun _ _ => throw (.outOfFuel "dispatch-depth")
  processSpaceCharacters := fun _ _ => throw (.outOfFuel "dispatch-depth")
  processComment := fun _ _ => throw (.outOfFuel "dispatch-depth")
  processDoctype := fun _ _ => throw (.outOfFuel "dispatch-depth")
  processEOF := fun _ => throw (.outOfFuel "dispatch-depth")

/-- `mkRec n` allows `n` nested `phase.processX(...)` calls (a handler calling another phase's
method, which calls another …).  The real nesting depth is bounded by the length of the longest
delegation chain (≤ 8 in practice); `Cfg.dispatchDepth` is far above it. -/
def mkRec : Nat → Rec
  | 0 => Rec.bottom
  | n + 1 =>
    let r := mkRec n
    { processStartTag := fun ph t => runProcess r ph "processStartTag" t
      processEndTag := fun ph t => runProcess r ph "processEndTag" t
      processCharacters := fun ph t => runProcess r ph "processCharacters" t
      processSpaceCharacters := fun ph t => runProcess r ph "processSpaceCharacters" t
      processComment := fun ph t => runProcess r ph "processComment" t
      processDoctype := fun ph t => runProcess r ph "processDoctype" t
      processEOF := fun ph => runProcessEOF r ph }

end H5.Model.TB
