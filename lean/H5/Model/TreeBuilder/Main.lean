/-
  H5.Model.TreeBuilder.Main — `HTMLParser.reset`, `HTMLParser.mainLoop` (185-264) as
  `init` / `step` / `finish` / `build`, and the result tree.
-/
import H5.Model.TreeBuilder.Dispatch
namespace H5.Model.TB
open H5 H5.Model.Dom

/-- What `emitCurrentToken` (_tokenizer.py 236-241) does to the raw attribute list of a start
tag: `dict(raw)` then, if there were duplicates, `update(raw[::-1])` — i.e. first occurrence
wins for position and value.  Idempotent on duplicate-free lists. -/
def attrsOfPairs (l : List (Str × Str)) : Attrs :=
  l.foldl (fun acc p => if Attrs.contains acc (.plain p.1) then acc else acc ++ [(.plain p.1, p.2)]) []

/-- the token dict that `mainLoop` receives; `none` for a ParseError token -/
def Token.ofTTok : TTok → Option Token
  | .doctype n p s c => some (.doctype n p s c)
  | .chars s => some (.chars s)
  | .space s => some (.space s)
  | .startTag n a sc => some (.startTag { name := n, attrs := attrsOfPairs a, selfClosing := sc, orig := true })
  | .endTag n a sc => some (.endTag { name := n, attrs := attrsOfPairs a, selfClosing := sc, orig := true })
  | .comment s => some (.comment s)
  | .parseError _ _ => none

/-- tokenizer state selected by `reset()` for a fragment (136-148).  (constants.py names the
sets the other way round: `cdataElements` switches to RCDATA, `rcdataElements` to RAWTEXT.) -/
def initialTokState (cfg : Cfg) : TokStateSwitch :=
  match cfg.innerHTML with
  | none => .data
  | some c =>
    if Gen.cdataElements.contains c then .rcdata
    else if Gen.rcdataElements.contains c then .rawtext
    else if c == lit "plaintext" then .plaintext
    else .data

/-- `HTMLParser.reset` (128-160) + `TreeBuilder.reset` (base.py 172-185) -/
def init (cfg : Cfg) : Except PyErr PState :=
  let (arena, doc) := Arena.empty.alloc .document
  let st : PState := { cfg := cfg, arena := arena, document := doc, phase := none }
  match cfg.innerHTML with
  | some _ =>
    let act : M Unit := do
      setPhase .beforeHtml
      BeforeHtml_insertHtmlElement
      resetInsertionMode
    match act.run st with
    | .ok (_, st) => .ok { st with tokSwitch := none }
    | .error e => .error e
  | none => .ok { st with phase := some .initial }

/-- the phase-selection condition of `mainLoop` (212-226): `true` ↦ `self.phase`,
`false` ↦ `phases["inForeignContent"]` -/
def useCurrentPhase (tok : Token) : M Bool := do
  let l ← openElems
  match l.getLast? with
  | none => pure true                                    -- len(openElements) == 0
  | some currentNode =>
    let (currentNodeNamespace, currentNodeName) ← elemInfo currentNode
    let cfg ← getCfg
    if currentNodeNamespace == cfg.defaultNamespace then return true
    let isStart := match tok with | .startTag _ => true | _ => false
    let isChars := match tok with | .chars _ => true | .space _ => true | _ => false
    let tokName : Str := match tok with | .startTag d => d.name | _ => []
    if (← isMathMLTextIntegrationPoint currentNode) &&
        ((isStart && !(Gen.Lit.HTMLParser_mainLoop_0.contains tokName)) || isChars) then
      return true
    if currentNodeNamespace == some (← nsE "mathml") && currentNodeName == lit "annotation-xml"
        && isStart && tokName == lit "svg" then
      return true
    if (← isHTMLIntegrationPoint currentNode) && (isStart || isChars) then return true
    return false

/-- the `while new_token is not None` loop (200-250) for a non-ParseError token -/
def reprocessLoop (r : Rec) : Nat → Token → M Unit
  | 0, _ => throw (.outOfFuel "HTMLParser.mainLoop:reprocess")
  | fuel + 1, tok => do
    let own ← useCurrentPhase tok
    let phase ← (if own then curPhase "HTMLParser.mainLoop" else pure .inForeignContent : M Phase)
    let new_token ← (match tok with
      | .chars _ => r.processCharacters phase tok
      | .space _ => r.processSpaceCharacters phase tok
      | .startTag _ => r.processStartTag phase tok
      | .endTag _ => r.processEndTag phase tok
      | .comment _ => r.processComment phase tok
      | .doctype .. => r.processDoctype phase tok : M (Option Token))
    match new_token with
    | none => pure ()
    | some t => reprocessLoop r fuel t

/-- one iteration of `for token in self.tokenizer` (197-255) -/
def stepM (t : TTok) : M Unit := do
  modify fun st => { st with tokSwitch := none, selfClosingAcknowledged := false }
  match t with
  | .parseError code vars => parseErrorS code vars
  | _ =>
    match Token.ofTTok t with
    | none => pure ()
    | some tok =>
      let cfg ← getCfg
      reprocessLoop (mkRec cfg.dispatchDepth) cfg.reprocessFuel tok
      match tok with
      | .startTag d =>
        if d.selfClosing && !(← get).selfClosingAcknowledged then
          parseErrorS (lit "non-void-element-with-trailing-solidus") [(lit "name", d.name)]
      | _ => pure ()

/-- One tokenizer token through the tree builder; the second component is the last value the
handlers assigned to `tokenizer.state` (if any). -/
def step (cfg : Cfg) (st : PState) (t : TTok) : Except PyErr (PState × Option TokStateSwitch) :=
  match (stepM t).run { st with cfg := cfg } with
  | .ok (_, st) => .ok (st, st.tokSwitch)
  | .error e => .error e

/-- the EOF loop (257-264).  Every iteration with `reprocess` true appends a phase that is not
yet in `phases` (the `assert`), so at most 24 iterations (23 phases and `None`). -/
def eofLoop (r : Rec) : Nat → List (Option Phase) → M Unit
  | 0, _ => throw (.outOfFuel "HTMLParser.mainLoop:EOF")
  | fuel + 1, phases => do
    let phases := phases ++ [← getPhase]
    let ph ← curPhase "HTMLParser.mainLoop:EOF"
    let reprocess ← r.processEOF ph
    if reprocess then
      pyAssert (!(phases.contains (← getPhase))) "HTMLParser.mainLoop:assert-phase-not-in-phases"
      eofLoop r fuel phases

def finish (cfg : Cfg) (st : PState) : Except PyErr PState :=
  match (eofLoop (mkRec cfg.dispatchDepth) (Phase.all.length + 2) []).run { st with cfg := cfg } with
  | .ok (_, st) => .ok st
  | .error e => .error e

def foldSteps (cfg : Cfg) : PState → List TTok → Except PyErr PState
  | st, [] => .ok st
  | st, t :: ts =>
    match step cfg st t with
    | .ok (st, _) => foldSteps cfg st ts
    | .error e => .error e

/-- `HTMLParser._parse` on a given token list (tokenizer state switches ignored) -/
def build (cfg : Cfg) (toks : List TTok) : Except PyErr PState := do
  let st ← init cfg
  let st ← foldSteps cfg st toks
  finish cfg st

/-- `parse` → `getDocument()`, `parseFragment` → `getFragment()`; abstracted by `toTree` -/
def resultE (st : PState) : Except PyErr Tree :=
  let act : M NodeId := if st.cfg.innerHTML.isSome then getFragment else getDocument
  match act.run st with
  | .ok (root, st) => toTreeE st.arena root
  | .error e => .error e

def result (st : PState) : Tree :=
  match resultE st with
  | .ok t => t
  | .error _ => .doc []

/-- what `markupDeclarationOpenState` asks the parser before recognising `<![CDATA[`
(_tokenizer.py 1146-1149) -/
def cdataAllowed (st : PState) : Bool :=
  match st.openElements.getLast? with
  | none => false
  | some cur =>
    match st.arena.get cur with
    | .ok { kind := .element ns _, .. } => ns != st.cfg.defaultNamespace
    | _ => false

def errorCodes (st : PState) : List Str := st.errors.toList.map (·.1)

end H5.Model.TB
