/-
  H5.Model.TreeBuilder.Rest — InSelect, InSelectInTable, InForeignContent, AfterBody, InFrameset,
  AfterFrameset, AfterAfterBody, AfterAfterFrameset (html5parser.py 2277-2743).
-/
import H5.Model.TreeBuilder.Tables
namespace H5.Model.TB
open H5 H5.Model.Dom

/-! ### InSelectPhase (2277-2374) -/

/-- `InSelectPhase.processEOF` (2281-2285) -/
def InSelect_processEOF : M Bool := do
  if !(← nameIs (← openLast "InSelectPhase.processEOF") "html") then
    parseError "eof-in-select"
  else
    pyAssert (← innerHTMLTruthy) "InSelectPhase.processEOF:assert-innerHTML"
  pure false

/-- `InSelectPhase.processCharacters` (2287-2290) -/
def InSelect_processCharacters (tok : Token) : M (Option Token) := do
  let data ← tok.text "InSelectPhase.processCharacters"
  if data == [0] then return none
  insertText data
  pure none

/-- `InSelectPhase.startTagOption` (2292-2296) -/
def InSelect_startTagOption (tok : Token) : M (Option Token) := do
  let site := "InSelectPhase.startTagOption"
  if (← nameIs (← openLast site) "option") then
    let _ ← openPop site
  let _ ← insertElementTok tok site
  pure none

/-- `InSelectPhase.startTagOptgroup` (2298-2303) -/
def InSelect_startTagOptgroup (tok : Token) : M (Option Token) := do
  let site := "InSelectPhase.startTagOptgroup"
  if (← nameIs (← openLast site) "option") then
    let _ ← openPop site
  if (← nameIs (← openLast site) "optgroup") then
    let _ ← openPop site
  let _ ← insertElementTok tok site
  pure none

/-- `InSelectPhase.endTagSelect` (2344-2353) -/
def InSelect_endTagSelect (_tok : Token) : M (Option Token) := do
  let site := "InSelectPhase.endTagSelect"
  if (← elementInScope (lit "select") (some "select")) then
    let _ ← popUntil (fun n => nameIs n "select") site
    resetInsertionMode
  else
    pyAssert (← innerHTMLTruthy) (site ++ ":assert-innerHTML")
    parseErrorDefault
  pure none

/-- `InSelectPhase.startTagSelect` (2305-2307) -/
def InSelect_startTagSelect (_tok : Token) : M (Option Token) := do
  parseError "unexpected-select-in-select"
  let _ ← InSelect_endTagSelect (impliedEnd "select")
  pure none

/-- `InSelectPhase.startTagInput` (2309-2315) -/
def InSelect_startTagInput (tok : Token) : M (Option Token) := do
  parseError "unexpected-input-in-select"
  if (← elementInScope (lit "select") (some "select")) then
    let _ ← InSelect_endTagSelect (impliedEnd "select")
    pure (some tok)
  else
    pyAssert (← innerHTMLTruthy) "InSelectPhase.startTagInput:assert-innerHTML"
    pure none

/-- `InSelectPhase.startTagScript` (2317-2318) -/
def InSelect_startTagScript (r : Rec) (tok : Token) : M (Option Token) :=
  r.processStartTag .inHead tok

/-- `InSelectPhase.startTagOther` (2320-2322) -/
def InSelect_startTagOther (tok : Token) : M (Option Token) := do
  let d ← tok.tag "InSelectPhase.startTagOther"
  parseError "unexpected-start-tag-in-select" [("name", d.name)]
  pure none

/-- `InSelectPhase.endTagOption` (2324-2329) -/
def InSelect_endTagOption (_tok : Token) : M (Option Token) := do
  let site := "InSelectPhase.endTagOption"
  if (← nameIs (← openLast site) "option") then
    let _ ← openPop site
  else
    parseError "unexpected-end-tag-in-select" [("name", lit "option")]
  pure none

/-- `InSelectPhase.endTagOptgroup` (2331-2342) -/
def InSelect_endTagOptgroup (_tok : Token) : M (Option Token) := do
  let site := "InSelectPhase.endTagOptgroup"
  if (← nameIs (← openLast site) "option") then
    let l ← openElems
    let second ← (match pyIndex l (-2) with
      | some x => pure x
      | none => throw (.indexError (site ++ ":openElements[-2]")) : M NodeId)
    if (← nameIs second "optgroup") then
      let _ ← openPop site
  if (← nameIs (← openLast site) "optgroup") then
    let _ ← openPop site
  else
    parseError "unexpected-end-tag-in-select" [("name", lit "optgroup")]
  pure none

/-- `InSelectPhase.endTagOther` (2355-2357) -/
def InSelect_endTagOther (tok : Token) : M (Option Token) := do
  let d ← tok.tag "InSelectPhase.endTagOther"
  parseError "unexpected-end-tag-in-select" [("name", d.name)]
  pure none

/-! ### InSelectInTablePhase (2377-2413) -/

/-- `InSelectInTablePhase.processEOF` (2380-2381) -/
def InSelectInTable_processEOF (r : Rec) : M Bool := do
  let _ ← r.processEOF .inSelect
  pure false

/-- `InSelectInTablePhase.processCharacters` (2383-2384) -/
def InSelectInTable_processCharacters (r : Rec) (tok : Token) : M (Option Token) :=
  r.processCharacters .inSelect tok

/-- `InSelectInTablePhase.endTagOther` (2400-2401) -/
def InSelectInTable_endTagOther (r : Rec) (tok : Token) : M (Option Token) :=
  r.processEndTag .inSelect tok

/-- `InSelectInTablePhase.startTagTable` (2386-2389) -/
def InSelectInTable_startTagTable (r : Rec) (tok : Token) : M (Option Token) := do
  let d ← tok.tag "InSelectInTablePhase.startTagTable"
  parseError "unexpected-table-element-start-tag-in-select-in-table" [("name", d.name)]
  let _ ← InSelectInTable_endTagOther r (impliedEnd "select")
  pure (some tok)

/-- `InSelectInTablePhase.startTagOther` (2391-2392) -/
def InSelectInTable_startTagOther (r : Rec) (tok : Token) : M (Option Token) :=
  r.processStartTag .inSelect tok

/-- `InSelectInTablePhase.endTagTable` (2394-2398) -/
def InSelectInTable_endTagTable (r : Rec) (tok : Token) : M (Option Token) := do
  let d ← tok.tag "InSelectInTablePhase.endTagTable"
  parseError "unexpected-table-element-end-tag-in-select-in-table" [("name", d.name)]
  if (← elementInScope d.name (some "table")) then
    let _ ← InSelectInTable_endTagOther r (impliedEnd "select")
    pure (some tok)
  else pure none

/-! ### InForeignContentPhase (2416-2528) -/

/-- `InForeignContentPhase.adjustSVGTagNames` (2428-2467) -/
def InForeignContent_adjustSVGTagNames (d : TagData) : TagData :=
  match Gen.Lit.InForeignContentPhase_adjustSVGTagNames_0.find? (fun p => p.1 == d.name) with
  | some p => { d with name := p.2 }
  | none => d

/-- `InForeignContentPhase.processCharacters` (2469-2475) -/
def InForeignContent_processCharacters (tok : Token) : M (Option Token) := do
  let mut data ← tok.text "InForeignContentPhase.processCharacters"
  if data == [0] then
    data := [0xFFFD]
  else if (← get).framesetOK && hasNonSpace data then
    setFramesetOK false
  Phase_processCharacters (.chars data)

/-- `InForeignContentPhase.processStartTag` (2477-2502) -/
def InForeignContent_processStartTag (tok : Token) : M (Option Token) := do
  let site := "InForeignContentPhase.processStartTag"
  let currentNode ← openLast site
  let d ← tok.tag site
  if Gen.Lit.breakoutElements.contains d.name ||
      (d.name == lit "font" &&
        d.attrs.any (fun p => match p.1 with
          | .plain k => Gen.Lit.InForeignContentPhase_processStartTag_0.contains k
          | .qual .. => false)) then
    parseError "unexpected-html-element-in-foreign-content" [("name", d.name)]
    let defaultNs := (← getCfg).defaultNamespace
    popWhile (fun n => do
      if (← nodeNs n) == defaultNs then return false
      if (← isHTMLIntegrationPoint n) then return false
      if (← isMathMLTextIntegrationPoint n) then return false
      return true) site
    pure (some tok)
  else
    let cns ← nodeNs currentNode
    let mut d := d
    if cns == some (← nsE "mathml") then
      d := adjustMathMLAttributes d
    else if cns == some (← nsE "svg") then
      d := InForeignContent_adjustSVGTagNames d
      d := adjustSVGAttributes d
    d := adjustForeignAttributes d
    d := { d with ns := some cns }
    let _ ← insertElement d
    if d.selfClosing then
      let _ ← openPop site
      acknowledgeSelfClosing d
    pure none

/-- `while self.tree.openElements.pop() != node: assert self.tree.openElements` (2516-2517) -/
def InForeignContent_popTo (node : NodeId) : Nat → M Unit
  | 0 => throw (.outOfFuel "InForeignContentPhase.processEndTag:pop-loop")
  | fuel + 1 => do
    let site := "InForeignContentPhase.processEndTag"
    let x ← openPop site
    if x != node then
      pyAssert (!(← openElems).isEmpty) (site ++ ":assert-openElements")
      InForeignContent_popTo node fuel
    else pure ()

/-- the `while True` loop of `InForeignContentPhase.processEndTag` (2510-2527).  `nodeIndex`
strictly decreases and `openElements[nodeIndex]` raises `IndexError` below `-len`, so
`2*len+2` iterations suffice. -/
def InForeignContent_processEndTag_loop (r : Rec) (tok : Token) (name : Str) :
    Nat → Int → NodeId → M (Option Token)
  | 0, _, _ => throw (.outOfFuel "InForeignContentPhase.processEndTag")
  | fuel + 1, nodeIndex, node => do
    let site := "InForeignContentPhase.processEndTag"
    if asciiLower (← nodeName node) == name then
      if (← getPhase) == some .inTableText then
        InTableText_flushCharacters r
        InTableText_restorePhase
      InForeignContent_popTo node ((← openElems).length + 1)
      pure none
    else
      let nodeIndex := nodeIndex - 1
      let node ← (match pyIndex (← openElems) nodeIndex with
        | some x => pure x
        | none => throw (.indexError (site ++ ":openElements[nodeIndex]")) : M NodeId)
      if (← nodeNs node) != (← getCfg).defaultNamespace then
        InForeignContent_processEndTag_loop r tok name fuel nodeIndex node
      else
        r.processEndTag (← curPhase site) tok

/-- `InForeignContentPhase.processEndTag` (2504-2528) -/
def InForeignContent_processEndTag (r : Rec) (tok : Token) : M (Option Token) := do
  let site := "InForeignContentPhase.processEndTag"
  let d ← tok.tag site
  let l ← openElems
  let nodeIndex : Int := (l.length : Int) - 1
  let node ← openLast site
  if asciiLower (← nodeName node) != d.name then
    parseError "unexpected-end-tag" [("name", d.name)]
  InForeignContent_processEndTag_loop r tok d.name (2 * l.length + 2) nodeIndex node

/-! ### AfterBodyPhase (2531-2575) -/

/-- `AfterBodyPhase.processEOF` (2534-2536) -/
def AfterBody_processEOF : M Bool := pure false

/-- `AfterBodyPhase.processComment` (2538-2541) -/
def AfterBody_processComment (tok : Token) : M (Option Token) := do
  let root ← openAt 0 "AfterBodyPhase.processComment"
  insertComment (← tok.text "AfterBodyPhase.processComment") (some root)
  pure none

/-- `AfterBodyPhase.processCharacters` (2543-2546) -/
def AfterBody_processCharacters (tok : Token) : M (Option Token) := do
  parseError "unexpected-char-after-body"
  setPhase .inBody
  pure (some tok)

/-- `AfterBodyPhase.startTagHtml` (2548-2549) -/
def AfterBody_startTagHtml (r : Rec) (tok : Token) : M (Option Token) :=
  r.processStartTag .inBody tok

/-- `AfterBodyPhase.startTagOther` (2551-2555) -/
def AfterBody_startTagOther (tok : Token) : M (Option Token) := do
  let d ← tok.tag "AfterBodyPhase.startTagOther"
  parseError "unexpected-start-tag-after-body" [("name", d.name)]
  setPhase .inBody
  pure (some tok)

/-- `AfterBodyPhase.endTagHtml` (2557-2561) -/
def AfterBody_endTagHtml (_tok : Token) : M (Option Token) := do
  if (← innerHTMLTruthy) then
    parseError "unexpected-end-tag-after-body-innerhtml"
  else
    setPhase .afterAfterBody
  pure none

/-- `AfterBodyPhase.endTagOther` (2563-2567) -/
def AfterBody_endTagOther (tok : Token) : M (Option Token) := do
  let d ← tok.tag "AfterBodyPhase.endTagOther"
  parseError "unexpected-end-tag-after-body" [("name", d.name)]
  setPhase .inBody
  pure (some tok)

/-! ### InFramesetPhase (2578-2632) -/

/-- `InFramesetPhase.processEOF` (2582-2586) -/
def InFrameset_processEOF : M Bool := do
  if !(← nameIs (← openLast "InFramesetPhase.processEOF") "html") then
    parseError "eof-in-frameset"
  else
    pyAssert (← innerHTMLTruthy) "InFramesetPhase.processEOF:assert-innerHTML"
  pure false

/-- `InFramesetPhase.processCharacters` (2588-2589) -/
def InFrameset_processCharacters (_tok : Token) : M (Option Token) := do
  parseError "unexpected-char-in-frameset"
  pure none

/-- `InFramesetPhase.startTagFrameset` (2591-2592) -/
def InFrameset_startTagFrameset (tok : Token) : M (Option Token) := do
  let _ ← insertElementTok tok "InFramesetPhase.startTagFrameset"
  pure none

/-- `InFramesetPhase.startTagFrame` (2594-2596) -/
def InFrameset_startTagFrame (tok : Token) : M (Option Token) := do
  let _ ← insertElementTok tok "InFramesetPhase.startTagFrame"
  let _ ← openPop "InFramesetPhase.startTagFrame"
  pure none

/-- `InFramesetPhase.startTagNoframes` (2598-2599) -/
def InFrameset_startTagNoframes (r : Rec) (tok : Token) : M (Option Token) :=
  r.processStartTag .inBody tok

/-- `InFramesetPhase.startTagOther` (2601-2603) -/
def InFrameset_startTagOther (tok : Token) : M (Option Token) := do
  let d ← tok.tag "InFramesetPhase.startTagOther"
  parseError "unexpected-start-tag-in-frameset" [("name", d.name)]
  pure none

/-- `InFramesetPhase.endTagFrameset` (2605-2615) -/
def InFrameset_endTagFrameset (_tok : Token) : M (Option Token) := do
  let site := "InFramesetPhase.endTagFrameset"
  if (← nameIs (← openLast site) "html") then
    parseError "unexpected-frameset-in-frameset-innerhtml"
  else
    let _ ← openPop site
  if !(← innerHTMLTruthy) then
    if !(← nameIs (← openLast site) "frameset") then
      setPhase .afterFrameset
  pure none

/-- `InFramesetPhase.endTagOther` (2617-2619) -/
def InFrameset_endTagOther (tok : Token) : M (Option Token) := do
  let d ← tok.tag "InFramesetPhase.endTagOther"
  parseError "unexpected-end-tag-in-frameset" [("name", d.name)]
  pure none

/-! ### AfterFramesetPhase (2635-2669) -/

/-- `AfterFramesetPhase.processEOF` (2639-2641) -/
def AfterFrameset_processEOF : M Bool := pure false

/-- `AfterFramesetPhase.processCharacters` (2643-2644) -/
def AfterFrameset_processCharacters (_tok : Token) : M (Option Token) := do
  parseError "unexpected-char-after-frameset"
  pure none

/-- `AfterFramesetPhase.startTagNoframes` (2646-2647) -/
def AfterFrameset_startTagNoframes (r : Rec) (tok : Token) : M (Option Token) :=
  r.processStartTag .inHead tok

/-- `AfterFramesetPhase.startTagOther` (2649-2651) -/
def AfterFrameset_startTagOther (tok : Token) : M (Option Token) := do
  let d ← tok.tag "AfterFramesetPhase.startTagOther"
  parseError "unexpected-start-tag-after-frameset" [("name", d.name)]
  pure none

/-- `AfterFramesetPhase.endTagHtml` (2653-2654) -/
def AfterFrameset_endTagHtml (_tok : Token) : M (Option Token) := do
  setPhase .afterAfterFrameset
  pure none

/-- `AfterFramesetPhase.endTagOther` (2656-2658) -/
def AfterFrameset_endTagOther (tok : Token) : M (Option Token) := do
  let d ← tok.tag "AfterFramesetPhase.endTagOther"
  parseError "unexpected-end-tag-after-frameset" [("name", d.name)]
  pure none

/-! ### AfterAfterBodyPhase (2672-2707) -/

/-- `AfterAfterBodyPhase.processEOF` (2675-2676) -/
def AfterAfterBody_processEOF : M Bool := pure false

/-- `AfterAfterBodyPhase.processComment` (2678-2679) -/
def AfterAfterBody_processComment (tok : Token) : M (Option Token) := do
  insertComment (← tok.text "AfterAfterBodyPhase.processComment") (some (← get).document)
  pure none

/-- `AfterAfterBodyPhase.processSpaceCharacters` (2681-2682) -/
def AfterAfterBody_processSpaceCharacters (r : Rec) (tok : Token) : M (Option Token) :=
  r.processSpaceCharacters .inBody tok

/-- `AfterAfterBodyPhase.processCharacters` (2684-2687) -/
def AfterAfterBody_processCharacters (tok : Token) : M (Option Token) := do
  parseError "expected-eof-but-got-char"
  setPhase .inBody
  pure (some tok)

/-- `AfterAfterBodyPhase.startTagHtml` (2689-2690) -/
def AfterAfterBody_startTagHtml (r : Rec) (tok : Token) : M (Option Token) :=
  r.processStartTag .inBody tok

/-- `AfterAfterBodyPhase.startTagOther` (2692-2696) -/
def AfterAfterBody_startTagOther (tok : Token) : M (Option Token) := do
  let d ← tok.tag "AfterAfterBodyPhase.startTagOther"
  parseError "expected-eof-but-got-start-tag" [("name", d.name)]
  setPhase .inBody
  pure (some tok)

/-- `AfterAfterBodyPhase.processEndTag` (2698-2702) -/
def AfterAfterBody_processEndTag (tok : Token) : M (Option Token) := do
  let d ← tok.tag "AfterAfterBodyPhase.processEndTag"
  parseError "expected-eof-but-got-end-tag" [("name", d.name)]
  setPhase .inBody
  pure (some tok)

/-! ### AfterAfterFramesetPhase (2710-2743) -/

/-- `AfterAfterFramesetPhase.processEOF` (2713-2714) -/
def AfterAfterFrameset_processEOF : M Bool := pure false

/-- `AfterAfterFramesetPhase.processComment` (2716-2717) -/
def AfterAfterFrameset_processComment (tok : Token) : M (Option Token) := do
  insertComment (← tok.text "AfterAfterFramesetPhase.processComment") (some (← get).document)
  pure none

/-- `AfterAfterFramesetPhase.processSpaceCharacters` (2719-2720) -/
def AfterAfterFrameset_processSpaceCharacters (r : Rec) (tok : Token) : M (Option Token) :=
  r.processSpaceCharacters .inBody tok

/-- `AfterAfterFramesetPhase.processCharacters` (2722-2723) -/
def AfterAfterFrameset_processCharacters (_tok : Token) : M (Option Token) := do
  parseError "expected-eof-but-got-char"
  pure none

/-- `AfterAfterFramesetPhase.startTagHtml` (2725-2726) -/
def AfterAfterFrameset_startTagHtml (r : Rec) (tok : Token) : M (Option Token) :=
  r.processStartTag .inBody tok

/-- `AfterAfterFramesetPhase.startTagNoFrames` (2728-2729) -/
def AfterAfterFrameset_startTagNoFrames (r : Rec) (tok : Token) : M (Option Token) :=
  r.processStartTag .inHead tok

/-- `AfterAfterFramesetPhase.startTagOther` (2731-2733) -/
def AfterAfterFrameset_startTagOther (tok : Token) : M (Option Token) := do
  let d ← tok.tag "AfterAfterFramesetPhase.startTagOther"
  parseError "expected-eof-but-got-start-tag" [("name", d.name)]
  pure none

/-- `AfterAfterFramesetPhase.processEndTag` (2735-2737) -/
def AfterAfterFrameset_processEndTag (tok : Token) : M (Option Token) := do
  let d ← tok.tag "AfterAfterFramesetPhase.processEndTag"
  parseError "expected-eof-but-got-end-tag" [("name", d.name)]
  pure none

end H5.Model.TB
