/-
  H5.Model.TreeBuilder.Tables — TextPhase and the table phases: InTable, InTableText, InCaption,
  InColumnGroup, InTableBody, InRow, InCell (html5parser.py 1647-2274).
-/
import H5.Model.TreeBuilder.InBody
namespace H5.Model.TB
open H5 H5.Model.Dom

/-- Python `a or b` on effectful operands (short-circuit) -/
def orM (a b : M Bool) : M Bool := do if (← a) then pure true else b

/-! ### TextPhase (1647-1678) -/

/-- `TextPhase.processCharacters` (1650-1651) -/
def Text_processCharacters (tok : Token) : M (Option Token) := do
  insertText (← tok.text "TextPhase.processCharacters")
  pure none

/-- `self.parser.phase = self.parser.originalPhase` -/
def restoreOriginalPhase : M Unit := modify fun st => { st with phase := st.originalPhase }

/-- `TextPhase.processEOF` (1653-1658) -/
def Text_processEOF : M Bool := do
  let site := "TextPhase.processEOF"
  parseError "expected-named-closing-tag-but-got-eof" [("name", ← nodeName (← openLast site))]
  let _ ← openPop site
  restoreOriginalPhase
  pure true

/-- `TextPhase.startTagOther` (1660-1661) -/
def Text_startTagOther (_tok : Token) : M (Option Token) :=
  throw (.assertFail "TextPhase.startTagOther:assert-False")

/-- `TextPhase.endTagScript` (1663-1668) -/
def Text_endTagScript (_tok : Token) : M (Option Token) := do
  let node ← openPop "TextPhase.endTagScript"
  pyAssert (← nameIs node "script") "TextPhase.endTagScript:assert-script"
  restoreOriginalPhase
  pure none

/-- `TextPhase.endTagOther` (1670-1672) -/
def Text_endTagOther (_tok : Token) : M (Option Token) := do
  let _ ← openPop "TextPhase.endTagOther"
  restoreOriginalPhase
  pure none

/-! ### InTablePhase (1681-1824) -/

/-- `InTablePhase.clearStackToTableContext` (1686-1692) -/
def InTable_clearStackToTableContext : M Unit :=
  popWhile (fun n => do
      return !(Gen.Lit.InTablePhase_clearStackToTableContext_0.contains (← nodeName n)) ||
        (← nodeNs n) != (← getCfg).defaultNamespace)
    "InTablePhase.clearStackToTableContext"

/-- `InTablePhase.processEOF` (1695-1700) -/
def InTable_processEOF : M Bool := do
  let cur ← openLast "InTablePhase.processEOF"
  if !(← nameIs cur "html") || (← nodeNs cur) != (← getCfg).defaultNamespace then
    parseError "eof-in-table"
  else
    pyAssert (← innerHTMLTruthy) "InTablePhase.processEOF:assert-innerHTML"
  pure false

/-- the common prefix of `InTablePhase.processSpaceCharacters` / `processCharacters`
(1703-1705, 1709-1711): enter the inTableText phase remembering the current one -/
def enterInTableText : M Unit :=
  modify fun st => { st with tableTextOriginalPhase := st.phase, phase := some .inTableText }

/-- `InTablePhase.processSpaceCharacters` (1702-1706) -/
def InTable_processSpaceCharacters (r : Rec) (tok : Token) : M (Option Token) := do
  enterInTableText
  let _ ← r.processSpaceCharacters (← curPhase "InTablePhase.processSpaceCharacters") tok
  pure none

/-- `InTablePhase.processCharacters` (1708-1712) -/
def InTable_processCharacters (r : Rec) (tok : Token) : M (Option Token) := do
  enterInTableText
  let _ ← r.processCharacters (← curPhase "InTablePhase.processCharacters") tok
  pure none

/-- `InTablePhase.insertText` (1725-1731; since fix 5140af5 the previous value of `insertFromTable` is restored) -/
def InTable_insertText (r : Rec) (tok : Token) : M Unit := do
  let previous := (← get).insertFromTable
  setInsertFromTable true
  let _ ← r.processCharacters .inBody tok
  setInsertFromTable previous

/-- `InTablePhase.startTagCaption` (1721-1725) -/
def InTable_startTagCaption (tok : Token) : M (Option Token) := do
  InTable_clearStackToTableContext
  afeAppend none
  let _ ← insertElementTok tok "InTablePhase.startTagCaption"
  setPhase .inCaption
  pure none

/-- `InTablePhase.startTagColgroup` (1727-1730) -/
def InTable_startTagColgroup (tok : Token) : M (Option Token) := do
  InTable_clearStackToTableContext
  let _ ← insertElementTok tok "InTablePhase.startTagColgroup"
  setPhase .inColumnGroup
  pure none

/-- `InTablePhase.startTagCol` (1732-1734) -/
def InTable_startTagCol (tok : Token) : M (Option Token) := do
  let _ ← InTable_startTagColgroup (impliedStart "colgroup")
  pure (some tok)

/-- `InTablePhase.startTagRowGroup` (1736-1739) -/
def InTable_startTagRowGroup (tok : Token) : M (Option Token) := do
  InTable_clearStackToTableContext
  let _ ← insertElementTok tok "InTablePhase.startTagRowGroup"
  setPhase .inTableBody
  pure none

/-- `InTablePhase.startTagImplyTbody` (1741-1743) -/
def InTable_startTagImplyTbody (tok : Token) : M (Option Token) := do
  let _ ← InTable_startTagRowGroup (impliedStart "tbody")
  pure (some tok)

/-- `InTablePhase.startTagTable` (1745-1750) -/
def InTable_startTagTable (r : Rec) (tok : Token) : M (Option Token) := do
  parseError "unexpected-start-tag-implies-end-tag" [("startName", lit "table"), ("endName", lit "table")]
  let _ ← r.processEndTag (← curPhase "InTablePhase.startTagTable") (impliedEnd "table")
  if !(← innerHTMLTruthy) then pure (some tok) else pure none

/-- `InTablePhase.startTagStyleScript` (1752-1753) -/
def InTable_startTagStyleScript (r : Rec) (tok : Token) : M (Option Token) :=
  r.processStartTag .inHead tok

/-- `InTablePhase.startTagOther` (1784-1790; `insertFromTable` restored to its previous value, fix 5140af5) -/
def InTable_startTagOther (r : Rec) (tok : Token) : M (Option Token) := do
  let d ← tok.tag "InTablePhase.startTagOther"
  parseError "unexpected-start-tag-implies-table-voodoo" [("name", d.name)]
  let previous := (← get).insertFromTable
  setInsertFromTable true
  let _ ← r.processStartTag .inBody tok
  setInsertFromTable previous
  pure none

/-- `InTablePhase.startTagInput` (1755-1763) -/
def InTable_startTagInput (r : Rec) (tok : Token) : M (Option Token) := do
  let site := "InTablePhase.startTagInput"
  let d ← tok.tag site
  let hidden := match Attrs.get? d.attrs (.plain (lit "type")) with
    | some v => asciiLower v == lit "hidden"
    | none => false
  if hidden then
    parseError "unexpected-hidden-input-in-table"
    let _ ← insertElement d
    let _ ← openPop site
  else
    let _ ← InTable_startTagOther r tok
  pure none

/-- `InTablePhase.startTagForm` (1765-1770) -/
def InTable_startTagForm (tok : Token) : M (Option Token) := do
  let site := "InTablePhase.startTagForm"
  parseError "unexpected-form-in-table"
  if (← get).formPointer.isNone then
    let _ ← insertElementTok tok site
    let cur ← openLast site
    modify fun st => { st with formPointer := some cur }
    let _ ← openPop site
  pure none

/-- `InTablePhase.endTagTable` (1779-1793) -/
def InTable_endTagTable (_tok : Token) : M (Option Token) := do
  let site := "InTablePhase.endTagTable"
  if (← elementInScope (lit "table") (some "table")) then
    generateImpliedEndTags
    if !(← nameIs (← openLast site) "table") then
      parseError "end-tag-too-early-named"
        [("gotName", lit "table"), ("expectedName", ← nodeName (← openLast site))]
    popWhile (fun n => do return !(← nameIs n "table")) site
    let _ ← openPop site
    resetInsertionMode
  else
    pyAssert (← innerHTMLTruthy) (site ++ ":assert-innerHTML")
    parseErrorDefault
  pure none

/-- `InTablePhase.endTagIgnore` (1795-1796) -/
def InTable_endTagIgnore (tok : Token) : M (Option Token) := do
  let d ← tok.tag "InTablePhase.endTagIgnore"
  parseError "unexpected-end-tag" [("name", d.name)]
  pure none

/-- `InTablePhase.endTagOther` (1811-1817; `insertFromTable` restored to its previous value, fix 5140af5) -/
def InTable_endTagOther (r : Rec) (tok : Token) : M (Option Token) := do
  let d ← tok.tag "InTablePhase.endTagOther"
  parseError "unexpected-end-tag-implies-table-voodoo" [("name", d.name)]
  let previous := (← get).insertFromTable
  setInsertFromTable true
  let _ ← r.processEndTag .inBody tok
  setInsertFromTable previous
  pure none

/-! ### InTableTextPhase (1827-1872) -/

/-- `InTableTextPhase.flushCharacters` (1835-1842) -/
def InTableText_flushCharacters (r : Rec) : M Unit := do
  let data : Str := (← get).characterTokens.foldl (· ++ ·) []
  if hasNonSpace data then
    InTable_insertText r (.chars data)
  else if !data.isEmpty then
    insertText data
  modify fun st => { st with characterTokens := #[] }

/-- `self.parser.phase = self.originalPhase` -/
def InTableText_restorePhase : M Unit :=
  modify fun st => { st with phase := st.tableTextOriginalPhase }

/-- `InTableTextPhase.processComment` (1844-1847) -/
def InTableText_processComment (r : Rec) (tok : Token) : M (Option Token) := do
  InTableText_flushCharacters r
  InTableText_restorePhase
  pure (some tok)

/-- `InTableTextPhase.processEOF` (1849-1852) -/
def InTableText_processEOF (r : Rec) : M Bool := do
  InTableText_flushCharacters r
  InTableText_restorePhase
  pure true

/-- `InTableTextPhase.processCharacters` (1854-1857) -/
def InTableText_processCharacters (tok : Token) : M (Option Token) := do
  let data ← tok.text "InTableTextPhase.processCharacters"
  if data == [0] then return none
  modify fun st => { st with characterTokens := st.characterTokens.push data }
  pure none

/-- `InTableTextPhase.processSpaceCharacters` (1859-1861) -/
def InTableText_processSpaceCharacters (tok : Token) : M (Option Token) := do
  let data ← tok.text "InTableTextPhase.processSpaceCharacters"
  modify fun st => { st with characterTokens := st.characterTokens.push data }
  pure none

/-- `InTableTextPhase.processStartTag` (1864-1867) -/
def InTableText_processStartTag (r : Rec) (tok : Token) : M (Option Token) := do
  InTableText_flushCharacters r
  InTableText_restorePhase
  pure (some tok)

/-- `InTableTextPhase.processEndTag` (1869-1872) -/
def InTableText_processEndTag (r : Rec) (tok : Token) : M (Option Token) := do
  InTableText_flushCharacters r
  InTableText_restorePhase
  pure (some tok)

/-! ### InCaptionPhase (1875-1943) -/

/-- `InCaptionPhase.ignoreEndTagCaption` (1879-1880) -/
def InCaption_ignoreEndTagCaption : M Bool := do
  return !(← elementInScope (lit "caption") (some "table"))

/-- `InCaptionPhase.processEOF` (1882-1883) -/
def InCaption_processEOF (r : Rec) : M Bool := do
  let _ ← r.processEOF .inBody
  pure false

/-- `InCaptionPhase.processCharacters` (1885-1886) -/
def InCaption_processCharacters (r : Rec) (tok : Token) : M (Option Token) :=
  r.processCharacters .inBody tok

/-- `InCaptionPhase.startTagTableElement` (1888-1894) -/
def InCaption_startTagTableElement (r : Rec) (tok : Token) : M (Option Token) := do
  parseErrorDefault
  let ignoreEndTag ← InCaption_ignoreEndTagCaption
  let _ ← r.processEndTag (← curPhase "InCaptionPhase.startTagTableElement") (impliedEnd "caption")
  if !ignoreEndTag then pure (some tok) else pure none

/-- `InCaptionPhase.startTagOther` (1896-1897) -/
def InCaption_startTagOther (r : Rec) (tok : Token) : M (Option Token) :=
  r.processStartTag .inBody tok

/-- `InCaptionPhase.endTagCaption` (1899-1915) -/
def InCaption_endTagCaption (_tok : Token) : M (Option Token) := do
  let site := "InCaptionPhase.endTagCaption"
  if !(← InCaption_ignoreEndTagCaption) then
    generateImpliedEndTags
    if !(← nameIs (← openLast site) "caption") then
      parseError "expected-one-end-tag-but-got-another"
        [("gotName", lit "caption"), ("expectedName", ← nodeName (← openLast site))]
    popWhile (fun n => do return !(← nameIs n "caption")) site
    let _ ← openPop site
    clearActiveFormattingElements
    setPhase .inTable
  else
    pyAssert (← innerHTMLTruthy) (site ++ ":assert-innerHTML")
    parseErrorDefault
  pure none

/-- `InCaptionPhase.endTagTable` (1917-1922) -/
def InCaption_endTagTable (r : Rec) (tok : Token) : M (Option Token) := do
  parseErrorDefault
  let ignoreEndTag ← InCaption_ignoreEndTagCaption
  let _ ← r.processEndTag (← curPhase "InCaptionPhase.endTagTable") (impliedEnd "caption")
  if !ignoreEndTag then pure (some tok) else pure none

/-- `InCaptionPhase.endTagIgnore` (1924-1925) -/
def InCaption_endTagIgnore (tok : Token) : M (Option Token) := do
  let d ← tok.tag "InCaptionPhase.endTagIgnore"
  parseError "unexpected-end-tag" [("name", d.name)]
  pure none

/-- `InCaptionPhase.endTagOther` (1927-1928) -/
def InCaption_endTagOther (r : Rec) (tok : Token) : M (Option Token) :=
  r.processEndTag .inBody tok

/-! ### InColumnGroupPhase (1946-2008) -/

/-- `InColumnGroupPhase.ignoreEndTagColgroup` (1950-1951) -/
def InColumnGroup_ignoreEndTagColgroup : M Bool := do
  nameIs (← openLast "InColumnGroupPhase.ignoreEndTagColgroup") "html"

/-- `InColumnGroupPhase.endTagColgroup` (1980-1987) -/
def InColumnGroup_endTagColgroup (_tok : Token) : M (Option Token) := do
  let site := "InColumnGroupPhase.endTagColgroup"
  if (← InColumnGroup_ignoreEndTagColgroup) then
    pyAssert (← innerHTMLTruthy) (site ++ ":assert-innerHTML")
    parseErrorDefault
  else
    let _ ← openPop site
    setPhase .inTable
  pure none

/-- `InColumnGroupPhase.processEOF` (1953-1961) -/
def InColumnGroup_processEOF : M Bool := do
  let site := "InColumnGroupPhase.processEOF"
  if (← nameIs (← openLast site) "html") then
    pyAssert (← innerHTMLTruthy) (site ++ ":assert-innerHTML")
    pure false
  else
    let ignoreEndTag ← InColumnGroup_ignoreEndTagColgroup
    let _ ← InColumnGroup_endTagColgroup (impliedEnd "colgroup")
    if !ignoreEndTag then pure true else pure false

/-- `InColumnGroupPhase.processCharacters` (1963-1967) -/
def InColumnGroup_processCharacters (tok : Token) : M (Option Token) := do
  let ignoreEndTag ← InColumnGroup_ignoreEndTagColgroup
  let _ ← InColumnGroup_endTagColgroup (impliedEnd "colgroup")
  if !ignoreEndTag then pure (some tok) else pure none

/-- `InColumnGroupPhase.startTagCol` (1969-1972) -/
def InColumnGroup_startTagCol (tok : Token) : M (Option Token) := do
  let site := "InColumnGroupPhase.startTagCol"
  let d ← tok.tag site
  let _ ← insertElement d
  let _ ← openPop site
  acknowledgeSelfClosing d
  pure none

/-- `InColumnGroupPhase.startTagOther` (1974-1978) -/
def InColumnGroup_startTagOther (tok : Token) : M (Option Token) := do
  let ignoreEndTag ← InColumnGroup_ignoreEndTagColgroup
  let _ ← InColumnGroup_endTagColgroup (impliedEnd "colgroup")
  if !ignoreEndTag then pure (some tok) else pure none

/-- `InColumnGroupPhase.endTagCol` (1989-1990) -/
def InColumnGroup_endTagCol (_tok : Token) : M (Option Token) := do
  parseError "no-end-tag" [("name", lit "col")]
  pure none

/-- `InColumnGroupPhase.endTagOther` (1992-1996) -/
def InColumnGroup_endTagOther (tok : Token) : M (Option Token) := do
  let ignoreEndTag ← InColumnGroup_ignoreEndTagColgroup
  let _ ← InColumnGroup_endTagColgroup (impliedEnd "colgroup")
  if !ignoreEndTag then pure (some tok) else pure none

/-! ### InTableBodyPhase (2011-2107) -/

/-- `InTableBodyPhase.clearStackToTableBodyContext` (2016-2023) -/
def InTableBody_clearStackToTableBodyContext : M Unit := do
  let site := "InTableBodyPhase.clearStackToTableBodyContext"
  popWhile (fun n => do
    return !(Gen.Lit.InTableBodyPhase_clearStackToTableBodyContext_0.contains (← nodeName n)) ||
      (← nodeNs n) != (← getCfg).defaultNamespace) site
  if (← nameIs (← openLast site) "html") then
    pyAssert (← innerHTMLTruthy) (site ++ ":assert-innerHTML")

/-- `InTableBodyPhase.processEOF` (2026-2027) -/
def InTableBody_processEOF (r : Rec) : M Bool := do
  let _ ← r.processEOF .inTable
  pure false

/-- `InTableBodyPhase.processSpaceCharacters` (2029-2030) -/
def InTableBody_processSpaceCharacters (r : Rec) (tok : Token) : M (Option Token) :=
  r.processSpaceCharacters .inTable tok

/-- `InTableBodyPhase.processCharacters` (2032-2033) -/
def InTableBody_processCharacters (r : Rec) (tok : Token) : M (Option Token) :=
  r.processCharacters .inTable tok

/-- `InTableBodyPhase.startTagTr` (2035-2038) -/
def InTableBody_startTagTr (tok : Token) : M (Option Token) := do
  InTableBody_clearStackToTableBodyContext
  let _ ← insertElementTok tok "InTableBodyPhase.startTagTr"
  setPhase .inRow
  pure none

/-- `InTableBodyPhase.startTagTableCell` (2040-2044) -/
def InTableBody_startTagTableCell (tok : Token) : M (Option Token) := do
  let d ← tok.tag "InTableBodyPhase.startTagTableCell"
  parseError "unexpected-cell-in-table-body" [("name", d.name)]
  let _ ← InTableBody_startTagTr (impliedStart "tr")
  pure (some tok)

/-- `InTableBodyPhase.endTagTableRowGroup` (2063-2070) -/
def InTableBody_endTagTableRowGroup (tok : Token) : M (Option Token) := do
  let site := "InTableBodyPhase.endTagTableRowGroup"
  let d ← tok.tag site
  if (← elementInScope d.name (some "table")) then
    InTableBody_clearStackToTableBodyContext
    let _ ← openPop site
    setPhase .inTable
  else
    parseError "unexpected-end-tag-in-table-body" [("name", d.name)]
  pure none

/-- the shared body of `startTagTableOther` (2046-2058) and `endTagTable` (2072-2083) -/
def InTableBody_closeRowGroup (site : String) (tok : Token) : M (Option Token) := do
  if (← orM (elementInScope (lit "tbody") (some "table"))
        (orM (elementInScope (lit "thead") (some "table"))
          (elementInScope (lit "tfoot") (some "table")))) then
    InTableBody_clearStackToTableBodyContext
    let _ ← InTableBody_endTagTableRowGroup (impliedEndS (← nodeName (← openLast site)))
    pure (some tok)
  else
    pyAssert (← innerHTMLTruthy) (site ++ ":assert-innerHTML")
    parseErrorDefault
    pure none

/-- `InTableBodyPhase.startTagTableOther` (2046-2058) -/
def InTableBody_startTagTableOther (tok : Token) : M (Option Token) :=
  InTableBody_closeRowGroup "InTableBodyPhase.startTagTableOther" tok

/-- `InTableBodyPhase.startTagOther` (2060-2061) -/
def InTableBody_startTagOther (r : Rec) (tok : Token) : M (Option Token) :=
  r.processStartTag .inTable tok

/-- `InTableBodyPhase.endTagTable` (2072-2083) -/
def InTableBody_endTagTable (tok : Token) : M (Option Token) :=
  InTableBody_closeRowGroup "InTableBodyPhase.endTagTable" tok

/-- `InTableBodyPhase.endTagIgnore` (2085-2087) -/
def InTableBody_endTagIgnore (tok : Token) : M (Option Token) := do
  let d ← tok.tag "InTableBodyPhase.endTagIgnore"
  parseError "unexpected-end-tag-in-table-body" [("name", d.name)]
  pure none

/-- `InTableBodyPhase.endTagOther` (2089-2090) -/
def InTableBody_endTagOther (r : Rec) (tok : Token) : M (Option Token) :=
  r.processEndTag .inTable tok

/-! ### InRowPhase (2110-2197) -/

/-- `InRowPhase.clearStackToTableRowContext` (2115-2119) -/
def InRow_clearStackToTableRowContext : M Unit :=
  popWhile (fun n => do
      return !(Gen.Lit.InRowPhase_clearStackToTableRowContext_0.contains (← nodeName n)) ||
        (← nodeNs n) != (← getCfg).defaultNamespace)
    "InRowPhase.clearStackToTableRowContext"
    (fun n => do parseError "unexpected-implied-end-tag-in-table-row" [("name", ← nodeName n)])

/-- `InRowPhase.ignoreEndTagTr` (2121-2122) -/
def InRow_ignoreEndTagTr : M Bool := do
  return !(← elementInScope (lit "tr") (some "table"))

/-- `InRowPhase.processEOF` (2125-2126) -/
def InRow_processEOF (r : Rec) : M Bool := do
  let _ ← r.processEOF .inTable
  pure false

/-- `InRowPhase.processSpaceCharacters` (2128-2129) -/
def InRow_processSpaceCharacters (r : Rec) (tok : Token) : M (Option Token) :=
  r.processSpaceCharacters .inTable tok

/-- `InRowPhase.processCharacters` (2131-2132) -/
def InRow_processCharacters (r : Rec) (tok : Token) : M (Option Token) :=
  r.processCharacters .inTable tok

/-- `InRowPhase.startTagTableCell` (2134-2138) -/
def InRow_startTagTableCell (tok : Token) : M (Option Token) := do
  InRow_clearStackToTableRowContext
  let _ ← insertElementTok tok "InRowPhase.startTagTableCell"
  setPhase .inCell
  afeAppend none
  pure none

/-- `InRowPhase.endTagTr` (2150-2158) -/
def InRow_endTagTr (_tok : Token) : M (Option Token) := do
  let site := "InRowPhase.endTagTr"
  if !(← InRow_ignoreEndTagTr) then
    InRow_clearStackToTableRowContext
    let _ ← openPop site
    setPhase .inTableBody
  else
    pyAssert (← innerHTMLTruthy) (site ++ ":assert-innerHTML")
    parseErrorDefault
  pure none

/-- `InRowPhase.startTagTableOther` (2140-2145) -/
def InRow_startTagTableOther (tok : Token) : M (Option Token) := do
  let ignoreEndTag ← InRow_ignoreEndTagTr
  let _ ← InRow_endTagTr (impliedEnd "tr")
  if !ignoreEndTag then pure (some tok) else pure none

/-- `InRowPhase.startTagOther` (2147-2148) -/
def InRow_startTagOther (r : Rec) (tok : Token) : M (Option Token) :=
  r.processStartTag .inTable tok

/-- `InRowPhase.endTagTable` (2160-2166) -/
def InRow_endTagTable (tok : Token) : M (Option Token) := do
  let ignoreEndTag ← InRow_ignoreEndTagTr
  let _ ← InRow_endTagTr (impliedEnd "tr")
  if !ignoreEndTag then pure (some tok) else pure none

/-- `InRowPhase.endTagTableRowGroup` (2168-2173) -/
def InRow_endTagTableRowGroup (tok : Token) : M (Option Token) := do
  let d ← tok.tag "InRowPhase.endTagTableRowGroup"
  if (← elementInScope d.name (some "table")) then
    let _ ← InRow_endTagTr (impliedEnd "tr")
    pure (some tok)
  else
    parseErrorDefault
    pure none

/-- `InRowPhase.endTagIgnore` (2175-2177) -/
def InRow_endTagIgnore (tok : Token) : M (Option Token) := do
  let d ← tok.tag "InRowPhase.endTagIgnore"
  parseError "unexpected-end-tag-in-table-row" [("name", d.name)]
  pure none

/-- `InRowPhase.endTagOther` (2179-2180) -/
def InRow_endTagOther (r : Rec) (tok : Token) : M (Option Token) :=
  r.processEndTag .inTable tok

/-! ### InCellPhase (2200-2274) -/

/-- `InCellPhase.endTagTableCell` (2231-2246).  The `while True` loop (2237-2240) pops until a
node of the right name: `popUntil`. -/
def InCell_endTagTableCell (tok : Token) : M (Option Token) := do
  let site := "InCellPhase.endTagTableCell"
  let d ← tok.tag site
  if (← elementInScope d.name (some "table")) then
    generateImpliedEndTags (some d.name)
    if (← nodeName (← openLast site)) != d.name then
      parseError "unexpected-cell-end-tag" [("name", d.name)]
      let _ ← popUntil (fun n => do return (← nodeName n) == d.name) site
    else
      let _ ← openPop site
    clearActiveFormattingElements
    setPhase .inRow
  else
    parseError "unexpected-end-tag" [("name", d.name)]
  pure none

/-- `InCellPhase.closeCell` (2205-2209) -/
def InCell_closeCell : M Unit := do
  if (← elementInScope (lit "td") (some "table")) then
    let _ ← InCell_endTagTableCell (impliedEnd "td")
  else if (← elementInScope (lit "th") (some "table")) then
    let _ ← InCell_endTagTableCell (impliedEnd "th")

/-- `InCellPhase.processEOF` (2212-2213) -/
def InCell_processEOF (r : Rec) : M Bool := do
  let _ ← r.processEOF .inBody
  pure false

/-- `InCellPhase.processCharacters` (2215-2216) -/
def InCell_processCharacters (r : Rec) (tok : Token) : M (Option Token) :=
  r.processCharacters .inBody tok

/-- `InCellPhase.startTagTableOther` (2218-2226) -/
def InCell_startTagTableOther (tok : Token) : M (Option Token) := do
  if (← orM (elementInScope (lit "td") (some "table")) (elementInScope (lit "th") (some "table"))) then
    InCell_closeCell
    pure (some tok)
  else
    pyAssert (← innerHTMLTruthy) "InCellPhase.startTagTableOther:assert-innerHTML"
    parseErrorDefault
    pure none

/-- `InCellPhase.startTagOther` (2228-2229) -/
def InCell_startTagOther (r : Rec) (tok : Token) : M (Option Token) :=
  r.processStartTag .inBody tok

/-- `InCellPhase.endTagIgnore` (2248-2249) -/
def InCell_endTagIgnore (tok : Token) : M (Option Token) := do
  let d ← tok.tag "InCellPhase.endTagIgnore"
  parseError "unexpected-end-tag" [("name", d.name)]
  pure none

/-- `InCellPhase.endTagImply` (2251-2257) -/
def InCell_endTagImply (tok : Token) : M (Option Token) := do
  let d ← tok.tag "InCellPhase.endTagImply"
  if (← elementInScope d.name (some "table")) then
    InCell_closeCell
    pure (some tok)
  else
    parseErrorDefault
    pure none

/-- `InCellPhase.endTagOther` (2259-2260) -/
def InCell_endTagOther (r : Rec) (tok : Token) : M (Option Token) :=
  r.processEndTag .inBody tok

end H5.Model.TB
