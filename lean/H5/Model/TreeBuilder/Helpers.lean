/-
  H5.Model.TreeBuilder.Helpers — the algorithms of `treebuilders/base.py` (class TreeBuilder,
  class ActiveFormattingElements) and the helper methods of `HTMLParser`, line by line.
-/
import H5.Model.TreeBuilder.State
namespace H5.Model.TB
open H5 H5.Model.Dom

/-! ## treebuilders/base.py -/

/-- `ActiveFormattingElements.nodesEqual` (base.py 136-143) -/
def nodesEqual (n1 n2 : NodeId) : M Bool := do
  if !((← nameTuple n1) == (← nameTuple n2)) then return false
  if !(Attrs.eqMap (← nodeAttrs n1) (← nodeAttrs n2)) then return false
  return true

/-- the `for element in self[::-1]` loop of `ActiveFormattingElements.append`;
returns the element to remove, if any -/
def afeAppendScan (node : NodeId) : List (Option NodeId) → Nat → M (Option NodeId)
  | [], _ => pure none
  | none :: _, _ => pure none                                   -- element == Marker: break
  | some e :: rest, equalCount => do
    let equalCount := if (← nodesEqual e node) then equalCount + 1 else equalCount
    if equalCount == 3 then pure (some e)                       -- self.remove(element); break
    else afeAppendScan node rest equalCount

/-- `ActiveFormattingElements.append` (base.py 121-134): the Noah's-ark clause -/
def afeAppend (node : Option NodeId) : M Unit := do
  match node with
  | none => pure ()                                             -- node != Marker is False
  | some n =>
    match (← afeAppendScan n (← afe).reverse 0) with
    | some e => afeRemove e "ActiveFormattingElements.append"
    | none => pure ()
  setAfe ((← afe) ++ [node])

/-- `listElementsMap[variant]` -/
def listElements (variant : Option Str) : Except PyErr (List (Str × Str) × Bool) :=
  match Gen.Lit.listElementsMap.find? (fun p => p.1 == variant) with
  | some p => .ok p.2
  | none => .error (.keyError "TreeBuilder.elementInScope:listElementsMap[variant]")

/-- loop of `elementInScope` over `reversed(self.openElements)` -/
def elementInScopeLoop (isTarget : NodeId → M Bool) (elems : List (Str × Str)) (invert : Bool) :
    List NodeId → M Bool
  | [] => throw (.assertFail "TreeBuilder.elementInScope:assert-False")   -- base.py 217
  | node :: rest => do
    if (← isTarget node) then return true
    else if (invert != (elems.contains (← nameTuple node))) then return false
    else elementInScopeLoop isTarget elems invert rest

/-- `elementInScope(target, variant)` for a tag name (base.py 187-208): the name is matched
as `(namespaces["html"], target)` against `node.nameTuple`. -/
def elementInScope (target : Str) (variant : Option String := none) : M Bool := do
  let html ← nsE "html"
  let (elems, invert) ← listElements (variant.map lit)
  elementInScopeLoop (fun n => do return (← nameTuple n) == (html, target)) elems invert (← openElems).reverse

/-- `elementInScope(node)` for an exact node -/
def elementInScopeNode (target : NodeId) (variant : Option String := none) : M Bool := do
  let (elems, invert) ← listElements (variant.map lit)
  elementInScopeLoop (fun n => pure (n == target)) elems invert (← openElems).reverse

/-- `getTableMisnestedNodePosition` (base.py 365-388) -/
def getTableMisnestedNodePosition : M (NodeId × Option NodeId) := do
  let site := "TreeBuilder.getTableMisnestedNodePosition"
  let rec findTable : List NodeId → M (Option NodeId)
    | [] => pure none
    | elm :: rest => do if (← nameIs elm "table") then pure (some elm) else findTable rest
  match (← findTable (← openElems).reverse) with
  | some lastTable =>
    match (← nodeParent lastTable) with
    | some p => pure (p, some lastTable)
    | none =>
      let idx ← openIndex lastTable site
      -- openElements[idx - 1] : a Python negative index wraps to the end
      if idx == 0 then do let e ← openLast site; pure (e, none)
      else do let e ← openAt (idx - 1) site; pure (e, none)
  | none => do let e ← openAt 0 site; pure (e, none)

/-- `createElement` (base.py 303-309) -/
def createElement (d : TagData) : M NodeId := do
  let cfg ← getCfg
  let ns := match d.ns with
    | some n => n
    | none => cfg.defaultNamespace
  allocNode (.element ns d.name) d.attrs

/-- `insertElementNormal` (base.py 325-334) -/
def insertElementNormal (d : TagData) : M NodeId := do
  -- assert isinstance(name, text_type): names are always strings in the model
  let element ← createElement d
  let cur ← openLast "TreeBuilder.insertElementNormal"
  modifyArena (·.appendChild cur element)
  openPush element
  pure element

/-- `insertElementTable` (base.py 336-350) -/
def insertElementTable (d : TagData) : M NodeId := do
  let element ← createElement d
  let cur ← openLast "TreeBuilder.insertElementTable"
  if !(Gen.tableInsertModeElements.contains (← nodeName cur)) then
    insertElementNormal d
  else
    let (parent, insertBefore) ← getTableMisnestedNodePosition
    match insertBefore with
    | none => modifyArena (·.appendChild parent element)
    | some ref => modifyArena (·.insertBefore parent element ref)
    openPush element
    pure element

/-- `self.tree.insertElement` : switched by the `insertFromTable` property (base.py 311-323) -/
def insertElement (d : TagData) : M NodeId := do
  if (← get).insertFromTable then insertElementTable d else insertElementNormal d

/-- `insertElement(token)` for a token dict -/
def insertElementTok (t : Token) (site : String) : M NodeId := do
  insertElement (← t.tag site)

/-- `TreeBuilder.insertText(data, parent=None)` (base.py 352-366) -/
def insertText (data : Str) : M Unit := do
  let site := "TreeBuilder.insertText"
  let parent ← openLast site
  let st ← get
  let normal ← (if !st.insertFromTable then pure true
                else do
                  let cur ← openLast site
                  pure (!(Gen.tableInsertModeElements.contains (← nodeName cur))) : M Bool)
  if normal then
    modifyArena (·.insertText parent data none)
  else
    let (parent, insertBefore) ← getTableMisnestedNodePosition
    modifyArena (·.insertText parent data insertBefore)

/-- `insertRoot` (base.py 285-288) -/
def insertRoot (d : TagData) : M Unit := do
  let element ← createElement d
  openPush element
  let doc := (← get).document
  modifyArena (·.appendChild doc element)

/-- `insertDoctype` (base.py 290-296) -/
def insertDoctype (name pub sys : Option Str) : M Unit := do
  let dt ← allocNode (.doctype name pub sys)
  let doc := (← get).document
  modifyArena (·.appendChild doc dt)

/-- `insertComment(token, parent)` (base.py 298-301); `parent = none` ↦ `openElements[-1]` -/
def insertComment (data : Str) (parent : Option NodeId) : M Unit := do
  let parent ← (match parent with
    | some p => pure p
    | none => openLast "TreeBuilder.insertComment" : M NodeId)
  let c ← allocNode (.comment data)
  modifyArena (·.appendChild parent c)

/-- `generateImpliedEndTags(exclude)` (base.py): a `while` loop since fix 3ea8c48; every iteration pops an
open element, so `len(openElements) + 1` iterations suffice (`openLast` raises IndexError on an empty stack,
as `self.openElements[-1]` does). -/
def generateImpliedEndTagsAux (exclude : Option Str) : Nat → M Unit
  | 0 => throw (.outOfFuel "TreeBuilder.generateImpliedEndTags")
  | fuel + 1 => do
    let name ← nodeName (← openLast "TreeBuilder.generateImpliedEndTags")
    if Gen.Lit.TB_TreeBuilder_generateImpliedEndTags_0.contains name && some name != exclude then
      let _ ← openPop "TreeBuilder.generateImpliedEndTags"
      generateImpliedEndTagsAux exclude fuel

def generateImpliedEndTags (exclude : Option Str := none) : M Unit := do
  generateImpliedEndTagsAux exclude ((← openElems).length + 2)

/-- first loop of `reconstructActiveFormattingElements` (base.py 224-232): walks back from
index `i`; returns the index *after* the `i += 1` of step 7. -/
def reconstructRewind (l : List (Option NodeId)) : Nat → Option NodeId → M Nat
  | i, entry => do
    let stop ← (match entry with
      | none => pure true                                        -- entry == Marker
      | some e => inOpen e : M Bool)
    if stop then pure (i + 1)
    else match i with
      | 0 => pure 0                                              -- i = -1; break; then i += 1
      | i' + 1 =>
        match l[i']? with
        | some entry' => reconstructRewind l i' entry'
        | none => throw (.indexError "TreeBuilder.reconstructActiveFormattingElements:afe[i]")

/-- second loop (`while True`, base.py 234-253).  Fuel: the index strictly increases and the
loop stops at the last entry, so `len(afe)+1` iterations suffice. -/
def reconstructLoop : Nat → Nat → M Unit
  | 0, _ => throw (.outOfFuel "TreeBuilder.reconstructActiveFormattingElements")
  | fuel + 1, i => do
    let site := "TreeBuilder.reconstructActiveFormattingElements"
    let l ← afe
    match l[i]? with
    | none => throw (.indexError (site ++ ":afe[i]"))
    | some none => throw (.attributeError (site ++ ":Marker.cloneNode"))
    | some (some entry) =>
      let st ← get
      let (a, clone) ← (st.arena.cloneNode entry : Except PyErr _)
      set { st with arena := a }
      let (cns, cname) ← elemInfo clone
      let element ← insertElement { name := cname, attrs := (← nodeAttrs clone), ns := some cns }
      let l ← afe
      if i < l.length then setAfe (l.set i (some element))
      else throw (.indexError (site ++ ":afe[i]="))
      match (← afe).getLast? with
      | none => throw (.indexError (site ++ ":afe[-1]"))
      | some lastE => if lastE == some element then pure () else reconstructLoop fuel (i + 1)

/-- `reconstructActiveFormattingElements` (base.py 210-253) -/
def reconstructActiveFormattingElements : M Unit := do
  let l ← afe
  if l.isEmpty then return
  let i := l.length - 1
  match l[i]? with
  | none => throw (.indexError "TreeBuilder.reconstructActiveFormattingElements:afe[i]")
  | some entry =>
    let done ← (match entry with
      | none => pure true
      | some e => inOpen e : M Bool)
    if done then return
    let start ← reconstructRewind l i entry
    reconstructLoop (l.length + 1) start

/-- `clearActiveFormattingElements` (base.py 255-258) -/
def clearActiveFormattingElements : M Unit := do
  let rec loop : List (Option NodeId) → Option NodeId → List (Option NodeId)
    | [], _ => []
    | x :: rest, entry =>
      -- `l` is kept reversed: head = last element
      if entry != none then loop rest x else x :: rest
  let l ← afe
  match l.reverse with
  | [] => throw (.indexError "TreeBuilder.clearActiveFormattingElements:pop-from-empty-list")
  | entry :: rest => setAfe (loop rest entry).reverse

/-- `elementInActiveFormattingElements(name)` (base.py 260-272); `False` ↦ `none` -/
def elementInActiveFormattingElements (name : Str) : M (Option NodeId) := do
  let rec loop : List (Option NodeId) → M (Option NodeId)
    | [] => pure none
    | none :: _ => pure none
    | some item :: rest => do
      if (← nodeName item) == name then pure (some item) else loop rest
  loop (← afe).reverse

/-- `getDocument` -/
def getDocument : M NodeId := do return (← get).document

/-- `getFragment` (base.py 406-411) -/
def getFragment : M NodeId := do
  let fragment ← allocNode .fragment
  let root ← openAt 0 "TreeBuilder.getFragment"
  modifyArena (·.reparentChildren root fragment)
  pure fragment

/-! ## html5parser.py : HTMLParser helper methods -/

/-- `adjust_attributes(token, replacements)` (html5parser.py 2776-2780) -/
def adjustAttributesWith (repl : AttrKey → Option AttrKey) (attrs : Attrs) : Attrs :=
  if attrs.any (fun p => (repl p.1).isSome) then
    Attrs.ofPairs (attrs.map fun p => ((repl p.1).getD p.1, p.2))
  else attrs

def replStr (tbl : List (Str × Str)) (k : AttrKey) : Option AttrKey :=
  match k with
  | .plain n => (tbl.find? (fun p => p.1 == n)).map fun p => .plain p.2
  | .qual .. => none

def replForeign (k : AttrKey) : Option AttrKey :=
  match k with
  | .plain n => (Gen.adjustForeignAttributes.find? (fun p => p.1 == n)).map fun p => .qual p.2.1 p.2.2.1 p.2.2.2
  | .qual .. => none

/-- `adjustMathMLAttributes` (327-328) -/
def adjustMathMLAttributes (d : TagData) : TagData :=
  { d with attrs := adjustAttributesWith (replStr Gen.adjustMathMLAttributes) d.attrs }
/-- `adjustSVGAttributes` (330-331) -/
def adjustSVGAttributes (d : TagData) : TagData :=
  { d with attrs := adjustAttributesWith (replStr Gen.adjustSVGAttributes) d.attrs }
/-- `adjustForeignAttributes` (333-334) -/
def adjustForeignAttributes (d : TagData) : TagData :=
  { d with attrs := adjustAttributesWith replForeign d.attrs }

/-- `isHTMLIntegrationPoint(element)` (172-180) -/
def isHTMLIntegrationPoint (element : NodeId) : M Bool := do
  let (ns, name) ← elemInfo element
  let mathml ← nsE "mathml"
  if name == lit "annotation-xml" && ns == some mathml then
    match Attrs.get? (← nodeAttrs element) (.plain (lit "encoding")) with
    | none => pure false
    | some v => pure (Gen.Lit.HTMLParser_isHTMLIntegrationPoint_0.contains (asciiLower v))
  else
    match ns with
    | some n => pure (Gen.htmlIntegrationPointElements.contains (n, name))
    | none => pure false

/-- `isMathMLTextIntegrationPoint(element)` (182-183) -/
def isMathMLTextIntegrationPoint (element : NodeId) : M Bool := do
  let (ns, name) ← elemInfo element
  match ns with
  | some n => pure (Gen.mathmlTextIntegrationPointElements.contains (n, name))
  | none => pure false

/-- the `for node in self.tree.openElements[::-1]` loop of `resetInsertionMode` (360-380) -/
def resetInsertionModeLoop (bottom : NodeId) : List NodeId → Bool → M (Option Phase)
  | [], _ => pure none
  | node :: rest, last => do
    let site := "HTMLParser.resetInsertionMode"
    let cfg ← getCfg
    let mut nodeName ← nodeName node
    let mut last := last
    if node == bottom then
      pyAssert cfg.innerHTMLTruthy (site ++ ":assert-innerHTML-1")        -- line 364
      last := true
      match cfg.innerHTML with
      | some s => nodeName := s
      | none => throw (.assertFail (site ++ ":assert-innerHTML-1"))
    if !last && (← nodeNs node) != cfg.defaultNamespace then
      resetInsertionModeLoop bottom rest last
    else
      if Gen.Lit.HTMLParser_resetInsertionMode_1.contains nodeName then
        pyAssert cfg.innerHTMLTruthy (site ++ ":assert-innerHTML-2")
      match Gen.Lit.HTMLParser_resetInsertionMode_0.find? (fun p => p.1 == nodeName) with
      | some p =>
        let ph ← Phase.ofKey (site ++ ":phases[newModes[nodeName]]") (String.ofList (p.2.map Char.ofNat))
        pure (some ph)
      | none =>
        if last then pure (some .inBody)
        else resetInsertionModeLoop bottom rest last

/-- `resetInsertionMode` (340-382) -/
def resetInsertionMode : M Unit := do
  let l ← openElems
  match l with
  | [] => setPhaseO none
  | bottom :: _ =>
    let ph ← resetInsertionModeLoop bottom l.reverse false
    setPhaseO ph

/-- `parseRCDataRawtext(token, contentType)` (384-397) -/
def parseRCDataRawtext (t : Token) (contentType : String) : M Unit := do
  pyAssert (Gen.Lit.HTMLParser_parseRCDataRawtext_0.contains (lit contentType))
    "HTMLParser.parseRCDataRawtext:assert-contentType"
  let _ ← insertElementTok t "HTMLParser.parseRCDataRawtext"
  if contentType == "RAWTEXT" then setTokState .rawtext else setTokState .rcdata
  modify fun st => { st with originalPhase := st.phase }
  setPhase .text

end H5.Model.TB
