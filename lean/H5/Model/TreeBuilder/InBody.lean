/-
  H5.Model.TreeBuilder.InBody — InBodyPhase (html5parser.py 922-1644) including the adoption
  agency algorithm (`endTagFormatting`, 1385-1546).
-/
import H5.Model.TreeBuilder.Phases1
namespace H5.Model.TB
open H5 H5.Model.Dom

/-! ### small loop helpers over `openElements` -/

/-- `node = openElements.pop(); while not pred(node): node = openElements.pop()`.
Terminates: every iteration pops, `pop` on the empty list raises `IndexError`; the fuel
`len+1` is therefore never exhausted. -/
def popUntilLoop (pred : NodeId → M Bool) (site : String) : Nat → M NodeId
  | 0 => throw (.outOfFuel site)
  | fuel + 1 => do
    let node ← openPop site
    if (← pred node) then pure node else popUntilLoop pred site fuel

def popUntil (pred : NodeId → M Bool) (site : String) : M NodeId := do
  popUntilLoop pred site ((← openElems).length + 1)

/-- `while cond(openElements[-1]): openElements.pop()` (same termination argument;
`each` runs before every pop) -/
def popWhileLoop (cond : NodeId → M Bool) (each : NodeId → M Unit) (site : String) : Nat → M Unit
  | 0 => throw (.outOfFuel site)
  | fuel + 1 => do
    let cur ← openLast site
    if (← cond cur) then
      each cur
      let _ ← openPop site
      popWhileLoop cond each site fuel
    else pure ()

def popWhile (cond : NodeId → M Bool) (site : String) (each : NodeId → M Unit := fun _ => pure ()) : M Unit := do
  popWhileLoop cond each site ((← openElems).length + 1)

/-- Python list subscript with a possibly negative index -/
def pyIndex (l : List α) (i : Int) : Option α :=
  if i < 0 then
    let j := (l.length : Int) + i
    if j < 0 then none else l[j.toNat]?
  else l[i.toNat]?

def hasNonSpace (s : Str) : Bool := s.any fun c => !isSpaceChar c

/-! ### helpers of the class -/

/-- `InBodyPhase.isMatchingFormattingElement` (932-935) -/
def InBody_isMatchingFormattingElement (node1 node2 : NodeId) : M Bool := do
  let (ns1, n1) ← elemInfo node1
  let (ns2, n2) ← elemInfo node2
  return n1 == n2 && ns1 == ns2 && Attrs.eqMap (← nodeAttrs node1) (← nodeAttrs node2)

/-- `InBodyPhase.addFormattingElement` (938-952) -/
def InBody_addFormattingElement (tok : Token) : M Unit := do
  let site := "InBodyPhase.addFormattingElement"
  let _ ← insertElementTok tok site
  let element ← openLast site
  let rec scan : List (Option NodeId) → List NodeId → M (List NodeId)
    | [], acc => pure acc
    | none :: _, acc => pure acc                                   -- node is Marker: break
    | some node :: rest, acc => do
      if (← InBody_isMatchingFormattingElement node element) then scan rest (acc ++ [node])
      else scan rest acc
  let matchingElements ← scan (← afe).reverse []
  pyAssert (matchingElements.length ≤ 3) (site ++ ":assert-len<=3")
  if matchingElements.length == 3 then
    match matchingElements.getLast? with
    | some m => afeRemove m site
    | none => throw (.indexError (site ++ ":matchingElements[-1]"))
  afeAppend (some element)

/-! ### the real deal -/

/-- `InBodyPhase.processEOF` (955-963) -/
def InBody_processEOF : M Bool := do
  let rec loop : List NodeId → M Unit
    | [] => pure ()
    | node :: rest => do
      if !(Gen.Lit.InBodyPhase_processEOF_0.contains (← nodeName node)) then
        parseError "expected-closing-tag-but-got-eof"
      else loop rest
  loop (← openElems).reverse
  pure false

/-- `InBodyPhase.processSpaceCharactersDropNewline` (965-976) -/
def InBody_processSpaceCharactersDropNewline (tok : Token) : M (Option Token) := do
  let site := "InBodyPhase.processSpaceCharactersDropNewline"
  let mut data ← tok.text site
  modify fun st => { st with inBodyDropNewline := false }
  if data.head? == some 10 then
    let cur ← openLast site
    if Gen.Lit.InBodyPhase_processSpaceCharactersDropNewline_0.contains (← nodeName cur) then
      let cur ← openLast site
      let st ← get
      if !(← (st.arena.hasContent cur : Except PyErr Bool)) then
        data := data.drop 1
  if !data.isEmpty then
    reconstructActiveFormattingElements
    insertText data
  pure none

/-- `InBodyPhase.processCharacters` (978-988) -/
def InBody_processCharacters (tok : Token) : M (Option Token) := do
  let data ← tok.text "InBodyPhase.processCharacters"
  if data == [0] then return none
  reconstructActiveFormattingElements
  insertText data
  if (← get).framesetOK && hasNonSpace data then
    setFramesetOK false
  pure none

/-- `InBodyPhase.processSpaceCharactersNonPre` (990-992) -/
def InBody_processSpaceCharactersNonPre (tok : Token) : M (Option Token) := do
  reconstructActiveFormattingElements
  insertText (← tok.text "InBodyPhase.processSpaceCharactersNonPre")
  pure none

/-- the instance attribute `InBodyPhase.processSpaceCharacters` (925-930) -/
def InBody_processSpaceCharacters (tok : Token) : M (Option Token) := do
  if (← get).inBodyDropNewline then InBody_processSpaceCharactersDropNewline tok
  else InBody_processSpaceCharactersNonPre tok

/-- `InBodyPhase.startTagProcessInHead` (994-995) -/
def InBody_startTagProcessInHead (r : Rec) (tok : Token) : M (Option Token) :=
  r.processStartTag .inHead tok

/-- `InBodyPhase.startTagBody` (997-1006) -/
def InBody_startTagBody (tok : Token) : M (Option Token) := do
  let site := "InBodyPhase.startTagBody"
  let d ← tok.tag site
  parseError "unexpected-start-tag" [("name", lit "body")]
  let notBody ← (do
    if (← openElems).length == 1 then pure true
    else pure (!(← nameIs (← openAt 1 site) "body")) : M Bool)
  if notBody then
    pyAssert (← innerHTMLTruthy) (site ++ ":assert-innerHTML")
  else
    setFramesetOK false
    mergeAttrsInto 1 site d.attrs
  pure none

/-- `InBodyPhase.startTagFrameset` (1008-1020) -/
def InBody_startTagFrameset (tok : Token) : M (Option Token) := do
  let site := "InBodyPhase.startTagFrameset"
  parseError "unexpected-start-tag" [("name", lit "frameset")]
  let notBody ← (do
    if (← openElems).length == 1 then pure true
    else pure (!(← nameIs (← openAt 1 site) "body")) : M Bool)
  if notBody then
    pyAssert (← innerHTMLTruthy) (site ++ ":assert-innerHTML")
  else if !(← get).framesetOK then
    pure ()
  else
    let body ← openAt 1 site
    match (← nodeParent body) with
    | some p =>
      let body ← openAt 1 site
      modifyArena (·.removeChild p body)
    | none => pure ()
    popWhile (fun n => do return !(← nameIs n "html")) site
    let _ ← insertElementTok tok site
    setPhase .inFrameset
  pure none

/-- `InBodyPhase.endTagP` (1289-1300) and `InBodyPhase.startTagCloseP` (1022-1025) call each
other; `depth` bounds the Python recursion (two levels are enough: after the implied `<p>`
has been inserted it is in button scope). -/
def InBody_endTagP_startTagCloseP : Nat → Bool → Token → M (Option Token)
  | 0, _, _ => throw (.recursion "InBodyPhase.endTagP")
  | depth + 1, true, _tok => do                                    -- endTagP
    if !(← elementInScope (lit "p") (some "button")) then
      let _ ← InBody_endTagP_startTagCloseP depth false (impliedStart "p")
      parseError "unexpected-end-tag" [("name", lit "p")]
      let _ ← InBody_endTagP_startTagCloseP depth true (impliedEnd "p")
      pure none
    else
      let site := "InBodyPhase.endTagP"
      generateImpliedEndTags (some (lit "p"))
      if !(← nameIs (← openLast site) "p") then
        parseError "unexpected-end-tag" [("name", lit "p")]
      let _ ← popUntil (fun n => nameIs n "p") site
      pure none
  | depth + 1, false, tok => do                                    -- startTagCloseP
    if (← elementInScope (lit "p") (some "button")) then
      let _ ← InBody_endTagP_startTagCloseP depth true (impliedEnd "p")
    let _ ← insertElementTok tok "InBodyPhase.startTagCloseP"
    pure none

def InBody_endTagP (tok : Token) : M (Option Token) := do
  InBody_endTagP_startTagCloseP (← getCfg).maxRecursion true tok

def InBody_startTagCloseP (tok : Token) : M (Option Token) := do
  InBody_endTagP_startTagCloseP (← getCfg).maxRecursion false tok

/-- the recurring `if self.tree.elementInScope("p", variant="button"): self.endTagP(impliedTagToken("p"))` -/
def closePIfInButtonScope : M Unit := do
  if (← elementInScope (lit "p") (some "button")) then
    let _ ← InBody_endTagP (impliedEnd "p")

/-- `InBodyPhase.startTagPreListing` (1027-1032) -/
def InBody_startTagPreListing (tok : Token) : M (Option Token) := do
  closePIfInButtonScope
  let _ ← insertElementTok tok "InBodyPhase.startTagPreListing"
  setFramesetOK false
  modify fun st => { st with inBodyDropNewline := true }
  pure none

/-- `InBodyPhase.startTagForm` (1034-1041) -/
def InBody_startTagForm (tok : Token) : M (Option Token) := do
  if (← get).formPointer.isSome then
    parseError "unexpected-start-tag" [("name", lit "form")]
  else
    closePIfInButtonScope
    let _ ← insertElementTok tok "InBodyPhase.startTagForm"
    let cur ← openLast "InBodyPhase.startTagForm"
    modify fun st => { st with formPointer := some cur }
  pure none

/-- `InBodyPhase.startTagListItem` (1043-1063) -/
def InBody_startTagListItem (r : Rec) (tok : Token) : M (Option Token) := do
  let site := "InBodyPhase.startTagListItem"
  let d ← tok.tag site
  setFramesetOK false
  let stopNames ← (match Gen.Lit.InBodyPhase_startTagListItem_0.find? (fun p => p.1 == d.name) with
    | some p => pure p.2
    | none => throw (.keyError (site ++ ":stopNamesMap[name]")) : M (List Str))
  let rec loop : List NodeId → M Unit
    | [] => pure ()
    | node :: rest => do
      let nm ← nodeName node
      if stopNames.contains nm then
        let ph ← curPhase site
        let _ ← r.processEndTag ph (impliedEndS nm)
      else if Gen.specialElements.contains (← nameTuple node)
          && !(Gen.Lit.InBodyPhase_startTagListItem_1.contains nm) then
        pure ()
      else loop rest
  loop (← openElems).reverse
  if (← elementInScope (lit "p") (some "button")) then
    let ph ← curPhase site
    let _ ← r.processEndTag ph (impliedEnd "p")
  let _ ← insertElement d
  pure none

/-- `InBodyPhase.startTagPlaintext` (1065-1069) -/
def InBody_startTagPlaintext (tok : Token) : M (Option Token) := do
  closePIfInButtonScope
  let _ ← insertElementTok tok "InBodyPhase.startTagPlaintext"
  setTokState .plaintext
  pure none

/-- `InBodyPhase.startTagHeading` (1071-1077) -/
def InBody_startTagHeading (tok : Token) : M (Option Token) := do
  let site := "InBodyPhase.startTagHeading"
  let d ← tok.tag site
  closePIfInButtonScope
  if Gen.headingElements.contains (← nodeName (← openLast site)) then
    parseError "unexpected-start-tag" [("name", d.name)]
    let _ ← openPop site
  let _ ← insertElement d
  pure none

/-- `InBodyPhase.endTagOther` (1567-1579) -/
def InBody_endTagOther (tok : Token) : M (Option Token) := do
  let site := "InBodyPhase.endTagOther"
  let d ← tok.tag site
  let rec loop : List NodeId → M Unit
    | [] => pure ()
    | node :: rest => do
      if (← nodeName node) == d.name then
        generateImpliedEndTags (some d.name)
        if (← nodeName (← openLast site)) != d.name then
          parseError "unexpected-end-tag" [("name", d.name)]
        let _ ← popUntil (fun n => pure (n == node)) site
      else if Gen.specialElements.contains (← nameTuple node) then
        parseError "unexpected-end-tag" [("name", d.name)]
      else loop rest
  loop (← openElems).reverse
  pure none

/-- state of the inner loop (step 9) of the adoption agency -/
structure AAInner where
  index : Int
  node : NodeId
  lastNode : NodeId
  bookmark : Nat

/-- inner loop `while innerLoopCounter < 3` (1487-1515); `n` = remaining iterations -/
def InBody_endTagFormatting_inner (formattingElement furthestBlock : NodeId) : Nat → AAInner → M AAInner
  | 0, s => pure s
  | n + 1, s => do
    let site := "InBodyPhase.endTagFormatting"
    let index := s.index - 1
    let node ← (match pyIndex (← openElems) index with
      | some x => pure x
      | none => throw (.indexError (site ++ ":openElements[index]")) : M NodeId)
    if !(← inAfe node) then
      openRemove node site
      InBody_endTagFormatting_inner formattingElement furthestBlock n { s with index := index, node := node }
    else if node == formattingElement then                          -- step 9.6
      pure { s with index := index, node := node }
    else
      let mut bookmark := s.bookmark
      if s.lastNode == furthestBlock then                           -- step 9.7
        bookmark := (← afeIndex node site) + 1
      -- step 9.8
      let st ← get
      let (a, clone) ← (st.arena.cloneNode node : Except PyErr _)
      set { st with arena := a }
      let ai ← afeIndex node site
      setAfe ((← afe).set ai (some clone))
      let oi ← openIndex node site
      setOpen ((← openElems).set oi clone)
      let node := clone
      -- step 9.9
      match (← nodeParent s.lastNode) with
      | some p => modifyArena (·.removeChild p s.lastNode)
      | none => pure ()
      modifyArena (·.appendChild node s.lastNode)
      -- step 9.10
      InBody_endTagFormatting_inner formattingElement furthestBlock n
        { index := index, node := node, lastNode := node, bookmark := bookmark }

/-- outer loop `while outerLoopCounter < 8` of `InBodyPhase.endTagFormatting` (1385-1546);
`n` = remaining iterations -/
def InBody_endTagFormatting_outer (tok : Token) : Nat → M Unit
  | 0 => pure ()
  | n + 1 => do
    let site := "InBodyPhase.endTagFormatting"
    let d ← tok.tag site
    -- step 4
    let fe? ← elementInActiveFormattingElements d.name
    match fe? with
    | none =>
      let _ ← InBody_endTagOther tok
      return
    | some formattingElement =>
      let feName ← nodeName formattingElement
      let feInOpen ← inOpen formattingElement
      -- `formattingElement in openElements and not elementInScope(name)` (short-circuit)
      let feNotInScope ← (if feInOpen then do return !(← elementInScope feName) else pure false : M Bool)
      if feInOpen && feNotInScope then
        let _ ← InBody_endTagOther tok
        return
      else if !feInOpen then
        parseError "adoption-agency-1.2" [("name", d.name)]
        afeRemove formattingElement site
        return
      else if !(← elementInScope feName) then
        parseError "adoption-agency-4.4" [("name", d.name)]
        return
      else
        if formattingElement != (← openLast site) then
          parseError "adoption-agency-1.3" [("name", d.name)]
      -- step 5
      let afeIdx ← openIndex formattingElement site
      let rec findBlock : List NodeId → M (Option NodeId)
        | [] => pure none
        | e :: rest => do
          if Gen.specialElements.contains (← nameTuple e) then pure (some e) else findBlock rest
      let furthestBlock? ← findBlock ((← openElems).drop afeIdx)
      -- step 6
      match furthestBlock? with
      | none =>
        let element ← popUntil (fun e => pure (e == formattingElement)) site
        afeRemove element site
        return
      | some furthestBlock =>
        -- step 7
        let commonAncestor ← (match pyIndex (← openElems) ((afeIdx : Int) - 1) with
          | some x => pure x
          | none => throw (.indexError (site ++ ":openElements[afeIndex-1]")) : M NodeId)
        -- step 8
        let bookmark ← afeIndex formattingElement site
        -- step 9
        let index ← openIndex furthestBlock site
        let s ← InBody_endTagFormatting_inner formattingElement furthestBlock 3
          { index := index, node := furthestBlock, lastNode := furthestBlock, bookmark := bookmark }
        let lastNode := s.lastNode
        -- step 10
        match (← nodeParent lastNode) with
        | some p => modifyArena (·.removeChild p lastNode)
        | none => pure ()
        if Gen.Lit.InBodyPhase_endTagFormatting_0.contains (← nodeName commonAncestor) then
          let (parent, insertBefore) ← getTableMisnestedNodePosition
          match insertBefore with
          | some ref => modifyArena (·.insertBefore parent lastNode ref)
          | none => modifyArena (·.appendChild parent lastNode)
        else
          modifyArena (·.appendChild commonAncestor lastNode)
        -- step 11
        let st ← get
        let (a, clone) ← (st.arena.cloneNode formattingElement : Except PyErr _)
        set { st with arena := a }
        -- step 12
        modifyArena (·.reparentChildren furthestBlock clone)
        -- step 13
        modifyArena (·.appendChild furthestBlock clone)
        -- step 14 (1544-1550; since fix 0929291 the bookmark, noted while `formattingElement` was still in the
        -- list, is adjusted when the removal shifts it)
        let feIndex ← afeIndex formattingElement site
        let bookmark := if s.bookmark > feIndex then s.bookmark - 1 else s.bookmark
        afeRemove formattingElement site
        setAfe (listInsert (← afe) bookmark (some clone))
        -- step 15
        openRemove formattingElement site
        let fi ← openIndex furthestBlock site
        setOpen (listInsert (← openElems) (fi + 1) clone)
        InBody_endTagFormatting_outer tok n

/-- `InBodyPhase.endTagFormatting` (1385-1546): the adoption agency algorithm -/
def InBody_endTagFormatting (tok : Token) : M (Option Token) := do
  InBody_endTagFormatting_outer tok 8
  pure none

/-- `InBodyPhase.startTagA` (1079-1090) -/
def InBody_startTagA (tok : Token) : M (Option Token) := do
  let site := "InBodyPhase.startTagA"
  match (← elementInActiveFormattingElements (lit "a")) with
  | some afeAElement =>
    parseError "unexpected-start-tag-implies-end-tag" [("startName", lit "a"), ("endName", lit "a")]
    let _ ← InBody_endTagFormatting (impliedEnd "a")
    if (← inOpen afeAElement) then openRemove afeAElement site
    if (← inAfe afeAElement) then afeRemove afeAElement site
  | none => pure ()
  reconstructActiveFormattingElements
  InBody_addFormattingElement tok
  pure none

/-- `InBodyPhase.startTagFormatting` (1092-1094) -/
def InBody_startTagFormatting (tok : Token) : M (Option Token) := do
  reconstructActiveFormattingElements
  InBody_addFormattingElement tok
  pure none

/-- `InBodyPhase.startTagNobr` (1096-1104) -/
def InBody_startTagNobr (r : Rec) (tok : Token) : M (Option Token) := do
  reconstructActiveFormattingElements
  if (← elementInScope (lit "nobr")) then
    parseError "unexpected-start-tag-implies-end-tag" [("startName", lit "nobr"), ("endName", lit "nobr")]
    let _ ← r.processEndTag .inBody (impliedEnd "nobr")
    reconstructActiveFormattingElements
  InBody_addFormattingElement tok
  pure none

/-- `InBodyPhase.startTagButton` (1110-1117): after closing an open `button` the token is inserted here (since
fix 6523d65; it used to be handed back to `mainLoop`) -/
def InBody_startTagButton (r : Rec) (tok : Token) : M (Option Token) := do
  if (← elementInScope (lit "button")) then
    parseError "unexpected-start-tag-implies-end-tag" [("startName", lit "button"), ("endName", lit "button")]
    let _ ← r.processEndTag .inBody (impliedEnd "button")
  reconstructActiveFormattingElements
  let _ ← insertElementTok tok "InBodyPhase.startTagButton"
  setFramesetOK false
  pure none

/-- `InBodyPhase.startTagAppletMarqueeObject` (1117-1121) -/
def InBody_startTagAppletMarqueeObject (tok : Token) : M (Option Token) := do
  reconstructActiveFormattingElements
  let _ ← insertElementTok tok "InBodyPhase.startTagAppletMarqueeObject"
  afeAppend none
  setFramesetOK false
  pure none

/-- `InBodyPhase.startTagXmp` (1123-1128) -/
def InBody_startTagXmp (tok : Token) : M (Option Token) := do
  closePIfInButtonScope
  reconstructActiveFormattingElements
  setFramesetOK false
  parseRCDataRawtext tok "RAWTEXT"
  pure none

/-- `InBodyPhase.startTagTable` (1130-1136) -/
def InBody_startTagTable (r : Rec) (tok : Token) : M (Option Token) := do
  if (← get).compatMode != .quirks then
    if (← elementInScope (lit "p") (some "button")) then
      let _ ← r.processEndTag .inBody (impliedEnd "p")
  let _ ← insertElementTok tok "InBodyPhase.startTagTable"
  setFramesetOK false
  setPhase .inTable
  pure none

/-- `InBodyPhase.startTagVoidFormatting` (1138-1143) -/
def InBody_startTagVoidFormatting (tok : Token) : M (Option Token) := do
  let site := "InBodyPhase.startTagVoidFormatting"
  let d ← tok.tag site
  reconstructActiveFormattingElements
  let _ ← insertElement d
  let _ ← openPop site
  acknowledgeSelfClosing d
  setFramesetOK false
  pure none

/-- `InBodyPhase.startTagInput` (1145-1151) -/
def InBody_startTagInput (tok : Token) : M (Option Token) := do
  let d ← tok.tag "InBodyPhase.startTagInput"
  let framesetOK := (← get).framesetOK
  let _ ← InBody_startTagVoidFormatting tok
  match Attrs.get? d.attrs (.plain (lit "type")) with
  | some v => if asciiLower v == lit "hidden" then setFramesetOK framesetOK
  | none => pure ()
  pure none

/-- `InBodyPhase.startTagParamSource` (1153-1156) -/
def InBody_startTagParamSource (tok : Token) : M (Option Token) := do
  let site := "InBodyPhase.startTagParamSource"
  let d ← tok.tag site
  let _ ← insertElement d
  let _ ← openPop site
  acknowledgeSelfClosing d
  pure none

/-- `InBodyPhase.startTagHr` (1158-1164) -/
def InBody_startTagHr (tok : Token) : M (Option Token) := do
  let site := "InBodyPhase.startTagHr"
  let d ← tok.tag site
  closePIfInButtonScope
  let _ ← insertElement d
  let _ ← openPop site
  acknowledgeSelfClosing d
  setFramesetOK false
  pure none

/-- `InBodyPhase.startTagImage` (1166-1172) -/
def InBody_startTagImage (r : Rec) (tok : Token) : M (Option Token) := do
  let d ← tok.tag "InBodyPhase.startTagImage"
  parseError "unexpected-start-tag-treated-as" [("originalName", lit "image"), ("newName", lit "img")]
  let _ ← r.processStartTag .inBody (impliedStart "img" d.attrs d.selfClosing)
  pure none

/-- `InBodyPhase.startTagIsIndex` (1174-1203) -/
def InBody_startTagIsIndex (r : Rec) (tok : Token) : M (Option Token) := do
  let d ← tok.tag "InBodyPhase.startTagIsIndex"
  parseError "deprecated-tag" [("name", lit "isindex")]
  if (← get).formPointer.isSome then return none
  let action := AttrKey.plain (lit "action")
  let promptK := AttrKey.plain (lit "prompt")
  let form_attrs : Attrs := match Attrs.get? d.attrs action with
    | some v => [(action, v)]
    | none => []
  let _ ← r.processStartTag .inBody (impliedStart "form" form_attrs)
  let _ ← r.processStartTag .inBody (impliedStart "hr")
  let _ ← r.processStartTag .inBody (impliedStart "label")
  let prompt := match Attrs.get? d.attrs promptK with
    | some v => v
    | none => lit "This is a searchable index. Enter search keywords: "
  let _ ← InBody_processCharacters (.chars prompt)
  let mut attributes := d.attrs
  if Attrs.contains attributes action then attributes := Attrs.erase attributes action
  if Attrs.contains attributes promptK then attributes := Attrs.erase attributes promptK
  attributes := Attrs.set attributes (.plain (lit "name")) (lit "isindex")
  let _ ← r.processStartTag .inBody (impliedStart "input" attributes d.selfClosing)
  let _ ← r.processEndTag .inBody (impliedEnd "label")
  let _ ← r.processStartTag .inBody (impliedStart "hr")
  let _ ← r.processEndTag .inBody (impliedEnd "form")
  pure none

/-- `InBodyPhase.startTagTextarea` (1205-1209) -/
def InBody_startTagTextarea (tok : Token) : M (Option Token) := do
  let _ ← insertElementTok tok "InBodyPhase.startTagTextarea"
  setTokState .rcdata
  modify fun st => { st with inBodyDropNewline := true }
  setFramesetOK false
  pure none

/-- `InBodyPhase.startTagRawtext` (1221-1223) -/
def InBody_startTagRawtext (tok : Token) : M (Option Token) := do
  parseRCDataRawtext tok "RAWTEXT"
  pure none

/-- `InBodyPhase.startTagIFrame` (1211-1213) -/
def InBody_startTagIFrame (tok : Token) : M (Option Token) := do
  setFramesetOK false
  let _ ← InBody_startTagRawtext tok
  pure none

/-- `InBodyPhase.startTagOther` (1285-1287) -/
def InBody_startTagOther (tok : Token) : M (Option Token) := do
  reconstructActiveFormattingElements
  let _ ← insertElementTok tok "InBodyPhase.startTagOther"
  pure none

/-- `InBodyPhase.startTagNoscript` (1215-1219) -/
def InBody_startTagNoscript (tok : Token) : M (Option Token) := do
  if (← getCfg).scripting then
    let _ ← InBody_startTagRawtext tok
  else
    let _ ← InBody_startTagOther tok
  pure none

/-- `InBodyPhase.startTagOpt` (1225-1229) -/
def InBody_startTagOpt (r : Rec) (tok : Token) : M (Option Token) := do
  let site := "InBodyPhase.startTagOpt"
  if (← nameIs (← openLast site) "option") then
    let ph ← curPhase site
    let _ ← r.processEndTag ph (impliedEnd "option")
  reconstructActiveFormattingElements
  let _ ← insertElementTok tok site
  pure none

/-- `InBodyPhase.startTagSelect` (1231-1243) -/
def InBody_startTagSelect (tok : Token) : M (Option Token) := do
  reconstructActiveFormattingElements
  let _ ← insertElementTok tok "InBodyPhase.startTagSelect"
  setFramesetOK false
  let ph ← getPhase
  if [some Phase.inTable, some .inCaption, some .inColumnGroup, some .inTableBody, some .inRow,
      some .inCell].contains ph then
    setPhase .inSelectInTable
  else
    setPhase .inSelect
  pure none

/-- `InBodyPhase.startTagRpRt` (1245-1250) -/
def InBody_startTagRpRt (tok : Token) : M (Option Token) := do
  let site := "InBodyPhase.startTagRpRt"
  if (← elementInScope (lit "ruby")) then
    generateImpliedEndTags
    if !(← nameIs (← openLast site) "ruby") then
      parseErrorDefault
  let _ ← insertElementTok tok site
  pure none

/-- `InBodyPhase.startTagMath` (1252-1262) -/
def InBody_startTagMath (tok : Token) : M (Option Token) := do
  let site := "InBodyPhase.startTagMath"
  let d ← tok.tag site
  reconstructActiveFormattingElements
  let d := adjustMathMLAttributes d
  let d := adjustForeignAttributes d
  let d := { d with ns := some (some (← nsE "mathml")) }
  let _ ← insertElement d
  if d.selfClosing then
    let _ ← openPop site
    acknowledgeSelfClosing d
  pure none

/-- `InBodyPhase.startTagSvg` (1264-1274) -/
def InBody_startTagSvg (tok : Token) : M (Option Token) := do
  let site := "InBodyPhase.startTagSvg"
  let d ← tok.tag site
  reconstructActiveFormattingElements
  let d := adjustSVGAttributes d
  let d := adjustForeignAttributes d
  let d := { d with ns := some (some (← nsE "svg")) }
  let _ ← insertElement d
  if d.selfClosing then
    let _ ← openPop site
    acknowledgeSelfClosing d
  pure none

/-- `InBodyPhase.startTagMisplaced` (1276-1283) -/
def InBody_startTagMisplaced (tok : Token) : M (Option Token) := do
  let d ← tok.tag "InBodyPhase.startTagMisplaced"
  parseError "unexpected-start-tag-ignored" [("name", d.name)]
  pure none

/-- `InBodyPhase.endTagBody` (1302-1318) -/
def InBody_endTagBody (_tok : Token) : M (Option Token) := do
  let site := "InBodyPhase.endTagBody"
  if !(← elementInScope (lit "body")) then
    parseErrorDefault
    return none
  else if !(← nameIs (← openLast site) "body") then
    let rec loop : List NodeId → M Unit
      | [] => pure ()
      | node :: rest => do
        let nm ← nodeName node
        if !(Gen.Lit.InBodyPhase_endTagBody_0.contains nm) then
          parseError "expected-one-end-tag-but-got-another" [("gotName", lit "body"), ("expectedName", nm)]
        else loop rest
    loop ((← openElems).drop 2)
  setPhase .afterBody
  pure none

/-- `InBodyPhase.endTagHtml` (1320-1324) -/
def InBody_endTagHtml (tok : Token) : M (Option Token) := do
  if (← elementInScope (lit "body")) then
    let _ ← InBody_endTagBody (impliedEnd "body")
    pure (some tok)
  else pure none

/-- `InBodyPhase.endTagBlock` (1326-1338) -/
def InBody_endTagBlock (tok : Token) : M (Option Token) := do
  let site := "InBodyPhase.endTagBlock"
  let d ← tok.tag site
  if d.name == lit "pre" then
    modify fun st => { st with inBodyDropNewline := false }
  let inScope ← elementInScope d.name
  if inScope then
    generateImpliedEndTags
  if (← nodeName (← openLast site)) != d.name then
    parseError "end-tag-too-early" [("name", d.name)]
  if inScope then
    let _ ← popUntil (fun n => do return (← nodeName n) == d.name) site
  pure none

/-- `InBodyPhase.endTagForm` (1340-1351) -/
def InBody_endTagForm (_tok : Token) : M (Option Token) := do
  let site := "InBodyPhase.endTagForm"
  let node? := (← get).formPointer
  modify fun st => { st with formPointer := none }
  let bad ← (match node? with
    | none => pure true
    | some node => do return !(← elementInScopeNode node) : M Bool)
  if bad then
    parseError "unexpected-end-tag" [("name", lit "form")]
  else
    match node? with
    | none => pure ()
    | some node =>
      generateImpliedEndTags
      if (← openLast site) != node then
        parseError "end-tag-too-early-ignored" [("name", lit "form")]
      openRemove node site
  pure none

/-- `InBodyPhase.endTagListItem` (1353-1368) -/
def InBody_endTagListItem (tok : Token) : M (Option Token) := do
  let site := "InBodyPhase.endTagListItem"
  let d ← tok.tag site
  let variant : Option String := if d.name == lit "li" then some "list" else none
  if !(← elementInScope d.name variant) then
    parseError "unexpected-end-tag" [("name", d.name)]
  else
    generateImpliedEndTags (some d.name)
    if (← nodeName (← openLast site)) != d.name then
      parseError "end-tag-too-early" [("name", d.name)]
    let _ ← popUntil (fun n => do return (← nodeName n) == d.name) site
  pure none

/-- `InBodyPhase.endTagHeading` (1370-1383) -/
def InBody_endTagHeading (tok : Token) : M (Option Token) := do
  let site := "InBodyPhase.endTagHeading"
  let d ← tok.tag site
  let rec anyInScope : List Str → M Bool
    | [] => pure false
    | item :: rest => do if (← elementInScope item) then pure true else anyInScope rest
  if (← anyInScope Gen.headingElements) then
    generateImpliedEndTags
  if (← nodeName (← openLast site)) != d.name then
    parseError "end-tag-too-early" [("name", d.name)]
  if (← anyInScope Gen.headingElements) then
    let _ ← popUntil (fun n => do return Gen.headingElements.contains (← nodeName n)) site
  pure none

/-- `InBodyPhase.endTagAppletMarqueeObject` (1548-1558) -/
def InBody_endTagAppletMarqueeObject (tok : Token) : M (Option Token) := do
  let site := "InBodyPhase.endTagAppletMarqueeObject"
  let d ← tok.tag site
  if (← elementInScope d.name) then
    generateImpliedEndTags
  if (← nodeName (← openLast site)) != d.name then
    parseError "end-tag-too-early" [("name", d.name)]
  if (← elementInScope d.name) then
    let _ ← popUntil (fun n => do return (← nodeName n) == d.name) site
    clearActiveFormattingElements
  pure none

/-- `InBodyPhase.endTagBr` (1560-1565) -/
def InBody_endTagBr (_tok : Token) : M (Option Token) := do
  let site := "InBodyPhase.endTagBr"
  parseError "unexpected-end-tag-treated-as" [("originalName", lit "br"), ("newName", lit "br element")]
  reconstructActiveFormattingElements
  let _ ← insertElementTok (impliedStart "br") site
  let _ ← openPop site
  pure none

end H5.Model.TB
