/-
  H5.Model.TreeBuilder.Phases1 — class Phase (base) and the phases
  Initial, BeforeHtml, BeforeHead, InHead, InHeadNoscript, AfterHead.
  One Lean function per Python method, same branch order; line numbers refer to
  html5lib/html5parser.py.
-/
import H5.Model.TreeBuilder.Helpers
namespace H5.Model.TB
open H5 H5.Model.Dom

/-- Late-bound entry points `phase.processX(token)` (the recursion knot is tied in
`Dispatch.lean` by recursion on a depth counter). -/
structure Rec where
  processStartTag : Phase → Token → M (Option Token)
  processEndTag : Phase → Token → M (Option Token)
  processCharacters : Phase → Token → M (Option Token)
  processSpaceCharacters : Phase → Token → M (Option Token)
  processComment : Phase → Token → M (Option Token)
  processDoctype : Phase → Token → M (Option Token)
  processEOF : Phase → M Bool

/-- `str.lower()` restricted to what matters when the result is compared with an ASCII-only
literal: `A-Z` and U+212A KELVIN SIGN are the only code points whose lower-casing is ASCII. -/
def pyLowerAscii (s : Str) : Str :=
  s.map fun c => if 65 ≤ c ∧ c ≤ 90 then c + 32 else if c = 0x212A then 107 else c

/-- `s.startswith(tuple)` -/
def startsWithAny (s : Str) (ps : List Str) : Bool := ps.any fun p => p.isPrefixOf s

/-! ### class Phase (400-470) -/

/-- `Phase.processComment` (414-417) -/
def Phase_processComment (tok : Token) : M (Option Token) := do
  let cur ← openLast "Phase.processComment"
  insertComment (← tok.text "Phase.processComment") (some cur)
  pure none

/-- `Phase.processDoctype` (419-420) -/
def Phase_processDoctype (_tok : Token) : M (Option Token) := do
  parseError "unexpected-doctype"
  pure none

/-- `Phase.processCharacters` (422-423) -/
def Phase_processCharacters (tok : Token) : M (Option Token) := do
  insertText (← tok.text "Phase.processCharacters")
  pure none

/-- `Phase.processSpaceCharacters` (425-426) -/
def Phase_processSpaceCharacters (tok : Token) : M (Option Token) := do
  insertText (← tok.text "Phase.processSpaceCharacters")
  pure none

/-- the attribute-merging loop shared by `Phase.startTagHtml` (450-452) and
`InBodyPhase.startTagBody` (1004-1006): `openElements[idx]` is evaluated per iteration -/
def mergeAttrsInto (idx : Nat) (site : String) : List (AttrKey × Str) → M Unit
  | [] => pure ()
  | (attr, value) :: rest => do
    let target ← openAt idx site
    if !(Attrs.contains (← nodeAttrs target) attr) then
      let target ← openAt idx site
      modifyArena (·.setAttr target attr value)
    mergeAttrsInto idx site rest

/-- `Phase.startTagHtml` (445-453) -/
def Phase_startTagHtml (tok : Token) : M (Option Token) := do
  let d ← tok.tag "Phase.startTagHtml"
  if !(← get).firstStartTag && d.name == lit "html" then
    parseError "non-html-root"
  mergeAttrsInto 0 "Phase.startTagHtml" d.attrs
  modify fun st => { st with firstStartTag := false }
  pure none

/-! ### InitialPhase (473-601) -/

/-- `InitialPhase.processSpaceCharacters` (476-477) -/
def Initial_processSpaceCharacters (_tok : Token) : M (Option Token) := pure none

/-- `InitialPhase.processComment` (479-480) -/
def Initial_processComment (tok : Token) : M (Option Token) := do
  insertComment (← tok.text "InitialPhase.processComment") (some (← get).document)
  pure none

/-- `InitialPhase.processDoctype` (482-575) -/
def Initial_processDoctype (tok : Token) : M (Option Token) := do
  match tok with
  | .doctype name publicId0 systemId correct =>
    if name != some (lit "html") || publicId0.isSome ||
        (systemId.isSome && systemId != some (lit "about:legacy-compat")) then
      parseError "unknown-doctype"
    let publicId := publicId0.getD []                      -- if publicId is None: publicId = ""
    insertDoctype name publicId0 systemId
    let publicId := if publicId != [] then asciiLower publicId else publicId
    let systemTruthy := match systemId with
      | some (_ :: _) => true
      | _ => false
    if !correct || name != some (lit "html")
        || startsWithAny publicId Gen.Lit.InitialPhase_processDoctype_0
        || Gen.Lit.InitialPhase_processDoctype_1.contains publicId
        || (startsWithAny publicId Gen.Lit.InitialPhase_processDoctype_2 && systemId.isNone)
        || (systemTruthy && pyLowerAscii (systemId.getD []) ==
              lit "http://www.ibm.com/data/dtd/v11/ibmxhtml1-transitional.dtd") then
      modify fun st => { st with compatMode := .quirks }
    else if startsWithAny publicId Gen.Lit.InitialPhase_processDoctype_3
        || (startsWithAny publicId Gen.Lit.InitialPhase_processDoctype_4 && systemId.isSome) then
      modify fun st => { st with compatMode := .limitedQuirks }
    setPhase .beforeHtml
    pure none
  | _ => throw (.keyError "InitialPhase.processDoctype:token[publicId]")

/-- `InitialPhase.anythingElse` (577-579) -/
def Initial_anythingElse : M Unit := do
  modify fun st => { st with compatMode := .quirks }
  setPhase .beforeHtml

/-- `InitialPhase.processCharacters` (581-584) -/
def Initial_processCharacters (tok : Token) : M (Option Token) := do
  parseError "expected-doctype-but-got-chars"
  Initial_anythingElse
  pure (some tok)

/-- `InitialPhase.processStartTag` (586-590) -/
def Initial_processStartTag (tok : Token) : M (Option Token) := do
  let d ← tok.tag "InitialPhase.processStartTag"
  parseError "expected-doctype-but-got-start-tag" [("name", d.name)]
  Initial_anythingElse
  pure (some tok)

/-- `InitialPhase.processEndTag` (592-596) -/
def Initial_processEndTag (tok : Token) : M (Option Token) := do
  let d ← tok.tag "InitialPhase.processEndTag"
  parseError "expected-doctype-but-got-end-tag" [("name", d.name)]
  Initial_anythingElse
  pure (some tok)

/-- `InitialPhase.processEOF` (598-601) -/
def Initial_processEOF : M Bool := do
  parseError "expected-doctype-but-got-eof"
  Initial_anythingElse
  pure true

/-! ### BeforeHtmlPhase (604-639) -/

/-- `BeforeHtmlPhase.insertHtmlElement` (608-610) -/
def BeforeHtml_insertHtmlElement : M Unit := do
  insertRoot { name := lit "html", attrs := [] }
  setPhase .beforeHead

/-- `BeforeHtmlPhase.processEOF` (613-615) -/
def BeforeHtml_processEOF : M Bool := do
  BeforeHtml_insertHtmlElement
  pure true

/-- `BeforeHtmlPhase.processComment` (617-618) -/
def BeforeHtml_processComment (tok : Token) : M (Option Token) := do
  insertComment (← tok.text "BeforeHtmlPhase.processComment") (some (← get).document)
  pure none

/-- `BeforeHtmlPhase.processSpaceCharacters` (620-621) -/
def BeforeHtml_processSpaceCharacters (_tok : Token) : M (Option Token) := pure none

/-- `BeforeHtmlPhase.processCharacters` (623-625) -/
def BeforeHtml_processCharacters (tok : Token) : M (Option Token) := do
  BeforeHtml_insertHtmlElement
  pure (some tok)

/-- `BeforeHtmlPhase.processStartTag` (627-631) -/
def BeforeHtml_processStartTag (tok : Token) : M (Option Token) := do
  let d ← tok.tag "BeforeHtmlPhase.processStartTag"
  if d.name == lit "html" then
    modify fun st => { st with firstStartTag := true }
  BeforeHtml_insertHtmlElement
  pure (some tok)

/-- `BeforeHtmlPhase.processEndTag` (633-639) -/
def BeforeHtml_processEndTag (tok : Token) : M (Option Token) := do
  let d ← tok.tag "BeforeHtmlPhase.processEndTag"
  if !(Gen.Lit.BeforeHtmlPhase_processEndTag_0.contains d.name) then
    parseError "unexpected-end-tag-before-html" [("name", d.name)]
    pure none
  else
    BeforeHtml_insertHtmlElement
    pure (some tok)

/-! ### BeforeHeadPhase (642-685) -/

/-- `BeforeHeadPhase.startTagHead` (659-662) -/
def BeforeHead_startTagHead (tok : Token) : M (Option Token) := do
  let _ ← insertElementTok tok "BeforeHeadPhase.startTagHead"
  let cur ← openLast "BeforeHeadPhase.startTagHead"
  modify fun st => { st with headPointer := some cur }
  setPhase .inHead
  pure none

/-- `BeforeHeadPhase.processEOF` (645-647) -/
def BeforeHead_processEOF : M Bool := do
  let _ ← BeforeHead_startTagHead (impliedStart "head")
  pure true

/-- `BeforeHeadPhase.processSpaceCharacters` (649-650) -/
def BeforeHead_processSpaceCharacters (_tok : Token) : M (Option Token) := pure none

/-- `BeforeHeadPhase.processCharacters` (652-654) -/
def BeforeHead_processCharacters (tok : Token) : M (Option Token) := do
  let _ ← BeforeHead_startTagHead (impliedStart "head")
  pure (some tok)

/-- `BeforeHeadPhase.startTagHtml` (656-657) -/
def BeforeHead_startTagHtml (r : Rec) (tok : Token) : M (Option Token) :=
  r.processStartTag .inBody tok

/-- `BeforeHeadPhase.startTagOther` (664-666) -/
def BeforeHead_startTagOther (tok : Token) : M (Option Token) := do
  let _ ← BeforeHead_startTagHead (impliedStart "head")
  pure (some tok)

/-- `BeforeHeadPhase.endTagImplyHead` (668-670) -/
def BeforeHead_endTagImplyHead (tok : Token) : M (Option Token) := do
  let _ ← BeforeHead_startTagHead (impliedStart "head")
  pure (some tok)

/-- `BeforeHeadPhase.endTagOther` (672-674) -/
def BeforeHead_endTagOther (tok : Token) : M (Option Token) := do
  let d ← tok.tag "BeforeHeadPhase.endTagOther"
  parseError "end-tag-after-implied-root" [("name", d.name)]
  pure none

/-! ### InHeadPhase (688-788) -/

/-- `InHeadPhase.endTagHead` (756-759) -/
def InHead_endTagHead (_tok : Token) : M (Option Token) := do
  let node ← openPop "InHeadPhase.endTagHead"
  pyAssert (← nameIs node "head") "InHeadPhase.endTagHead:assert-head"
  setPhase .afterHead
  pure none

/-- `InHeadPhase.anythingElse` (768-769) -/
def InHead_anythingElse : M Unit := do
  let _ ← InHead_endTagHead (impliedEnd "head")

/-- `InHeadPhase.processEOF` (692-694) -/
def InHead_processEOF : M Bool := do
  InHead_anythingElse
  pure true

/-- `InHeadPhase.processCharacters` (696-698) -/
def InHead_processCharacters (tok : Token) : M (Option Token) := do
  InHead_anythingElse
  pure (some tok)

/-- `InHeadPhase.startTagHtml` (700-701) -/
def InHead_startTagHtml (r : Rec) (tok : Token) : M (Option Token) :=
  r.processStartTag .inBody tok

/-- `InHeadPhase.startTagHead` (703-704) -/
def InHead_startTagHead (_tok : Token) : M (Option Token) := do
  parseError "two-heads-are-not-better-than-one"
  pure none

/-- `InHeadPhase.startTagBaseLinkCommand` (706-709) -/
def InHead_startTagBaseLinkCommand (tok : Token) : M (Option Token) := do
  let d ← tok.tag "InHeadPhase.startTagBaseLinkCommand"
  let _ ← insertElement d
  let _ ← openPop "InHeadPhase.startTagBaseLinkCommand"
  acknowledgeSelfClosing d
  pure none

/-- `InHeadPhase.startTagMeta` (711-730).  The encoding-change branch (716-730) only runs
while `stream.charEncoding[1] == "tentative"`; the token-level model assumes a certain
encoding (always the case for `str` input), so the branch is skipped. -/
def InHead_startTagMeta (tok : Token) : M (Option Token) := do
  let d ← tok.tag "InHeadPhase.startTagMeta"
  let _ ← insertElement d
  let _ ← openPop "InHeadPhase.startTagMeta"
  acknowledgeSelfClosing d
  pure none

/-- `InHeadPhase.startTagTitle` (732-733) -/
def InHead_startTagTitle (tok : Token) : M (Option Token) := do
  parseRCDataRawtext tok "RCDATA"
  pure none

/-- `InHeadPhase.startTagNoFramesStyle` (735-737) -/
def InHead_startTagNoFramesStyle (tok : Token) : M (Option Token) := do
  parseRCDataRawtext tok "RAWTEXT"
  pure none

/-- `InHeadPhase.startTagNoscript` (739-744) -/
def InHead_startTagNoscript (tok : Token) : M (Option Token) := do
  if (← getCfg).scripting then
    parseRCDataRawtext tok "RAWTEXT"
  else
    let _ ← insertElementTok tok "InHeadPhase.startTagNoscript"
    setPhase .inHeadNoscript
  pure none

/-- `InHeadPhase.startTagScript` (746-750) -/
def InHead_startTagScript (tok : Token) : M (Option Token) := do
  let _ ← insertElementTok tok "InHeadPhase.startTagScript"
  setTokState .scriptData
  modify fun st => { st with originalPhase := st.phase }
  setPhase .text
  pure none

/-- `InHeadPhase.startTagOther` (752-754) -/
def InHead_startTagOther (tok : Token) : M (Option Token) := do
  InHead_anythingElse
  pure (some tok)

/-- `InHeadPhase.endTagHtmlBodyBr` (761-763) -/
def InHead_endTagHtmlBodyBr (tok : Token) : M (Option Token) := do
  InHead_anythingElse
  pure (some tok)

/-- `InHeadPhase.endTagOther` (765-766) -/
def InHead_endTagOther (tok : Token) : M (Option Token) := do
  let d ← tok.tag "InHeadPhase.endTagOther"
  parseError "unexpected-end-tag" [("name", d.name)]
  pure none

/-! ### InHeadNoscriptPhase (791-852) -/

/-- `InHeadNoscriptPhase.endTagNoscript` (824-827) -/
def InHeadNoscript_endTagNoscript (_tok : Token) : M (Option Token) := do
  let node ← openPop "InHeadNoscriptPhase.endTagNoscript"
  pyAssert (← nameIs node "noscript") "InHeadNoscriptPhase.endTagNoscript:assert-noscript"
  setPhase .inHead
  pure none

/-- `InHeadNoscriptPhase.anythingElse` (837-839) -/
def InHeadNoscript_anythingElse : M Unit := do
  let _ ← InHeadNoscript_endTagNoscript (impliedEnd "noscript")

/-- `InHeadNoscriptPhase.processEOF` (794-797) -/
def InHeadNoscript_processEOF : M Bool := do
  parseError "eof-in-head-noscript"
  InHeadNoscript_anythingElse
  pure true

/-- `InHeadNoscriptPhase.processComment` (799-800) -/
def InHeadNoscript_processComment (r : Rec) (tok : Token) : M (Option Token) :=
  r.processComment .inHead tok

/-- `InHeadNoscriptPhase.processCharacters` (802-805) -/
def InHeadNoscript_processCharacters (tok : Token) : M (Option Token) := do
  parseError "char-in-head-noscript"
  InHeadNoscript_anythingElse
  pure (some tok)

/-- `InHeadNoscriptPhase.processSpaceCharacters` (807-808) -/
def InHeadNoscript_processSpaceCharacters (r : Rec) (tok : Token) : M (Option Token) :=
  r.processSpaceCharacters .inHead tok

/-- `InHeadNoscriptPhase.startTagHtml` (810-811) -/
def InHeadNoscript_startTagHtml (r : Rec) (tok : Token) : M (Option Token) :=
  r.processStartTag .inBody tok

/-- `InHeadNoscriptPhase.startTagBaseLinkCommand` (813-814) -/
def InHeadNoscript_startTagBaseLinkCommand (r : Rec) (tok : Token) : M (Option Token) :=
  r.processStartTag .inHead tok

/-- `InHeadNoscriptPhase.startTagHeadNoscript` (816-817) -/
def InHeadNoscript_startTagHeadNoscript (tok : Token) : M (Option Token) := do
  let d ← tok.tag "InHeadNoscriptPhase.startTagHeadNoscript"
  parseError "unexpected-start-tag" [("name", d.name)]
  pure none

/-- `InHeadNoscriptPhase.startTagOther` (819-822) -/
def InHeadNoscript_startTagOther (tok : Token) : M (Option Token) := do
  let d ← tok.tag "InHeadNoscriptPhase.startTagOther"
  parseError "unexpected-inhead-noscript-tag" [("name", d.name)]
  InHeadNoscript_anythingElse
  pure (some tok)

/-- `InHeadNoscriptPhase.endTagBr` (829-832) -/
def InHeadNoscript_endTagBr (tok : Token) : M (Option Token) := do
  let d ← tok.tag "InHeadNoscriptPhase.endTagBr"
  parseError "unexpected-inhead-noscript-tag" [("name", d.name)]
  InHeadNoscript_anythingElse
  pure (some tok)

/-- `InHeadNoscriptPhase.endTagOther` (834-835) -/
def InHeadNoscript_endTagOther (tok : Token) : M (Option Token) := do
  let d ← tok.tag "InHeadNoscriptPhase.endTagOther"
  parseError "unexpected-end-tag" [("name", d.name)]
  pure none

/-! ### AfterHeadPhase (855-919) -/

/-- `AfterHeadPhase.anythingElse` (902-905) -/
def AfterHead_anythingElse : M Unit := do
  let _ ← insertElementTok (impliedStart "body") "AfterHeadPhase.anythingElse"
  setPhase .inBody
  setFramesetOK true

/-- `AfterHeadPhase.processEOF` (858-860) -/
def AfterHead_processEOF : M Bool := do
  AfterHead_anythingElse
  pure true

/-- `AfterHeadPhase.processCharacters` (862-864) -/
def AfterHead_processCharacters (tok : Token) : M (Option Token) := do
  AfterHead_anythingElse
  pure (some tok)

/-- `AfterHeadPhase.startTagHtml` (866-867) -/
def AfterHead_startTagHtml (r : Rec) (tok : Token) : M (Option Token) :=
  r.processStartTag .inBody tok

/-- `AfterHeadPhase.startTagBody` (869-872) -/
def AfterHead_startTagBody (tok : Token) : M (Option Token) := do
  setFramesetOK false
  let _ ← insertElementTok tok "AfterHeadPhase.startTagBody"
  setPhase .inBody
  pure none

/-- `AfterHeadPhase.startTagFrameset` (874-876) -/
def AfterHead_startTagFrameset (tok : Token) : M (Option Token) := do
  let _ ← insertElementTok tok "AfterHeadPhase.startTagFrameset"
  setPhase .inFrameset
  pure none

/-- `AfterHeadPhase.startTagFromHead` (878-886).  `openElements.append(self.tree.headPointer)`
with `headPointer is None` would put `None` on the stack and fail later with
`AttributeError`; the model reports that at the append. -/
def AfterHead_startTagFromHead (r : Rec) (tok : Token) : M (Option Token) := do
  let d ← tok.tag "AfterHeadPhase.startTagFromHead"
  parseError "unexpected-start-tag-out-of-my-head" [("name", d.name)]
  match (← get).headPointer with
  | none => throw (.attributeError "AfterHeadPhase.startTagFromHead:headPointer-is-None")
  | some h => openPush h
  let _ ← r.processStartTag .inHead tok
  let rec loop : List NodeId → M Unit
    | [] => pure ()
    | node :: rest => do
      if (← nameIs node "head") then
        openRemove node "AfterHeadPhase.startTagFromHead"
      else loop rest
  loop (← openElems).reverse
  pure none

/-- `AfterHeadPhase.startTagHead` (888-889) -/
def AfterHead_startTagHead (tok : Token) : M (Option Token) := do
  let d ← tok.tag "AfterHeadPhase.startTagHead"
  parseError "unexpected-start-tag" [("name", d.name)]
  pure none

/-- `AfterHeadPhase.startTagOther` (891-893) -/
def AfterHead_startTagOther (tok : Token) : M (Option Token) := do
  AfterHead_anythingElse
  pure (some tok)

/-- `AfterHeadPhase.endTagHtmlBodyBr` (895-897) -/
def AfterHead_endTagHtmlBodyBr (tok : Token) : M (Option Token) := do
  AfterHead_anythingElse
  pure (some tok)

/-- `AfterHeadPhase.endTagOther` (899-900) -/
def AfterHead_endTagOther (tok : Token) : M (Option Token) := do
  let d ← tok.tag "AfterHeadPhase.endTagOther"
  parseError "unexpected-end-tag" [("name", d.name)]
  pure none

end H5.Model.TB
