/-
  H5.Model.TreeBuilder.State — parser state, tokens, the monad and the primitive accessors
  of the tree-construction model (html5lib/html5parser.py + treebuilders/base.py).

  Every Python exception source is explicit: list subscripts / pop / remove / index and dict
  subscripts return `PyErr` with a site label `"<Class>.<function>:<detail>"`.
-/
import H5.Basic
import H5.Gen.Constants
import H5.Gen.Dispatch
import H5.Gen.ParserLiterals
import H5.Model.Dom
namespace H5.Model.TB
open H5 H5.Model.Dom

/-! ### Phases (the keys of `HTMLParser.phases`) -/

inductive Phase where
  | initial | beforeHtml | beforeHead | inHead | inHeadNoscript | afterHead | inBody | text
  | inTable | inTableText | inCaption | inColumnGroup | inTableBody | inRow | inCell
  | inSelect | inSelectInTable | inForeignContent | afterBody | inFrameset | afterFrameset
  | afterAfterBody | afterAfterFrameset
  deriving Repr, DecidableEq, BEq

def Phase.key : Phase → String
  | .initial => "initial" | .beforeHtml => "beforeHtml" | .beforeHead => "beforeHead"
  | .inHead => "inHead" | .inHeadNoscript => "inHeadNoscript" | .afterHead => "afterHead"
  | .inBody => "inBody" | .text => "text" | .inTable => "inTable" | .inTableText => "inTableText"
  | .inCaption => "inCaption" | .inColumnGroup => "inColumnGroup" | .inTableBody => "inTableBody"
  | .inRow => "inRow" | .inCell => "inCell" | .inSelect => "inSelect"
  | .inSelectInTable => "inSelectInTable" | .inForeignContent => "inForeignContent"
  | .afterBody => "afterBody" | .inFrameset => "inFrameset" | .afterFrameset => "afterFrameset"
  | .afterAfterBody => "afterAfterBody" | .afterAfterFrameset => "afterAfterFrameset"

def Phase.all : List Phase :=
  [.initial, .beforeHtml, .beforeHead, .inHead, .inHeadNoscript, .afterHead, .inBody, .text,
   .inTable, .inTableText, .inCaption, .inColumnGroup, .inTableBody, .inRow, .inCell,
   .inSelect, .inSelectInTable, .inForeignContent, .afterBody, .inFrameset, .afterFrameset,
   .afterAfterBody, .afterAfterFrameset]

/-- `self.parser.phases[key]` : `KeyError` for an unknown key -/
def Phase.ofKey (site : String) (k : String) : Except PyErr Phase :=
  match Phase.all.find? (fun p => p.key == k) with
  | some p => .ok p
  | none => .error (.keyError site)

/-- class name of a phase, through the generated `phaseClasses` table -/
def Phase.className (p : Phase) : Except PyErr String :=
  match Gen.phaseClasses.find? (fun kc => kc.1 == p.key) with
  | some kc => .ok kc.2
  | none => .error (.keyError ("phases:" ++ p.key))

/-! ### Configuration, tokenizer feedback -/

/-- what the tree builder assigns to `self.parser.tokenizer.state` -/
inductive TokStateSwitch where
  | data | rcdata | rawtext | scriptData | plaintext
  deriving Repr, DecidableEq, BEq

def TokStateSwitch.name : TokStateSwitch → String
  | .data => "data" | .rcdata => "rcdata" | .rawtext => "rawtext"
  | .scriptData => "scriptData" | .plaintext => "plaintext"

inductive CompatMode where
  | noQuirks | limitedQuirks | quirks
  deriving Repr, DecidableEq, BEq

structure Cfg where
  /-- `parseFragment(container=…)` : `some (container.lower())`; `none` for `parse` -/
  innerHTML : Option Str := none
  scripting : Bool := false
  namespaceHTMLElements : Bool := true
  /-- bound on the Python recursion depth of `generateImpliedEndTags` (→ `PyErr.recursion`) -/
  maxRecursion : Nat := 1000000
  /-- bound on nested `phase.processX` calls made by handlers (→ `PyErr.outOfFuel`) -/
  dispatchDepth : Nat := 48
  /-- bound on the `while new_token is not None` loop of `mainLoop` (→ `PyErr.outOfFuel`) -/
  reprocessFuel : Nat := 512
  /-- `HTMLParser(strict=…)` : every recorded parse error is raised as `ParseError` right after it was appended -/
  strict : Bool := false
  deriving Repr

/-- `self.innerHTML` is used both as a string and as a truth value -/
def Cfg.innerHTMLTruthy (c : Cfg) : Bool :=
  match c.innerHTML with
  | some (_ :: _) => true
  | _ => false

def Cfg.defaultNamespace (c : Cfg) : Option Str :=
  if c.namespaceHTMLElements then Gen.Lit.defaultNamespaceTrue else Gen.Lit.defaultNamespaceFalse

/-! ### Tokens as the tree builder sees them (Python dicts) -/

structure TagData where
  name : Str
  attrs : Attrs
  selfClosing : Bool := false
  /-- `token.get("namespace")` : `none` when the key is absent -/
  ns : Option (Option Str) := none
  /-- is this the dict object that `mainLoop` received from the tokenizer?  (only that object's
  `selfClosingAcknowledged` is read by `mainLoop`; `impliedTagToken` makes fresh dicts) -/
  orig : Bool := false
  deriving Repr, BEq

inductive Token where
  | doctype (name pub sys : Option Str) (correct : Bool)
  | chars (data : Str)
  | space (data : Str)
  | startTag (d : TagData)
  | endTag (d : TagData)
  | comment (data : Str)
  deriving Repr, BEq

/-- `token["name"]` etc. on a tag token; `KeyError` otherwise -/
def Token.tag (t : Token) (site : String) : Except PyErr TagData :=
  match t with
  | .startTag d => .ok d
  | .endTag d => .ok d
  | _ => .error (.keyError (site ++ ":token[name]"))

/-- `token["data"]` of a Characters / SpaceCharacters / Comment token -/
def Token.text (t : Token) (site : String) : Except PyErr Str :=
  match t with
  | .chars d => .ok d
  | .space d => .ok d
  | .comment d => .ok d
  | _ => .error (.typeError (site ++ ":token[data]-not-text"))

/-- replace the tag data inside a tag token (models in-place mutation of the dict) -/
def Token.withTag (t : Token) (d : TagData) : Token :=
  match t with
  | .startTag _ => .startTag d
  | .endTag _ => .endTag d
  | t => t

/-- `impliedTagToken(name, type, attributes, selfClosing)` (html5parser.py 2783-2788) -/
def impliedStart (name : String) (attrs : Attrs := []) (selfClosing : Bool := false) : Token :=
  .startTag { name := lit name, attrs := attrs, selfClosing := selfClosing }
def impliedEnd (name : String) : Token :=
  .endTag { name := lit name, attrs := [] }
def impliedEndS (name : Str) : Token :=
  .endTag { name := name, attrs := [] }

/-! ### Parser + tree-builder state -/

structure PState where
  cfg : Cfg
  -- treebuilders.base.TreeBuilder
  arena : Arena
  document : NodeId
  openElements : List NodeId := []
  /-- `None` (= `Marker`) or a node -/
  activeFormattingElements : List (Option NodeId) := []
  headPointer : Option NodeId := none
  formPointer : Option NodeId := none
  insertFromTable : Bool := false
  -- HTMLParser
  phase : Option Phase
  originalPhase : Option Phase := none
  lastPhase : Option Phase := none
  beforeRCDataPhase : Option Phase := none
  firstStartTag : Bool := false
  compatMode : CompatMode := .noQuirks
  framesetOK : Bool := true
  errors : Array (Str × List (Str × Str)) := #[]
  /-- `InBodyPhase.processSpaceCharacters` slot: `true` = `processSpaceCharactersDropNewline` -/
  inBodyDropNewline : Bool := false
  /-- `InTableTextPhase.originalPhase` / `.characterTokens` (the `data` of each token) -/
  tableTextOriginalPhase : Option Phase := none
  characterTokens : Array Str := #[]
  /-- last assignment to `tokenizer.state` during the current step -/
  tokSwitch : Option TokStateSwitch := none
  /-- `selfClosingAcknowledged` of the token object that `mainLoop` holds -/
  selfClosingAcknowledged : Bool := false
  deriving Repr

abbrev M := StateT PState (Except PyErr)

def fail (e : PyErr) : M α := throw e

/-- `assert c` -/
def pyAssert (c : Bool) (site : String) : M Unit :=
  if c then pure () else throw (.assertFail site)

def getCfg : M Cfg := do return (← get).cfg

/-! #### lookups in generated tables -/

/-- `namespaces[k]` -/
def nsE (k : String) : Except PyErr Str :=
  match Gen.namespaces.find? (fun p => p.1 == lit k) with
  | some p => .ok p.2
  | none => .error (.keyError ("namespaces:" ++ k))

/-- `s.translate(table)` for a code-point table -/
def translate (tbl : List (Nat × Nat)) (s : Str) : Str :=
  s.map fun c => match tbl.find? (fun p => p.1 == c) with
    | some p => p.2
    | none => c

def asciiLower (s : Str) : Str := translate Gen.asciiUpper2Lower s

def isSpaceChar (c : Nat) : Bool := Gen.spaceCharacters.contains c

/-! #### arena access -/

def getNode (i : NodeId) : M Node := do
  let st ← get
  match st.arena.get i with
  | .ok n => pure n
  | .error e => throw e

def modifyArena (f : Arena → Except PyErr Arena) : M Unit := do
  let st ← get
  match f st.arena with
  | .ok a => set { st with arena := a }
  | .error e => throw e

def allocNode (k : Kind) (attrs : Attrs := []) : M NodeId := do
  let st ← get
  let (a, i) := st.arena.alloc k attrs
  set { st with arena := a }
  pure i

/-- `(node.namespace, node.name)` of an element wrapper -/
def elemInfo (i : NodeId) : M (Option Str × Str) := do
  let n ← getNode i
  match n.kind with
  | .element ns nm => pure (ns, nm)
  | _ => throw (.lookupError "node-is-not-an-element")

def nodeName (i : NodeId) : M Str := do return (← elemInfo i).2
def nodeNs (i : NodeId) : M (Option Str) := do return (← elemInfo i).1

/-- `node.nameTuple` : `(namespace or namespaces["html"], name)` -/
def nameTuple (i : NodeId) : M (Str × Str) := do
  let (ns, nm) ← elemInfo i
  match ns with
  | some n => pure (n, nm)
  | none => do let h ← nsE "html"; pure (h, nm)

def nodeAttrs (i : NodeId) : M Attrs := do return (← getNode i).attrs
def nodeParent (i : NodeId) : M (Option NodeId) := do return (← getNode i).parent

/-- `node.name == s` -/
def nameIs (i : NodeId) (s : String) : M Bool := do return (← nodeName i) == lit s

/-! #### `self.tree.openElements` as a Python list -/

def openElems : M (List NodeId) := do return (← get).openElements
def setOpen (l : List NodeId) : M Unit := modify fun st => { st with openElements := l }

/-- `openElements[-1]` -/
def openLast (site : String) : M NodeId := do
  match (← openElems).getLast? with
  | some x => pure x
  | none => throw (.indexError (site ++ ":openElements[-1]"))

/-- `openElements[i]` for a non-negative `i` -/
def openAt (i : Nat) (site : String) : M NodeId := do
  match (← openElems)[i]? with
  | some x => pure x
  | none => throw (.indexError (site ++ ":openElements[" ++ toString i ++ "]"))

/-- `openElements.pop()` -/
def openPop (site : String) : M NodeId := do
  let l ← openElems
  match l.getLast? with
  | some x => setOpen l.dropLast; pure x
  | none => throw (.indexError (site ++ ":openElements.pop()"))

def openPush (x : NodeId) : M Unit := modify fun st => { st with openElements := st.openElements ++ [x] }

/-- `x in openElements` -/
def inOpen (x : NodeId) : M Bool := do return (← openElems).contains x

/-- `openElements.remove(x)` : first occurrence, `ValueError` if absent -/
def openRemove (x : NodeId) (site : String) : M Unit := do
  let l ← openElems
  if l.contains x then setOpen (l.erase x) else throw (.valueError (site ++ ":openElements.remove"))

/-- `l.index(x)` -/
def listIndex [BEq α] (l : List α) (x : α) : Option Nat :=
  go l 0
where
  go : List α → Nat → Option Nat
    | [], _ => none
    | y :: ys, i => if y == x then some i else go ys (i + 1)

/-- `openElements.index(x)` -/
def openIndex (x : NodeId) (site : String) : M Nat := do
  match listIndex (← openElems) x with
  | some i => pure i
  | none => throw (.valueError (site ++ ":openElements.index"))

/-- `l.insert(i, x)` (Python semantics for `0 ≤ i`: clamps at the end) -/
def listInsert (l : List α) (i : Nat) (x : α) : List α := l.take i ++ x :: l.drop i

/-- `l[i] = x` for `i < len` -/
def listSet (l : List α) (i : Nat) (x : α) : List α := l.set i x

/-! #### `self.tree.activeFormattingElements` -/

def afe : M (List (Option NodeId)) := do return (← get).activeFormattingElements
def setAfe (l : List (Option NodeId)) : M Unit := modify fun st => { st with activeFormattingElements := l }

/-- `node in activeFormattingElements` -/
def inAfe (x : NodeId) : M Bool := do return (← afe).contains (some x)

/-- `activeFormattingElements.remove(x)` -/
def afeRemove (x : NodeId) (site : String) : M Unit := do
  let l ← afe
  if l.contains (some x) then setAfe (l.erase (some x))
  else throw (.valueError (site ++ ":activeFormattingElements.remove"))

/-- `activeFormattingElements.index(x)` -/
def afeIndex (x : NodeId) (site : String) : M Nat := do
  match listIndex (← afe) (some x) with
  | some i => pure i
  | none => throw (.valueError (site ++ ":activeFormattingElements.index"))

/-! #### parser fields -/

def getPhase : M (Option Phase) := do return (← get).phase
def setPhase (p : Phase) : M Unit := modify fun st => { st with phase := some p }
def setPhaseO (p : Option Phase) : M Unit := modify fun st => { st with phase := p }

/-- `self.parser.phase.<method>` : `AttributeError` when the phase is `None` -/
def curPhase (site : String) : M Phase := do
  match (← getPhase) with
  | some p => pure p
  | none => throw (.attributeError (site ++ ":parser.phase-is-None"))

def setFramesetOK (b : Bool) : M Unit := modify fun st => { st with framesetOK := b }
def setTokState (s : TokStateSwitch) : M Unit := modify fun st => { st with tokSwitch := some s }
def setInsertFromTable (b : Bool) : M Unit := modify fun st => { st with insertFromTable := b }

/-- `self.parser.innerHTML` as a truth value -/
def innerHTMLTruthy : M Bool := do return (← getCfg).innerHTMLTruthy

/-- the tail of `HTMLParser.parseError` (html5parser.py 328-329): `if self.strict: raise ParseError(E[errorcode] % datavars)`.
The message is not modelled (C16_sites: every site's template formats); the exception carries the error code. -/
def raiseIfStrict (code : Str) : M Unit := do
  if (← getCfg).strict then throw (.parseError code)

/-- `HTMLParser.parseError(errorcode, datavars)` (html5parser.py 323-329): the error is appended to `self.errors`,
then raised when `strict`; the stream position is not modelled here. -/
def parseError (code : String) (vars : List (String × Str) := []) : M Unit := do
  modify fun st => { st with errors := st.errors.push (lit code, vars.map fun p => (lit p.1, p.2)) }
  raiseIfStrict (lit code)

/-- `self.parser.parseError()` with the default error code -/
def parseErrorDefault : M Unit := do
  modify fun st => { st with errors := st.errors.push (Gen.Lit.parseErrorDefaultCode, []) }
  raiseIfStrict Gen.Lit.parseErrorDefaultCode

def parseErrorS (code : Str) (vars : List (Str × Str)) : M Unit := do
  modify fun st => { st with errors := st.errors.push (code, vars) }
  raiseIfStrict code

/-- `token["selfClosingAcknowledged"] = True` -/
def acknowledgeSelfClosing (d : TagData) : M Unit :=
  if d.orig then modify fun st => { st with selfClosingAcknowledged := true } else pure ()

end H5.Model.TB
