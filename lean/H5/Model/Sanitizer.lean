/-
  H5.Model.Sanitizer — hand model of html5lib/filters/sanitizer.py (`Filter.__iter__`, `sanitize_token`,
  `allowed_token`, `disallowed_token`, `sanitize_css`) together with the library functions it calls:
  `xml.sax.saxutils.escape/unescape`, `str.lower`, `str.split`, `urllib.parse.urlparse` (CPython 3.12:
  scheme, netloc, path and every `ValueError` branch) and `re` (H5.Model.Regex, patterns extracted).

  All allow-lists are ARGUMENTS (`Lists`); `defaultLists` is the instance extracted from the module.
  Unicode tables (classes, lower-casing, NFKC check) and regular expressions come from H5.Gen.Sanitizer.
  Tied to the real code by the driver ops `san`, `san:css`, `san:scheme`, `san:lower`, `re:*`
  (tools/props/C09.py).
-/
import H5.Basic
import H5.Gen.Constants
import H5.Gen.Sanitizer
import H5.Model.Regex
namespace H5.Model.Sanitizer
open H5 H5.Model.Regex

/-- `(namespace, name)` key of an element or attribute; `none` is Python's `None` -/
abbrev Key := Option Str × Str

/-- the ten keyword arguments of `Filter.__init__` -/
structure Lists where
  allowedElements : List Key
  allowedAttributes : List Key
  allowedCssProperties : List Str
  allowedCssKeywords : List Str
  allowedSvgProperties : List Str
  allowedProtocols : List Str
  allowedContentTypes : List Str
  attrValIsUri : List Key
  svgAttrValAllowsRef : List Key
  svgAllowLocalHref : List Key

def defaultLists : Lists where
  allowedElements := H5.Gen.San.allowedElements
  allowedAttributes := H5.Gen.San.allowedAttributes
  allowedCssProperties := H5.Gen.San.allowedCssProperties
  allowedCssKeywords := H5.Gen.San.allowedCssKeywords
  allowedSvgProperties := H5.Gen.San.allowedSvgProperties
  allowedProtocols := H5.Gen.San.allowedProtocols
  allowedContentTypes := H5.Gen.San.allowedContentTypes
  attrValIsUri := H5.Gen.San.attrValIsUri
  svgAttrValAllowsRef := H5.Gen.San.svgAttrValAllowsRef
  svgAllowLocalHref := H5.Gen.San.svgAllowLocalHref

def cl : Classes := H5.Gen.San.reClasses

/-! ### list traversals in `Except` (own definitions: plain structural recursion, easy to reason about) -/

def filterE (f : α → Except PyErr Bool) : List α → Except PyErr (List α)
  | [] => .ok []
  | a :: r => do
    let b ← f a
    let r' ← filterE f r
    pure (if b then a :: r' else r')

def mapE (f : α → Except PyErr β) : List α → Except PyErr (List β)
  | [] => .ok []
  | a :: r => do
    let b ← f a
    let r' ← mapE f r
    pure (b :: r')

/-- `for x in xs: if not ok(x): break  else: ...` -/
def allE (f : α → Except PyErr Bool) : List α → Except PyErr Bool
  | [] => .ok true
  | a :: r => do
    let b ← f a
    if b then allE f r else pure false

/-! ### library: `xml.sax.saxutils`, `str.lower`, `str.split` -/

/-- `xml.sax.saxutils.escape(v)`: `&` first, then `>`, then `<` -/
def escape (s : Str) : Str :=
  ((s.replaceChar 38 [38, 97, 109, 112, 59]).replaceChar 62 [38, 103, 116, 59]).replaceChar 60 [38, 108, 116, 59]

/-- `xml.sax.saxutils.unescape(v)`: `&lt;`, `&gt;`, and `&amp;` LAST -/
def unescape (s : Str) : Str :=
  ((s.replaceSub [38, 108, 116, 59] [60]).replaceSub [38, 103, 116, 59] [62]).replaceSub [38, 97, 109, 112, 59] [38]

/-- `chr(c).lower()` out of context -/
def lowerChar (c : Nat) : Str :=
  if c < 128 then [asciiLowerChar c] else (H5.Gen.San.lowerTable.lookup c).getD [c]

def caseIgnorable (c : Nat) : Bool := inRanges H5.Gen.San.caseIgnorableClass c
def casedNotIgnorable (c : Nat) : Bool := inRanges H5.Gen.San.casedNotIgnorableClass c

/-- second half of CPython's `handle_capital_sigma`: NOT followed by `case-ignorable* cased` -/
def finalSigmaAfter : Str → Bool
  | [] => true
  | c :: r => if caseIgnorable c then finalSigmaAfter r else !casedNotIgnorable c

/-- `str.lower()`; `prevCased` = the nearest preceding non-case-ignorable character is cased
(U+03A3 becomes U+03C2 in the Final_Sigma context, U+03C3 otherwise) -/
def lowerGo (prevCased : Bool) : Str → Str
  | [] => []
  | c :: r =>
    (if c = 0x3A3 then (if prevCased && finalSigmaAfter r then [0x3C2] else [0x3C3]) else lowerChar c)
      ++ lowerGo (if caseIgnorable c then prevCased else casedNotIgnorable c) r

def pyLower (s : Str) : Str := lowerGo false s

/-- `str.split()`: maximal runs of non-separators -/
def splitWs : Str → Str → List Str
  | cur, [] => if cur.isEmpty then [] else [cur.reverse]
  | cur, c :: r =>
    if inRanges H5.Gen.San.strSplitClass c then
      (if cur.isEmpty then splitWs [] r else cur.reverse :: splitWs [] r)
    else splitWs (c :: cur) r

def pySplit (s : Str) : List Str := splitWs [] s

/-- `s.split(sep)` for a one-character separator (always at least one part) -/
def splitOn (sep : Nat) : Str → Str → List Str
  | cur, [] => [cur.reverse]
  | cur, c :: r => if c = sep then cur.reverse :: splitOn sep [] r else splitOn sep (c :: cur) r

/-! ### library: `urllib.parse.urlparse` (CPython 3.12 `urlsplit`) -/

def isAsciiAlpha (c : Nat) : Bool := (65 ≤ c && c ≤ 90) || (97 ≤ c && c ≤ 122)
def isAsciiDigit (c : Nat) : Bool := 48 ≤ c && c ≤ 57
/-- `c in scheme_chars` -/
def isSchemeChar (c : Nat) : Bool := isAsciiAlpha c || isAsciiDigit c || c = 43 || c = 45 || c = 46
def isHexDigit (c : Nat) : Bool := isAsciiDigit c || (65 ≤ c && c ≤ 70) || (97 ≤ c && c ≤ 102)

def decValue (s : Str) : Nat := s.foldl (fun a c => a * 10 + (c - 48)) 0

/-- `ipaddress.IPv4Address._parse_octet` succeeds -/
def validOctet (o : Str) : Bool :=
  !o.isEmpty && o.all isAsciiDigit && o.length ≤ 3 && (o == [48] || o.head? != some 48) && decValue o ≤ 255

/-- `ipaddress.IPv4Address(s)` succeeds -/
def validIPv4 (s : Str) : Bool :=
  !s.elem 47 && !s.isEmpty && (let os := splitOn 46 [] s; os.length == 4 && os.all validOctet)

/-- `_parse_hextet` succeeds -/
def validHextet (h : Str) : Bool := !h.isEmpty && h.all isHexDigit && h.length ≤ 4

/-- `ipaddress.IPv6Address(s)` succeeds (`__init__`, `_split_scope_id`, `_ip_int_from_string`) -/
def validIPv6 (s : Str) : Bool :=
  if s.elem 47 then false else
  let addr := s.takeWhile (· ≠ 37)
  let hasSep := addr.length < s.length
  let scope := s.drop (addr.length + 1)
  if hasSep && (scope.isEmpty || scope.elem 37) then false else
  if addr.isEmpty then false else
  let parts := splitOn 58 [] addr
  if parts.length < 3 then false else
  let last := parts.getLast?.getD []
  -- an IPv4-style suffix is replaced by two hextets
  let parts? : Option (List Str) :=
    if last.elem 46 then (if validIPv4 last then some (parts.dropLast ++ [[48], [48]]) else none) else some parts
  match parts? with
  | none => false
  | some parts =>
    if parts.length > 9 then false else
    let n := parts.length
    let middle := (parts.drop 1).dropLast
    let empties := (middle.filter (·.isEmpty)).length
    if empties > 1 then false else
    let first := parts.head?.getD []
    let last := parts.getLast?.getD []
    if empties = 1 then
      let skip := 1 + (middle.takeWhile (fun p => !p.isEmpty)).length
      let hi := skip
      let lo := n - skip - 1
      if first.isEmpty && hi - 1 ≠ 0 then false else
      let hi := if first.isEmpty then hi - 1 else hi
      if last.isEmpty && lo - 1 ≠ 0 then false else
      let lo := if last.isEmpty then lo - 1 else lo
      if hi + lo ≥ 8 then false else
      ((parts.take hi).all validHextet) && ((parts.drop (n - lo)).all validHextet)
    else
      if n ≠ 8 then false else
      if first.isEmpty || last.isEmpty then false else
      parts.all validHextet

/-- `_check_bracketed_host(hostname)` does NOT raise -/
def bracketedHostOk (h : Str) : Bool :=
  match h with
  | 118 :: r =>                                        -- r"\Av[a-fA-F0-9]+\..+\Z"
    let hex := r.takeWhile isHexDigit
    let rest := r.drop hex.length
    !hex.isEmpty && (match rest with
      | 46 :: tail => !tail.isEmpty && !tail.elem 10
      | _ => false)
  | _ => validIPv6 h                                   -- ip_address(): IPv4 is rejected, IPv6 accepted

structure SplitResult where
  scheme : Str
  netloc : Str
  path : Str
  deriving Repr, DecidableEq

/-- the scheme step of `urlsplit` on the stripped url: `(scheme, rest)` -/
def splitScheme (url : Str) : Str × Str :=
  let pre := url.takeWhile (· ≠ 58)
  if pre.length < url.length && (match pre with | c :: _ => isAsciiAlpha c | [] => false) && pre.all isSchemeChar
  then (pre.map asciiLowerChar, url.drop (pre.length + 1))
  else ([], url)

/-- `url.lstrip(_WHATWG_C0_CONTROL_OR_SPACE)` then removal of `_UNSAFE_URL_BYTES_TO_REMOVE` -/
def urlPrep (url : Str) : Str :=
  (url.dropWhile (· ≤ 32)).filter (fun c => c ≠ 9 && c ≠ 13 && c ≠ 10)

/-- `urlsplit(url)` (query and fragment are not needed) -/
def urlsplit (url0 : Str) : Except PyErr SplitResult :=
  let (scheme, url) := splitScheme (urlPrep url0)
  let (netloc, url) :=
    if url.take 2 = [47, 47] then
      let after := url.drop 2
      let netloc := after.takeWhile (fun c => c ≠ 47 && c ≠ 63 && c ≠ 35)            -- _splitnetloc
      (netloc, after.drop netloc.length)
    else ([], url)
  let lb := netloc.elem 91
  let rb := netloc.elem 93
  if (lb && !rb) || (rb && !lb) then .error (.valueError "Invalid IPv6 URL") else
  let host := ((netloc.dropWhile (· ≠ 91)).drop 1).takeWhile (· ≠ 93)                -- partition('[')[2].partition(']')[0]
  if lb && rb && !bracketedHostOk host then .error (.valueError "_check_bracketed_host") else
  let path := (url.takeWhile (· ≠ 35)).takeWhile (· ≠ 63)
  -- _checknetloc: a non-ASCII character whose NFKC form contains one of "/?#@:"
  if netloc.any (inRanges H5.Gen.San.nfkcNetlocBad) then .error (.valueError "netloc NFKC") else
  .ok { scheme, netloc, path }

/-! ### `Filter.allowed_token` -/

/-- the value handed to `urlparse`: `re.sub(strip class +, '', unescape(v)).lower().replace("�", "")`
(a `[class]+` substitution by `''` deletes exactly the characters of the class) -/
def cleanUri (v : Str) : Str :=
  (pyLower ((unescape v).filter (fun c => !inRanges H5.Gen.San.uriStripClass c))).filter (· ≠ 0xFFFD)

def dataScheme : Str := [100, 97, 116, 97]

/-- is a URI-valued attribute kept?  (`if … elif` since fix 1347e6e: the content-type check only runs for an allowed
`data` scheme, so the attribute is deleted at most once) -/
def uriKeep (L : Lists) (v : Str) : Except PyErr Bool :=
  match urlsplit (cleanUri v) with
  | .error (.valueError _) => .ok false                   -- except ValueError: del attrs[attr]
  | .error e => .error e
  | .ok u =>
    if u.scheme.isEmpty then .ok true else
    if !L.allowedProtocols.elem u.scheme then .ok false     -- if uri.scheme not in self.allowed_protocols: del attrs[attr]
    else if u.scheme = dataScheme then do                   -- elif uri.scheme == 'data':
      let m ← matchAt cl H5.Gen.San.reDataContentType u.path
      pure (match m with
        | none => false                                     -- if not m: del attrs[attr]
        | some m => match m.group 1 with
          | some ct => L.allowedContentTypes.elem ct        -- elif m.group('content_type') not in …: del attrs[attr]
          | none => false)
    else .ok true

def akey (a : Attr) : Key := (a.ns, a.name)

/-- `(None, token["name"]) in self.svg_allow_local_href` (since fix COMMIT_A; before it the left operand was the bare
`str`, which is never a member of a set of `(namespace, name)` tuples).  The token's own namespace plays no role. -/
def nameInKeys (name : Str) (keys : List Key) : Bool := keys.elem (none, name)

def styleKey : Key := (none, [115, 116, 121, 108, 101])
def xlinkHref : Key := (some H5.Gen.San.xlinkNs, [104, 114, 101, 102])

/-- the three forms `prop: value;` is kept under (line 911–922) -/
def declKeep (L : Lists) (prop value : Str) : Except PyErr Bool :=
  if L.allowedCssProperties.elem (pyLower prop) then .ok true
  else if H5.Gen.San.cssShorthand.elem (pyLower (prop.takeWhile (· ≠ 45))) then
    allE (fun kw =>
      if L.allowedCssKeywords.elem kw then .ok true
      else do
        let m ← matchAt cl H5.Gen.San.reKeyword kw
        pure m.isSome) (pySplit value)
  else .ok (L.allowedSvgProperties.elem (pyLower prop))

def fmtDecl (pv : Str × Str) : Str := pv.1 ++ [58, 32] ++ pv.2 ++ [59]

def joinSp : List Str → Str
  | [] => []
  | [x] => x
  | x :: xs => x ++ [32] ++ joinSp xs

/-- the declarations that survive: non-empty value and `declKeep` -/
def keptDecls (L : Lists) (decls : List (Str × Str)) : Except PyErr (List (Str × Str)) :=
  filterE (fun pv => if pv.2.isEmpty then .ok false else declKeep L pv.1 pv.2) decls

/-- `Filter.sanitize_css` -/
def sanitizeCss (L : Lists) (style : Str) : Except PyErr Str := do
  let style ← sub cl H5.Gen.San.reCssUrl [32] style
  match ← search cl H5.Gen.San.reCssUrlGuard style with   -- `if re.search(r'url\s*\(', style, re.I): return ''` (fix COMMIT_B)
  | some _ => pure []
  | none =>
  match ← matchAt cl H5.Gen.San.reGauntlet1 style with
  | none => pure []
  | some _ =>
  match ← matchAt cl H5.Gen.San.reGauntlet2 style with
  | none => pure []
  | some _ =>
  let decls ← findall2 cl H5.Gen.San.reDecl style
  let kept ← keptDecls L decls
  pure (joinSp (kept.map fmtDecl))

/-- "Remove forbidden attributes" -/
def stepAllowed (L : Lists) (attrs : List Attr) : List Attr :=
  attrs.filter fun a => L.allowedAttributes.elem (akey a)

/-- "Remove attributes with disallowed URL values" -/
def stepUri (L : Lists) (attrs : List Attr) : Except PyErr (List Attr) :=
  filterE (fun a => if L.attrValIsUri.elem (akey a) then uriKeep L a.value else .ok true) attrs

/-- the `svg_attr_val_allows_ref` loop -/
def stepSvgRef (L : Lists) (attrs : List Attr) : Except PyErr (List Attr) :=
  mapE (fun a =>
    if L.svgAttrValAllowsRef.elem (akey a) then do
      let v ← sub cl H5.Gen.San.reSvgUrl [32] (unescape a.value)
      pure { a with value := v }
    else pure a) attrs

/-- the `svg_allow_local_href` rule: `if (None, token["name"]) in self.svg_allow_local_href and (xlink, 'href') in attrs
and re.search(r'^\s*[^#\s].*', attrs[(xlink, 'href')]): del attrs[(xlink, 'href')]`.  `attrs` is a dict: `find?` is the
lookup, the `filter` is the `del`. -/
def stepLocalHref (L : Lists) (name : Str) (attrs : List Attr) : Except PyErr (List Attr) :=
  if nameInKeys name L.svgAllowLocalHref then
    match attrs.find? (fun a => akey a = xlinkHref) with
    | some a => do
      let m ← search cl H5.Gen.San.reLocalHref a.value
      pure (if m.isSome then attrs.filter (fun b => akey b ≠ xlinkHref) else attrs)
    | none => pure attrs
  else pure attrs

def stepStyle (L : Lists) (attrs : List Attr) : Except PyErr (List Attr) :=
  mapE (fun a =>
    if akey a = styleKey then do
      let v ← sanitizeCss L a.value
      pure { a with value := v }
    else pure a) attrs

/-- `allowed_token` on the attribute dict of a StartTag/EmptyTag -/
def allowedAttrs (L : Lists) (name : Str) (attrs : List Attr) : Except PyErr (List Attr) := do
  let a ← stepUri L (stepAllowed L attrs)
  let a ← stepSvgRef L a
  let a ← stepLocalHref L name a
  stepStyle L a

/-- `Filter.allowed_token` (an EndTag of a tree walker has no "data" key and is returned as is) -/
def allowedToken (L : Lists) : Tok → Except PyErr Tok
  | .startTag ns name attrs => do pure (.startTag ns name (← allowedAttrs L name attrs))
  | .emptyTag ns name attrs => do pure (.emptyTag ns name (← allowedAttrs L name attrs))
  | t => .ok t

/-! ### `Filter.disallowed_token` -/

/-- ` name="escape(v)"` with `prefixes[ns]:` for a namespaced attribute (`KeyError` for an unknown namespace) -/
def fmtAttr (a : Attr) : Except PyErr Str :=
  match a.ns with
  | none => .ok ([32] ++ a.name ++ [61, 34] ++ escape a.value ++ [34])
  | some ns =>
    match H5.Gen.prefixes.lookup ns with
    | some p => .ok ([32] ++ p ++ [58] ++ a.name ++ [61, 34] ++ escape a.value ++ [34])
    | none => .error (.keyError "prefixes[ns]")

/-- `token["data"][:-1] + "/>"` when `token.get("selfClosing")` -/
def closeSelf (selfClosing : Bool) (s : Str) : Str := if selfClosing then s.dropLast ++ [47, 62] else s

def disallowedToken (selfClosing : Bool) : Tok → Except PyErr Tok
  | .endTag _ name => .ok (.chars (closeSelf selfClosing ([60, 47] ++ name ++ [62])))
  | .startTag _ name attrs | .emptyTag _ name attrs => do
    let parts ← mapE fmtAttr attrs                         -- `elif token["data"]:` / else give the same text for {}
    pure (.chars (closeSelf selfClosing ([60] ++ name ++ parts.flatten ++ [62])))
  | _ => .error (.keyError "name")

/-! ### `Filter.sanitize_token`, `Filter.__iter__` -/

/-- the element gate, with "namespace None counts as HTML" -/
def elementAllowed (L : Lists) (ns : Option Str) (name : Str) : Bool :=
  L.allowedElements.elem (ns, name) || (ns.isNone && L.allowedElements.elem (some H5.Gen.San.htmlNs, name))

/-- `sanitize_token`: `none` is Python's `None` (a Comment) -/
def sanitizeToken (L : Lists) (selfClosing : Bool) (t : Tok) : Except PyErr (Option Tok) :=
  match t with
  | .startTag ns name _ | .endTag ns name | .emptyTag ns name _ =>
    if elementAllowed L ns name then (allowedToken L t).map some else (disallowedToken selfClosing t).map some
  | .comment _ => .ok none
  | t => .ok (some t)

/-- `Filter.__iter__` on tokens that may carry a `selfClosing` flag -/
def filterSC (L : Lists) : List (Tok × Bool) → Except PyErr (List Tok)
  | [] => .ok []
  | (t, sc) :: rest => do
    let r ← sanitizeToken L sc t
    let rs ← filterSC L rest
    pure (match r with | some t' => t' :: rs | none => rs)

/-- `Filter.__iter__` on tree-walker tokens (they have no `selfClosing` key) -/
def filter (L : Lists) (ts : List Tok) : Except PyErr (List Tok) := filterSC L (ts.map fun t => (t, false))

end H5.Model.Sanitizer
