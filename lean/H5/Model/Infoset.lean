/-
  H5.Model.Infoset — hand model of `_ihatexml.InfosetFilter` (the character classes are extracted
  exactly from the compiled regular expressions on every run: H5.Gen.Infoset).
-/
import H5.Basic
import H5.Gen.Infoset
namespace H5.Model.Infoset
open H5 H5.Gen

structure Flags where
  dropXmlnsLocalName : Bool := false
  dropXmlnsAttrNs : Bool := false
  preventDoubleDashComments : Bool := false
  preventDashAtCommentEnd : Bool := false
  replaceFormFeedCharacters : Bool := true
  preventSingleQuotePubid : Bool := false

/-- `"U%05X" % ord(char)` -/
def escapeChar (c : Nat) : Str := 85 :: padZero 5 (toHexUpper c)

def illegalFirst (c : Nat) : Bool := inRanges nonXmlNameFirst c
def illegalRest (c : Nat) : Bool := inRanges nonXmlName c

/-- distinct elements in first-occurrence order (one possible iteration order of the Python `set`) -/
def distinct : Str → Str
  | [] => []
  | c :: r => c :: (distinct r).filter (· ≠ c)

/-- the loop `for char in replaceChars: out = out.replace(char, escape(char))` for a given iteration order -/
def replaceAll (order : Str) (s : Str) : Str :=
  order.foldl (fun acc ch => acc.replaceChar ch (escapeChar ch)) s

/-- `toXmlName`; `name[0]` raises IndexError on the empty string -/
def toXmlName (name : Str) : Except PyErr Str :=
  match name with
  | [] => .error (.indexError "toXmlName: name[0]")
  | first :: rest =>
    let firstOut := if illegalFirst first then escapeChar first else [first]
    let order := distinct (rest.filter illegalRest)
    .ok (firstOut ++ replaceAll order rest)

def hexVal? (c : Nat) : Option Nat :=
  if 48 ≤ c ∧ c ≤ 57 then some (c - 48)
  else if 65 ≤ c ∧ c ≤ 70 then some (c - 55)
  else none

def isEscDigit (c : Nat) : Bool := inRanges escapeDigitClass c

/-- `re.findall("U[\dA-F]{5,5}", name)`: non-overlapping matches, left to right -/
def findEscapes : Nat → Str → List Str
  | 0, _ => []
  | _ + 1, [] => []
  | fuel + 1, c :: r =>
    if c = 85 ∧ 5 ≤ r.length ∧ (r.take 5).all isEscDigit then (c :: r.take 5) :: findEscapes fuel (r.drop 5)
    else findEscapes fuel r

def distinctStrs : List Str → List Str
  | [] => []
  | c :: r => c :: (distinctStrs r).filter (· ≠ c)

/-- `chr(int(charcode[1:], 16))` for ASCII hex digits; Unicode decimal digits (which `\d` also admits and
`int()` accepts) are mapped through their digit value by the harness-checked table below -/
def unicodeDigitValue (c : Nat) : Option Nat :=
  if 65 ≤ c ∧ c ≤ 70 then some (c - 55)
  else match escapeDigitClass.find? (fun r => r.1 ≤ c ∧ c ≤ r.2) with
    | some r => some ((c - r.1) % 10)
    | none => none

def unescapeChar (code : Str) : Except PyErr Str :=
  match (code.drop 1).mapM unicodeDigitValue with
  | some ds => .ok [ds.foldl (fun a d => a * 16 + d) 0]
  | none => .error (.valueError "unescapeChar: int(.., 16)")

def fromXmlName (name : Str) : Except PyErr Str :=
  (distinctStrs (findEscapes (name.length + 1) name)).foldlM
    (fun acc item => do let ch ← unescapeChar item; pure (acc.replaceSub item ch)) name

def ddash : Str := [45, 45]

def coerceCommentLoop : Nat → Str → Except PyErr Str
  | 0, _ => .error (.outOfFuel "coerceComment")
  | fuel + 1, d => if d.contains ddash then coerceCommentLoop fuel (d.replaceSub ddash [45, 32, 45]) else .ok d

def endsWithDash (d : Str) : Bool := d.getLast? = some 45

def coerceComment (f : Flags) (data : Str) : Except PyErr Str := do
  let d ← if f.preventDoubleDashComments then coerceCommentLoop (data.length + 2) data else pure data
  pure (if (f.preventDoubleDashComments || f.preventDashAtCommentEnd) && endsWithDash d then d ++ [32] else d)

def coerceCharacters (f : Flags) (data : Str) : Str :=
  if f.replaceFormFeedCharacters then data.replaceChar 12 [32] else data

/-- `coercePubid`: every character matched by the regexp is replaced by its escape; then optionally `'` -/
def coercePubid (f : Flags) (data : Str) : Str :=
  let order := data.filter (fun c => inRanges nonPubidChar c)   -- findall order, duplicates included
  let out := replaceAll order data
  if f.preventSingleQuotePubid ∧ out.elem 39 then out.replaceChar 39 (escapeChar 39) else out

def xmlnsPrefix : Str := [120, 109, 108, 110, 115, 58]     -- "xmlns:"
def xmlnsNs : Str := lit "http://www.w3.org/2000/xmlns/"

def coerceAttribute (f : Flags) (name : Str) (ns : Option Str) : Except PyErr (Option Str) :=
  if f.dropXmlnsLocalName ∧ name.startsWith xmlnsPrefix then .ok none
  else if f.dropXmlnsAttrNs ∧ ns = some xmlnsNs then .ok none
  else (toXmlName name).map some

def coerceElement (name : Str) : Except PyErr Str := toXmlName name

end H5.Model.Infoset
