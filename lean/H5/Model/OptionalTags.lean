/-
  H5.Model.OptionalTags — hand model of `optionaltags.Filter.slider` / `__iter__`
  (the two rule functions are *translated* in H5.Gen.OptionalTags).
-/
import H5.Basic
import H5.Gen.OptionalTags
namespace H5.Model.OptionalTags
open H5 H5.Gen

/-- `slider`: windows `(previous, token, next)` over the stream. -/
def sliderFrom (prev : Option Tok) : List Tok → List (Option Tok × Tok × Option Tok)
  | [] => []
  | [t] => [(prev, t, none)]
  | t :: u :: rest => (prev, t, some u) :: sliderFrom (some t) (u :: rest)

def slider (ts : List Tok) : List (Option Tok × Tok × Option Tok) := sliderFrom none ts

/-- one iteration of `Filter.__iter__`: is the token yielded? -/
def keep (prev : Option Tok) (t : Tok) (next : Option Tok) : Except PyErr Bool :=
  match t with
  -- `if token["data"] or not self.is_optional_start(...)`: an empty dict is falsy
  | .startTag _ name [] => do let b ← isOptionalStart name prev next; pure (!b)
  | .startTag _ _ (_ :: _) => pure true
  | .endTag _ name => do let b ← isOptionalEnd name next; pure (!b)
  | _ => pure true

def filterW : List (Option Tok × Tok × Option Tok) → Except PyErr (List Tok)
  | [] => pure []
  | (p, t, n) :: rest => do
      let k ← keep p t n
      let out ← filterW rest
      pure (if k then t :: out else out)

def filter (ts : List Tok) : Except PyErr (List Tok) := filterW (slider ts)

end H5.Model.OptionalTags
