/-
  H5.Model.Stream — hand model of `_inputstream.HTMLUnicodeInputStream` (html5lib/_inputstream.py lines 148-375),
  statement by statement.  Constants (invalid code point class, carry-over tests) come from H5.Gen.Stream.

  The underlying text stream `dataStream` is abstracted to the list of the strings its successive
  `read(chunkSize)` calls return (`source`); `[]` is end of file (`read` returns `""` from then on).
  A source list therefore quantifies over every segmentation of a text into reads AND over every chunk size
  at once: for a `str` / `StringIO` source with chunk size `n` the list is the text cut at multiples of `n`;
  a codecs.StreamReader over a byte stream delivers the same list (it loops until `n` characters are decoded).
-/
import H5.Basic
import H5.Gen.Stream
-- (namespace `H5.Model.InputStream`: `H5.Model.Stream` is the abstract remaining-input stream of the tokenizer model)
namespace H5.Model.InputStream
open H5 H5.Gen

/-- the attributes of `HTMLUnicodeInputStream` set by `reset()` (190-202) + the remaining reads of `dataStream`;
`errors` is `len(self.errors)` (every entry is the string "invalid-codepoint") -/
structure St where
  source : List Str
  chunk : Str
  chunkSize : Nat
  chunkOffset : Nat
  buffered : Option Nat
  prevNumLines : Nat
  prevNumCols : Nat
  errors : Nat
  deriving Repr, DecidableEq

/-- `__init__` + `reset()` (158-202) over a source whose reads will be `segs` -/
def init (segs : List Str) : St :=
  { source := segs, chunk := [], chunkSize := 0, chunkOffset := 0, buffered := none,
    prevNumLines := 0, prevNumCols := 0, errors := 0 }

/-- `s.rfind('\n')` : index of the last LF, `none` for -1 -/
def rfindLF : Str → Option Nat
  | [] => none
  | c :: r =>
    match rfindLF r with
    | some i => some (i + 1)
    | none => if c = 10 then some 0 else none

/-- `_position(offset)` (218-227); `chunk.count('\n', 0, offset)` / `chunk.rfind('\n', 0, offset)` work on
`chunk[0:offset]` (Python clamps the slice) -/
def positionAt (s : St) (offset : Nat) : Nat × Nat :=
  let pre := s.chunk.take offset
  let nLines := pre.count 10                                   -- 220
  let positionLine := s.prevNumLines + nLines                  -- 221
  match rfindLF pre with                                       -- 222
  | none => (positionLine, s.prevNumCols + offset)             -- 223-224
  | some lastLinePos => (positionLine, offset - (lastLinePos + 1))   -- 225-226

/-- `position()` (229-232) -/
def position (s : St) : Nat × Nat :=
  let p := positionAt s s.chunkOffset
  (p.1 + 1, p.2)

/-- `lastv == 0x0D or 0xD800 <= lastv <= 0xDBFF` (271) -/
def isCarry (c : Nat) : Bool := c == carryCR || (carryLeadLo ≤ c && c ≤ carryLeadHi)

/-- `data.replace("\r\n", "\n")` (279): left to right, non-overlapping -/
def replaceCRLF : Str → Str
  | [] => []
  | [c] => [c]
  | c :: d :: r => if c = 13 ∧ d = 10 then 10 :: replaceCRLF r else c :: replaceCRLF (d :: r)

/-- `data.replace("\r", "\n")` (280) -/
def replaceCR (s : Str) : Str := s.map fun c => if c = 13 then 10 else c

def normalise (data : Str) : Str := replaceCR (replaceCRLF data)

/-- `len(invalid_unicode_re.findall(data))` (288): the pattern is one character class -/
def countInvalid (data : Str) : Nat := (data.filter (inRanges invalidUnicode)).length

/-- `dataStream.read(chunkSize)` (259): the data returned and the reads that remain -/
def readSource (source : List Str) : Str × List Str :=
  match source with
  | [] => ([], [])
  | d :: r => (d, r)

/-- `data = self._bufferedCharacter + data` (262-263) -/
def withBuf (buf : Option Nat) (data : Str) : Str :=
  match buf with
  | some b => b :: data
  | none => data

/-- lines 276-280: the part of `data` that becomes the chunk and the new `_bufferedCharacter`
(`None` unless `len(data) > 1` and the last character is CR or a lead surrogate) -/
def carve (data : Str) : Str × Option Nat :=
  if data.length > 1 then                                            -- 269
    match data.getLast? with                                         -- 270
    | some lastv => if isCarry lastv then (data.dropLast, some lastv) else (data, none)    -- 271-273
    | none => (data, none)
  else (data, none)

/-- lines 269-274 (repair 2906ffb): when `data` is a single CR or lead surrogate, what it means depends on the
next character, so ONE more `dataStream.read(chunkSize)` is appended (`""` at end of file) -/
def readOn (data : Str) (source : List Str) : Str × List Str :=
  match data with
  | [c] => if isCarry c then (c :: (readSource source).1, (readSource source).2) else (data, source)
  | _ => (data, source)

/-- `readChunk()` (249-292); the Boolean is its return value -/
def readChunk (s : St) : St × Bool :=
  let p := positionAt s s.chunkSize                                                        -- 253
  let rd := readSource s.source                                                            -- 259
  if s.buffered = none ∧ rd.1 = [] then                                                    -- 262, 265
    ({ s with prevNumLines := p.1, prevNumCols := p.2, chunk := [], chunkSize := 0, chunkOffset := 0,
              source := rd.2 }, false)                                                     -- 255-257, 267
  else
    -- 262-264: data = buffered + data, buffered = None;  269-274: a lone CR / lead surrogate reads on;
    -- 276-280: withhold a trailing CR / lead surrogate
    let ro := readOn (withBuf s.buffered rd.1) rd.2
    let cv := carve ro.1
    ({ source := ro.2,
       chunk := normalise cv.1,                                                            -- 286-289
       chunkSize := (normalise cv.1).length,                                               -- 290
       chunkOffset := 0,                                                                   -- 257
       buffered := cv.2,                                                                   -- 264, 279
       prevNumLines := p.1, prevNumCols := p.2,                                            -- 253
       errors := s.errors + countInvalid cv.1 }, true)                                     -- 282-283, 294-296

/-- `char()` (234-247): `none` is EOF; `self.chunk[chunkOffset]` can raise IndexError -/
def charAt (s : St) : Except PyErr (Option Nat × St) :=
  match s.chunk[s.chunkOffset]? with                                                       -- 243-244
  | none => .error (.indexError "char: chunk[chunkOffset]")
  | some c => .ok (some c, { s with chunkOffset := s.chunkOffset + 1 })                    -- 245-247

def char (s : St) : Except PyErr (Option Nat × St) :=
  if s.chunkOffset ≥ s.chunkSize then                                                      -- 239
    let r := readChunk s
    if !r.2 then .ok (none, r.1)                                                           -- 240-241
    else charAt r.1
  else charAt s

/-- does the compiled regular expression `[set]+` / `[^set]+` accept this character (321-331) -/
def classAccepts (characters : Str) (opposite : Bool) (c : Nat) : Bool :=
  if opposite then characters.elem c else !characters.elem c

/-- the `while True` loop of `charsUntil` (335-356); `rv` is `"".join(rv)` so far -/
def charsUntilLoop (characters : Str) (opposite : Bool) : Nat → St → Str → Except PyErr (Str × St)
  | 0, _, _ => .error (.outOfFuel "charsUntil")
  | fuel + 1, s, rv =>
    let rest := s.chunk.drop s.chunkOffset
    let m := rest.takeWhile (classAccepts characters opposite)       -- 337: longest match at chunkOffset
    let continue_ : Except PyErr (Str × St) :=
      let rv := rv ++ rest                                          -- 353
      let r := readChunk s                                          -- 354
      if !r.2 then .ok (rv, r.1) else charsUntilLoop characters opposite fuel r.1 rv
    if m.isEmpty then                                               -- 338  (m is None: `+` needs one character)
      if s.chunkOffset ≠ s.chunkSize then .ok (rv, s)               -- 341-342
      else continue_
    else
      let end_ := s.chunkOffset + m.length                          -- 344
      if end_ ≠ s.chunkSize then                                    -- 347
        .ok (rv ++ m, { s with chunkOffset := end_ })               -- 348-350
      else continue_

/-- a fuel that always suffices: every iteration that does not return consumes a read or the buffered character -/
def charsUntilFuel (s : St) : Nat := s.source.length + 3

/-- `charsUntil(characters, opposite)` (314-359).  The `assert ord(c) < 128` runs when the pair is not yet in the
regex cache; a cached pair has passed it before, so the outcome is the same.  An empty `characters` makes
`re.compile("[^]+")` raise `re.error` (modelled as ValueError; never called that way by the tokenizer). -/
def charsUntil (s : St) (characters : Str) (opposite : Bool) : Except PyErr (Str × St) :=
  if characters.any (fun c => c ≥ charsUntilAsciiBound) then .error (.assertFail "charsUntil: ord(c) < 128")
  else if characters.isEmpty then .error (.valueError "charsUntil: re.error")
  else charsUntilLoop characters opposite (charsUntilFuel s) s []

/-- `unget(char)` (361-375); `none` is EOF -/
def unget (s : St) (c : Option Nat) : Except PyErr St :=
  match c with
  | none => .ok s                                                                          -- 364
  | some c =>
    if s.chunkOffset = 0 then                                                              -- 365
      .ok { s with chunk := c :: s.chunk, chunkSize := s.chunkSize + 1 }                   -- 371-372
    else
      let off := s.chunkOffset - 1                                                         -- 374
      match s.chunk[off]? with                                                             -- 375
      | none => .error (.indexError "unget: chunk[chunkOffset]")
      | some d => if d = c then .ok { s with chunkOffset := off }
                  else .error (.assertFail "unget: chunk[chunkOffset] == char")

/-- all characters obtained by calling `char()` until it returns EOF -/
def drain : Nat → St → Except PyErr Str
  | 0, _ => .error (.outOfFuel "drain")
  | fuel + 1, s =>
    match char s with
    | .error e => .error e
    | .ok (none, _) => .ok []
    | .ok (some c, s') =>
      match drain fuel s' with
      | .error e => .error e
      | .ok r => .ok (c :: r)

/-- final state after draining (for the error count) -/
def drainState : Nat → St → Except PyErr St
  | 0, _ => .error (.outOfFuel "drain")
  | fuel + 1, s =>
    match char s with
    | .error e => .error e
    | .ok (none, s') => .ok s'
    | .ok (some _, s') => drainState fuel s'

/-- one more `char()` call than there are characters, plus one per read -/
def drainFuel (segs : List Str) : Nat := segs.flatten.length + 2

def drainAll (segs : List Str) : Except PyErr Str := drain (drainFuel segs) (init segs)

/-- `k` calls of `char()`: the characters returned (EOF ends the list early) and the state -/
def charN : Nat → St → Except PyErr (Str × St)
  | 0, s => .ok ([], s)
  | k + 1, s =>
    match char s with
    | .error e => .error e
    | .ok (none, s') => .ok ([], s')
    | .ok (some c, s') =>
      match charN k s' with
      | .error e => .error e
      | .ok (cs, s'') => .ok (c :: cs, s'')

/-! ### call scripts (shared by the driver op `stream` and by the witness theorems) -/

inductive Call where
  | c                                   -- char()
  | u                                   -- unget(<most recent character returned by char() and not yet ungotten>)
  | p                                   -- position()
  | t (set : Str) (opposite : Bool)     -- charsUntil(set, opposite)
  deriving Repr, DecidableEq

inductive Res where
  | ch (c : Option Nat)
  | unit
  | pos (line col : Nat)
  | str (s : Str)
  deriving Repr, DecidableEq

/-- run a script; `stack` holds the characters returned by `char()` (EOF = `none`) that have not been ungotten,
most recent first — the tokenizer's `charStack.pop()` discipline; with an empty stack `u` calls `unget(EOF)` -/
def exec : List Call → St → List (Option Nat) → List Res → Except PyErr (List Res × St)
  | [], s, _, out => .ok (out.reverse, s)
  | .c :: rest, s, stack, out =>
    match char s with
    | .error e => .error e
    | .ok (c, s') => exec rest s' (c :: stack) (.ch c :: out)
  | .u :: rest, s, stack, out =>
    match unget s stack.head?.join with
    | .error e => .error e
    | .ok s' => exec rest s' stack.tail (.unit :: out)
  | .p :: rest, s, stack, out =>
    exec rest s stack (.pos (position s).1 (position s).2 :: out)
  | .t set opp :: rest, s, stack, out =>
    match charsUntil s set opp with
    | .error e => .error e
    | .ok (r, s') => exec rest s' stack (.str r :: out)

def run (segs : List Str) (script : List Call) : Except PyErr (List Res × St) := exec script (init segs) [] []

end H5.Model.InputStream
