/-
  H5.Model.Alphabetical — hand model of `alphabeticalattributes.Filter.__iter__`
  (`_attr_key` is translated: H5.Gen.attrKey).  `sorted` is modelled as a stable merge
  sort on the key (Python's guarantee); tuple comparison is lexicographic on code points.
-/
import H5.Basic
import H5.Gen.AlphabeticalAttributes
namespace H5.Model.Alphabetical
open H5 H5.Gen

/-- Python `<=` on `str`: lexicographic on code points -/
def strLe : Str → Str → Bool
  | [], _ => true
  | _ :: _, [] => false
  | a :: as, b :: bs => if a < b then true else if b < a then false else strLe as bs

/-- Python `<=` on a 2-tuple of `str` -/
def pairLe (x y : Str × Str) : Bool :=
  if x.1 = y.1 then strLe x.2 y.2 else strLe x.1 y.1

/-- key of an attribute; `attrKey` never raises (C18_key_total), the error branch is kept explicit -/
def keyLe (a b : Attr) : Bool :=
  match attrKey a, attrKey b with
  | .ok ka, .ok kb => pairLe ka kb
  | _, _ => true

def sortAttrs (attrs : List Attr) : List Attr := attrs.mergeSort keyLe

def filterTok : Tok → Tok
  | .startTag ns n attrs => .startTag ns n (sortAttrs attrs)
  | .emptyTag ns n attrs => .emptyTag ns n (sortAttrs attrs)
  | t => t

def filter (ts : List Tok) : List Tok := ts.map filterTok

end H5.Model.Alphabetical
