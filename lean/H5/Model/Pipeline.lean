/-
  H5.Model.Pipeline — `HTMLSerializer.serialize` as the composition it is: tree walker, then the filters in the order
  the source applies them (H5.Gen.filterPipeline, extracted from the AST; checked in H5.Props.C07), then the serializer
  loop; and the round trip through the parser model.
-/
import H5.Model.Walker
import H5.Model.InjectMeta
import H5.Model.Alphabetical
import H5.Model.Whitespace
import H5.Model.OptionalTags
import H5.Model.Serializer
import H5.Model.Parser
namespace H5.Model.Pipeline
open H5 H5.Model

structure Flags where
  omitOptionalTags : Bool := true
  alphabeticalAttributes : Bool := false
  stripWhitespace : Bool := false

/-- `HTMLSerializer(**opts).render(walker(tree))` (no output encoding, sanitizer off) -/
def render (o : Serializer.Opts) (f : Flags) (t : Tree) : Except PyErr (Str × List Str) := do
  let toks ← Walker.walk t
  let toks := if f.alphabeticalAttributes then Alphabetical.filter toks else toks
  let toks := if f.stripWhitespace then Whitespace.filter toks else toks
  let toks ← if f.omitOptionalTags then OptionalTags.filter toks else pure toks
  Serializer.serialize o toks

/-- serialize, then parse the output as a document -/
def roundTrip (o : Serializer.Opts) (f : Flags) (t : Tree) : Except PyErr (Tree × Str × List Str) := do
  let (out, errs) ← render o f t
  -- the parser sees newline-normalised characters
  let input := (out.replaceSub [13, 10] [10]).replaceChar 13 [10]
  let (t', _) ← Parser.parse { namespaceHTMLElements := true } input
  pure (t', out, errs)

end H5.Model.Pipeline
