/-
  H5.Model.Serializer — hand model of `HTMLSerializer.serialize` (text mode, no output encoding),
  branch by branch.  Character classes of the two quoting regexps, `voidElements`, `rcdataElements`,
  `booleanAttributes`, `entities`, `xmlEntities` are extracted (H5.Gen.*).
-/
import H5.Basic
import H5.Gen.Constants
import H5.Gen.Entities
import H5.Gen.Serializer
namespace H5.Model.Serializer
open H5 H5.Gen

inductive QuoteMode where | legacy | spec | always
  deriving DecidableEq, Repr

structure Opts where
  quoteAttrValues : QuoteMode := .legacy
  quoteChar : Nat := 34
  useBestQuoteChar : Bool := true
  minimizeBooleanAttributes : Bool := true
  useTrailingSolidus : Bool := false
  spaceBeforeTrailingSolidus : Bool := true
  escapeLtInAttrs : Bool := false
  escapeRcdata : Bool := false
  resolveEntities : Bool := true
  deriving Repr

/-- `xml.sax.saxutils.escape`: `&` first, then `>`, then `<` -/
def escape (s : Str) : Str :=
  ((s.replaceChar 38 (lit "&amp;")).replaceChar 62 (lit "&gt;")).replaceChar 60 (lit "&lt;")

structure St where
  out : Str := []
  errors : List Str := []
  inCdata : Bool := false

def St.emit (s : St) (x : Str) : St := { s with out := s.out ++ x }
def St.err (s : St) (m : String) : St := { s with errors := s.errors ++ [lit m] }

def oNone : Str := lit "None"

/-- `"%s" % x` for a str-or-None -/
def fmtO : Option Str → Str
  | none => oNone
  | some s => s

def truthyO : Option Str → Bool
  | none => false
  | some s => !s.isEmpty

def booleanFor (name : Str) : List Str := (booleanAttributes.lookup name).getD []

/-- `token.get("namespace") in (None, namespaces["html"])`: the raw-text decision is made for HTML elements only
(since fix COMMIT_A) -/
def htmlOrNone (ns : Option Str) : Bool :=
  match ns with
  | none => true
  | some n => namespaces.lookup [104, 116, 109, 108] == some n

/-- one attribute: ` k[=v]`, and whether its value was written unquoted -/
def attrOut (o : Opts) (tagName : Str) (a : Attr) : Str × Bool :=
  let k := a.name
  let v := a.value
  let head := [32] ++ k
  if !o.minimizeBooleanAttributes || (!(booleanFor tagName).elem k && !(booleanFor []).elem k) then
    let quoteAttr :=
      if o.quoteAttrValues = .always || v.isEmpty then true
      else if o.quoteAttrValues = .spec then v.any (inRanges quoteAttributeSpec)
      else v.any (inRanges quoteAttributeLegacy)
    let v := v.replaceChar 38 (lit "&amp;")
    let v := if o.escapeLtInAttrs then v.replaceChar 60 (lit "&lt;") else v
    if quoteAttr then
      let q := o.quoteChar
      let q := if o.useBestQuoteChar then
                 if v.elem 39 && !v.elem 34 then 34
                 else if v.elem 34 && !v.elem 39 then 39
                 else q
               else q
      let v := if q = 39 then v.replaceChar 39 (lit "&#39;") else v.replaceChar 34 (lit "&quot;")
      (head ++ [61] ++ [q] ++ v ++ [q], false)
    else (head ++ [61] ++ v, true)
  else (head, false)

def tagName? : Tok → Str
  | .startTag _ n _ | .emptyTag _ n _ | .endTag _ n => n
  | _ => []

def step (o : Opts) (s : St) (t : Tok) : Except PyErr St :=
  match t with
  | .doctype name pub sys =>
      let d := lit "<!DOCTYPE " ++ fmtO name
      let d := if truthyO pub then d ++ lit " PUBLIC \"" ++ fmtO pub ++ [34]
               else if truthyO sys then d ++ lit " SYSTEM" else d
      let (d, s) :=
        match sys with
        | some sysId =>
          if sysId.isEmpty then (d, s) else
          if sysId.elem 34 then
            let s := if sysId.elem 39 then s.err "System identifier contains both single and double quote characters" else s
            (d ++ [32, 39] ++ sysId ++ [39], s)
          else (d ++ [32, 34] ++ sysId ++ [34], s)
        | none => (d, s)
      .ok (s.emit (d ++ [62]))
  | .chars data =>
      if s.inCdata then
        let s := if data.contains (lit "</") then s.err "Unexpected </ in CDATA" else s
        .ok (s.emit data)
      else .ok (s.emit (escape data))
  | .space data =>
      let s := if s.inCdata && data.contains (lit "</") then s.err "Unexpected </ in CDATA" else s
      .ok (s.emit data)
  | .startTag ns name attrs | .emptyTag ns name attrs =>
      let s := s.emit ([60] ++ name)
      let s := if rcdataElements.elem name && !o.escapeRcdata && htmlOrNone ns then { s with inCdata := true }
               else if s.inCdata then s.err "Unexpected child element of a CDATA element" else s
      let (s, unquotedLast) := attrs.foldl
        (fun (acc : St × Bool) a => let r := attrOut o name a; (acc.1.emit r.1, r.2)) (s, false)
      let s := if voidElements.elem name && o.useTrailingSolidus then
                 s.emit (if o.spaceBeforeTrailingSolidus || unquotedLast then [32, 47] else [47])
               else s
      .ok (s.emit [62])
  | .endTag ns name =>
      let s := if rcdataElements.elem name && htmlOrNone ns then { s with inCdata := false }
               else if s.inCdata then s.err "Unexpected child element of a CDATA element" else s
      .ok (s.emit (lit "</" ++ name ++ [62]))
  | .comment data =>
      let s := if data.contains (lit "--") then s.err "Comment contains --" else s
      .ok (s.emit (lit "<!--" ++ data ++ lit "-->"))
  | .entity name =>
      let key := name ++ [59]
      let known := (entities.lookup key).isSome
      let s := if !known then { s with errors := s.errors ++ [lit "Entity " ++ name ++ lit " not recognized"] } else s
      if o.resolveEntities && !xmlEntities.elem key then
        match entities.lookup key with
        | some v => .ok (s.emit v)
        | none => .error (.keyError "entities[key]")
      else .ok (s.emit ([38] ++ name ++ [59]))
  | .serr msg => .ok { s with errors := s.errors ++ [msg] }

def serialize (o : Opts) (ts : List Tok) : Except PyErr (Str × List Str) := do
  let s ← ts.foldlM (step o) {}
  pure (s.out, s.errors)

end H5.Model.Serializer
