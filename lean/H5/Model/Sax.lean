/-
  H5.Model.Sax — hand model of `treeadapters/sax.py:to_sax` (prefix_mapping extracted: H5.Gen.Sax;
  qualified names from the extracted `unadjustForeignAttributes`).
-/
import H5.Basic
import H5.Gen.Constants
import H5.Gen.Sax
namespace H5.Model.Sax
open H5 H5.Gen

/-- calls received by the ContentHandler -/
inductive Ev where
  | startDocument
  | endDocument
  | startPrefixMapping (pfx ns : Str)
  | endPrefixMapping (pfx : Str)
  | startElementNS (ns : Option Str) (name : Str) (attrs : List Attr)
  | endElementNS (ns : Option Str) (name : Str)
  | characters (s : Str)
  deriving Repr, DecidableEq, BEq

/-- the loop body of `to_sax` for one token -/
def tokEvents : Tok → Except PyErr (List Ev)
  | .doctype .. => .ok []
  | .startTag ns name attrs => .ok [.startElementNS ns name attrs]
  | .emptyTag ns name attrs => .ok [.startElementNS ns name attrs, .endElementNS ns name]
  | .endTag ns name => .ok [.endElementNS ns name]
  | .chars s => .ok [.characters s]
  | .space s => .ok [.characters s]
  | .comment _ => .ok []
  | .entity _ => .error (.assertFail "to_sax: Unknown token type")
  | .serr _ => .error (.assertFail "to_sax: Unknown token type")

def bodyEvents : List Tok → Except PyErr (List Ev)
  | [] => .ok []
  | t :: ts => do
      let a ← tokEvents t
      let b ← bodyEvents ts
      pure (a ++ b)

def toSax (ts : List Tok) : Except PyErr (List Ev) := do
  let body ← bodyEvents ts
  pure ([Ev.startDocument] ++ saxPrefixMapping.map (fun p => Ev.startPrefixMapping p.1 p.2) ++ body ++
        saxPrefixMapping.map (fun p => Ev.endPrefixMapping p.1) ++ [Ev.endDocument])

/-- `AttributesNSImpl(token["data"], unadjustForeignAttributes).getQNameByName((ns, name))` -/
def qnameOf (a : Attr) : Option Str :=
  match a.ns with
  | none => none
  | some ns => unadjustForeignAttributes.lookup (ns, a.name)

end H5.Model.Sax
