/-
  H5.Model.Backend.MiniDom — model of html5lib/treebuilders/dom.py (`NodeBuilder`, `AttrList`,
  the `TreeBuilder` methods that stand in for the document) over a model of the part of
  `xml.dom.minidom` (CPython 3.12) that dom.py calls.

  One heap cell per minidom node that gets a `NodeBuilder` wrapper (elements, comments, the doctype,
  fragments) plus the `Document`; the cell also carries the wrapper's `parent`.  Text nodes are
  created inside `insertText` and never handed out, are never modified and never merged, so they are
  kept by value inside the child list (`DChild.text`): one entry per `insertText` call.

  minidom facts that are modelled (each checked against the real module by the correspondence run):
    * `appendChild` / `insertBefore` first detach the new child from its old parent; a `DocumentFragment`
      argument is replaced by its children; `_child_node_types` is checked (`HierarchyRequestErr`);
      comments / doctypes are `Childless`; a `Document` takes one element only;
    * attributes are double-indexed: `_attrs` by `nodeName` (insertion order) and `_attrsNS` by
      `(namespaceURI, localName)`, the local name of `Attr(name)` being the part after the first `:`;
      `setAttributeNode` removes the old holders of BOTH keys (`xml:lang` and `lang` collide),
      `NamedNodeMap.setNamedItem` (the `attributes[name] = …` path) only the holder of the name;
    * `createDocumentType(name, …)` keeps the local part of `name`, an empty name gives `None`.
  DOM exceptions have no `PyErr` class of their own: `valueError "xml.dom.<Class>"`.
-/
import H5.Model.Backend.Common
namespace H5.Model.Backend.MiniDom
open H5 H5.Model.Backend
open H5.Model.Dom (AttrKey mergeText)

inductive DKind where
  | document
  | fragment
  | doctype (name pub sys : Option Str)
  | element (nsURI : Option Str) (nodeName : Str)
  | comment (data : Str)
  deriving Repr, DecidableEq

inductive DChild where
  | node (i : NodeId)
  | text (data : Str)
  deriving Repr, DecidableEq

/-! ### attributes -/

structure DAttr where
  /-- `nodeName` = the key in `_attrs` -/
  name : Str
  nsURI : Option Str := none
  /-- explicit `_localName` (set by `setAttributeNS`), else derived from the name -/
  localName : Option Str := none
  pfx : Option Str := none
  value : Str
  deriving Repr, DecidableEq

/-- `qualifiedName.split(":", 1)[-1]` -/
def afterColon (s : Str) : Str :=
  if List.contains s 58 then (s.dropWhile (· != 58)).drop 1 else s

/-- `_nssplit` -/
def nssplit (q : Str) : Option Str × Str :=
  if List.contains q 58 then (some (q.takeWhile (· != 58)), (q.dropWhile (· != 58)).drop 1) else (none, q)

/-- `Attr._get_localName` -/
def DAttr.loc (a : DAttr) : Str :=
  match a.localName with
  | some l => l
  | none => afterColon a.name

abbrev NSKey := Option Str × Str

def DAttr.nsKey (a : DAttr) : NSKey := (a.nsURI, a.loc)

/-- the two dicts of an element.  `_attrsNS` maps to the attr object, named here by its `_attrs` key
(an `_attrsNS` entry always points to an attr that is in `_attrs`). -/
structure AttrMap where
  byName : List DAttr := []
  byNS : List (NSKey × Str) := []
  deriving Repr, DecidableEq

namespace AttrMap

def findName (m : AttrMap) (name : Str) : Option DAttr := m.byName.find? (fun a => a.name = name)

/-- `_attrsNS.get(key)` -/
def getNS (m : AttrMap) (k : NSKey) : Option DAttr := (dictGet m.byNS k).bind m.findName

def delName (l : List DAttr) (name : Str) : Option (List DAttr) :=
  match l with
  | [] => none
  | a :: r => if a.name = name then some r else (delName r name).map (a :: ·)

/-- `Attr.unlink` : `del elem._attrs[self.nodeName]; del elem._attrsNS[(self.namespaceURI, self.localName)]` -/
def unlink (m : AttrMap) (a : DAttr) : Except PyErr AttrMap :=
  match delName m.byName a.name with
  | none => .error (.keyError "Attr.unlink:_attrs")
  | some bn =>
    match dictDel m.byNS a.nsKey with
    | none => .error (.keyError "Attr.unlink:_attrsNS")
    | some bs => .ok { byName := bn, byNS := bs }

/-- `Element.removeAttributeNode` -/
def removeAttributeNode (m : AttrMap) (a : DAttr) : Except PyErr AttrMap :=
  match m.findName a.name with
  | none => .error (.valueError "xml.dom.NotFoundErr")
  | some _ => m.unlink a

def setValue (m : AttrMap) (name value : Str) : AttrMap :=
  { m with byName := m.byName.map fun a => if a.name = name then { a with value := value } else a }

/-- `_set_attribute_node` -/
def store (m : AttrMap) (a : DAttr) : AttrMap :=
  { byName := match m.findName a.name with
      | some _ => m.byName.map fun b => if b.name = a.name then a else b
      | none => m.byName ++ [a],
    byNS := dictSet m.byNS a.nsKey a.name }

/-- `Element.setAttributeNode` (minidom.py:786-803) -/
def setAttributeNode (m : AttrMap) (a : DAttr) : Except PyErr AttrMap := do
  let m ← (match m.findName a.name with
    | some old1 => m.removeAttributeNode old1
    | none => pure m : Except PyErr AttrMap)
  let m ← (match m.getNS a.nsKey with
    | some old2 => m.removeAttributeNode old2
    | none => pure m : Except PyErr AttrMap)
  pure (m.store a)

/-- `Element.setAttribute` (minidom.py:747-757) -/
def setAttribute (m : AttrMap) (name value : Str) : Except PyErr AttrMap :=
  match m.findName name with
  | none => m.setAttributeNode { name := name, value := value }
  | some _ => pure (m.setValue name value)

/-- `Element.setAttributeNS` (minidom.py:759-778).  The case "existing attribute, other prefix", where minidom
renames the Attr but leaves it under its old `_attrs` key, is not modelled (`lookupError "unmodelled:…"`). -/
def setAttributeNS (m : AttrMap) (ns : Option Str) (qname value : Str) : Except PyErr AttrMap :=
  let (pfx, loc) := nssplit qname
  match m.getNS (ns, loc) with
  | none => m.setAttributeNode { name := qname, nsURI := ns, localName := some loc, pfx := pfx, value := value }
  | some a =>
    if a.pfx = pfx then pure (m.setValue a.name value)
    else if a.name = qname then
      pure { m.setValue a.name value with
             byName := (m.setValue a.name value).byName.map fun b => if b.name = a.name then { b with pfx := pfx } else b }
    else .error (.lookupError "unmodelled:minidom-attr-prefix-change")

/-- `NamedNodeMap.setNamedItem` (minidom.py:609-620), reached by `attributes[name] = attr` -/
def setNamedItem (m : AttrMap) (a : DAttr) : Except PyErr AttrMap := do
  let m ← (match m.findName a.name with
    | some old => m.unlink old
    | none => pure m : Except PyErr AttrMap)
  pure (m.store a)

/-- `NamedNodeMap.items()` -/
def items (m : AttrMap) : List (Str × Str) := m.byName.map fun a => (a.name, a.value)

end AttrMap

/-! ### nodes -/

structure DNode where
  kind : DKind
  attrs : AttrMap := {}
  /-- `childNodes` -/
  children : List DChild := []
  parentNode : Option NodeId := none
  /-- `NodeBuilder.parent` (the wrapper's own field, maintained by dom.py) -/
  wparent : Option NodeId := none
  deriving Repr, DecidableEq

structure St where
  nodes : List DNode := []
  deriving Repr, DecidableEq

def notFound : PyErr := .valueError "xml.dom.NotFoundErr"
def hierarchy : PyErr := .valueError "xml.dom.HierarchyRequestErr"

/-- `Childless.appendChild/insertBefore` raise `HierarchyRequestErr(self.nodeName + " nodes …")`: with the
`nodeName` `None` of a doctype without name the string concatenation itself raises `TypeError` -/
def childlessHier : DKind → PyErr
  | .doctype none _ _ => .typeError "unsupported operand type(s) for +: 'NoneType' and 'str'"
  | _ => hierarchy

/-- `Childless.removeChild` : `NotFoundErr(self.nodeName + " nodes do not have children")` -/
def childlessNotFound : DKind → PyErr
  | .doctype none _ _ => .typeError "unsupported operand type(s) for +: 'NoneType' and 'str'"
  | _ => notFound

def isChildless : DKind → Bool
  | .comment _ | .doctype .. => true
  | _ => false

def isDocument : DKind → Bool
  | .document => true
  | _ => false

def isFragment : DKind → Bool
  | .fragment => true
  | _ => false

def isElement : DKind → Bool
  | .element .. => true
  | _ => false

/-- `child.nodeType in parent._child_node_types` for the node kinds that occur -/
def allowsNode (parent child : DKind) : Bool :=
  match parent, child with
  | .element .., .element .. | .element .., .comment _ => true
  | .fragment, .element .. | .fragment, .comment _ => true
  | .document, .element .. | .document, .comment _ | .document, .doctype .. => true
  | _, _ => false

/-- `TEXT_NODE in parent._child_node_types` -/
def allowsText : DKind → Bool
  | .element .. | .fragment => true
  | _ => false

namespace St

def get? (s : St) (i : NodeId) : Option DNode := s.nodes[i]?

def get (s : St) (i : NodeId) : Except PyErr DNode :=
  match s.get? i with
  | some n => .ok n
  | none => .error (.lookupError "dom:bad-node-id")

def put (s : St) (i : NodeId) (n : DNode) : St := { nodes := s.nodes.set i n }

def alloc (s : St) (n : DNode) : St × NodeId := ({ nodes := s.nodes ++ [n] }, s.nodes.length)

def size (s : St) : Nat := s.nodes.length

/-! #### minidom level -/

/-- `Node.removeChild(oldChild)` / `Document.removeChild` / `Childless.removeChild` -/
def domRemove (s : St) (p : NodeId) (ch : DChild) : Except PyErr St := do
  let np ← s.get p
  if isChildless np.kind then .error (childlessNotFound np.kind) else
  match pyRemove np.children ch with
  | none => .error notFound
  | some cs =>
    let s := s.put p { np with children := cs }
    match ch with
    | .text _ => pure s
    | .node c =>
      let nc ← s.get c
      pure (s.put c { nc with parentNode := none })

/-- `if node.parentNode is not None: node.parentNode.removeChild(node)` -/
def detach (s : St) (c : NodeId) : Except PyErr St := do
  let nc ← s.get c
  match nc.parentNode with
  | none => pure s
  | some q => s.domRemove q (.node c)

/-- `Node.appendChild(node)` for a node that is not a fragment: type check, detach, `_append_child` -/
def nodeAppend1 (s : St) (p c : NodeId) : Except PyErr St := do
  let np ← s.get p
  let nc ← s.get c
  if !allowsNode np.kind nc.kind then .error hierarchy else
  let s ← s.detach c
  let np ← s.get p
  let s := s.put p { np with children := np.children ++ [.node c] }
  let nc ← s.get c
  pure (s.put c { nc with parentNode := some p })

/-- `Node.appendChild(textNode)` for a Text child of fragment `f` (the fragment branch of `appendChild`) -/
def textMove (s : St) (p f : NodeId) (d : Str) : Except PyErr St := do
  let np ← s.get p
  if !allowsText np.kind then .error hierarchy else
  let s ← s.domRemove f (.text d)
  let np ← s.get p
  pure (s.put p { np with children := np.children ++ [.text d] })

/-- `Node.appendChild(node)` (minidom.py:114-128) incl. `Childless` and the fragment branch -/
def nodeAppend (s : St) (p c : NodeId) : Except PyErr St := do
  let np ← s.get p
  let nc ← s.get c
  if isChildless np.kind then .error (childlessHier np.kind)
  else if isFragment nc.kind then
    nc.children.foldlM (fun s ch => match ch with
      | .node k => s.nodeAppend1 p k
      | .text d => s.textMove p c d) s
  else s.nodeAppend1 p c

/-- `Document.appendChild(node)` (minidom.py:1613-1627) -/
def docAppend (s : St) (doc c : NodeId) : Except PyErr St := do
  let nd ← s.get doc
  let nc ← s.get c
  if !allowsNode nd.kind nc.kind then .error hierarchy else
  let s ← s.detach c
  let nd ← s.get doc
  let hasElem := nd.children.any fun ch => match ch with
    | .node k => (match s.get? k with | some nk => isElement nk.kind | none => false)
    | .text _ => false
  if isElement nc.kind && hasElem then .error hierarchy else
  s.nodeAppend1 doc c

/-- `Node.insertBefore(newChild, refChild)` (minidom.py:82-112) for a non-fragment node and `refChild is not None` -/
def nodeInsertBefore1 (s : St) (p c ref : NodeId) : Except PyErr St := do
  let np ← s.get p
  let nc ← s.get c
  if !allowsNode np.kind nc.kind then .error hierarchy else
  let s ← s.detach c
  let np ← s.get p
  match pyIndex np.children (.node ref) with
  | none => .error notFound
  | some idx =>
    let s := s.put p { np with children := pyInsert np.children idx (.node c) }
    let nc ← s.get c
    pure (s.put c { nc with parentNode := some p })

/-- `Node.insertBefore(textNode, refChild)` for a fresh Text node -/
def textInsertBefore (s : St) (p : NodeId) (d : Str) (ref : NodeId) : Except PyErr St := do
  let np ← s.get p
  if isChildless np.kind then .error (childlessHier np.kind) else
  if !allowsText np.kind then .error hierarchy else
  match pyIndex np.children (.node ref) with
  | none => .error notFound
  | some idx => pure (s.put p { np with children := pyInsert np.children idx (.text d) })

def nodeInsertBefore (s : St) (p c ref : NodeId) : Except PyErr St := do
  let np ← s.get p
  let nc ← s.get c
  if isChildless np.kind then .error (childlessHier np.kind)
  else if isFragment nc.kind then
    nc.children.foldlM (fun s ch => match ch with
      | .node k => s.nodeInsertBefore1 p k ref
      | .text d => do
        let np ← s.get p
        if !allowsText np.kind then .error hierarchy else
        let s ← s.domRemove c (.text d)
        s.textInsertBefore p d ref) s
  else s.nodeInsertBefore1 p c ref

/-! #### `NodeBuilder` (dom.py:56-121); a `document` receiver is the `TreeBuilder` proxy -/

def noAttr (what : String) : PyErr := .attributeError ("'TreeBuilder' object has no attribute '" ++ what ++ "'")

/-- `x.element` of an argument node: the `TreeBuilder` proxy has none -/
def argElement (s : St) (c : NodeId) : Except PyErr Unit := do
  let nc ← s.get c
  if isDocument nc.kind then .error (noAttr "element") else pure ()

/-- dom.py:64-66 `node.parent = self; self.element.appendChild(node.element)`;
for the document: dom.py:153-154 `self.dom.appendChild(node.element)` (no `parent`) -/
def appendChild (s : St) (p c : NodeId) : Except PyErr St := do
  let np ← s.get p
  if isDocument np.kind then do
    s.argElement c
    s.docAppend p c
  else do
    let nc ← s.get c
    let s := s.put c { nc with wparent := some p }
    s.argElement c
    s.nodeAppend p c

/-- dom.py:68-73; for the document dom.py:165-176 (`TreeBuilder.insertText(data, parent=document)`: Text nodes are
allowed as children of the document and one is appended) -/
def insertText (s : St) (p : NodeId) (data : Str) (before : Option NodeId) : Except PyErr St := do
  let np ← s.get p
  if isDocument np.kind then
    match before with
    | some _ => .error (.lookupError "unmodelled:TreeBuilder.insertText has no insertBefore")
    | none => pure (s.put p { np with children := np.children ++ [.text data] })
  else
    match before with
    | some ref => do
      s.argElement ref
      s.textInsertBefore p data ref
    | none =>
      if isChildless np.kind then .error (childlessHier np.kind)
      else if !allowsText np.kind then .error hierarchy
      else pure (s.put p { np with children := np.children ++ [.text data] })

/-- dom.py:75-77 `self.element.insertBefore(node.element, refNode.element); node.parent = self` -/
def insertBefore (s : St) (p node ref : NodeId) : Except PyErr St := do
  let np ← s.get p
  if isDocument np.kind then .error (noAttr "insertBefore") else do
  s.argElement node
  s.argElement ref
  let s ← s.nodeInsertBefore p node ref
  let nn ← s.get node
  pure (s.put node { nn with wparent := some p })

/-- dom.py:79-82 `if node.element.parentNode == self.element: self.element.removeChild(node.element)`; `node.parent = None` -/
def removeChild (s : St) (p node : NodeId) : Except PyErr St := do
  let np ← s.get p
  if isDocument np.kind then .error (noAttr "removeChild") else do
  s.argElement node
  let nn ← s.get node
  let s ← (if nn.parentNode = some p then s.domRemove p (.node node) else pure s : Except PyErr St)
  let nn ← s.get node
  pure (s.put node { nn with wparent := none })

/-- one iteration of dom.py:86-88 for the first child `ch` of `self`:
`self.element.removeChild(child); newParent.element.appendChild(child)` -/
def moveStep (self newParent : NodeId) (s : St) (ch : DChild) : Except PyErr St := do
  let s ← s.domRemove self ch
  s.argElement newParent
  match ch with
  | .node k => s.nodeAppend newParent k
  | .text d => do
    let np ← s.get newParent
    if isChildless np.kind then .error (childlessHier np.kind)
    else if !allowsText np.kind then .error hierarchy
    else pure (s.put newParent { np with children := np.children ++ [.text d] })

/-- dom.py:84-89
```
while self.element.hasChildNodes():
    child = self.element.firstChild; self.element.removeChild(child); newParent.element.appendChild(child)
```
With `newParent is self` and a child the loop never ends (`outOfFuel`); otherwise the k-th iteration moves the
k-th child of the initial list.  The wrappers' `parent` fields are NOT updated. -/
def reparentChildren (s : St) (self newParent : NodeId) : Except PyErr St := do
  let ns ← s.get self
  if isDocument ns.kind then .error (noAttr "reparentChildren") else
  if ns.children.isEmpty || isChildless ns.kind then pure s else
  if self = newParent then .error (.outOfFuel "dom.reparentChildren: newParent is self") else
  ns.children.foldlM (moveStep self newParent) s

/-- `_clone_node` for an element: `createElementNS(namespaceURI, nodeName)` then one
`setAttributeNS(attr.namespaceURI, attr.nodeName, attr.value)` per attribute in `_attrs` order -/
def cloneAttrs (m : AttrMap) : Except PyErr AttrMap :=
  m.byName.foldlM (fun acc a => acc.setAttributeNS a.nsURI a.name a.value) {}

/-- dom.py:109-110 `NodeBuilder(self.element.cloneNode(False))`.  A doctype that belongs to a document clones to
`None` (minidom.py:1327-1352), and `NodeBuilder(None)` raises `AttributeError`. -/
def cloneNode (s : St) (i : NodeId) : Except PyErr (St × NodeId) := do
  let n ← s.get i
  match n.kind with
  | .document => .error (noAttr "cloneNode")
  | .doctype .. => .error (.attributeError "'NoneType' object has no attribute 'nodeName'")
  | .fragment => pure (s.alloc { kind := .fragment })
  | .comment d => pure (s.alloc { kind := .comment d })
  | .element ns nm => do
    let am ← cloneAttrs n.attrs
    pure (s.alloc { kind := .element ns nm, attrs := am })

/-- dom.py:112-113 `self.element.hasChildNodes()` -/
def hasContent (s : St) (i : NodeId) : Except PyErr Bool := do
  let n ← s.get i
  if isDocument n.kind then .error (noAttr "hasContent")
  else if isChildless n.kind then pure false
  else pure (!n.children.isEmpty)

/-- `"%s:%s"` of a tuple key (dom.py:97-101) -/
def qualifiedName (pfx : Option Str) (loc : Str) : Str :=
  match pfx with
  | some p => p ++ 58 :: loc
  | none => loc

/-- one item of dom.py:96-106 -/
def attrStep (m : AttrMap) (kv : AttrKey × Str) : Except PyErr AttrMap :=
  match kv.1 with
  | .plain nm => m.setAttribute nm kv.2
  | .qual pfx loc uri => m.setAttributeNS (some uri) (qualifiedName pfx loc) kv.2

/-- dom.py:94-106 (no `clear`): `setAttributeNS(ns, prefix:local, value)` for a tuple key, `setAttribute` otherwise.
Assigning `attributes` on the `TreeBuilder` proxy just sets an attribute of that object. -/
def setAttributes (s : St) (i : NodeId) (attrs : List (AttrKey × Str)) : Except PyErr St := do
  let n ← s.get i
  if isDocument n.kind then pure s
  else if attrs.isEmpty then pure s
  else if !isElement n.kind then .error (.attributeError "object has no attribute 'setAttribute'")
  else do
    let am ← attrs.foldlM attrStep n.attrs
    pure (s.put i { n with attrs := am })

/-- `AttrList.items()` -/
def getAttributes (s : St) (i : NodeId) : Except PyErr (List (Str × Str)) := do
  let n ← s.get i
  if isDocument n.kind then .error (noAttr "attributes")
  else if !isElement n.kind then .error (.attributeError "'NoneType' object has no attribute 'items'")
  else pure n.attrs.items

/-- `AttrList.__setitem__` (dom.py:27-33): `createAttribute(name)`, `attr.value = value`,
`element.attributes[name] = attr` -/
def setAttrItem (s : St) (i : NodeId) (name value : Str) : Except PyErr St := do
  let n ← s.get i
  if isDocument n.kind then .error (noAttr "attributes")
  else if !isElement n.kind then .error (.typeError "'NoneType' object does not support item assignment")
  else do
    let am ← n.attrs.setNamedItem { name := name, value := value }
    pure (s.put i { n with attrs := am })

/-- `name in node.attributes` (`Mapping.__contains__` over `AttrList.__getitem__`) -/
def hasAttr (s : St) (i : NodeId) (name : Str) : Except PyErr Bool := do
  let n ← s.get i
  if isDocument n.kind then .error (noAttr "attributes")
  else if !isElement n.kind then .error (.typeError "'NoneType' object is not subscriptable")
  else pure (n.attrs.findName name).isSome

def parentOf (s : St) (i : NodeId) : Except PyErr (Option NodeId) := do
  let n ← s.get i
  if isDocument n.kind then .error (noAttr "parent") else pure n.wparent

/-- `NodeBuilder.childNodes` is the plain attribute of `base.Node`: never maintained, always `[]` -/
def childNodesOf (s : St) (i : NodeId) : Except PyErr (List NodeId) := do
  let n ← s.get i
  if isDocument n.kind then .error (noAttr "childNodes") else pure []

/-! #### `TreeBuilder` (dom.py:123-176) -/

def mkDocument (s : St) : St × NodeId := s.alloc { kind := .document }
def mkElement (s : St) (name : Str) (ns : Option Str) : St × NodeId := s.alloc { kind := .element ns name }
def mkComment (s : St) (data : Str) : St × NodeId := s.alloc { kind := .comment data }
def mkFragment (s : St) : St × NodeId := s.alloc { kind := .fragment }

/-- `DocumentType.__init__` : `if qualifiedName: prefix, localname = _nssplit(qualifiedName); self.name = localname` -/
def doctypeName (name : Option Str) : Option Str :=
  match name with
  | some (c :: r) => some (nssplit (c :: r)).2
  | _ => none

/-- dom.py:128-137 -/
def insertDoctype (s : St) (doc : NodeId) (name pub sys : Option Str) : Except PyErr (St × NodeId) := do
  let (s, d) := s.alloc { kind := .doctype (doctypeName name) pub sys }
  let s ← s.appendChild doc d
  pure (s, d)

def insertComment (s : St) (parent : NodeId) (data : Str) : Except PyErr (St × NodeId) := do
  let (s, c) := s.mkComment data
  let s ← s.appendChild parent c
  pure (s, c)

def createElement (s : St) (name : Str) (ns : Option Str) (attrs : List (AttrKey × Str)) :
    Except PyErr (St × NodeId) := do
  let (s, e) := s.mkElement name ns
  let s ← s.setAttributes e attrs
  pure (s, e)

/-- dom.py:162-163 + base.py:405-410 -/
def getFragment (s : St) (root : NodeId) : Except PyErr (St × NodeId) := do
  let (s, f) := s.mkFragment
  let s ← s.reparentChildren root f
  pure (s, f)

end St

/-! ### abstraction: what `tools/h5/trees.py:from_dom` + `merge_text` read -/

def attrAbs (a : DAttr) : Attr :=
  if truthy a.nsURI then { ns := a.nsURI, name := a.loc, value := a.value }
  else { ns := none, name := a.name, value := a.value }

def hdrOf (n : DNode) : Tree :=
  match n.kind with
  | .document => .doc []
  | .fragment => .frag []
  | .doctype nm p sy => .doctype nm p sy
  | .comment d => .comment d
  | .element ns nm => .elem ns nm (n.attrs.byName.map attrAbs) []

def hdrD (s : St) (i : NodeId) : Option Tree := (s.get? i).map hdrOf

/-- canonical form of a minidom child list: adjacent Text nodes concatenated -/
def canon : List DChild → Canon
  | [] => ([], [])
  | .text d :: rest => let r := canon rest; (d ++ r.1, r.2)
  | .node c :: rest => let r := canon rest; ([], (c, r.1) :: r.2)

def canonD (s : St) (i : NodeId) : Canon :=
  match s.get? i with
  | some n => canon n.children
  | none => ([], [])

/-- the tree of one child: a node (given the trees of nodes), or a Text node -/
def childTree (g : NodeId → Tree) : DChild → Tree
  | .node c => g c
  | .text d => .text d

/-- `from_dom` followed by `merge_text` -/
def absD (s : St) : Nat → NodeId → Tree
  | 0, _ => .doc []
  | fuel + 1, i =>
    match s.get? i with
    | none => .doc []
    | some n => setKids (hdrOf n) (mergeText (n.children.map (childTree (absD s fuel))))

def absOkD (s : St) : Nat → NodeId → Bool
  | 0, _ => false
  | fuel + 1, i =>
    match s.get? i with
    | none => false
    | some n =>
      match n.kind with
      | .document | .fragment | .element .. => n.children.all fun ch => match ch with
        | .node c => absOkD s fuel c
        | .text _ => true
      | _ => true

end H5.Model.Backend.MiniDom
