/-
  H5.Model.Backend.Common — what the two back-end models (ETree, MiniDom) share:
  Python list primitives (`index`, `insert`, `remove`), the insertion-ordered `dict`,
  the `{namespace}name` tag syntax of ElementTree, and the one-level canonical form
  (`Canon`) in which the child sequences of the two representations are compared.

  Canonical form of a child sequence:  `(t0, [(c1, t1), …, (cn, tn)])`  = text `t0`, then node
  `c1`, text `t1`, … .  This is literally the ElementTree representation (`text`, children with
  `tail`, `None` read as `""`); a minidom child list (nodes and Text nodes) is brought to it by
  concatenating adjacent Text nodes (`MiniDom.canon`).
-/
import H5.Basic
import H5.Model.Dom
namespace H5.Model.Backend
open H5
open H5.Model.Dom (AttrKey mergeText)

abbrev NodeId := Nat

/-! ### Python list primitives -/

/-- `l.index(x)`; `none` = `ValueError` -/
def pyIndex [DecidableEq α] (l : List α) (x : α) : Option Nat :=
  match l with
  | [] => none
  | y :: r => if y = x then some 0 else (pyIndex r x).map (· + 1)

/-- `l.insert(i, x)` for `i ≥ 0` (an index past the end appends, as in Python) -/
def pyInsert (l : List α) (i : Nat) (x : α) : List α := l.take i ++ x :: l.drop i

/-- `l.remove(x)` (first occurrence); `none` = `ValueError` -/
def pyRemove [DecidableEq α] (l : List α) (x : α) : Option (List α) :=
  match l with
  | [] => none
  | y :: r => if y = x then some r else (pyRemove r x).map (y :: ·)

/-- `d[k] = v` on an insertion-ordered dict: replace in place, else append -/
def dictSet [DecidableEq κ] (d : List (κ × ν)) (k : κ) (v : ν) : List (κ × ν) :=
  match d with
  | [] => [(k, v)]
  | (k', v') :: r => if k' = k then (k', v) :: r else (k', v') :: dictSet r k v

/-- `d.get(k)` -/
def dictGet [DecidableEq κ] (d : List (κ × ν)) (k : κ) : Option ν :=
  match d with
  | [] => none
  | (k', v') :: r => if k' = k then some v' else dictGet r k

/-- `del d[k]`; `none` = `KeyError` -/
def dictDel [DecidableEq κ] (d : List (κ × ν)) (k : κ) : Option (List (κ × ν)) :=
  match d with
  | [] => none
  | (k', v') :: r => if k' = k then some r else (dictDel r k).map ((k', v') :: ·)

/-- Python truthiness of an `Optional[str]` -/
def truthy (o : Option Str) : Bool :=
  match o with
  | some (_ :: _) => true
  | _ => false

/-- `if not x: x = ""` followed by `x += data` -/
def addStr (o : Option Str) (d : Str) : Option Str := some (o.getD [] ++ d)

/-! ### ElementTree's `{namespace}name` syntax -/

/-- `"{%s}%s" % (namespace, name)`, or the bare name (etree.py:37-42, 72-76) -/
def etreeTag (name : Str) (ns : Option Str) : Str :=
  match ns with
  | none => name
  | some n => 123 :: (n ++ 125 :: name)

/-- the reader's `re.compile(r"{([^}]*)}(.*)", re.S).match(tag)` (tools/h5/trees.py `split_tag`,
the same expression as html5lib's own `tag_regexp`) -/
def splitTag (tag : Str) : Option Str × Str :=
  match tag with
  | 123 :: rest =>
    if List.contains rest 125 then (some (rest.takeWhile (· != 125)), (rest.dropWhile (· != 125)).drop 1)
    else (none, tag)
  | _ => (none, tag)

def etreeAttrName : AttrKey → Str
  | .plain n => n
  | .qual _ loc uri => etreeTag loc (some uri)

/-! ### canonical one-level form and the abstract tree built from it -/

/-- `(t0, [(c1, t1), …])` -/
abbrev Canon := Str × List (NodeId × Str)

/-- `if s: [text s]` -/
def textTree (s : Str) : List Tree :=
  match s with
  | [] => []
  | _ :: _ => [.text s]

/-- the child trees of a canonical form, given the trees of the child nodes -/
def canonTrees (g : NodeId → Tree) (c : Canon) : List Tree :=
  textTree c.1 ++ c.2.flatMap (fun p => g p.1 :: textTree p.2)

/-- put the children into a header (a tree without children); leaves ignore them -/
def setKids : Tree → List Tree → Tree
  | .doc _, ks => .doc ks
  | .frag _, ks => .frag ks
  | .elem ns n a _, ks => .elem ns n a ks
  | t, _ => t

def isTextTree : Tree → Bool
  | .text _ => true
  | _ => false

end H5.Model.Backend
