/-
  H5.Model.Backend.ETree — model of html5lib/treebuilders/etree.py (the wrapper classes
  `Element`, `Comment`, `DocumentType`, `Document`, `DocumentFragment` and the `TreeBuilder`
  result forms) over an ElementTree-like heap.

  One heap cell per wrapper object AND its `_element` (they are created together, one-to-one,
  and never re-paired), so one `NodeId` names both.  A cell carries
    * the ElementTree element:  `tag`, `attrib` (insertion-ordered dict), `text`, `tail`,
      `kids` = `list(element)` (ElementTree elements have no parent pointer);
    * the wrapper state:        `cls` (Python class), `_name`, `_namespace`, `parent`, `_childNodes`.
  Every method is mirrored statement by statement; every Python exception is an explicit `PyErr`.
  `lookupError "etree:bad-node-id"` is not a Python exception but a malformed request.
-/
import H5.Model.Backend.Common
namespace H5.Model.Backend.ETree
open H5 H5.Model.Backend
open H5.Model.Dom (AttrKey)

/-! string constants as explicit code-point lists (kernel-friendly) -/
def sDocRoot : Str := [68, 79, 67, 85, 77, 69, 78, 84, 95, 82, 79, 79, 84]                      -- "DOCUMENT_ROOT"
def sDocFrag : Str := [68, 79, 67, 85, 77, 69, 78, 84, 95, 70, 82, 65, 71, 77, 69, 78, 84]      -- "DOCUMENT_FRAGMENT"
def sDoctype : Str := [60, 33, 68, 79, 67, 84, 89, 80, 69, 62]                                  -- "<!DOCTYPE>"
def sPublicId : Str := [112, 117, 98, 108, 105, 99, 73, 100]                                    -- "publicId"
def sSystemId : Str := [115, 121, 115, 116, 101, 109, 73, 100]                                  -- "systemId"
def sHtml : Str := [104, 116, 109, 108]                                                         -- "html"

/-- the Python class of the wrapper -/
inductive Cls where
  | element | comment | doctype | document | fragment
  deriving Repr, DecidableEq, BEq

/-- `element.tag`: a `str`, or the function object `ElementTree.Comment` -/
inductive ETag where
  | str (s : Str)
  | commentFn
  deriving Repr, DecidableEq, BEq

structure ENode where
  cls : Cls
  /-- `self._name` (`Comment.__init__` does not set it) -/
  name : Option Str := none
  /-- `self._namespace` -/
  ns : Option Str := none
  /-- `self.parent` -/
  parent : Option NodeId := none
  /-- `self._childNodes` : the shadow list of wrapper nodes -/
  childNodes : List NodeId := []
  tag : ETag
  attrib : List (Str × Str) := []
  text : Option Str := none
  tail : Option Str := none
  /-- `list(self._element)` -/
  kids : List NodeId := []
  deriving Repr, DecidableEq

structure St where
  nodes : List ENode := []
  deriving Repr, DecidableEq

namespace St

def get? (s : St) (i : NodeId) : Option ENode := s.nodes[i]?

def get (s : St) (i : NodeId) : Except PyErr ENode :=
  match s.get? i with
  | some n => .ok n
  | none => .error (.lookupError "etree:bad-node-id")

def put (s : St) (i : NodeId) (n : ENode) : St := { nodes := s.nodes.set i n }

def alloc (s : St) (n : ENode) : St × NodeId := ({ nodes := s.nodes ++ [n] }, s.nodes.length)

def size (s : St) : Nat := s.nodes.length

/-! ### constructors (etree.py:24-35, 151-158, 168-173, 193-199) -/

/-- `Element.__init__(name, namespace)` -/
def elementNode (name : Str) (ns : Option Str) : ENode :=
  { cls := .element, name := some name, ns := ns, tag := .str (etreeTag name ns) }

/-- `Comment.__init__(data)` : `ElementTree.Comment(data)`, no `_name` / `_namespace` -/
def commentNode (data : Str) : ENode :=
  { cls := .comment, tag := .commentFn, text := some data }

/-- `DocumentType.__init__(name, publicId, systemId)` : tag `<!DOCTYPE>`, `text = name`, the ids set as
attributes when they are not `None` -/
def doctypeNode (name pub sys : Option Str) : ENode :=
  let a0 : List (Str × Str) := []
  let a1 := match pub with | some p => dictSet a0 sPublicId p | none => a0
  let a2 := match sys with | some p => dictSet a1 sSystemId p | none => a1
  { cls := .doctype, name := some sDoctype, tag := .str sDoctype, text := name, attrib := a2 }

def documentNode : ENode :=
  { cls := .document, name := some sDocRoot, tag := .str sDocRoot }

def fragmentNode : ENode :=
  { cls := .fragment, name := some sDocFrag, tag := .str sDocFrag }

/-! ### the `Node` API -/

/-- etree.py:95-98
```
self._childNodes.append(node); self._element.append(node._element); node.parent = self
``` -/
def appendChild (s : St) (p c : NodeId) : Except PyErr St := do
  let np ← s.get p
  let _ ← s.get c
  let s := s.put p { np with childNodes := np.childNodes ++ [c], kids := np.kids ++ [c] }
  let nc ← s.get c
  pure (s.put c { nc with parent := some p })

/-- etree.py:100-104 (current code)
```
index = list(self._element).index(refNode._element)      # ValueError
self._element.insert(index, node._element); self._childNodes.insert(index, node); node.parent = self
``` -/
def insertBefore (s : St) (p node ref : NodeId) : Except PyErr St := do
  let np ← s.get p
  let _ ← s.get node
  let _ ← s.get ref
  match pyIndex np.kids ref with
  | none => .error (.valueError "list.index(x): x not in list")
  | some idx =>
    let s := s.put p { np with kids := pyInsert np.kids idx node, childNodes := pyInsert np.childNodes idx node }
    let nn ← s.get node
    pure (s.put node { nn with parent := some p })

/-- `insertBefore` as it was before fix f188c2f: the shadow list `_childNodes` is not updated -/
def insertBeforeOld (s : St) (p node ref : NodeId) : Except PyErr St := do
  let np ← s.get p
  let _ ← s.get node
  let _ ← s.get ref
  match pyIndex np.kids ref with
  | none => .error (.valueError "list.index(x): x not in list")
  | some idx =>
    let s := s.put p { np with kids := pyInsert np.kids idx node }
    let nn ← s.get node
    pure (s.put node { nn with parent := some p })

/-- etree.py:106-109
```
self._childNodes.remove(node)                # ValueError
self._element.remove(node._element)          # ValueError
node.parent = None
``` -/
def removeChild (s : St) (p node : NodeId) : Except PyErr St := do
  let np ← s.get p
  let _ ← s.get node
  match pyRemove np.childNodes node with
  | none => .error (.valueError "list.remove(x): x not in list")
  | some cn =>
    match pyRemove np.kids node with
    | none => .error (.valueError "Element.remove(x): x not in list")
    | some ks =>
      let s := s.put p { np with childNodes := cn, kids := ks }
      let nn ← s.get node
      pure (s.put node { nn with parent := none })

/-- etree.py:111-132, the three cases:
1. no child element: `text += data`;
2. `insertBefore is None`: the last child's `tail += data`;
3. before a child: the previous sibling's `tail += data`, or `text += data` for the first child
   (`children.index` raises `ValueError` when `insertBefore` is not a child).
(`if not x: x = ""` before each `+=`.) -/
def insertText (s : St) (p : NodeId) (data : Str) (before : Option NodeId) : Except PyErr St := do
  let np ← s.get p
  match np.kids.getLast? with
  | none => pure (s.put p { np with text := addStr np.text data })
  | some last =>
    match before with
    | none =>
      let nl ← s.get last
      pure (s.put last { nl with tail := addStr nl.tail data })
    | some ref =>
      let _ ← s.get ref
      match pyIndex np.kids ref with
      | none => .error (.valueError "list.index(x): x not in list")
      | some 0 => pure (s.put p { np with text := addStr np.text data })
      | some (idx + 1) =>
        match np.kids[idx]? with
        | none => .error (.indexError "child index out of range")
        | some k =>
          let nk ← s.get k
          pure (s.put k { nk with tail := addStr nk.tail data })

/-- etree.py:134-138  `type(self)(self.name, self.namespace)` + copy of a non-empty `attrib`.
Only `Element` itself has a two-argument constructor; `Comment` has no `_name`. -/
def cloneNode (s : St) (i : NodeId) : Except PyErr (St × NodeId) := do
  let n ← s.get i
  match n.cls with
  | .comment => .error (.attributeError "'Comment' object has no attribute '_name'")
  | .doctype => .error (.typeError "DocumentType.__init__() missing 1 required positional argument: 'systemId'")
  | .document => .error (.typeError "Document.__init__() takes 1 positional argument but 3 were given")
  | .fragment => .error (.typeError "DocumentFragment.__init__() takes 1 positional argument but 3 were given")
  | .element =>
    match n.name with
    | none => .error (.attributeError "_name")
    | some nm => pure (s.alloc { elementNode nm n.ns with attrib := n.attrib })

/-- etree.py:144-147, the new `text` of a target without children:
```
if not newParent._element.text: newParent._element.text = ""
if self._element.text is not None: newParent._element.text += self._element.text
``` -/
def reparentText (x y : Option Str) : Option Str :=
  let t0 : Option Str := if truthy x then x else some []
  match y with
  | some tx => some (t0.getD [] ++ tx)
  | none => t0

/-- etree.py:140-149 followed by base.py:106-108 (`for child in self.childNodes: newParent.appendChild(child)`,
then the `childNodes` setter: `del self._element[:]; self._childNodes = []`).

`newParent.childNodes[-1]._element.tail += self._element.text` raises `TypeError` when the tail is `None`
or when `self._element.text` is `None`.  The `for` loop iterates over the live list `self._childNodes`:
with `newParent is self` and a non-empty list it never ends (reported as `outOfFuel`). -/
def reparentChildren (s : St) (self newParent : NodeId) : Except PyErr St := do
  let ns ← s.get self
  let nn ← s.get newParent
  let s ← (match nn.childNodes.getLast? with
    | some last => do
      let nl ← s.get last
      match nl.tail, ns.text with
      | some tl, some tx => pure (s.put last { nl with tail := some (tl ++ tx) })
      | _, _ => .error (.typeError "unsupported operand type(s) for +=: str and NoneType")
    | none => pure (s.put newParent { nn with text := reparentText nn.text ns.text }) : Except PyErr St)
  let ns ← s.get self
  let s := s.put self { ns with text := some [] }
  let ns ← s.get self
  if self = newParent ∧ ns.childNodes ≠ [] then
    .error (.outOfFuel "etree.reparentChildren: newParent is self")
  else do
    let s ← ns.childNodes.foldlM (fun s c => appendChild s newParent c) s
    let ns ← s.get self
    pure (s.put self { ns with kids := [], childNodes := [] })

/-- etree.py:91-93 `bool(self._element.text or len(self._element))` -/
def hasContent (s : St) (i : NodeId) : Except PyErr Bool := do
  let n ← s.get i
  pure (truthy n.text || !n.kids.isEmpty)

/-- etree.py:65-76 : `attrib.clear()`, then one dict store per item, a tuple key `(prefix, local, ns)`
becoming `"{ns}local"` -/
def setAttributes (s : St) (i : NodeId) (attrs : List (AttrKey × Str)) : Except PyErr St := do
  let n ← s.get i
  pure (s.put i { n with attrib := attrs.foldl (fun d kv => dictSet d (etreeAttrName kv.1) kv.2) [] })

/-- `node.attributes` (the `attrib` dict itself): its items -/
def getAttributes (s : St) (i : NodeId) : Except PyErr (List (Str × Str)) := do
  let n ← s.get i
  pure n.attrib

/-- `node.attributes[name] = value` -/
def setAttrItem (s : St) (i : NodeId) (name value : Str) : Except PyErr St := do
  let n ← s.get i
  pure (s.put i { n with attrib := dictSet n.attrib name value })

/-- `name in node.attributes` -/
def hasAttr (s : St) (i : NodeId) (name : Str) : Except PyErr Bool := do
  let n ← s.get i
  pure (dictGet n.attrib name).isSome

def parentOf (s : St) (i : NodeId) : Except PyErr (Option NodeId) := do
  let n ← s.get i
  pure n.parent

def childNodesOf (s : St) (i : NodeId) : Except PyErr (List NodeId) := do
  let n ← s.get i
  pure n.childNodes

/-! ### `TreeBuilder` (base.py:289-308, 401-410; etree.py:317-339) -/

def mkElement (s : St) (name : Str) (ns : Option Str) : St × NodeId := s.alloc (elementNode name ns)
def mkComment (s : St) (data : Str) : St × NodeId := s.alloc (commentNode data)
def mkFragment (s : St) : St × NodeId := s.alloc fragmentNode
def mkDocument (s : St) : St × NodeId := s.alloc documentNode

/-- base.py:289-295 -/
def insertDoctype (s : St) (doc : NodeId) (name pub sys : Option Str) : Except PyErr (St × NodeId) := do
  let (s, d) := s.alloc (doctypeNode name pub sys)
  let s ← s.appendChild doc d
  pure (s, d)

/-- base.py:297-300 with an explicit parent -/
def insertComment (s : St) (parent : NodeId) (data : Str) : Except PyErr (St × NodeId) := do
  let (s, c) := s.mkComment data
  let s ← s.appendChild parent c
  pure (s, c)

/-- base.py:302-308 -/
def createElement (s : St) (name : Str) (ns : Option Str) (attrs : List (AttrKey × Str)) :
    Except PyErr (St × NodeId) := do
  let (s, e) := s.mkElement name ns
  let s ← s.setAttributes e attrs
  pure (s, e)

/-- `element.find(tag)` for a plain tag: the first child with that tag -/
def findChild (s : St) (kids : List NodeId) (tag : Str) : Option NodeId :=
  kids.find? fun k => match s.get? k with
    | some n => decide (n.tag = .str tag)
    | none => false

/-- etree.py:328-336 : the document element itself (`fullTree`), or `find("{ns}html")` / `find("html")` -/
def getDocument (s : St) (doc : NodeId) (fullTree : Bool) (defaultNs : Option Str) :
    Except PyErr (Option NodeId) := do
  let n ← s.get doc
  if fullTree then pure (some doc)
  else pure (s.findChild n.kids (etreeTag sHtml defaultNs))

/-- base.py:405-410 + etree.py:338-339 -/
def getFragment (s : St) (root : NodeId) : Except PyErr (St × NodeId) := do
  let (s, f) := s.mkFragment
  let s ← s.reparentChildren root f
  pure (s, f)

end St

/-! ### abstraction: what `tools/h5/trees.py:from_etree` reads -/

/-- one `attrib` item as `from_etree` reads it: `split_tag(key)` -/
def attrAbs (kv : Str × Str) : Attr :=
  let (ans, an) := splitTag kv.1
  { ns := ans, name := an, value := kv.2 }

/-- the node without its children (`from_etree`, by tag) -/
def hdrOf (n : ENode) : Tree :=
  match n.tag with
  | .commentFn => .comment (n.text.getD [])
  | .str t =>
    if t = sDocRoot then .doc []
    else if t = sDocFrag then .frag []
    else if t = sDoctype then .doctype n.text (dictGet n.attrib sPublicId) (dictGet n.attrib sSystemId)
    else
      let (ns, nm) := splitTag t
      .elem ns nm (n.attrib.map attrAbs) []

def tailOf (s : St) (k : NodeId) : Option Str :=
  match s.get? k with
  | some n => n.tail
  | none => none

/-- `(text or "", [(child, child.tail or "") …])` : the element's content is already in canonical form -/
def canonOfNode (s : St) (n : ENode) : Canon :=
  (n.text.getD [], n.kids.map fun k => (k, (tailOf s k).getD []))

def canonE (s : St) (i : NodeId) : Canon :=
  match s.get? i with
  | some n => canonOfNode s n
  | none => ([], [])

def hdrE (s : St) (i : NodeId) : Option Tree := (s.get? i).map hdrOf

/-- the abstract tree below node `i` (`from_etree` produces no adjacent and no empty text, so this is
also the merged form: `C04b.absE_children_merged`).  Fuel exhaustion / a bad id give `.doc []`;
`absOkE` tells whether that happened. -/
def absE (s : St) : Nat → NodeId → Tree
  | 0, _ => .doc []
  | fuel + 1, i =>
    match s.get? i with
    | none => .doc []
    | some n => setKids (hdrOf n) (canonTrees (absE s fuel) (canonOfNode s n))

/-- no fuel exhaustion and no bad id below `i` -/
def absOkE (s : St) : Nat → NodeId → Bool
  | 0, _ => false
  | fuel + 1, i =>
    match s.get? i with
    | none => false
    | some n =>
      match hdrOf n with
      | .doc _ | .frag _ | .elem .. => n.kids.all (absOkE s fuel)
      | _ => true

end H5.Model.Backend.ETree
