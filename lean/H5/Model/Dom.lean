/-
  H5.Model.Dom — arena DOM used by the tree-construction model.

  The primitives mirror the `Node` API of `html5lib/treebuilders/base.py` as the tree
  builder uses it (appendChild, insertText, insertBefore, removeChild, reparentChildren,
  cloneNode, hasContent, attributes).  The semantics is the *intended common semantics*
  of the two real back ends (`treebuilders/dom.py`, `treebuilders/etree.py`):

  * a node has at most one parent; `parent` is always the structural parent
    (appendChild / insertBefore detach the node from a previous parent first, as
    minidom does);
  * text is kept as text nodes (as the dom back end does); `toTree` merges adjacent
    text nodes (the etree back end can only represent merged text);
  * attributes are an insertion-ordered dict (Python `dict` / minidom `_attrs`).

  Everything is total; a bad node id is reported as `PyErr.lookupError` (an internal
  invariant violation of the model, not a Python exception).
-/
import H5.Basic
namespace H5.Model.Dom
open H5

abbrev NodeId := Nat

/-- A Python attribute key: a plain `str`, or the tuple `(prefix, localName, namespace)`
that `adjustForeignAttributes` produces. -/
inductive AttrKey where
  | plain (name : Str)
  | qual (pfx : Option Str) (loc : Str) (uri : Str)
  deriving Repr, DecidableEq, BEq

/-- insertion-ordered `dict` from attribute key to value -/
abbrev Attrs := List (AttrKey × Str)

namespace Attrs

def get? (a : Attrs) (k : AttrKey) : Option Str :=
  match a with
  | [] => none
  | (k', v) :: rest => if k' == k then some v else get? rest k

/-- `k in d` -/
def contains (a : Attrs) (k : AttrKey) : Bool := (get? a k).isSome

/-- `d[k] = v` : replaces the value in place if the key exists, else appends. -/
def set (a : Attrs) (k : AttrKey) (v : Str) : Attrs :=
  match a with
  | [] => [(k, v)]
  | (k', v') :: rest => if k' == k then (k', v) :: rest else (k', v') :: set rest k v

/-- `del d[k]` where the key is known to be present (no-op otherwise: callers test first) -/
def erase (a : Attrs) (k : AttrKey) : Attrs := a.filter (fun p => !(p.1 == k))

/-- `dict(pairs)` -/
def ofPairs (l : List (AttrKey × Str)) : Attrs := l.foldl (fun acc p => set acc p.1 p.2) []

/-- `d1 == d2` for dicts: same key set and same values, order-insensitive. -/
def eqMap (a b : Attrs) : Bool :=
  a.length == b.length && a.all (fun p => get? b p.1 == some p.2)

def keys (a : Attrs) : List AttrKey := a.map (·.1)

end Attrs

inductive Kind where
  | document
  | fragment
  | doctype (name pub sys : Option Str)
  | element (ns : Option Str) (name : Str)
  | text (data : Str)
  | comment (data : Str)
  deriving Repr, DecidableEq, BEq

structure Node where
  kind : Kind
  attrs : Attrs := []
  parent : Option NodeId := none
  children : List NodeId := []
  deriving Repr, BEq

structure Arena where
  nodes : Array Node := #[]
  deriving Repr

namespace Arena

def empty : Arena := {}

def get (a : Arena) (i : NodeId) : Except PyErr Node :=
  match a.nodes[i]? with
  | some n => .ok n
  | none => .error (.lookupError "arena:bad-node-id")

def put (a : Arena) (i : NodeId) (n : Node) : Arena :=
  { nodes := a.nodes.setIfInBounds i n }

def modify (a : Arena) (i : NodeId) (f : Node → Node) : Except PyErr Arena := do
  let n ← a.get i
  pure (a.put i (f n))

/-- allocate a fresh parentless, childless node -/
def alloc (a : Arena) (k : Kind) (attrs : Attrs := []) : Arena × NodeId :=
  ({ nodes := a.nodes.push { kind := k, attrs := attrs } }, a.nodes.size)

def parentOf (a : Arena) (i : NodeId) : Except PyErr (Option NodeId) := do
  let n ← a.get i; pure n.parent

def childrenOf (a : Arena) (i : NodeId) : Except PyErr (List NodeId) := do
  let n ← a.get i; pure n.children

/-- remove `child` from the child list of its current parent (if any) and clear its parent -/
def detach (a : Arena) (child : NodeId) : Except PyErr Arena := do
  let c ← a.get child
  match c.parent with
  | none => pure a
  | some p =>
    let a ← a.modify p fun pn => { pn with children := pn.children.filter (· != child) }
    a.modify child fun cn => { cn with parent := none }

/-- `parent.appendChild(child)` -/
def appendChild (a : Arena) (parent child : NodeId) : Except PyErr Arena := do
  let _ ← a.get parent
  let a ← a.detach child
  let a ← a.modify parent fun pn => { pn with children := pn.children ++ [child] }
  a.modify child fun cn => { cn with parent := some parent }

/-- insert `x` before the first occurrence of `ref`; `none` when `ref` does not occur -/
def insertBeforeList (l : List NodeId) (x ref : NodeId) : Option (List NodeId) :=
  match l with
  | [] => none
  | y :: rest =>
    if y == ref then some (x :: y :: rest)
    else (insertBeforeList rest x ref).map (y :: ·)

/-- `parent.insertBefore(node, refNode)`; `ValueError` (etree: `list.index`; minidom raises
`NotFoundErr`) when `refNode` is not a child of `parent`. -/
def insertBefore (a : Arena) (parent node ref : NodeId) : Except PyErr Arena := do
  let a ← a.detach node
  let pn ← a.get parent
  match insertBeforeList pn.children node ref with
  | none => .error (.valueError "Node.insertBefore:refNode-not-a-child")
  | some cs =>
    let a := a.put parent { pn with children := cs }
    a.modify node fun n => { n with parent := some parent }

/-- `parent.insertText(data, insertBefore)` : a new text node appended, or inserted before
`insertBefore`. -/
def insertText (a : Arena) (parent : NodeId) (data : Str) (before : Option NodeId) :
    Except PyErr Arena := do
  let (a, t) := a.alloc (.text data)
  match before with
  | none => a.appendChild parent t
  | some ref =>
    match a.insertBefore parent t ref with
    | .ok a => .ok a
    | .error _ => .error (.valueError "Node.insertText:insertBefore-not-a-child")

/-- `parent.removeChild(node)`; `ValueError` (etree `list.remove`) if `node` is not a child. -/
def removeChild (a : Arena) (parent node : NodeId) : Except PyErr Arena := do
  let pn ← a.get parent
  if pn.children.contains node then
    let a := a.put parent { pn with children := pn.children.filter (· != node) }
    a.modify node fun n => { n with parent := none }
  else .error (.valueError "Node.removeChild:not-a-child")

/-- `node.reparentChildren(newParent)` : all children, in order, appended to `newParent`. -/
def reparentChildren (a : Arena) (node newParent : NodeId) : Except PyErr Arena := do
  let n ← a.get node
  let _ ← a.get newParent
  let a ← n.children.foldlM (fun a c => a.modify c fun cn => { cn with parent := some newParent }) a
  let a ← a.modify node fun n => { n with children := [] }
  a.modify newParent fun pn => { pn with children := pn.children ++ n.children }

/-- `node.cloneNode()` : shallow copy (kind and attributes), no parent, no children. -/
def cloneNode (a : Arena) (node : NodeId) : Except PyErr (Arena × NodeId) := do
  let n ← a.get node
  pure (a.alloc n.kind n.attrs)

/-- `node.hasContent()` -/
def hasContent (a : Arena) (node : NodeId) : Except PyErr Bool := do
  let n ← a.get node
  pure (!n.children.isEmpty)

def attrsOf (a : Arena) (i : NodeId) : Except PyErr Attrs := do
  let n ← a.get i; pure n.attrs

/-- `node.attributes[k] = v` -/
def setAttr (a : Arena) (i : NodeId) (k : AttrKey) (v : Str) : Except PyErr Arena :=
  a.modify i fun n => { n with attrs := n.attrs.set k v }

end Arena

/-! ### Abstraction to `Tree` -/

def attrToTree (p : AttrKey × Str) : Attr :=
  match p.1 with
  | .plain n => { ns := none, name := n, value := p.2 }
  | .qual _ loc uri => { ns := some uri, name := loc, value := p.2 }

/-- merge adjacent text nodes, drop empty ones -/
def mergeText : List Tree → List Tree
  | [] => []
  | .text s :: rest =>
    match mergeText rest with
    | .text s' :: rest' => .text (s ++ s') :: rest'
    | rest' => if s.isEmpty then rest' else .text s :: rest'
  | t :: rest => t :: mergeText rest

def toTreeAux (a : Arena) : Nat → NodeId → Except PyErr Tree
  | 0, _ => .error (.outOfFuel "Dom.toTree")
  | fuel + 1, i => do
    let n ← a.get i
    match n.kind with
    | .text d => pure (.text d)
    | .comment d => pure (.comment d)
    | .doctype nm p s => pure (.doctype nm p s)
    | .document => do
      let cs ← n.children.mapM (toTreeAux a fuel)
      pure (.doc (mergeText cs))
    | .fragment => do
      let cs ← n.children.mapM (toTreeAux a fuel)
      pure (.frag (mergeText cs))
    | .element ns nm => do
      let cs ← n.children.mapM (toTreeAux a fuel)
      pure (.elem ns nm (n.attrs.map attrToTree) (mergeText cs))

/-- The abstract tree below node `i` (adjacent text merged).  The fuel is the number of
nodes + 1: a well-formed (acyclic) arena never exhausts it. -/
def toTreeE (a : Arena) (i : NodeId) : Except PyErr Tree := toTreeAux a (a.nodes.size + 1) i

/-- total variant: an ill-formed arena (bad id / cycle) is mapped to the empty document -/
def toTree (a : Arena) (i : NodeId) : Tree :=
  match toTreeE a i with
  | .ok t => t
  | .error _ => .doc []

end H5.Model.Dom
