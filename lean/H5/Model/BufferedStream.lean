/-
  H5.Model.BufferedStream — hand model of `_inputstream.BufferedStream` (html5lib/_inputstream.py 51-122), the replay
  buffer html5lib wraps around byte sources that cannot `seek`.  Tied by the correspondence op `bufstream`.

  The wrapped raw stream is its remaining data plus the caps of its next `read` calls (a cap models a short read;
  no caps left = full reads): `read(n)` returns the next `min(n, cap)` bytes.
-/
import H5.Basic
namespace H5.Model.BufferedStream
open H5

abbrev Bytes := List Nat

structure Raw where
  data : Bytes
  caps : List Nat
  deriving Repr, DecidableEq

/-- `self.stream.read(n)` for `n ≥ 0` -/
def Raw.read (r : Raw) (n : Nat) : Bytes × Raw :=
  if n = 0 then ([], r)
  else
    let k := match r.caps with
      | [] => n
      | c :: _ => min n c
    (r.data.take k, { data := r.data.drop k, caps := r.caps.drop 1 })

/-- attributes of `BufferedStream` (58-61): `position = [chunk number, offset]`, initially `[-1, 0]` -/
structure BS where
  raw : Raw
  buffer : List Bytes
  posChunk : Int
  posOff : Int
  deriving Repr, DecidableEq

def init (raw : Raw) : BS := { raw := raw, buffer := [], posChunk := -1, posOff := 0 }

/-- `_bufferedBytes()` (88-89) -/
def bufferedBytes (s : BS) : Nat := (s.buffer.map List.length).sum

/-- `tell()` (63-68); `self.buffer[:self.position[0]]` with a negative stop counts from the end -/
def tell (s : BS) : Int :=
  let upto : List Bytes :=
    if s.posChunk < 0 then s.buffer.take (s.buffer.length - (-s.posChunk).toNat)
    else s.buffer.take s.posChunk.toNat
  ((upto.map List.length).sum : Nat) + s.posOff

/-- the `while` loop of `seek` (74-76); `self.buffer[i]` raises IndexError past the end -/
def seekLoop (buffer : List Bytes) : Nat → Nat → Int → Except PyErr (Nat × Int)
  | 0, _, _ => .error (.outOfFuel "BufferedStream.seek")
  | fuel + 1, i, offset =>
    match buffer[i]? with
    | none => .error (.indexError "BufferedStream.seek: buffer[i]")
    | some b =>
      if (b.length : Int) < offset then seekLoop buffer fuel (i + 1) (offset - b.length)
      else .ok (i, offset)

/-- `seek(pos)` (70-77) -/
def seek (s : BS) (pos : Int) : Except PyErr BS :=
  if ¬ pos ≤ bufferedBytes s then .error (.assertFail "BufferedStream.seek: pos <= _bufferedBytes()")     -- 71
  else
    match seekLoop s.buffer (s.buffer.length + 1) 0 pos with
    | .error e => .error e
    | .ok (i, off) => .ok { s with posChunk := i, posOff := off }                                      -- 77

/-- `_readStream(bytes)` (91-96) -/
def readStream (s : BS) (n : Nat) : Bytes × BS :=
  let r := s.raw.read n                                                                              -- 92
  (r.1, { raw := r.2, buffer := s.buffer ++ [r.1],                                                   -- 93
          posChunk := s.posChunk + 1, posOff := r.1.length })                                        -- 94-95

/-- the `while` loop of `_readFromBuffer` (103-117): state, bufferIndex, bufferOffset, remainingBytes, rv -/
def readFromBufferLoop : Nat → BS → Int → Int → Int → Bytes → Except PyErr (BS × Int × Bytes)
  | 0, _, _, _, _, _ => .error (.outOfFuel "BufferedStream._readFromBuffer")
  | fuel + 1, s, bufferIndex, bufferOffset, remaining, rv =>
    if bufferIndex < s.buffer.length ∧ remaining ≠ 0 then                                            -- 103
      if ¬ remaining > 0 then .error (.assertFail "BufferedStream._readFromBuffer: remainingBytes > 0")  -- 104
      else
        -- 105: `self.buffer[bufferIndex]` (a negative index counts from the end)
        let idx : Option Nat :=
          if bufferIndex ≥ 0 then some bufferIndex.toNat
          else if (-bufferIndex).toNat ≤ s.buffer.length then some (s.buffer.length - (-bufferIndex).toNat) else none
        match idx.bind (fun i => s.buffer[i]?) with
        | none => .error (.indexError "BufferedStream._readFromBuffer: buffer[bufferIndex]")
        | some bufferedData =>
          let avail : Int := (bufferedData.length : Int) - bufferOffset
          if remaining ≤ avail then                                                                  -- 107
            let bytesToRead := remaining                                                             -- 108
            let s := { s with posChunk := bufferIndex, posOff := bufferOffset + bytesToRead }        -- 109
            let piece := (bufferedData.drop bufferOffset.toNat).take bytesToRead.toNat               -- 114
            readFromBufferLoop fuel s bufferIndex 0 (remaining - bytesToRead) (rv ++ piece)          -- 115-117
          else
            let bytesToRead := avail                                                                 -- 111
            let s := { s with posChunk := bufferIndex, posOff := bufferedData.length }               -- 112
            let piece := (bufferedData.drop bufferOffset.toNat).take bytesToRead.toNat               -- 114
            readFromBufferLoop fuel s (bufferIndex + 1) 0 (remaining - bytesToRead) (rv ++ piece)    -- 113-117
    else .ok (s, remaining, rv)

/-- `_readFromBuffer(bytes)` (98-122) -/
def readFromBuffer (s : BS) (n : Int) : Except PyErr (Bytes × BS) :=
  match readFromBufferLoop (s.buffer.length + 2) s s.posChunk s.posOff n [] with
  | .error e => .error e
  | .ok (s, remaining, rv) =>
    if remaining ≠ 0 then                                                                            -- 119
      if remaining < 0 then .error (.valueError "read with a negative size")
      else
        let r := readStream s remaining.toNat                                                        -- 120
        .ok (rv ++ r.1, r.2)
    else .ok (rv, s)                                                                                 -- 122

/-- `read(bytes)` (79-86) for `bytes ≥ 0` -/
def read (s : BS) (n : Nat) : Except PyErr (Bytes × BS) :=
  if s.buffer.isEmpty then .ok (readStream s n)                                                      -- 80-81
  else if s.posChunk = s.buffer.length ∧ some s.posOff = (s.buffer.getLast?.map fun b => (b.length : Int)) then
    .ok (readStream s n)                                                                             -- 82-84
  else readFromBuffer s n                                                                            -- 85-86

/-! ### call scripts (driver op `bufstream`) -/

inductive Call where
  | read (n : Nat)
  | seek (pos : Nat)
  | tell
  deriving Repr, DecidableEq

inductive Res where
  | bytes (b : Bytes)
  | unit
  | int (n : Int)
  deriving Repr, DecidableEq

def exec : List Call → BS → List Res → Except PyErr (List Res × BS)
  | [], s, out => .ok (out.reverse, s)
  | .read n :: rest, s, out =>
    match read s n with
    | .error e => .error e
    | .ok (b, s') => exec rest s' (.bytes b :: out)
  | .seek p :: rest, s, out =>
    match seek s p with
    | .error e => .error e
    | .ok s' => exec rest s' (.unit :: out)
  | .tell :: rest, s, out => exec rest s (.int (tell s) :: out)

def run (data : Bytes) (caps : List Nat) (script : List Call) : Except PyErr (List Res × BS) :=
  exec script (init { data := data, caps := caps }) []

end H5.Model.BufferedStream
