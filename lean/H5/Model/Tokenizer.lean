/-
  H5.Model.Tokenizer — hand model of `html5lib/_tokenizer.py` (`HTMLTokenizer`).

  One Lean function per Python state method, same name, same branch order; each returns
  `Except PyErr (Bool × St)` where the `Bool` is the Python return value (`False` = stop).
  The stream is the remaining input (`St.input`), see `H5.Model.Stream`.

  Not modelled because the code never reads them: `escapeFlag`, `lastFourChars`, `escape`
  (set in `__init__`, dead), `selfClosingAcknowledged` (read by the parser only).
-/
import H5.Basic
import H5.Gen.Constants
import H5.Gen.Entities
import H5.Model.CharRef
namespace H5.Model.Tokenizer
open H5 H5.Gen H5.Model

/-- one constructor per state method of `HTMLTokenizer` -/
inductive State where
  | dataState | entityDataState | rcdataState | characterReferenceInRcdata
  | rawtextState | scriptDataState | plaintextState
  | tagOpenState | closeTagOpenState | tagNameState
  | rcdataLessThanSignState | rcdataEndTagOpenState | rcdataEndTagNameState
  | rawtextLessThanSignState | rawtextEndTagOpenState | rawtextEndTagNameState
  | scriptDataLessThanSignState | scriptDataEndTagOpenState | scriptDataEndTagNameState
  | scriptDataEscapeStartState | scriptDataEscapeStartDashState
  | scriptDataEscapedState | scriptDataEscapedDashState | scriptDataEscapedDashDashState
  | scriptDataEscapedLessThanSignState | scriptDataEscapedEndTagOpenState
  | scriptDataEscapedEndTagNameState
  | scriptDataDoubleEscapeStartState | scriptDataDoubleEscapedState
  | scriptDataDoubleEscapedDashState | scriptDataDoubleEscapedDashDashState
  | scriptDataDoubleEscapedLessThanSignState | scriptDataDoubleEscapeEndState
  | beforeAttributeNameState | attributeNameState | afterAttributeNameState
  | beforeAttributeValueState | attributeValueDoubleQuotedState
  | attributeValueSingleQuotedState | attributeValueUnQuotedState
  | afterAttributeValueState | selfClosingStartTagState
  | bogusCommentState | markupDeclarationOpenState
  | commentStartState | commentStartDashState | commentState | commentEndDashState
  | commentEndState | commentEndBangState
  | doctypeState | beforeDoctypeNameState | doctypeNameState | afterDoctypeNameState
  | afterDoctypePublicKeywordState | beforeDoctypePublicIdentifierState
  | doctypePublicIdentifierDoubleQuotedState | doctypePublicIdentifierSingleQuotedState
  | afterDoctypePublicIdentifierState | betweenDoctypePublicAndSystemIdentifiersState
  | afterDoctypeSystemKeywordState | beforeDoctypeSystemIdentifierState
  | doctypeSystemIdentifierDoubleQuotedState | doctypeSystemIdentifierSingleQuotedState
  | afterDoctypeSystemIdentifierState | bogusDoctypeState
  | cdataSectionState
  deriving Repr, DecidableEq, BEq

/-- The shapes `self.currentToken` takes.

* `startTag` / `endTag`: a tag under construction; `data` is the *list* of `[name, value]`
  pairs, in source order.
* `emittedStartTag name`: a StartTag token after `emitCurrentToken` (its `data` has become a
  dict, so the list operations of the attribute states no longer apply), and also the dict
  `{"type": ..., "name": n}` that the upstream test harness plants for "last start tag".
  Only `name` is ever read from it.
* an emitted EndTag stays `endTag` (Python does not convert its `data`). -/
inductive CurTok where
  | startTag (name : Str) (data : List (Str × Str)) (selfClosing : Bool)
  | endTag (name : Str) (data : List (Str × Str)) (selfClosing : Bool)
  | emittedStartTag (name : Str)
  | comment (data : Str)
  | doctype (name : Str) (publicId systemId : Option Str) (correct : Bool)
  deriving Repr, DecidableEq, BEq

structure St where
  state : State
  /-- remaining input (the stream) -/
  input : List Nat
  currentToken : Option CurTok
  /-- `self.temporaryBuffer`; `none` = attribute not yet created -/
  temporaryBuffer : Option Str
  /-- `self.tokenQueue` (front = head) -/
  tokenQueue : List TTok
  /-- value of `parser is not None and openElements and openElements[-1].namespace != defaultNamespace` -/
  cdataAllowed : Bool
  deriving Repr, DecidableEq, BEq

/-! ### Stream / queue helpers -/

def St.char (s : St) : Option Nat × St :=
  let (c, i) := Stream.char s.input
  (c, { s with input := i })

def St.unget (s : St) (c : Option Nat) : St := { s with input := Stream.unget s.input c }

def St.charsUntil (s : St) (characters : List Nat) (opposite : Bool := false) : Str × St :=
  let (r, i) := Stream.charsUntil s.input characters opposite
  (r, { s with input := i })

/-- `self.tokenQueue.append(t)` -/
def St.emit (s : St) (t : TTok) : St := { s with tokenQueue := s.tokenQueue ++ [t] }

/-- `self.tokenQueue.append({"type": ParseError, "data": code})` -/
def St.parseError (s : St) (code : String) : St := s.emit (perr code)

/-- `self.tokenQueue.append({"type": Characters, "data": d})` -/
def St.emitChars (s : St) (d : Str) : St := s.emit (.chars d)

/-- `self.state = self.xState` -/
def St.to (s : St) (st : State) : St := { s with state := st }

def ok (s : St) : Except PyErr (Bool × St) := .ok (true, s)

/-! ### `self.currentToken[...]` accessors (each failure is the Python exception) -/

def CurTok.nameE : CurTok → Except PyErr Str
  | .startTag n _ _ | .endTag n _ _ | .emittedStartTag n | .doctype n _ _ _ => .ok n
  | .comment _ => .error (.keyError "currentToken['name']")

/-- `token["name"] = f(token["name"])` -/
def CurTok.modName (f : Str → Str) : CurTok → Except PyErr CurTok
  | .startTag n d sc => .ok (.startTag (f n) d sc)
  | .endTag n d sc => .ok (.endTag (f n) d sc)
  | .emittedStartTag n => .ok (.emittedStartTag (f n))
  | .doctype n p sy c => .ok (.doctype (f n) p sy c)
  | .comment _ => .error (.keyError "currentToken['name']")

/-- `token["data"]` as the attribute list -/
def CurTok.attrsE : CurTok → Except PyErr (List (Str × Str))
  | .startTag _ d _ | .endTag _ d _ => .ok d
  | .emittedStartTag _ => .error (.keyError "currentToken['data'] (no list under 'data')")
  | .comment _ => .error (.typeError "currentToken['data'] is a str")
  | .doctype .. => .error (.keyError "currentToken['data']")

def CurTok.setAttrs (d : List (Str × Str)) : CurTok → Except PyErr CurTok
  | .startTag n _ sc => .ok (.startTag n d sc)
  | .endTag n _ sc => .ok (.endTag n d sc)
  | _ => .error (.typeError "currentToken['data'] is not a list")

/-- `token["data"].append([name, ""])` -/
def CurTok.appendAttr (name : Str) (t : CurTok) : Except PyErr CurTok := do
  let d ← t.attrsE
  t.setAttrs (d ++ [(name, [])])

/-- apply `f` to `token["data"][-1]`; `IndexError` on an empty list -/
def CurTok.modLastAttr (f : Str × Str → Str × Str) (t : CurTok) : Except PyErr CurTok := do
  let d ← t.attrsE
  match d.getLast? with
  | none => .error (.indexError "currentToken['data'][-1]")
  | some a => t.setAttrs (d.dropLast ++ [f a])

/-- `token["data"][-1][0] += x` -/
def CurTok.addAttrName (x : Str) : CurTok → Except PyErr CurTok :=
  CurTok.modLastAttr fun a => (a.1 ++ x, a.2)

/-- `token["data"][-1][1] += x` -/
def CurTok.addAttrValue (x : Str) : CurTok → Except PyErr CurTok :=
  CurTok.modLastAttr fun a => (a.1, a.2 ++ x)

/-- `token["data"] += x` on a Comment token -/
def CurTok.addData (x : Str) : CurTok → Except PyErr CurTok
  | .comment d => .ok (.comment (d ++ x))
  | .doctype .. | .emittedStartTag _ => .error (.keyError "currentToken['data']")
  | _ => .error (.typeError "currentToken['data'] += str on a tag (list += str)")

/-- `token["selfClosing"] = True` -/
def CurTok.setSelfClosing : CurTok → Except PyErr CurTok
  | .startTag n d _ => .ok (.startTag n d true)
  | .endTag n d _ => .ok (.endTag n d true)
  | _ => .error (.typeError "currentToken['selfClosing'] on a non-tag")

/-- `token["correct"] = False` -/
def CurTok.setIncorrect : CurTok → Except PyErr CurTok
  | .doctype n p s _ => .ok (.doctype n p s false)
  | _ => .error (.typeError "currentToken['correct'] on a non-doctype")

/-- `token["publicId"] = ""` -/
def CurTok.initPublicId : CurTok → Except PyErr CurTok
  | .doctype n _ s c => .ok (.doctype n (some []) s c)
  | _ => .error (.typeError "currentToken['publicId'] on a non-doctype")

/-- `token["systemId"] = ""` -/
def CurTok.initSystemId : CurTok → Except PyErr CurTok
  | .doctype n p _ c => .ok (.doctype n p (some []) c)
  | _ => .error (.typeError "currentToken['systemId'] on a non-doctype")

/-- `token["publicId"] += x` (`None += str` is a `TypeError`) -/
def CurTok.addPublicId (x : Str) : CurTok → Except PyErr CurTok
  | .doctype n (some p) s c => .ok (.doctype n (some (p ++ x)) s c)
  | .doctype _ none _ _ => .error (.typeError "None += str (publicId)")
  | _ => .error (.keyError "currentToken['publicId']")

/-- `token["systemId"] += x` -/
def CurTok.addSystemId (x : Str) : CurTok → Except PyErr CurTok
  | .doctype n p (some s) c => .ok (.doctype n p (some (s ++ x)) c)
  | .doctype _ _ none _ => .error (.typeError "None += str (systemId)")
  | _ => .error (.keyError "currentToken['systemId']")

/-- the token dict as it is yielded -/
def CurTok.toTTok : CurTok → Except PyErr TTok
  | .startTag n d sc => .ok (.startTag n d sc)
  | .endTag n d sc => .ok (.endTag n d sc)
  | .comment d => .ok (.comment d)
  | .doctype n p s c => .ok (.doctype (some n) p s c)
  | .emittedStartTag _ => .error (.keyError "re-emitting an emitted StartTag")

/-- `self.currentToken` where the code subscripts it: `TypeError` on `None` -/
def St.cur (s : St) : Except PyErr CurTok :=
  match s.currentToken with
  | none => .error (.typeError "'NoneType' object is not subscriptable (currentToken)")
  | some t => .ok t

/-- mutate `self.currentToken` in place -/
def St.modCur (s : St) (f : CurTok → Except PyErr CurTok) : Except PyErr St := do
  let t ← s.cur
  let t' ← f t
  pure { s with currentToken := some t' }

/-- `self.tokenQueue.append(self.currentToken)` -/
def St.emitCur (s : St) : Except PyErr St := do
  let t ← s.cur
  let tt ← t.toTTok
  pure (s.emit tt)

/-- reading `self.temporaryBuffer` (`AttributeError` before the first assignment) -/
def St.tempBuf (s : St) : Except PyErr Str :=
  match s.temporaryBuffer with
  | none => .error (.lookupError "AttributeError: temporaryBuffer")
  | some b => .ok b

/-- `self.temporaryBuffer += x` -/
def St.addTempBuf (s : St) (x : Str) : Except PyErr St := do
  let b ← s.tempBuf
  pure { s with temporaryBuffer := some (b ++ x) }

def St.setTempBuf (s : St) (x : Str) : St := { s with temporaryBuffer := some x }

/-! ### Python dicts (insertion ordered) for `emitCurrentToken` -/

/-- `d[k] = v` -/
def dictSet : List (Str × Str) → Str → Str → List (Str × Str)
  | [], k, v => [(k, v)]
  | (k', v') :: rest, k, v => if k' = k then (k', v) :: rest else (k', v') :: dictSet rest k v

/-- `d.update(pairs)` -/
def dictUpdate (d : List (Str × Str)) (pairs : List (Str × Str)) : List (Str × Str) :=
  pairs.foldl (fun d kv => dictSet d kv.1 kv.2) d

/-- `dict(pairs)` -/
def dictOfPairs (pairs : List (Str × Str)) : List (Str × Str) := dictUpdate [] pairs

/-- lines 228-253 -/
def emitCurrentToken (s : St) : Except PyErr St := do
  let token ← s.cur                       -- token["type"]: TypeError on None
  match token with
  | .startTag name raw sc =>
    let name := translateUpper2Lower name
    let data := dictOfPairs raw
    -- we had some duplicated attribute, fix so first wins
    let data := if raw.length > data.length then dictUpdate data raw.reverse else data
    let s := s.emit (.startTag name data sc)
    pure ({ s with currentToken := some (.emittedStartTag name) }.to .dataState)
  | .endTag name data sc =>
    let name := translateUpper2Lower name
    let s := if !data.isEmpty then s.parseError "attributes-in-end-tag" else s
    let s := if sc then s.parseError "self-closing-flag-on-end-tag" else s
    let s := s.emit (.endTag name data sc)
    pure ({ s with currentToken := some (.endTag name data sc) }.to .dataState)
  | .emittedStartTag _ => .error (.keyError "emitCurrentToken: token['data']")
  | .comment _ | .doctype .. =>
    let s ← s.emitCur
    pure (s.to .dataState)

/-- lines 214-221 of `consumeEntity` on top of `consumeEntityCore` -/
def consumeEntity (s : St) (allowedChar : Option Nat := none) (fromAttribute : Bool := false) :
    Except PyErr St := do
  let (output, errs, input) ← consumeEntityCore allowedChar fromAttribute s.input
  let s := { s with input := input, tokenQueue := s.tokenQueue ++ errs }
  if fromAttribute then
    s.modCur (CurTok.addAttrValue output)
  else
    -- `output in spaceCharacters`: a one-character string that is a space character
    let isSpace := match output with
      | [c] => spaceCharacters.contains c
      | _ => false
    pure (s.emit (if isSpace then .space output else .chars output))

/-- lines 223-226 -/
def processEntityInAttribute (s : St) (allowedChar : Nat) : Except PyErr St :=
  consumeEntity s (some allowedChar) true

/-! ### The states -/

/-- lines 256-283 -/
def dataState (s : St) : Except PyErr (Bool × St) := do
  let (data, s) := s.char
  if data = some Ch.amp then
    ok (s.to .entityDataState)
  else if data = some Ch.lt then
    ok (s.to .tagOpenState)
  else if data = some Ch.nul then
    ok ((s.parseError "invalid-codepoint").emitChars [Ch.nul])
  else if data = none then
    -- Tokenization ends.
    pure (false, s)
  else if isIn data spaceCharacters then
    let d ← nonEOF data
    let (cs, s) := s.charsUntil spaceCharacters true
    ok (s.emit (.space (d :: cs)))
  else
    let d ← nonEOF data
    let (chars, s) := s.charsUntil [Ch.amp, Ch.lt, Ch.nul]
    ok (s.emitChars (d :: chars))

/-- lines 285-288 -/
def entityDataState (s : St) : Except PyErr (Bool × St) := do
  let s ← consumeEntity s
  ok (s.to .dataState)

/-- lines 290-317 -/
def rcdataState (s : St) : Except PyErr (Bool × St) := do
  let (data, s) := s.char
  if data = some Ch.amp then
    ok (s.to .characterReferenceInRcdata)
  else if data = some Ch.lt then
    ok (s.to .rcdataLessThanSignState)
  else if data = none then
    pure (false, s)
  else if data = some Ch.nul then
    ok ((s.parseError "invalid-codepoint").emitChars [Ch.repl])
  else if isIn data spaceCharacters then
    let d ← nonEOF data
    let (cs, s) := s.charsUntil spaceCharacters true
    ok (s.emit (.space (d :: cs)))
  else
    let d ← nonEOF data
    let (chars, s) := s.charsUntil [Ch.amp, Ch.lt, Ch.nul]
    ok (s.emitChars (d :: chars))

/-- lines 319-322 -/
def characterReferenceInRcdata (s : St) : Except PyErr (Bool × St) := do
  let s ← consumeEntity s
  ok (s.to .rcdataState)

/-- lines 324-340 -/
def rawtextState (s : St) : Except PyErr (Bool × St) := do
  let (data, s) := s.char
  if data = some Ch.lt then
    ok (s.to .rawtextLessThanSignState)
  else if data = some Ch.nul then
    ok ((s.parseError "invalid-codepoint").emitChars [Ch.repl])
  else if data = none then
    pure (false, s)
  else
    let d ← nonEOF data
    let (chars, s) := s.charsUntil [Ch.lt, Ch.nul]
    ok (s.emitChars (d :: chars))

/-- lines 342-358 -/
def scriptDataState (s : St) : Except PyErr (Bool × St) := do
  let (data, s) := s.char
  if data = some Ch.lt then
    ok (s.to .scriptDataLessThanSignState)
  else if data = some Ch.nul then
    ok ((s.parseError "invalid-codepoint").emitChars [Ch.repl])
  else if data = none then
    pure (false, s)
  else
    let d ← nonEOF data
    let (chars, s) := s.charsUntil [Ch.lt, Ch.nul]
    ok (s.emitChars (d :: chars))

/-- lines 360-373 -/
def plaintextState (s : St) : Except PyErr (Bool × St) := do
  let (data, s) := s.char
  if data = none then
    pure (false, s)
  else if data = some Ch.nul then
    ok ((s.parseError "invalid-codepoint").emitChars [Ch.repl])
  else
    let d ← nonEOF data
    let (chars, s) := s.charsUntil [Ch.nul]
    ok (s.emitChars (d :: chars))

/-- lines 375-408 -/
def tagOpenState (s : St) : Except PyErr (Bool × St) := do
  let (data, s) := s.char
  if data = some Ch.bang then
    ok (s.to .markupDeclarationOpenState)
  else if data = some Ch.slash then
    ok (s.to .closeTagOpenState)
  else if isIn data asciiLetters then
    let d ← nonEOF data
    ok ({ s with currentToken := some (.startTag [d] [] false) }.to .tagNameState)
  else if data = some Ch.gt then
    let s := s.parseError "expected-tag-name-but-got-right-bracket"
    ok ((s.emitChars [Ch.lt, Ch.gt]).to .dataState)
  else if data = some Ch.qmark then
    let s := s.parseError "expected-tag-name-but-got-question-mark"
    ok ((s.unget data).to .bogusCommentState)
  else
    let s := s.parseError "expected-tag-name"
    let s := s.emitChars [Ch.lt]
    ok ((s.unget data).to .dataState)

/-- lines 410-432 -/
def closeTagOpenState (s : St) : Except PyErr (Bool × St) := do
  let (data, s) := s.char
  if isIn data asciiLetters then
    let d ← nonEOF data
    ok ({ s with currentToken := some (.endTag [d] [] false) }.to .tagNameState)
  else if data = some Ch.gt then
    ok ((s.parseError "expected-closing-tag-but-got-right-bracket").to .dataState)
  else if data = none then
    let s := s.parseError "expected-closing-tag-but-got-eof"
    ok ((s.emitChars [Ch.lt, Ch.slash]).to .dataState)
  else
    let s := s.emit (.parseError (lit "expected-closing-tag-but-got-char") [(lit "data", pyStrOfChar data)])
    ok ((s.unget data).to .bogusCommentState)

/-- lines 434-454 -/
def tagNameState (s : St) : Except PyErr (Bool × St) := do
  let (data, s) := s.char
  if isIn data spaceCharacters then
    ok (s.to .beforeAttributeNameState)
  else if data = some Ch.gt then
    let s ← emitCurrentToken s
    ok s
  else if data = none then
    ok ((s.parseError "eof-in-tag-name").to .dataState)
  else if data = some Ch.slash then
    ok (s.to .selfClosingStartTagState)
  else if data = some Ch.nul then
    let s ← (s.parseError "invalid-codepoint").modCur (CurTok.modName (· ++ [Ch.repl]))
    ok s
  else
    let d ← nonEOF data
    let s ← s.modCur (CurTok.modName (· ++ [d]))
    ok s

/-- `appropriate = self.currentToken and self.currentToken["name"].lower() == self.temporaryBuffer.lower()`
(first line of the five `...EndTagNameState` methods). `None` counts as `False`. -/
def appropriate (s : St) : Except PyErr Bool :=
  match s.currentToken with
  | none => .ok false
  | some t => do
    let name ← t.nameE
    let buf ← s.tempBuf
    pure (pyLower name == pyLower buf)

/-- `self.currentToken = {"type": EndTag, "name": self.temporaryBuffer, "data": [], "selfClosing": False}` -/
def St.newEndTagFromBuffer (s : St) : Except PyErr St := do
  let buf ← s.tempBuf
  pure { s with currentToken := some (.endTag buf [] false) }

/-- The common body of `rcdataEndTagNameState` (478-504), `rawtextEndTagNameState` (528-554),
`scriptDataEndTagNameState` (581-607) and `scriptDataEscapedEndTagNameState` (717-743), which
differ only in the state they fall back to. -/
def endTagNameBody (fallback : State) (s : St) : Except PyErr (Bool × St) := do
  let appropriate ← appropriate s
  let (data, s) := s.char
  if isIn data spaceCharacters && appropriate then
    let s ← s.newEndTagFromBuffer
    ok (s.to .beforeAttributeNameState)
  else if data == some Ch.slash && appropriate then
    let s ← s.newEndTagFromBuffer
    ok (s.to .selfClosingStartTagState)
  else if data == some Ch.gt && appropriate then
    let s ← s.newEndTagFromBuffer
    let s ← emitCurrentToken s
    ok (s.to .dataState)
  else if isIn data asciiLetters then
    let d ← nonEOF data
    let s ← s.addTempBuf [d]
    ok s
  else
    let buf ← s.tempBuf
    let s := s.emitChars ([Ch.lt, Ch.slash] ++ buf)
    ok ((s.unget data).to fallback)

/-- lines 456-465 -/
def rcdataLessThanSignState (s : St) : Except PyErr (Bool × St) := do
  let (data, s) := s.char
  if data = some Ch.slash then
    ok ((s.setTempBuf []).to .rcdataEndTagOpenState)
  else
    let s := s.emitChars [Ch.lt]
    ok ((s.unget data).to .rcdataState)

/-- lines 467-476 -/
def rcdataEndTagOpenState (s : St) : Except PyErr (Bool × St) := do
  let (data, s) := s.char
  if isIn data asciiLetters then
    let d ← nonEOF data
    let s ← s.addTempBuf [d]
    ok (s.to .rcdataEndTagNameState)
  else
    let s := s.emitChars [Ch.lt, Ch.slash]
    ok ((s.unget data).to .rcdataState)

/-- lines 478-504 -/
def rcdataEndTagNameState (s : St) : Except PyErr (Bool × St) :=
  endTagNameBody .rcdataState s

/-- lines 506-515 -/
def rawtextLessThanSignState (s : St) : Except PyErr (Bool × St) := do
  let (data, s) := s.char
  if data = some Ch.slash then
    ok ((s.setTempBuf []).to .rawtextEndTagOpenState)
  else
    let s := s.emitChars [Ch.lt]
    ok ((s.unget data).to .rawtextState)

/-- lines 517-526 -/
def rawtextEndTagOpenState (s : St) : Except PyErr (Bool × St) := do
  let (data, s) := s.char
  if isIn data asciiLetters then
    let d ← nonEOF data
    let s ← s.addTempBuf [d]
    ok (s.to .rawtextEndTagNameState)
  else
    let s := s.emitChars [Ch.lt, Ch.slash]
    ok ((s.unget data).to .rawtextState)

/-- lines 528-554 -/
def rawtextEndTagNameState (s : St) : Except PyErr (Bool × St) :=
  endTagNameBody .rawtextState s

/-- lines 556-568 -/
def scriptDataLessThanSignState (s : St) : Except PyErr (Bool × St) := do
  let (data, s) := s.char
  if data = some Ch.slash then
    ok ((s.setTempBuf []).to .scriptDataEndTagOpenState)
  else if data = some Ch.bang then
    ok ((s.emitChars [Ch.lt, Ch.bang]).to .scriptDataEscapeStartState)
  else
    let s := s.emitChars [Ch.lt]
    ok ((s.unget data).to .scriptDataState)

/-- lines 570-579 -/
def scriptDataEndTagOpenState (s : St) : Except PyErr (Bool × St) := do
  let (data, s) := s.char
  if isIn data asciiLetters then
    let d ← nonEOF data
    let s ← s.addTempBuf [d]
    ok (s.to .scriptDataEndTagNameState)
  else
    let s := s.emitChars [Ch.lt, Ch.slash]
    ok ((s.unget data).to .scriptDataState)

/-- lines 581-607 -/
def scriptDataEndTagNameState (s : St) : Except PyErr (Bool × St) :=
  endTagNameBody .scriptDataState s

/-- lines 609-617 -/
def scriptDataEscapeStartState (s : St) : Except PyErr (Bool × St) := do
  let (data, s) := s.char
  if data = some Ch.dash then
    ok ((s.emitChars [Ch.dash]).to .scriptDataEscapeStartDashState)
  else
    ok ((s.unget data).to .scriptDataState)

/-- lines 619-627 -/
def scriptDataEscapeStartDashState (s : St) : Except PyErr (Bool × St) := do
  let (data, s) := s.char
  if data = some Ch.dash then
    ok ((s.emitChars [Ch.dash]).to .scriptDataEscapedDashDashState)
  else
    ok ((s.unget data).to .scriptDataState)

/-- lines 629-647 -/
def scriptDataEscapedState (s : St) : Except PyErr (Bool × St) := do
  let (data, s) := s.char
  if data = some Ch.dash then
    ok ((s.emitChars [Ch.dash]).to .scriptDataEscapedDashState)
  else if data = some Ch.lt then
    ok (s.to .scriptDataEscapedLessThanSignState)
  else if data = some Ch.nul then
    ok ((s.parseError "invalid-codepoint").emitChars [Ch.repl])
  else if data = none then
    ok (s.to .dataState)
  else
    let d ← nonEOF data
    let (chars, s) := s.charsUntil [Ch.lt, Ch.dash, Ch.nul]
    ok (s.emitChars (d :: chars))

/-- lines 649-667 -/
def scriptDataEscapedDashState (s : St) : Except PyErr (Bool × St) := do
  let (data, s) := s.char
  if data = some Ch.dash then
    ok ((s.emitChars [Ch.dash]).to .scriptDataEscapedDashDashState)
  else if data = some Ch.lt then
    ok (s.to .scriptDataEscapedLessThanSignState)
  else if data = some Ch.nul then
    ok (((s.parseError "invalid-codepoint").emitChars [Ch.repl]).to .scriptDataEscapedState)
  else if data = none then
    ok (s.to .dataState)
  else
    let d ← nonEOF data
    ok ((s.emitChars [d]).to .scriptDataEscapedState)

/-- lines 669-689 -/
def scriptDataEscapedDashDashState (s : St) : Except PyErr (Bool × St) := do
  let (data, s) := s.char
  if data = some Ch.dash then
    ok (s.emitChars [Ch.dash])
  else if data = some Ch.lt then
    ok (s.to .scriptDataEscapedLessThanSignState)
  else if data = some Ch.gt then
    ok ((s.emitChars [Ch.gt]).to .scriptDataState)
  else if data = some Ch.nul then
    ok (((s.parseError "invalid-codepoint").emitChars [Ch.repl]).to .scriptDataEscapedState)
  else if data = none then
    ok (s.to .dataState)
  else
    let d ← nonEOF data
    ok ((s.emitChars [d]).to .scriptDataEscapedState)

/-- lines 691-704 -/
def scriptDataEscapedLessThanSignState (s : St) : Except PyErr (Bool × St) := do
  let (data, s) := s.char
  if data = some Ch.slash then
    ok ((s.setTempBuf []).to .scriptDataEscapedEndTagOpenState)
  else if isIn data asciiLetters then
    let d ← nonEOF data
    let s := s.emitChars [Ch.lt, d]
    ok ((s.setTempBuf [d]).to .scriptDataDoubleEscapeStartState)
  else
    let s := s.emitChars [Ch.lt]
    ok ((s.unget data).to .scriptDataEscapedState)

/-- lines 706-715 (note `temporaryBuffer = data`, not `+=`) -/
def scriptDataEscapedEndTagOpenState (s : St) : Except PyErr (Bool × St) := do
  let (data, s) := s.char
  if isIn data asciiLetters then
    let d ← nonEOF data
    ok ((s.setTempBuf [d]).to .scriptDataEscapedEndTagNameState)
  else
    let s := s.emitChars [Ch.lt, Ch.slash]
    ok ((s.unget data).to .scriptDataEscapedState)

/-- lines 717-743 -/
def scriptDataEscapedEndTagNameState (s : St) : Except PyErr (Bool × St) :=
  endTagNameBody .scriptDataEscapedState s

/-- `self.temporaryBuffer.lower() == "script"` -/
def St.bufferIsScript (s : St) : Except PyErr Bool := do
  let buf ← s.tempBuf
  pure (pyLower buf == lit "script")

/-- lines 745-759 -/
def scriptDataDoubleEscapeStartState (s : St) : Except PyErr (Bool × St) := do
  let (data, s) := s.char
  if isIn data (spaceCharacters ++ [Ch.slash, Ch.gt]) then
    let d ← nonEOF data
    let s := s.emitChars [d]
    if (← s.bufferIsScript) then
      ok (s.to .scriptDataDoubleEscapedState)
    else
      ok (s.to .scriptDataEscapedState)
  else if isIn data asciiLetters then
    let d ← nonEOF data
    let s := s.emitChars [d]
    let s ← s.addTempBuf [d]
    ok s
  else
    ok ((s.unget data).to .scriptDataEscapedState)

/-- lines 761-780 -/
def scriptDataDoubleEscapedState (s : St) : Except PyErr (Bool × St) := do
  let (data, s) := s.char
  if data = some Ch.dash then
    ok ((s.emitChars [Ch.dash]).to .scriptDataDoubleEscapedDashState)
  else if data = some Ch.lt then
    ok ((s.emitChars [Ch.lt]).to .scriptDataDoubleEscapedLessThanSignState)
  else if data = some Ch.nul then
    ok ((s.parseError "invalid-codepoint").emitChars [Ch.repl])
  else if data = none then
    ok ((s.parseError "eof-in-script-in-script").to .dataState)
  else
    let d ← nonEOF data
    ok (s.emitChars [d])

/-- lines 782-803 -/
def scriptDataDoubleEscapedDashState (s : St) : Except PyErr (Bool × St) := do
  let (data, s) := s.char
  if data = some Ch.dash then
    ok ((s.emitChars [Ch.dash]).to .scriptDataDoubleEscapedDashDashState)
  else if data = some Ch.lt then
    ok ((s.emitChars [Ch.lt]).to .scriptDataDoubleEscapedLessThanSignState)
  else if data = some Ch.nul then
    ok (((s.parseError "invalid-codepoint").emitChars [Ch.repl]).to .scriptDataDoubleEscapedState)
  else if data = none then
    ok ((s.parseError "eof-in-script-in-script").to .dataState)
  else
    let d ← nonEOF data
    ok ((s.emitChars [d]).to .scriptDataDoubleEscapedState)

/-- lines 805-828 -/
def scriptDataDoubleEscapedDashDashState (s : St) : Except PyErr (Bool × St) := do
  let (data, s) := s.char
  if data = some Ch.dash then
    ok (s.emitChars [Ch.dash])
  else if data = some Ch.lt then
    ok ((s.emitChars [Ch.lt]).to .scriptDataDoubleEscapedLessThanSignState)
  else if data = some Ch.gt then
    ok ((s.emitChars [Ch.gt]).to .scriptDataState)
  else if data = some Ch.nul then
    ok (((s.parseError "invalid-codepoint").emitChars [Ch.repl]).to .scriptDataDoubleEscapedState)
  else if data = none then
    ok ((s.parseError "eof-in-script-in-script").to .dataState)
  else
    let d ← nonEOF data
    ok ((s.emitChars [d]).to .scriptDataDoubleEscapedState)

/-- lines 830-839 -/
def scriptDataDoubleEscapedLessThanSignState (s : St) : Except PyErr (Bool × St) := do
  let (data, s) := s.char
  if data = some Ch.slash then
    let s := s.emitChars [Ch.slash]
    ok ((s.setTempBuf []).to .scriptDataDoubleEscapeEndState)
  else
    ok ((s.unget data).to .scriptDataDoubleEscapedState)

/-- lines 841-855 -/
def scriptDataDoubleEscapeEndState (s : St) : Except PyErr (Bool × St) := do
  let (data, s) := s.char
  if isIn data (spaceCharacters ++ [Ch.slash, Ch.gt]) then
    let d ← nonEOF data
    let s := s.emitChars [d]
    if (← s.bufferIsScript) then
      ok (s.to .scriptDataEscapedState)
    else
      ok (s.to .scriptDataDoubleEscapedState)
  else if isIn data asciiLetters then
    let d ← nonEOF data
    let s := s.emitChars [d]
    let s ← s.addTempBuf [d]
    ok s
  else
    ok ((s.unget data).to .scriptDataDoubleEscapedState)

/-- lines 857-885 -/
def beforeAttributeNameState (s : St) : Except PyErr (Bool × St) := do
  let (data, s) := s.char
  if isIn data spaceCharacters then
    let (_, s) := s.charsUntil spaceCharacters true
    ok s
  else if isIn data asciiLetters then
    let d ← nonEOF data
    let s ← s.modCur (CurTok.appendAttr [d])
    ok (s.to .attributeNameState)
  else if data = some Ch.gt then
    let s ← emitCurrentToken s
    ok s
  else if data = some Ch.slash then
    ok (s.to .selfClosingStartTagState)
  else if isIn data [Ch.squote, Ch.dquote, Ch.eq, Ch.lt] then
    let d ← nonEOF data
    let s := s.parseError "invalid-character-in-attribute-name"
    let s ← s.modCur (CurTok.appendAttr [d])
    ok (s.to .attributeNameState)
  else if data = some Ch.nul then
    let s := s.parseError "invalid-codepoint"
    let s ← s.modCur (CurTok.appendAttr [Ch.repl])
    ok (s.to .attributeNameState)
  else if data = none then
    ok ((s.parseError "expected-attribute-name-but-got-eof").to .dataState)
  else
    let d ← nonEOF data
    let s ← s.modCur (CurTok.appendAttr [d])
    ok (s.to .attributeNameState)

/-- lines 929-935: lower-case the last attribute name and report a duplicate -/
def leaveAttributeName (s : St) : Except PyErr St := do
  let s ← s.modCur (CurTok.modLastAttr fun a => (translateUpper2Lower a.1, a.2))
  let t ← s.cur
  let attrs ← t.attrsE
  match attrs.getLast? with
  | none => .error (.indexError "currentToken['data'][-1]")
  | some last =>
    -- for name, _ in data[:-1]: if data[-1][0] == name: parseError; break
    if attrs.dropLast.any (fun a => last.1 == a.1) then
      pure (s.parseError "duplicate-attribute")
    else pure s

/-- lines 887-939 -/
def attributeNameState (s : St) : Except PyErr (Bool × St) := do
  let (data, s) := s.char
  -- (leavingThisState, emitToken, state)
  let (leavingThisState, emitToken, s) ← (
    if data = some Ch.eq then
      pure (true, false, s.to .beforeAttributeValueState)
    else if isIn data asciiLetters then do
      let d ← nonEOF data
      let (cs, s) := s.charsUntil asciiLetters true
      let s ← s.modCur (CurTok.addAttrName (d :: cs))
      pure (false, false, s)
    else if data = some Ch.gt then
      pure (true, true, s)
    else if isIn data spaceCharacters then
      pure (true, false, s.to .afterAttributeNameState)
    else if data = some Ch.slash then
      pure (true, false, s.to .selfClosingStartTagState)
    else if data = some Ch.nul then do
      let s := s.parseError "invalid-codepoint"
      let s ← s.modCur (CurTok.addAttrName [Ch.repl])
      pure (false, false, s)
    else if isIn data [Ch.squote, Ch.dquote, Ch.lt] then do
      let d ← nonEOF data
      let s := s.parseError "invalid-character-in-attribute-name"
      let s ← s.modCur (CurTok.addAttrName [d])
      pure (false, false, s)
    else if data = none then
      pure (true, false, (s.parseError "eof-in-attribute-name").to .dataState)
    else do
      let d ← nonEOF data
      let s ← s.modCur (CurTok.addAttrName [d])
      pure (false, false, s)
    : Except PyErr (Bool × Bool × St))
  if leavingThisState then
    let s ← leaveAttributeName s
    if emitToken then
      let s ← emitCurrentToken s
      ok s
    else ok s
  else ok s

/-- lines 941-971 -/
def afterAttributeNameState (s : St) : Except PyErr (Bool × St) := do
  let (data, s) := s.char
  if isIn data spaceCharacters then
    let (_, s) := s.charsUntil spaceCharacters true
    ok s
  else if data = some Ch.eq then
    ok (s.to .beforeAttributeValueState)
  else if data = some Ch.gt then
    let s ← emitCurrentToken s
    ok s
  else if isIn data asciiLetters then
    let d ← nonEOF data
    let s ← s.modCur (CurTok.appendAttr [d])
    ok (s.to .attributeNameState)
  else if data = some Ch.slash then
    ok (s.to .selfClosingStartTagState)
  else if data = some Ch.nul then
    let s := s.parseError "invalid-codepoint"
    let s ← s.modCur (CurTok.appendAttr [Ch.repl])
    ok (s.to .attributeNameState)
  else if isIn data [Ch.squote, Ch.dquote, Ch.lt] then
    let d ← nonEOF data
    let s := s.parseError "invalid-character-after-attribute-name"
    let s ← s.modCur (CurTok.appendAttr [d])
    ok (s.to .attributeNameState)
  else if data = none then
    ok ((s.parseError "expected-end-of-tag-but-got-eof").to .dataState)
  else
    let d ← nonEOF data
    let s ← s.modCur (CurTok.appendAttr [d])
    ok (s.to .attributeNameState)

/-- lines 973-1005 -/
def beforeAttributeValueState (s : St) : Except PyErr (Bool × St) := do
  let (data, s) := s.char
  if isIn data spaceCharacters then
    let (_, s) := s.charsUntil spaceCharacters true
    ok s
  else if data = some Ch.dquote then
    ok (s.to .attributeValueDoubleQuotedState)
  else if data = some Ch.amp then
    ok ((s.to .attributeValueUnQuotedState).unget data)
  else if data = some Ch.squote then
    ok (s.to .attributeValueSingleQuotedState)
  else if data = some Ch.gt then
    let s := s.parseError "expected-attribute-value-but-got-right-bracket"
    let s ← emitCurrentToken s
    ok s
  else if data = some Ch.nul then
    let s := s.parseError "invalid-codepoint"
    let s ← s.modCur (CurTok.addAttrValue [Ch.repl])
    ok (s.to .attributeValueUnQuotedState)
  else if isIn data [Ch.eq, Ch.lt, Ch.backtick] then
    let d ← nonEOF data
    let s := s.parseError "equals-in-unquoted-attribute-value"
    let s ← s.modCur (CurTok.addAttrValue [d])
    ok (s.to .attributeValueUnQuotedState)
  else if data = none then
    ok ((s.parseError "expected-attribute-value-but-got-eof").to .dataState)
  else
    let d ← nonEOF data
    let s ← s.modCur (CurTok.addAttrValue [d])
    ok (s.to .attributeValueUnQuotedState)

/-- lines 1007-1024 -/
def attributeValueDoubleQuotedState (s : St) : Except PyErr (Bool × St) := do
  let (data, s) := s.char
  if data = some Ch.dquote then
    ok (s.to .afterAttributeValueState)
  else if data = some Ch.amp then
    let s ← processEntityInAttribute s Ch.dquote
    ok s
  else if data = some Ch.nul then
    let s := s.parseError "invalid-codepoint"
    let s ← s.modCur (CurTok.addAttrValue [Ch.repl])
    ok s
  else if data = none then
    ok ((s.parseError "eof-in-attribute-value-double-quote").to .dataState)
  else
    let d ← nonEOF data
    let (cs, s) := s.charsUntil [Ch.dquote, Ch.amp, Ch.nul]
    let s ← s.modCur (CurTok.addAttrValue (d :: cs))
    ok s

/-- lines 1026-1043 -/
def attributeValueSingleQuotedState (s : St) : Except PyErr (Bool × St) := do
  let (data, s) := s.char
  if data = some Ch.squote then
    ok (s.to .afterAttributeValueState)
  else if data = some Ch.amp then
    let s ← processEntityInAttribute s Ch.squote
    ok s
  else if data = some Ch.nul then
    let s := s.parseError "invalid-codepoint"
    let s ← s.modCur (CurTok.addAttrValue [Ch.repl])
    ok s
  else if data = none then
    ok ((s.parseError "eof-in-attribute-value-single-quote").to .dataState)
  else
    let d ← nonEOF data
    let (cs, s) := s.charsUntil [Ch.squote, Ch.amp, Ch.nul]
    let s ← s.modCur (CurTok.addAttrValue (d :: cs))
    ok s

/-- lines 1045-1068 -/
def attributeValueUnQuotedState (s : St) : Except PyErr (Bool × St) := do
  let (data, s) := s.char
  if isIn data spaceCharacters then
    ok (s.to .beforeAttributeNameState)
  else if data = some Ch.amp then
    let s ← processEntityInAttribute s Ch.gt
    ok s
  else if data = some Ch.gt then
    let s ← emitCurrentToken s
    ok s
  else if isIn data [Ch.dquote, Ch.squote, Ch.eq, Ch.lt, Ch.backtick] then
    let d ← nonEOF data
    let s := s.parseError "unexpected-character-in-unquoted-attribute-value"
    let s ← s.modCur (CurTok.addAttrValue [d])
    ok s
  else if data = some Ch.nul then
    let s := s.parseError "invalid-codepoint"
    let s ← s.modCur (CurTok.addAttrValue [Ch.repl])
    ok s
  else if data = none then
    ok ((s.parseError "eof-in-attribute-value-no-quotes").to .dataState)
  else
    let d ← nonEOF data
    let (cs, s) := s.charsUntil
      ([Ch.amp, Ch.gt, Ch.dquote, Ch.squote, Ch.eq, Ch.lt, Ch.backtick, Ch.nul] ++ spaceCharacters)
    let s ← s.modCur (CurTok.addAttrValue (d :: cs))
    ok s

/-- lines 1070-1088 -/
def afterAttributeValueState (s : St) : Except PyErr (Bool × St) := do
  let (data, s) := s.char
  if isIn data spaceCharacters then
    ok (s.to .beforeAttributeNameState)
  else if data = some Ch.gt then
    let s ← emitCurrentToken s
    ok s
  else if data = some Ch.slash then
    ok (s.to .selfClosingStartTagState)
  else if data = none then
    let s := s.parseError "unexpected-EOF-after-attribute-value"
    ok ((s.unget data).to .dataState)
  else
    let s := s.parseError "unexpected-character-after-attribute-value"
    ok ((s.unget data).to .beforeAttributeNameState)

/-- lines 1090-1106 -/
def selfClosingStartTagState (s : St) : Except PyErr (Bool × St) := do
  let (data, s) := s.char
  if data = some Ch.gt then
    let s ← s.modCur CurTok.setSelfClosing
    let s ← emitCurrentToken s
    ok s
  else if data = none then
    let s := s.parseError "unexpected-EOF-after-solidus-in-tag"
    ok ((s.unget data).to .dataState)
  else
    let s := s.parseError "unexpected-character-after-solidus-in-tag"
    ok ((s.unget data).to .beforeAttributeNameState)

/-- lines 1108-1121 -/
def bogusCommentState (s : St) : Except PyErr (Bool × St) := do
  let (data, s) := s.charsUntil [Ch.gt]
  let data := Str.replaceChar data Ch.nul [Ch.repl]
  let s := s.emit (.comment data)
  -- Eat the character directly after the bogus comment which is either a ">" or an EOF.
  let (_, s) := s.char
  ok (s.to .dataState)

/-- The `for expected in (...)` loops with `break` (lines 1133-1138, 1151-1155, 1390-1395,
1401-1406): read one character per entry as long as it is among the alternatives of that
entry. Returns `(matched, characters read (in order), rest of input)`. -/
def matchExpected : List (List Nat) → List Nat → Bool × List (Option Nat) × List Nat
  | [], input => (true, [], input)
  | expected :: more, input =>
    let (c, input) := Stream.char input
    if isIn c expected then
      let (m, cs, input) := matchExpected more input
      (m, c :: cs, input)
    else (false, [c], input)

/-- lines 1160-1166: the common failure exit of `markupDeclarationOpenState` -/
def markupDeclarationOpenFail (s : St) (charStack : List (Option Nat)) : Except PyErr (Bool × St) :=
  let s := s.parseError "expected-dashes-or-doctype"
  -- while charStack: self.stream.unget(charStack.pop())
  let s := charStack.reverse.foldl (fun s c => s.unget c) s
  ok (s.to .bogusCommentState)

/-- lines 1123-1166 -/
def markupDeclarationOpenState (s : St) : Except PyErr (Bool × St) := do
  let (c0, s) := s.char
  let charStack := [c0]
  if c0 = some Ch.dash then
    let (c1, s) := s.char
    let charStack := charStack ++ [c1]
    if c1 = some Ch.dash then
      ok ({ s with currentToken := some (.comment []) }.to .commentStartState)
    else markupDeclarationOpenFail s charStack
  else if isIn c0 [100, 68] then                                         -- ('d', 'D')
    let (matched, cs, input) :=
      matchExpected [[111, 79], [99, 67], [116, 84], [121, 89], [112, 80], [101, 69]] s.input
    let s := { s with input := input }
    let charStack := charStack ++ cs
    if matched then
      ok ({ s with currentToken := some (.doctype [] none none true) }.to .doctypeState)
    else markupDeclarationOpenFail s charStack
  else if c0 = some Ch.lbracket ∧ s.cdataAllowed then
    let (matched, cs, input) :=
      matchExpected [[67], [68], [65], [84], [65], [91]] s.input          -- "CDATA["
    let s := { s with input := input }
    let charStack := charStack ++ cs
    if matched then
      ok (s.to .cdataSectionState)
    else markupDeclarationOpenFail s charStack
  else markupDeclarationOpenFail s charStack

/-- `self.tokenQueue.append(self.currentToken); self.state = self.dataState` -/
def St.emitCurToData (s : St) : Except PyErr (Bool × St) := do
  let s ← s.emitCur
  ok (s.to .dataState)

/-- commentStartState (NUL switches to `commentState` since fix 6ab2aec) -/
def commentStartState (s : St) : Except PyErr (Bool × St) := do
  let (data, s) := s.char
  if data = some Ch.dash then
    ok (s.to .commentStartDashState)
  else if data = some Ch.nul then
    let s := s.parseError "invalid-codepoint"
    let s ← s.modCur (CurTok.addData [Ch.repl])
    ok (s.to .commentState)
  else if data = some Ch.gt then
    (s.parseError "incorrect-comment").emitCurToData
  else if data = none then
    (s.parseError "eof-in-comment").emitCurToData
  else
    let d ← nonEOF data
    let s ← s.modCur (CurTok.addData [d])
    ok (s.to .commentState)

/-- commentStartDashState (NUL switches to `commentState` since fix 6ab2aec) -/
def commentStartDashState (s : St) : Except PyErr (Bool × St) := do
  let (data, s) := s.char
  if data = some Ch.dash then
    ok (s.to .commentEndState)
  else if data = some Ch.nul then
    let s := s.parseError "invalid-codepoint"
    let s ← s.modCur (CurTok.addData [Ch.dash, Ch.repl])
    ok (s.to .commentState)
  else if data = some Ch.gt then
    (s.parseError "incorrect-comment").emitCurToData
  else if data = none then
    (s.parseError "eof-in-comment").emitCurToData
  else
    let d ← nonEOF data
    let s ← s.modCur (CurTok.addData [Ch.dash, d])
    ok (s.to .commentState)

/-- lines 1214-1230 -/
def commentState (s : St) : Except PyErr (Bool × St) := do
  let (data, s) := s.char
  if data = some Ch.dash then
    ok (s.to .commentEndDashState)
  else if data = some Ch.nul then
    let s := s.parseError "invalid-codepoint"
    let s ← s.modCur (CurTok.addData [Ch.repl])
    ok s
  else if data = none then
    (s.parseError "eof-in-comment").emitCurToData
  else
    let d ← nonEOF data
    let (cs, s) := s.charsUntil [Ch.dash, Ch.nul]
    let s ← s.modCur (CurTok.addData (d :: cs))
    ok s

/-- lines 1232-1249 -/
def commentEndDashState (s : St) : Except PyErr (Bool × St) := do
  let (data, s) := s.char
  if data = some Ch.dash then
    ok (s.to .commentEndState)
  else if data = some Ch.nul then
    let s := s.parseError "invalid-codepoint"
    let s ← s.modCur (CurTok.addData [Ch.dash, Ch.repl])
    ok (s.to .commentState)
  else if data = none then
    (s.parseError "eof-in-comment-end-dash").emitCurToData
  else
    let d ← nonEOF data
    let s ← s.modCur (CurTok.addData [Ch.dash, d])
    ok (s.to .commentState)

/-- lines 1251-1280 -/
def commentEndState (s : St) : Except PyErr (Bool × St) := do
  let (data, s) := s.char
  if data = some Ch.gt then
    s.emitCurToData
  else if data = some Ch.nul then
    let s := s.parseError "invalid-codepoint"
    let s ← s.modCur (CurTok.addData [Ch.dash, Ch.dash, Ch.repl])
    ok (s.to .commentState)
  else if data = some Ch.bang then
    ok ((s.parseError "unexpected-bang-after-double-dash-in-comment").to .commentEndBangState)
  else if data = some Ch.dash then
    let s := s.parseError "unexpected-dash-after-double-dash-in-comment"
    let s ← s.modCur (CurTok.addData [Ch.dash])
    ok s
  else if data = none then
    (s.parseError "eof-in-comment-double-dash").emitCurToData
  else
    let d ← nonEOF data
    let s := s.parseError "unexpected-char-in-comment"
    let s ← s.modCur (CurTok.addData [Ch.dash, Ch.dash, d])
    ok (s.to .commentState)

/-- lines 1282-1303 -/
def commentEndBangState (s : St) : Except PyErr (Bool × St) := do
  let (data, s) := s.char
  if data = some Ch.gt then
    s.emitCurToData
  else if data = some Ch.dash then
    let s ← s.modCur (CurTok.addData [Ch.dash, Ch.dash, Ch.bang])
    ok (s.to .commentEndDashState)
  else if data = some Ch.nul then
    let s := s.parseError "invalid-codepoint"
    let s ← s.modCur (CurTok.addData [Ch.dash, Ch.dash, Ch.bang, Ch.repl])
    ok (s.to .commentState)
  else if data = none then
    (s.parseError "eof-in-comment-end-bang-state").emitCurToData
  else
    let d ← nonEOF data
    let s ← s.modCur (CurTok.addData [Ch.dash, Ch.dash, Ch.bang, d])
    ok (s.to .commentState)

/-- `parseError(code); currentToken["correct"] = False; tokenQueue.append(currentToken); state = dataState` -/
def St.failDoctype (s : St) (code : String) : Except PyErr (Bool × St) := do
  let s := s.parseError code
  let s ← s.modCur CurTok.setIncorrect
  s.emitCurToData

/-- lines 1305-1320 -/
def doctypeState (s : St) : Except PyErr (Bool × St) := do
  let (data, s) := s.char
  if isIn data spaceCharacters then
    ok (s.to .beforeDoctypeNameState)
  else if data = none then
    s.failDoctype "expected-doctype-name-but-got-eof"
  else
    let s := s.parseError "need-space-after-doctype"
    ok ((s.unget data).to .beforeDoctypeNameState)

/-- lines 1322-1346 -/
def beforeDoctypeNameState (s : St) : Except PyErr (Bool × St) := do
  let (data, s) := s.char
  if isIn data spaceCharacters then
    ok s
  else if data = some Ch.gt then
    s.failDoctype "expected-doctype-name-but-got-right-bracket"
  else if data = some Ch.nul then
    let s := s.parseError "invalid-codepoint"
    let s ← s.modCur (CurTok.modName fun _ => [Ch.repl])
    ok (s.to .doctypeNameState)
  else if data = none then
    s.failDoctype "expected-doctype-name-but-got-eof"
  else
    let d ← nonEOF data
    let s ← s.modCur (CurTok.modName fun _ => [d])
    ok (s.to .doctypeNameState)

/-- lines 1348-1371 -/
def doctypeNameState (s : St) : Except PyErr (Bool × St) := do
  let (data, s) := s.char
  if isIn data spaceCharacters then
    let s ← s.modCur (CurTok.modName translateUpper2Lower)
    ok (s.to .afterDoctypeNameState)
  else if data = some Ch.gt then
    let s ← s.modCur (CurTok.modName translateUpper2Lower)
    s.emitCurToData
  else if data = some Ch.nul then
    let s := s.parseError "invalid-codepoint"
    let s ← s.modCur (CurTok.modName (· ++ [Ch.repl]))
    ok (s.to .doctypeNameState)
  else if data = none then
    let s := s.parseError "eof-in-doctype-name"
    let s ← s.modCur CurTok.setIncorrect
    let s ← s.modCur (CurTok.modName translateUpper2Lower)
    s.emitCurToData
  else
    let d ← nonEOF data
    let s ← s.modCur (CurTok.modName (· ++ [d]))
    ok s

/-- lines 1411-1420: the bogus-doctype exit of `afterDoctypeNameState`; `data` is the last
character read. -/
def afterDoctypeNameFail (s : St) (data : Option Nat) : Except PyErr (Bool × St) := do
  let s := s.unget data
  let s := s.emit (.parseError (lit "expected-space-or-right-bracket-in-doctype")
    [(lit "data", pyStrOfChar data)])
  let s ← s.modCur CurTok.setIncorrect
  ok (s.to .bogusDoctypeState)

/-- lines 1373-1422 -/
def afterDoctypeNameState (s : St) : Except PyErr (Bool × St) := do
  let (data, s) := s.char
  if isIn data spaceCharacters then
    ok s
  else if data = some Ch.gt then
    s.emitCurToData
  else if data = none then
    let s ← s.modCur CurTok.setIncorrect
    let s := s.unget data
    let s := s.parseError "eof-in-doctype"
    s.emitCurToData
  else
    if isIn data [112, 80] then                                          -- ("p", "P")
      let (matched, cs, input) :=
        matchExpected [[117, 85], [98, 66], [108, 76], [105, 73], [99, 67]] s.input
      let s := { s with input := input }
      if matched then
        ok (s.to .afterDoctypePublicKeywordState)
      else
        -- `data` is now the last character read by the loop
        let data ← match cs.getLast? with
          | some c => pure c
          | none => throw (.indexError "afterDoctypeNameState: loop read nothing")
        afterDoctypeNameFail s data
    else if isIn data [115, 83] then                                     -- ("s", "S")
      let (matched, cs, input) :=
        matchExpected [[121, 89], [115, 83], [116, 84], [101, 69], [109, 77]] s.input
      let s := { s with input := input }
      if matched then
        ok (s.to .afterDoctypeSystemKeywordState)
      else
        let data ← match cs.getLast? with
          | some c => pure c
          | none => throw (.indexError "afterDoctypeNameState: loop read nothing")
        afterDoctypeNameFail s data
    else
      afterDoctypeNameFail s data

/-- lines 1424-1442 -/
def afterDoctypePublicKeywordState (s : St) : Except PyErr (Bool × St) := do
  let (data, s) := s.char
  if isIn data spaceCharacters then
    ok (s.to .beforeDoctypePublicIdentifierState)
  else if isIn data [Ch.squote, Ch.dquote] then
    let s := s.parseError "unexpected-char-in-doctype"
    ok ((s.unget data).to .beforeDoctypePublicIdentifierState)
  else if data = none then
    s.failDoctype "eof-in-doctype"
  else
    ok ((s.unget data).to .beforeDoctypePublicIdentifierState)

/-- lines 1444-1471 -/
def beforeDoctypePublicIdentifierState (s : St) : Except PyErr (Bool × St) := do
  let (data, s) := s.char
  if isIn data spaceCharacters then
    ok s
  else if data = some Ch.dquote then
    let s ← s.modCur CurTok.initPublicId
    ok (s.to .doctypePublicIdentifierDoubleQuotedState)
  else if data = some Ch.squote then
    let s ← s.modCur CurTok.initPublicId
    ok (s.to .doctypePublicIdentifierSingleQuotedState)
  else if data = some Ch.gt then
    s.failDoctype "unexpected-end-of-doctype"
  else if data = none then
    s.failDoctype "eof-in-doctype"
  else
    let s := s.parseError "unexpected-char-in-doctype"
    let s ← s.modCur CurTok.setIncorrect
    ok (s.to .bogusDoctypeState)

/-- common body of lines 1473-1495 / 1497-1519 (`quote` is the closing quote) -/
def doctypePublicIdentifierQuoted (quote : Nat) (s : St) : Except PyErr (Bool × St) := do
  let (data, s) := s.char
  if data = some quote then
    ok (s.to .afterDoctypePublicIdentifierState)
  else if data = some Ch.nul then
    let s := s.parseError "invalid-codepoint"
    let s ← s.modCur (CurTok.addPublicId [Ch.repl])
    ok s
  else if data = some Ch.gt then
    s.failDoctype "unexpected-end-of-doctype"
  else if data = none then
    s.failDoctype "eof-in-doctype"
  else
    let d ← nonEOF data
    let s ← s.modCur (CurTok.addPublicId [d])
    ok s

/-- lines 1473-1495 -/
def doctypePublicIdentifierDoubleQuotedState (s : St) : Except PyErr (Bool × St) :=
  doctypePublicIdentifierQuoted Ch.dquote s

/-- lines 1497-1519 -/
def doctypePublicIdentifierSingleQuotedState (s : St) : Except PyErr (Bool × St) :=
  doctypePublicIdentifierQuoted Ch.squote s

/-- lines 1521-1549 -/
def afterDoctypePublicIdentifierState (s : St) : Except PyErr (Bool × St) := do
  let (data, s) := s.char
  if isIn data spaceCharacters then
    ok (s.to .betweenDoctypePublicAndSystemIdentifiersState)
  else if data = some Ch.gt then
    s.emitCurToData
  else if data = some Ch.dquote then
    let s := s.parseError "unexpected-char-in-doctype"
    let s ← s.modCur CurTok.initSystemId
    ok (s.to .doctypeSystemIdentifierDoubleQuotedState)
  else if data = some Ch.squote then
    let s := s.parseError "unexpected-char-in-doctype"
    let s ← s.modCur CurTok.initSystemId
    ok (s.to .doctypeSystemIdentifierSingleQuotedState)
  else if data = none then
    s.failDoctype "eof-in-doctype"
  else
    let s := s.parseError "unexpected-char-in-doctype"
    let s ← s.modCur CurTok.setIncorrect
    ok (s.to .bogusDoctypeState)

/-- lines 1551-1575 -/
def betweenDoctypePublicAndSystemIdentifiersState (s : St) : Except PyErr (Bool × St) := do
  let (data, s) := s.char
  if isIn data spaceCharacters then
    ok s
  else if data = some Ch.gt then
    s.emitCurToData
  else if data = some Ch.dquote then
    let s ← s.modCur CurTok.initSystemId
    ok (s.to .doctypeSystemIdentifierDoubleQuotedState)
  else if data = some Ch.squote then
    let s ← s.modCur CurTok.initSystemId
    ok (s.to .doctypeSystemIdentifierSingleQuotedState)
  else if data = none then
    s.failDoctype "eof-in-doctype"
  else
    let s := s.parseError "unexpected-char-in-doctype"
    let s ← s.modCur CurTok.setIncorrect
    ok (s.to .bogusDoctypeState)

/-- lines 1577-1595 -/
def afterDoctypeSystemKeywordState (s : St) : Except PyErr (Bool × St) := do
  let (data, s) := s.char
  if isIn data spaceCharacters then
    ok (s.to .beforeDoctypeSystemIdentifierState)
  else if isIn data [Ch.squote, Ch.dquote] then
    let s := s.parseError "unexpected-char-in-doctype"
    ok ((s.unget data).to .beforeDoctypeSystemIdentifierState)
  else if data = none then
    s.failDoctype "eof-in-doctype"
  else
    ok ((s.unget data).to .beforeDoctypeSystemIdentifierState)

/-- lines 1597-1624 -/
def beforeDoctypeSystemIdentifierState (s : St) : Except PyErr (Bool × St) := do
  let (data, s) := s.char
  if isIn data spaceCharacters then
    ok s
  else if data = some Ch.dquote then
    let s ← s.modCur CurTok.initSystemId
    ok (s.to .doctypeSystemIdentifierDoubleQuotedState)
  else if data = some Ch.squote then
    let s ← s.modCur CurTok.initSystemId
    ok (s.to .doctypeSystemIdentifierSingleQuotedState)
  else if data = some Ch.gt then
    s.failDoctype "unexpected-char-in-doctype"
  else if data = none then
    s.failDoctype "eof-in-doctype"
  else
    let s := s.parseError "unexpected-char-in-doctype"
    let s ← s.modCur CurTok.setIncorrect
    ok (s.to .bogusDoctypeState)

/-- common body of lines 1626-1648 / 1650-1672 -/
def doctypeSystemIdentifierQuoted (quote : Nat) (s : St) : Except PyErr (Bool × St) := do
  let (data, s) := s.char
  if data = some quote then
    ok (s.to .afterDoctypeSystemIdentifierState)
  else if data = some Ch.nul then
    let s := s.parseError "invalid-codepoint"
    let s ← s.modCur (CurTok.addSystemId [Ch.repl])
    ok s
  else if data = some Ch.gt then
    s.failDoctype "unexpected-end-of-doctype"
  else if data = none then
    s.failDoctype "eof-in-doctype"
  else
    let d ← nonEOF data
    let s ← s.modCur (CurTok.addSystemId [d])
    ok s

/-- lines 1626-1648 -/
def doctypeSystemIdentifierDoubleQuotedState (s : St) : Except PyErr (Bool × St) :=
  doctypeSystemIdentifierQuoted Ch.dquote s

/-- lines 1650-1672 -/
def doctypeSystemIdentifierSingleQuotedState (s : St) : Except PyErr (Bool × St) :=
  doctypeSystemIdentifierQuoted Ch.squote s

/-- lines 1674-1691 (the last branch does not clear `correct`) -/
def afterDoctypeSystemIdentifierState (s : St) : Except PyErr (Bool × St) := do
  let (data, s) := s.char
  if isIn data spaceCharacters then
    ok s
  else if data = some Ch.gt then
    s.emitCurToData
  else if data = none then
    s.failDoctype "eof-in-doctype"
  else
    ok ((s.parseError "unexpected-char-in-doctype").to .bogusDoctypeState)

/-- lines 1693-1705 -/
def bogusDoctypeState (s : St) : Except PyErr (Bool × St) := do
  let (data, s) := s.char
  if data = some Ch.gt then
    s.emitCurToData
  else if data = none then
    (s.unget data).emitCurToData
  else
    ok s

/-- the `while True:` loop of lines 1709-1721; `data` is the Python list of pieces. Each
iteration that does not stop consumes a `>`; the fuel is `len(input) + 1`. -/
def cdataLoop : Nat → List Str → List Nat → Except PyErr (List Str × List Nat)
  | 0, _, _ => .error (.outOfFuel "cdataSectionState")
  | fuel + 1, data, input =>
    let (a, input) := Stream.charsUntil input [Ch.rbracket]
    let (b, input) := Stream.charsUntil input [Ch.gt]
    let data := data ++ [a, b]
    let (char, input) := Stream.char input
    if char = none then .ok (data, input)
    else if char ≠ some Ch.gt then .error (.assertFail "cdataSectionState: char == '>'")
    else if b.drop (b.length - 2) = [Ch.rbracket, Ch.rbracket] then     -- data[-1][-2:] == "]]"
      .ok (data.dropLast ++ [b.take (b.length - 2)], input)             -- data[-1] = data[-1][:-2]
    else cdataLoop fuel (data ++ [[Ch.gt]]) input

/-- lines 1707-1735 -/
def cdataSectionState (s : St) : Except PyErr (Bool × St) := do
  let (pieces, input) ← cdataLoop (s.input.length + 1) [] s.input
  let s := { s with input := input }
  let data := pieces.flatten
  -- Deal with null here rather than in the parser
  let nullCount := data.count Ch.nul
  let s := (List.replicate nullCount (perr "invalid-codepoint")).foldl (fun s t => s.emit t) s
  let data := if nullCount > 0 then Str.replaceChar data Ch.nul [Ch.repl] else data
  let s := if !data.isEmpty then s.emitChars data else s
  ok (s.to .dataState)

/-! ### The main loop -/

/-- `self.state()` -/
def step (s : St) : Except PyErr (Bool × St) :=
  match s.state with
  | .dataState => dataState s
  | .entityDataState => entityDataState s
  | .rcdataState => rcdataState s
  | .characterReferenceInRcdata => characterReferenceInRcdata s
  | .rawtextState => rawtextState s
  | .scriptDataState => scriptDataState s
  | .plaintextState => plaintextState s
  | .tagOpenState => tagOpenState s
  | .closeTagOpenState => closeTagOpenState s
  | .tagNameState => tagNameState s
  | .rcdataLessThanSignState => rcdataLessThanSignState s
  | .rcdataEndTagOpenState => rcdataEndTagOpenState s
  | .rcdataEndTagNameState => rcdataEndTagNameState s
  | .rawtextLessThanSignState => rawtextLessThanSignState s
  | .rawtextEndTagOpenState => rawtextEndTagOpenState s
  | .rawtextEndTagNameState => rawtextEndTagNameState s
  | .scriptDataLessThanSignState => scriptDataLessThanSignState s
  | .scriptDataEndTagOpenState => scriptDataEndTagOpenState s
  | .scriptDataEndTagNameState => scriptDataEndTagNameState s
  | .scriptDataEscapeStartState => scriptDataEscapeStartState s
  | .scriptDataEscapeStartDashState => scriptDataEscapeStartDashState s
  | .scriptDataEscapedState => scriptDataEscapedState s
  | .scriptDataEscapedDashState => scriptDataEscapedDashState s
  | .scriptDataEscapedDashDashState => scriptDataEscapedDashDashState s
  | .scriptDataEscapedLessThanSignState => scriptDataEscapedLessThanSignState s
  | .scriptDataEscapedEndTagOpenState => scriptDataEscapedEndTagOpenState s
  | .scriptDataEscapedEndTagNameState => scriptDataEscapedEndTagNameState s
  | .scriptDataDoubleEscapeStartState => scriptDataDoubleEscapeStartState s
  | .scriptDataDoubleEscapedState => scriptDataDoubleEscapedState s
  | .scriptDataDoubleEscapedDashState => scriptDataDoubleEscapedDashState s
  | .scriptDataDoubleEscapedDashDashState => scriptDataDoubleEscapedDashDashState s
  | .scriptDataDoubleEscapedLessThanSignState => scriptDataDoubleEscapedLessThanSignState s
  | .scriptDataDoubleEscapeEndState => scriptDataDoubleEscapeEndState s
  | .beforeAttributeNameState => beforeAttributeNameState s
  | .attributeNameState => attributeNameState s
  | .afterAttributeNameState => afterAttributeNameState s
  | .beforeAttributeValueState => beforeAttributeValueState s
  | .attributeValueDoubleQuotedState => attributeValueDoubleQuotedState s
  | .attributeValueSingleQuotedState => attributeValueSingleQuotedState s
  | .attributeValueUnQuotedState => attributeValueUnQuotedState s
  | .afterAttributeValueState => afterAttributeValueState s
  | .selfClosingStartTagState => selfClosingStartTagState s
  | .bogusCommentState => bogusCommentState s
  | .markupDeclarationOpenState => markupDeclarationOpenState s
  | .commentStartState => commentStartState s
  | .commentStartDashState => commentStartDashState s
  | .commentState => commentState s
  | .commentEndDashState => commentEndDashState s
  | .commentEndState => commentEndState s
  | .commentEndBangState => commentEndBangState s
  | .doctypeState => doctypeState s
  | .beforeDoctypeNameState => beforeDoctypeNameState s
  | .doctypeNameState => doctypeNameState s
  | .afterDoctypeNameState => afterDoctypeNameState s
  | .afterDoctypePublicKeywordState => afterDoctypePublicKeywordState s
  | .beforeDoctypePublicIdentifierState => beforeDoctypePublicIdentifierState s
  | .doctypePublicIdentifierDoubleQuotedState => doctypePublicIdentifierDoubleQuotedState s
  | .doctypePublicIdentifierSingleQuotedState => doctypePublicIdentifierSingleQuotedState s
  | .afterDoctypePublicIdentifierState => afterDoctypePublicIdentifierState s
  | .betweenDoctypePublicAndSystemIdentifiersState => betweenDoctypePublicAndSystemIdentifiersState s
  | .afterDoctypeSystemKeywordState => afterDoctypeSystemKeywordState s
  | .beforeDoctypeSystemIdentifierState => beforeDoctypeSystemIdentifierState s
  | .doctypeSystemIdentifierDoubleQuotedState => doctypeSystemIdentifierDoubleQuotedState s
  | .doctypeSystemIdentifierSingleQuotedState => doctypeSystemIdentifierSingleQuotedState s
  | .afterDoctypeSystemIdentifierState => afterDoctypeSystemIdentifierState s
  | .bogusDoctypeState => bogusDoctypeState s
  | .cdataSectionState => cdataSectionState s

/-- `HTMLTokenizer.__init__` (+ what a caller presets): `lastStartTag` plants
`currentToken = {"type": ..., "name": lastStartTag}` as the upstream test harness does. -/
def St.init (state : State) (lastStartTag : Option Str) (cdataAllowed : Bool) (input : Str) : St :=
  { state := state, input := input, currentToken := lastStartTag.map .emittedStartTag,
    temporaryBuffer := none, tokenQueue := [], cdataAllowed := cdataAllowed }

/-- `tokenizer.state = tokenizer.xState` (done by the parser between two pulled tokens) -/
def setState (s : St) (state : State) : St := { s with state := state }

/-- the parser-dependent condition of `markupDeclarationOpenState` -/
def setCdataAllowed (s : St) (b : Bool) : St := { s with cdataAllowed := b }

/-- the fuel that `tokenizeAll` / `next` use.  `2 * n + 3` state calls always suffice
(NOTES.md, "Fuel"; the harness checks `steps ≤ 2 * n + 3` on every case), so this is generous. -/
def fuelFor (input : List Nat) : Nat := 8 * input.length + 64

/-- `__iter__` (lines 55-69) run to completion: one unit of fuel per `self.state()` call.
When the state method returns `False` the loop ends *without* draining the queue (the
queue is empty then). Returns the tokens yielded. -/
def tokenize : Nat → St → Except PyErr (List TTok)
  | 0, _ => .error (.outOfFuel "tokenize")
  | fuel + 1, s => do
    let (cont, s) ← step s
    if !cont then pure []
    else
      let rest ← tokenize fuel { s with tokenQueue := [] }
      pure (s.tokenQueue ++ rest)

/-- the same loop, also counting the `self.state()` calls (for the fuel experiment) -/
def tokenizeCount : Nat → St → Nat → Except PyErr (List TTok × Nat)
  | 0, _, _ => .error (.outOfFuel "tokenize")
  | fuel + 1, s, n => do
    let (cont, s) ← step s
    if !cont then pure ([], n + 1)
    else
      let (rest, m) ← tokenizeCount fuel { s with tokenQueue := [] } (n + 1)
      pure (s.tokenQueue ++ rest, m)

def tokenizeAll (initialState : State) (lastStartTag : Option Str) (input : Str)
    (cdataAllowed : Bool := false) : Except PyErr (List TTok) :=
  tokenize (fuelFor input) (St.init initialState lastStartTag cdataAllowed input)

/-- one `next()` on the generator: pop the queue if it is non-empty, otherwise call state
methods until one leaves something in the queue; `none` = the generator is exhausted. -/
def nextFuel : Nat → St → Except PyErr (Option (TTok × St))
  | 0, _ => .error (.outOfFuel "next")
  | fuel + 1, s =>
    match s.tokenQueue with
    | t :: q => .ok (some (t, { s with tokenQueue := q }))
    | [] => do
      let (cont, s) ← step s
      if !cont then pure none else nextFuel fuel s

def next (s : St) : Except PyErr (Option (TTok × St)) := nextFuel (fuelFor s.input + 1) s

def State.all : List (String × State) :=
  [("dataState", .dataState), ("entityDataState", .entityDataState), ("rcdataState", .rcdataState),
   ("characterReferenceInRcdata", .characterReferenceInRcdata), ("rawtextState", .rawtextState),
   ("scriptDataState", .scriptDataState), ("plaintextState", .plaintextState),
   ("tagOpenState", .tagOpenState), ("closeTagOpenState", .closeTagOpenState),
   ("tagNameState", .tagNameState), ("rcdataLessThanSignState", .rcdataLessThanSignState),
   ("rcdataEndTagOpenState", .rcdataEndTagOpenState), ("rcdataEndTagNameState", .rcdataEndTagNameState),
   ("rawtextLessThanSignState", .rawtextLessThanSignState),
   ("rawtextEndTagOpenState", .rawtextEndTagOpenState), ("rawtextEndTagNameState", .rawtextEndTagNameState),
   ("scriptDataLessThanSignState", .scriptDataLessThanSignState),
   ("scriptDataEndTagOpenState", .scriptDataEndTagOpenState),
   ("scriptDataEndTagNameState", .scriptDataEndTagNameState),
   ("scriptDataEscapeStartState", .scriptDataEscapeStartState),
   ("scriptDataEscapeStartDashState", .scriptDataEscapeStartDashState),
   ("scriptDataEscapedState", .scriptDataEscapedState),
   ("scriptDataEscapedDashState", .scriptDataEscapedDashState),
   ("scriptDataEscapedDashDashState", .scriptDataEscapedDashDashState),
   ("scriptDataEscapedLessThanSignState", .scriptDataEscapedLessThanSignState),
   ("scriptDataEscapedEndTagOpenState", .scriptDataEscapedEndTagOpenState),
   ("scriptDataEscapedEndTagNameState", .scriptDataEscapedEndTagNameState),
   ("scriptDataDoubleEscapeStartState", .scriptDataDoubleEscapeStartState),
   ("scriptDataDoubleEscapedState", .scriptDataDoubleEscapedState),
   ("scriptDataDoubleEscapedDashState", .scriptDataDoubleEscapedDashState),
   ("scriptDataDoubleEscapedDashDashState", .scriptDataDoubleEscapedDashDashState),
   ("scriptDataDoubleEscapedLessThanSignState", .scriptDataDoubleEscapedLessThanSignState),
   ("scriptDataDoubleEscapeEndState", .scriptDataDoubleEscapeEndState),
   ("beforeAttributeNameState", .beforeAttributeNameState), ("attributeNameState", .attributeNameState),
   ("afterAttributeNameState", .afterAttributeNameState),
   ("beforeAttributeValueState", .beforeAttributeValueState),
   ("attributeValueDoubleQuotedState", .attributeValueDoubleQuotedState),
   ("attributeValueSingleQuotedState", .attributeValueSingleQuotedState),
   ("attributeValueUnQuotedState", .attributeValueUnQuotedState),
   ("afterAttributeValueState", .afterAttributeValueState),
   ("selfClosingStartTagState", .selfClosingStartTagState), ("bogusCommentState", .bogusCommentState),
   ("markupDeclarationOpenState", .markupDeclarationOpenState),
   ("commentStartState", .commentStartState), ("commentStartDashState", .commentStartDashState),
   ("commentState", .commentState), ("commentEndDashState", .commentEndDashState),
   ("commentEndState", .commentEndState), ("commentEndBangState", .commentEndBangState),
   ("doctypeState", .doctypeState), ("beforeDoctypeNameState", .beforeDoctypeNameState),
   ("doctypeNameState", .doctypeNameState), ("afterDoctypeNameState", .afterDoctypeNameState),
   ("afterDoctypePublicKeywordState", .afterDoctypePublicKeywordState),
   ("beforeDoctypePublicIdentifierState", .beforeDoctypePublicIdentifierState),
   ("doctypePublicIdentifierDoubleQuotedState", .doctypePublicIdentifierDoubleQuotedState),
   ("doctypePublicIdentifierSingleQuotedState", .doctypePublicIdentifierSingleQuotedState),
   ("afterDoctypePublicIdentifierState", .afterDoctypePublicIdentifierState),
   ("betweenDoctypePublicAndSystemIdentifiersState", .betweenDoctypePublicAndSystemIdentifiersState),
   ("afterDoctypeSystemKeywordState", .afterDoctypeSystemKeywordState),
   ("beforeDoctypeSystemIdentifierState", .beforeDoctypeSystemIdentifierState),
   ("doctypeSystemIdentifierDoubleQuotedState", .doctypeSystemIdentifierDoubleQuotedState),
   ("doctypeSystemIdentifierSingleQuotedState", .doctypeSystemIdentifierSingleQuotedState),
   ("afterDoctypeSystemIdentifierState", .afterDoctypeSystemIdentifierState),
   ("bogusDoctypeState", .bogusDoctypeState), ("cdataSectionState", .cdataSectionState)]

/-- the Python method name of a state and back -/
def State.ofName? (name : String) : Option State := State.all.lookup name

def State.name (st : State) : String :=
  match State.all.find? (fun p => p.2 == st) with
  | some p => p.1
  | none => "?"

end H5.Model.Tokenizer
