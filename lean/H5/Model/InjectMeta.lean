/-
  H5.Model.InjectMeta — hand model of `filters/inject_meta_charset.py:Filter.__iter__`
  (the generator's three states, `pending`, `meta_found`, the `for … else` over the attributes).
  `.lower()` is only ever compared with the ASCII words head/meta/charset/content-type, none of which contains a
  letter that a non-ASCII character lower-cases to (k, i), so ASCII lower-casing is exact here.
-/
import H5.Basic
namespace H5.Model.InjectMeta
open H5

def sHead : Str := [104, 101, 97, 100]
def sMeta : Str := [109, 101, 116, 97]
def sCharset : Str := [99, 104, 97, 114, 115, 101, 116]
def sHttpEquiv : Str := [104, 116, 116, 112, 45, 101, 113, 117, 105, 118]
def sContentType : Str := [99, 111, 110, 116, 101, 110, 116, 45, 116, 121, 112, 101]
def sContent : Str := [99, 111, 110, 116, 101, 110, 116]
/-- "text/html; charset=" -/
def sTextHtmlCharset : Str := [116, 101, 120, 116, 47, 104, 116, 109, 108, 59, 32, 99, 104, 97, 114, 115, 101, 116, 61]

/-- the `for (namespace, name), value in token["data"].items()` loop up to its `break`:
returns `some attrs'` when a charset attribute was rewritten, else `none` with the http-equiv flag -/
def scanAttrs (enc : Str) : List Attr → Bool → Option (List Attr) × Bool
  | [], has => (none, has)
  | a :: rest, has =>
    if a.ns.isSome then
      match scanAttrs enc rest has with
      | (some r, h) => (some (a :: r), h)
      | (none, h) => (none, h)
    else if a.name.asciiLower = sCharset then (some ({ a with value := enc } :: rest), has)
    else
      let has' := has || (a.name = sHttpEquiv && a.value.asciiLower = sContentType)
      match scanAttrs enc rest has' with
      | (some r, h) => (some (a :: r), h)
      | (none, h) => (none, h)

def setContent (enc : Str) (attrs : List Attr) : List Attr :=
  attrs.map fun a => if a.ns.isNone ∧ a.name = sContent then { a with value := sTextHtmlCharset ++ enc } else a

def hasContent (attrs : List Attr) : Bool := attrs.any fun a => a.ns.isNone && a.name = sContent

/-- rewriting of one `meta` EmptyTag: new attributes and whether a declaration was found -/
def rewriteMetaAttrs (enc : Str) (attrs : List Attr) : List Attr × Bool :=
  match scanAttrs enc attrs false with
  | (some attrs', _) => (attrs', true)
  | (none, has) => if has && hasContent attrs then (setContent enc attrs, true) else (attrs, false)

inductive Phase where | preHead | inHead | postHead
  deriving DecidableEq, Repr

structure St where
  phase : Phase := .preHead
  found : Bool := false
  pending : List Tok := []

def metaTok (enc : Str) : Tok := .emptyTag none sMeta [⟨none, sCharset, enc⟩]

/-- one loop iteration: new state and the tokens yielded -/
def step (enc : Str) (st : St) (t : Tok) : St × List Tok :=
  -- first part: the type dispatch (may `continue`)
  let r : Option (St × Tok × List Tok) :=
    match t with
    | .startTag _ name _ =>
        if name.asciiLower = sHead then some ({ st with phase := .inHead }, t, []) else some (st, t, [])
    | .emptyTag ns name attrs =>
        if name.asciiLower = sMeta then
          let (attrs', f) := rewriteMetaAttrs enc attrs
          some ({ st with found := st.found || f }, .emptyTag ns name attrs', [])
        else if name.asciiLower = sHead ∧ !st.found then
          none     -- insert meta into empty head, `continue`
        else some (st, t, [])
    | .endTag _ name =>
        if name.asciiLower = sHead ∧ !st.pending.isEmpty then
          match st.pending with
          | p :: rest =>
            some ({ st with phase := .postHead, found := true, pending := [] }, t,
                  p :: ((if st.found then [] else [metaTok enc]) ++ rest))
          | [] => some (st, t, [])
        else some (st, t, [])
    | _ => some (st, t, [])
  match r, t with
  | none, .emptyTag _ _ attrs =>
      ({ st with found := true }, [.startTag none sHead attrs, metaTok enc, .endTag none sHead])
  | none, _ => (st, [])
  | some (st', t', out), _ =>
      if st'.phase = .inHead then ({ st' with pending := st'.pending ++ [t'] }, out)
      else (st', out ++ [t'])

def runFrom (enc : Str) (st : St) : List Tok → St × List Tok
  | [] => (st, [])
  | t :: rest =>
    let (st', out) := step enc st t
    let (st'', out') := runFrom enc st' rest
    (st'', out ++ out')

/-- `list(Filter(source, encoding))` for a non-None encoding -/
def inject (enc : Str) (ts : List Tok) : List Tok := (runFrom enc {} ts).2

end H5.Model.InjectMeta
