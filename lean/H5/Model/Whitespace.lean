/-
  H5.Model.Whitespace — hand model of `whitespace.Filter.__iter__` and `collapse_spaces`.
  The character class of SPACES_REGEX and `spacePreserveElements` are extracted (H5.Gen.Whitespace).
-/
import H5.Basic
import H5.Gen.Whitespace
namespace H5.Model.Whitespace
open H5 H5.Gen

def isWs (c : Nat) : Bool := inRanges wsSpaceClass c

/-- `SPACES_REGEX.sub(' ', text)`: every maximal run of class characters becomes one U+0020 -/
def collapse : Str → Str
  | [] => []
  | c :: rest =>
    if isWs c then
      match rest with
      | [] => [32]
      | d :: _ => if isWs d then collapse rest else 32 :: collapse rest
    else c :: collapse rest

/-- one iteration of the loop: (preserve, token) ↦ (preserve', token') — same branch order as the source -/
def step (preserve : Nat) (t : Tok) : Nat × Tok :=
  match t with
  | .startTag _ name _ =>
      if preserve ≠ 0 || spacePreserveElements.elem name then (preserve + 1, t) else (preserve, t)
  | .endTag _ _ => if preserve ≠ 0 then (preserve - 1, t) else (preserve, t)
  | .space s => if preserve = 0 && !s.isEmpty then (preserve, .space [32]) else (preserve, t)
  | .chars s => if preserve = 0 then (preserve, .chars (collapse s)) else (preserve, t)
  | _ => (preserve, t)

def filterFrom (preserve : Nat) : List Tok → List Tok
  | [] => []
  | t :: rest => let r := step preserve t; r.2 :: filterFrom r.1 rest

def filter (ts : List Tok) : List Tok := filterFrom 0 ts

end H5.Model.Whitespace
