/-
  H5.Model.Parser — the whole parser on a character string: tokenizer model (pull interface) and tree-construction
  model glued exactly as `HTMLParser.mainLoop` glues them: one token is pulled, processed, and any tokenizer state
  switch the tree builder ordered (`self.parser.tokenizer.state = …`) is applied before the next pull; the CDATA
  permission the tokenizer asks the parser for is refreshed after every token.
  Input: the characters as the tokenizer sees them (newlines already normalised; see H5.Model.Stream for that layer).
-/
import H5.Model.Tokenizer
import H5.Model.TreeBuilder
namespace H5.Model.Parser
open H5 H5.Model

def tokStateOf : TB.TokStateSwitch → Tokenizer.State
  | .data => .dataState
  | .rcdata => .rcdataState
  | .rawtext => .rawtextState
  | .scriptData => .scriptDataState
  | .plaintext => .plaintextState

def loop (cfg : TB.Cfg) : Nat → TB.PState → Tokenizer.St → Except PyErr TB.PState
  | 0, _, _ => .error (.outOfFuel "Parser.loop")
  | fuel + 1, ps, ts => do
    match ← Tokenizer.next ts with
    | none => TB.finish cfg ps
    | some (tok, ts) =>
      let (ps, sw) ← TB.step cfg ps tok
      let ts := match sw with
        | some s => Tokenizer.setState ts (tokStateOf s)
        | none => ts
      let ts := Tokenizer.setCdataAllowed ts (TB.cdataAllowed ps)
      loop cfg fuel ps ts

/-- `HTMLParser().parse(text)` / `.parseFragment(text, container)` on already-normalised characters -/
def parse (cfg : TB.Cfg) (input : Str) : Except PyErr (Tree × List Str) := do
  let ps ← TB.init cfg
  let ts := Tokenizer.St.init (tokStateOf (TB.initialTokState cfg)) none (TB.cdataAllowed ps) input
  -- every pull yields one token; a state call consumes input or ends a bounded non-consuming chain, and every
  -- character yields at most a bounded number of tokens: 8·n + 64 pulls suffice (checked by the `parse` op)
  let ps ← loop cfg (8 * input.length + 64) ps ts
  let t ← TB.resultE ps
  pure (t, TB.errorCodes ps)

end H5.Model.Parser
