/-
  H5.Model.CharRef — hand model of the character-reference part of
  `html5lib/_tokenizer.py`:

    * `consumeNumberEntity(isHex)`            (lines 71-141)
    * `consumeEntity(allowedChar, fromAttribute)` up to, but not including, its last
      `if fromAttribute:` statement           (lines 143-212; the rest is in Tokenizer.lean)
    * the two trie operations they use: `Trie.has_keys_with_prefix` (`_trie/py.py`) and
      `Trie.longest_prefix` (`_trie/_base.py`), modelled abstractly over the sorted
      generated table `Gen.entities`.

  Also here (because both model files need them): the input stream *as the tokenizer sees
  it* (`Stream.char / unget / charsUntil` over the remaining input) and a few Python
  idioms (`c in chars` with `c` possibly EOF, `"".join(charStack)`, `int(s, radix)`,
  `str.lower()`).

  Everything is total; every Python exception site is an explicit `PyErr`.
-/
import H5.Basic
import H5.Gen.Constants
import H5.Gen.Entities
namespace H5.Model
open H5 H5.Gen

/-! ### Character constants (code points) -/
namespace Ch
abbrev nul : Nat := 0x00
abbrev bang : Nat := 0x21        -- !
abbrev dquote : Nat := 0x22      -- "
abbrev hash : Nat := 0x23        -- #
abbrev amp : Nat := 0x26         -- &
abbrev squote : Nat := 0x27      -- '
abbrev dash : Nat := 0x2D        -- -
abbrev slash : Nat := 0x2F       -- /
abbrev semi : Nat := 0x3B        -- ;
abbrev lt : Nat := 0x3C          -- <
abbrev eq : Nat := 0x3D          -- =
abbrev gt : Nat := 0x3E          -- >
abbrev qmark : Nat := 0x3F       -- ?
abbrev lbracket : Nat := 0x5B    -- [
abbrev rbracket : Nat := 0x5D    -- ]
abbrev backtick : Nat := 0x60    -- `
abbrev repl : Nat := 0xFFFD      -- U+FFFD REPLACEMENT CHARACTER
end Ch

/-! ### The input stream as the tokenizer sees it

The state of the stream is the remaining (already newline-normalised) input.
`EOF` is `none`. -/
namespace Stream

/-- `stream.char()` -/
def char (input : List Nat) : Option Nat × List Nat :=
  match input with
  | [] => (none, [])
  | c :: rest => (some c, rest)

/-- `stream.unget(c)`: a no-op for EOF. -/
def unget (input : List Nat) (c : Option Nat) : List Nat :=
  match c with
  | none => input
  | some c => c :: input

/-- `stream.charsUntil(characters, opposite)`: the longest prefix of characters not in
(`opposite`: in) `characters`. -/
def charsUntil (input : List Nat) (characters : List Nat) (opposite : Bool := false) : Str × List Nat :=
  input.span fun c => if opposite then characters.contains c else !characters.contains c

end Stream

/-! ### Python idioms -/

/-- Python `c in chars` for a character-or-EOF `c` (`None in frozenset(...)` is `False`). -/
def isIn (c : Option Nat) (chars : List Nat) : Bool :=
  match c with
  | none => false
  | some c => chars.contains c

/-- A character used as a `str` operand (`data + ...`, `... += data`): `TypeError` for EOF. -/
def nonEOF (c : Option Nat) : Except PyErr Nat :=
  match c with
  | none => .error (.typeError "NoneType used as str")
  | some c => .ok c

/-- `"".join(charStack)`: `TypeError` if an element is EOF (`None`). -/
def joinChars : List (Option Nat) → Except PyErr Str
  | [] => .ok []
  | none :: _ => .error (.typeError "join: NoneType item")
  | some c :: rest => do let r ← joinChars rest; pure (c :: r)

/-- `str(x)` of a `datavars` value that is a character or EOF. -/
def pyStrOfChar : Option Nat → Str
  | none => lit "None"
  | some c => [c]

/-- decimal rendering of an `int` -/
def natToDec (n : Nat) : Str := (Nat.toDigits 10 n).map Char.toNat

/-- a `ParseError` token without `datavars` -/
def perr (code : String) : TTok := .parseError (lit code) []

/-- `s.translate(asciiUpper2Lower)` (table-driven) -/
def translateUpper2Lower (s : Str) : Str :=
  s.map fun c => (asciiUpper2Lower.lookup c).getD c

/-- Python `str.lower()` on one code point, *exact wherever the result contains an ASCII
character*: `A-Z`, U+212A KELVIN SIGN (→ `k`) and U+0130 (→ `i` U+0307).  Every other
code point lower-cases to a non-empty string of non-ASCII characters (checked exhaustively
by `tools/tok_corr.py --selfcheck`) and is left unchanged here.  The tokenizer only ever
compares `x.lower()` with a pure-ASCII string, for which this model is exact. -/
def pyLowerChar (c : Nat) : Str :=
  if 65 ≤ c ∧ c ≤ 90 then [c + 32]
  else if c = 0x212A then [107]
  else if c = 0x0130 then [105, 0x0307]
  else [c]

def pyLower (s : Str) : Str := s.flatMap pyLowerChar

/-! ### The trie over `entities` (abstract model) -/

/-- `entitiesTrie.has_keys_with_prefix(prefix)`: some key starts with `prefix`.
(The Python code bisects the sorted key list; `_cachestr`/`_cachepoints` are never
written because the tokenizer never calls `keys()`.) -/
def hasKeysWithPrefix (table : List (Str × Str)) (pfx : Str) : Bool :=
  table.any fun kv => pfx.isPrefixOf kv.1

/-- `key in trie` -/
def hasKey (table : List (Str × Str)) (key : Str) : Bool :=
  table.any fun kv => kv.1 == key

/-- `entities[key]` -/
def entityValue (table : List (Str × Str)) (key : Str) : Except PyErr Str :=
  match table.lookup key with
  | some v => .ok v
  | none => .error (.keyError "entities[entityName]")

/-- the `for i in range(1, len(prefix) + 1): if prefix[:-i] in self` loop of
`Trie.longest_prefix`, counting the kept length `n = len(prefix) - i` down to `0`. -/
def longestPrefixFrom (table : List (Str × Str)) (pfx : Str) : Nat → Except PyErr Str
  | 0 => if hasKey table [] then .ok [] else .error (.keyError "longest_prefix")
  | n + 1 =>
    if hasKey table (pfx.take (n + 1)) then .ok (pfx.take (n + 1))
    else longestPrefixFrom table pfx n

/-- `entitiesTrie.longest_prefix(prefix)`: the longest key that is a prefix of `prefix`;
`KeyError` if there is none. -/
def longestPrefix (table : List (Str × Str)) (pfx : Str) : Except PyErr Str :=
  longestPrefixFrom table pfx pfx.length

/-! ### Numeric character references -/

/-- CPython ≥ 3.11 `sys.get_int_max_str_digits()` default: `int(s, 10)` raises `ValueError`
when `s` has more digits than this (leading zeros count). Not applied for radix 16. -/
def intMaxStrDigits : Nat := 4300

def digitVal (c : Nat) : Option Nat :=
  if 48 ≤ c ∧ c ≤ 57 then some (c - 48)
  else if 65 ≤ c ∧ c ≤ 70 then some (c - 55)
  else if 97 ≤ c ∧ c ≤ 102 then some (c - 87)
  else none

def pyIntDigits (radix : Nat) : Str → Nat → Except PyErr Nat
  | [], acc => .ok acc
  | c :: rest, acc =>
    match digitVal c with
    | some d => if d < radix then pyIntDigits radix rest (acc * radix + d)
                else .error (.valueError "int: invalid literal")
    | none => .error (.valueError "int: invalid literal")

/-- `int(s, radix)` for `radix ∈ {10, 16}` on digit strings. -/
def pyInt (s : Str) (radix : Nat) : Except PyErr Nat :=
  if s.isEmpty then .error (.valueError "int: invalid literal ''")
  else if radix = 10 ∧ s.length > intMaxStrDigits then
    .error (.valueError "int: exceeds the limit (4300 digits) for integer string conversion")
  else pyIntDigits radix s 0

/-- the inline `frozenset([...])` of lines 113-121 -/
def nonCharacters : List Nat :=
  [0x000B, 0xFFFE, 0xFFFF, 0x1FFFE,
   0x1FFFF, 0x2FFFE, 0x2FFFF, 0x3FFFE,
   0x3FFFF, 0x4FFFE, 0x4FFFF, 0x5FFFE,
   0x5FFFF, 0x6FFFE, 0x6FFFF, 0x7FFFE,
   0x7FFFF, 0x8FFFE, 0x8FFFF, 0x9FFFE,
   0x9FFFF, 0xAFFFE, 0xAFFFF, 0xBFFFE,
   0xBFFFF, 0xCFFFE, 0xCFFFF, 0xDFFFE,
   0xDFFFF, 0xEFFFE, 0xEFFFF, 0xFFFFE,
   0xFFFFF, 0x10FFFE, 0x10FFFF]

def illegalCodepoint (charAsInt : Nat) : TTok :=
  .parseError (lit "illegal-codepoint-for-numeric-entity") [(lit "charAsInt", natToDec charAsInt)]

/-- lines 95-132: the character a numeric reference with value `charAsInt` decodes to, and
the parse error queued for it (if any).  (`chr(charAsInt)` cannot raise on a UCS-4 build:
the range was checked just before.) -/
def numCharRef (charAsInt : Nat) : Str × Option TTok :=
  match replacementCharacters.lookup charAsInt with
  | some char => (char, some (illegalCodepoint charAsInt))
  | none =>
    if (0xD800 ≤ charAsInt ∧ charAsInt ≤ 0xDFFF) ∨ charAsInt > 0x10FFFF then
      ([Ch.repl], some (illegalCodepoint charAsInt))
    else if (0x0001 ≤ charAsInt ∧ charAsInt ≤ 0x0008) ∨
            (0x000E ≤ charAsInt ∧ charAsInt ≤ 0x001F) ∨
            (0x007F ≤ charAsInt ∧ charAsInt ≤ 0x009F) ∨
            (0xFDD0 ≤ charAsInt ∧ charAsInt ≤ 0xFDEF) ∨
            nonCharacters.contains charAsInt then
      ([charAsInt], some (illegalCodepoint charAsInt))
    else
      ([charAsInt], none)

/-- lines 87-90: `c = char(); while c in allowed and c is not EOF: charStack.append(c); c = char()`.
Returns `(charStack, c, rest)`. -/
def consumeDigits (allowed : List Nat) : List Nat → Str × Option Nat × List Nat
  | [] => ([], none, [])
  | c :: rest =>
    if allowed.contains c then
      let (cs, c', r) := consumeDigits allowed rest
      (c :: cs, c', r)
    else ([], some c, rest)

/-- `consumeNumberEntity(isHex)`: returns `(char, parse errors queued, rest of input)`. -/
def consumeNumberEntity (isHex : Bool) (input : List Nat) : Except PyErr (Str × List TTok × List Nat) := do
  let allowed := if isHex then hexDigits else digits
  let radix := if isHex then 16 else 10
  let (charStack, c, input) := consumeDigits allowed input
  -- `digitString = "".join(charStack).lstrip("0")`; more than 8 significant digits → 0x110000
  let digitString := charStack.dropWhile (· = 48)
  let charAsInt ← if digitString.length > 8 then pure 0x110000
                  else pyInt (if digitString.isEmpty then [48] else digitString) radix
  let (char, err) := numCharRef charAsInt
  if c ≠ some Ch.semi then
    pure (char, err.toList ++ [perr "numeric-entity-without-semicolon"], Stream.unget input c)
  else
    pure (char, err.toList, input)

/-! ### Named character references -/

/-- lines 179-182:
```
while (charStack[-1] is not EOF):
    if not entitiesTrie.has_keys_with_prefix("".join(charStack)): break
    charStack.append(self.stream.char())
```
Structural on the input: one character is read per iteration. -/
def extendWhilePrefix (table : List (Str × Str)) :
    List Nat → List (Option Nat) → Except PyErr (List (Option Nat) × List Nat)
  | input, charStack =>
    match charStack.getLast? with
    | none => .error (.indexError "charStack[-1]")
    | some none => .ok (charStack, input)
    | some (some _) =>
      match joinChars charStack with
      | .error e => .error e
      | .ok pfx =>
        if !hasKeysWithPrefix table pfx then .ok (charStack, input)
        else match input with
          | [] => .ok (charStack ++ [none], [])          -- the next test sees EOF and stops
          | c :: rest => extendWhilePrefix table rest (charStack ++ [some c])

/-- `charStack[i]` -/
def charStackGet (charStack : List (Option Nat)) (i : Nat) : Except PyErr (Option Nat) :=
  match charStack[i]? with
  | some c => .ok c
  | none => .error (.indexError "charStack[entityLength]")

/-- `charStack[-1]` -/
def charStackLast (charStack : List (Option Nat)) : Except PyErr (Option Nat) :=
  match charStack.getLast? with
  | some c => .ok c
  | none => .error (.indexError "charStack[-1]")

/-- lines 173-212, the named-reference branch of `consumeEntity`; `c0` is the first
character (already read). -/
def consumeNamedEntity (table : List (Str × Str)) (fromAttribute : Bool) (c0 : Option Nat)
    (input : List Nat) : Except PyErr (Str × List TTok × List Nat) := do
  let (charStack, input) ← extendWhilePrefix table input [c0]
  -- try: entityName = longest_prefix("".join(charStack[:-1])) except KeyError: entityName = None
  let pfx ← joinChars charStack.dropLast
  let entityName : Option Str ←
    match longestPrefix table pfx with
    | .ok n => pure (some n)
    | .error (.keyError _) => pure none
    | .error e => throw e
  match entityName with
  | some entityName =>
    let entityLength := entityName.length
    let lastOfName ← match entityName.getLast? with
      | some c => pure c
      | none => throw (.indexError "entityName[-1]")
    let errs := if lastOfName ≠ Ch.semi then [perr "named-entity-without-semicolon"] else []
    -- `and` short-circuits: charStack[entityLength] is only evaluated in an attribute
    let special ←
      if lastOfName ≠ Ch.semi ∧ fromAttribute then do
        let nxt ← charStackGet charStack entityLength
        pure (isIn nxt asciiLetters || isIn nxt digits || nxt == some Ch.eq)
      else pure false
    let last ← charStackLast charStack
    let input := Stream.unget input last              -- self.stream.unget(charStack.pop())
    let charStack := charStack.dropLast
    if special then
      let j ← joinChars charStack
      pure (Ch.amp :: j, errs, input)
    else
      let v ← entityValue table entityName
      let j ← joinChars (charStack.drop entityLength)
      pure (v ++ j, errs, input)
  | none =>
    let last ← charStackLast charStack
    let input := Stream.unget input last
    let j ← joinChars charStack.dropLast
    pure (Ch.amp :: j, [perr "expected-named-entity"], input)

/-- lines 143-212 of `consumeEntity`: returns `(output, parse errors queued, rest of input)`.
`allowedChar = none` is Python `None`. -/
def consumeEntityCore (allowedChar : Option Nat) (fromAttribute : Bool) (input : List Nat) :
    Except PyErr (Str × List TTok × List Nat) := do
  -- output = "&"
  let (c0, input) := Stream.char input
  if isIn c0 spaceCharacters || c0 == none || c0 == some Ch.lt || c0 == some Ch.amp ||
      (allowedChar.isSome && allowedChar == c0) then
    pure ([Ch.amp], [], Stream.unget input c0)
  else if c0 = some Ch.hash then
    -- Read the next character to see if it's hex or decimal
    let (c1, input) := Stream.char input
    let (hex, charStack, input) :=
      if isIn c1 [120, 88] then                                   -- ("x", "X")
        let (c2, input) := Stream.char input
        (true, [c0, c1, c2], input)
      else (false, [c0, c1], input)
    let last ← charStackLast charStack
    if (hex && isIn last hexDigits) || (!hex && isIn last digits) then
      -- At least one digit found, so consume the whole number
      consumeNumberEntity hex (Stream.unget input last)
    else
      -- No digits found
      let input := Stream.unget input last                         -- unget(charStack.pop())
      let j ← joinChars charStack.dropLast
      pure (Ch.amp :: j, [perr "expected-numeric-entity"], input)
  else
    consumeNamedEntity entities fromAttribute c0 input

end H5.Model
