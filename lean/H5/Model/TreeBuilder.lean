import H5.Model.TreeBuilder.Main
