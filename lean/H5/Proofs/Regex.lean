/-
  Soundness of the backtracking engine H5.Model.Regex w.r.t. a declarative language semantics, and the exact
  behaviour of a greedy single-character-class repeat.  Used by H5.Props.C09 (CSS parenthesis clause).
-/
import H5.Model.Regex
import H5.Proofs.ExceptLemmas
namespace H5.Model.Regex
open H5

/-- `Star P w rest`: `w` is a concatenation of pieces, each accepted by `P` in front of what follows it -/
inductive Star (P : Str → Str → Prop) : Str → Str → Prop
  | nil (rest : Str) : Star P [] rest
  | cons (u v rest : Str) : P u (v ++ rest) → Star P v rest → Star P (u ++ v) rest

/-- declarative semantics: `Lang cl r w rest` — `r` can consume `w` when `rest` follows
(counts and greediness of repeats are forgotten, `^` is not interpreted: an over-approximation) -/
def Lang (cl : Classes) : Re → Str → Str → Prop
  | .empty, w, _ => w = []
  | .lit c, w, _ => w = [c]
  | .notLit c, w, _ => ∃ x, w = [x] ∧ x ≠ c
  | .any, w, _ => ∃ x, w = [x] ∧ x ≠ 10
  | .cls neg items, w, _ => ∃ x, w = [x] ∧ classTest cl neg items x = true
  | .cat a b, w, rest => ∃ u v, w = u ++ v ∧ Lang cl a u (v ++ rest) ∧ Lang cl b v rest
  | .alt a b, w, rest => Lang cl a w rest ∨ Lang cl b w rest
  | .group _ r, w, rest => Lang cl r w rest
  | .rep _ _ _ r, w, rest => Star (Lang cl r) w rest
  | .bos, w, _ => w = []
  | .eos, w, rest => w = [] ∧ (rest = [] ∨ rest = [10])

/-- `GroupIn cl r i t`: `r` contains a capturing group number `i` whose body can consume `t` -/
def GroupIn (cl : Classes) : Re → Nat → Str → Prop
  | .cat a b, i, t => GroupIn cl a i t ∨ GroupIn cl b i t
  | .alt a b, i, t => GroupIn cl a i t ∨ GroupIn cl b i t
  | .group j r, i, t => (i = j ∧ ∃ rest, Lang cl r t rest) ∨ GroupIn cl r i t
  | .rep _ _ _ r, i, t => GroupIn cl r i t
  | _, _, _ => False

/-- every capture handed on was there before or was made by a group of `r` -/
def CapsFrom (cl : Classes) (r : Re) (caps caps' : Caps) : Prop :=
  ∀ e ∈ caps', e ∈ caps ∨ GroupIn cl r e.1 e.2

/-- **soundness of `run`**: a successful run consumed a word of the language and then the continuation succeeded -/
theorem run_sound (cl : Classes) (total : Nat) : ∀ (f : Nat) (r : Re) (s : Str) (caps : Caps) (k : Cont) (res : Str × Caps),
    run cl total f r s caps k = .ok (some res) →
    ∃ w s' caps', s = w ++ s' ∧ Lang cl r w s' ∧ k s' caps' = .ok (some res) ∧ CapsFrom cl r caps caps' := by
  intro f
  induction f with
  | zero => intro r s caps k res h; simp [run] at h
  | succ f ih =>
    intro r s caps k res h
    have same : CapsFrom cl r caps caps := fun e he => Or.inl he
    cases r with
    | empty => exact ⟨[], s, caps, rfl, rfl, by simpa [run] using h, same⟩
    | lit c =>
      cases s with
      | nil => simp [run] at h
      | cons x t =>
        simp only [run] at h
        split at h
        · rename_i hx; subst hx; exact ⟨[x], t, caps, rfl, rfl, h, same⟩
        · cases h
    | notLit c =>
      cases s with
      | nil => simp [run] at h
      | cons x t =>
        simp only [run] at h
        split at h
        · rename_i hx; exact ⟨[x], t, caps, rfl, ⟨x, rfl, hx⟩, h, same⟩
        · cases h
    | any =>
      cases s with
      | nil => simp [run] at h
      | cons x t =>
        simp only [run] at h
        split at h
        · rename_i hx; exact ⟨[x], t, caps, rfl, ⟨x, rfl, hx⟩, h, same⟩
        · cases h
    | cls neg items =>
      cases s with
      | nil => simp [run] at h
      | cons x t =>
        simp only [run] at h
        split at h
        · rename_i hx; exact ⟨[x], t, caps, rfl, ⟨x, rfl, hx⟩, h, same⟩
        · cases h
    | cat a b =>
      simp only [run] at h
      obtain ⟨u, s1, c1, e1, l1, h1, g1⟩ := ih a s caps _ res h
      obtain ⟨v, s2, c2, e2, l2, h2, g2⟩ := ih b s1 c1 k res h1
      refine ⟨u ++ v, s2, c2, by rw [e1, e2, List.append_assoc], ⟨u, v, rfl, ?_, l2⟩, h2, ?_⟩
      · rw [← e2]; exact l1
      · intro e he
        rcases g2 e he with h3 | h3
        · rcases g1 e h3 with h4 | h4
          · exact Or.inl h4
          · exact Or.inr (Or.inl h4)
        · exact Or.inr (Or.inr h3)
    | alt a b =>
      simp only [run] at h
      cases ha : run cl total f a s caps k with
      | error e => rw [ha] at h; cases h
      | ok o =>
        cases o with
        | some r1 =>
          rw [ha] at h
          simp only at h
          obtain ⟨w, s', c', e, l, hk, g⟩ := ih a s caps k r1 ha
          cases h
          exact ⟨w, s', c', e, Or.inl l, hk, fun x hx => (g x hx).imp id Or.inl⟩
        | none =>
          rw [ha] at h
          simp only at h
          obtain ⟨w, s', c', e, l, hk, g⟩ := ih b s caps k res h
          exact ⟨w, s', c', e, Or.inr l, hk, fun x hx => (g x hx).imp id Or.inr⟩
    | group i r =>
      simp only [run] at h
      obtain ⟨w, s', c', e, l, hk, g⟩ := ih r s caps _ res h
      refine ⟨w, s', _, e, l, hk, ?_⟩
      intro x hx
      simp only [List.mem_cons] at hx
      rcases hx with rfl | hx
      · right; left
        refine ⟨rfl, s', ?_⟩
        simp only [e, List.length_append, Nat.add_sub_cancel, List.take_left']
        exact l
      · exact (g x hx).imp id Or.inr
    | rep mn mx greedy r =>
      simp only [run] at h
      by_cases hmn : mn > 0
      · rw [if_pos hmn] at h
        obtain ⟨u, s1, c1, e1, l1, h1, g1⟩ := ih r s caps _ res h
        obtain ⟨v, s2, c2, e2, l2, h2, g2⟩ := ih _ s1 c1 k res h1
        refine ⟨u ++ v, s2, c2, by rw [e1, e2, List.append_assoc], ?_, h2, ?_⟩
        · exact Star.cons u v s2 (by rw [← e2]; exact l1) l2
        · intro e he
          rcases g2 e he with h3 | h3
          · exact g1 e h3
          · exact Or.inr h3
      · rw [if_neg hmn] at h
        by_cases hmx : mx = some 0
        · rw [if_pos hmx] at h
          exact ⟨[], s, caps, rfl, Star.nil s, h, same⟩
        · rw [if_neg hmx] at h
          -- one more iteration succeeded, or the tail did
          have more_case : ∀ res', run cl total f r s caps (fun s' c' =>
              if s'.length = s.length then k s' c'
              else run cl total f (.rep 0 (mx.map (· - 1)) greedy r) s' c' k) = .ok (some res') →
              ∃ w s' caps', s = w ++ s' ∧ Star (Lang cl r) w s' ∧ k s' caps' = .ok (some res') ∧
                CapsFrom cl (.rep mn mx greedy r) caps caps' := by
            intro res' hm
            obtain ⟨u, s1, c1, e1, l1, h1, g1⟩ := ih r s caps _ res' hm
            split at h1
            · refine ⟨u, s1, c1, e1, ?_, h1, g1⟩
              have := Star.cons u [] s1 (by simpa using l1) (Star.nil s1)
              simpa using this
            · obtain ⟨v, s2, c2, e2, l2, h2, g2⟩ := ih _ s1 c1 k res' h1
              refine ⟨u ++ v, s2, c2, by rw [e1, e2, List.append_assoc], ?_, h2, ?_⟩
              · exact Star.cons u v s2 (by rw [← e2]; exact l1) l2
              · intro e he
                rcases g2 e he with h3 | h3
                · exact g1 e h3
                · exact Or.inr h3
          generalize hM : run cl total f r s caps (fun s' c' =>
              if s'.length = s.length then k s' c'
              else run cl total f (.rep 0 (mx.map (· - 1)) greedy r) s' c' k) = M at h more_case
          cases greedy with
          | true =>
            simp only [if_true] at h
            cases M with
            | error e => simp at h
            | ok o =>
              cases o with
              | none => simp only at h; exact ⟨[], s, caps, rfl, Star.nil s, h, same⟩
              | some r1 => simp only at h; cases h; exact more_case _ rfl
          | false =>
            simp only [Bool.false_eq_true, if_false] at h
            cases hk : k s caps with
            | error e => rw [hk] at h; simp at h
            | ok o =>
              rw [hk] at h
              cases o with
              | none => simp only at h; exact more_case res h
              | some r1 => simp only at h; cases h; exact ⟨[], s, caps, rfl, Star.nil s, hk, same⟩
    | bos =>
      simp only [run] at h
      split at h
      · exact ⟨[], s, caps, rfl, rfl, h, same⟩
      · cases h
    | eos =>
      simp only [run] at h
      split at h
      · rename_i hs; exact ⟨[], s, caps, rfl, ⟨rfl, hs⟩, h, same⟩
      · cases h

theorem take_append_sub (w s' : Str) : (w ++ s').take ((w ++ s').length - s'.length) = w := by
  simp

/-- `re.match`: the matched text is in the language, and text ++ rest is the subject -/
theorem matchAt_sound (cl : Classes) (r : Re) (s : Str) (m : Match) (h : matchAt cl r s = .ok (some m)) :
    s = m.text ++ m.rest ∧ Lang cl r m.text m.rest := by
  simp only [matchAt, attempt, bind_eq_ok] at h
  obtain ⟨res, hr, h⟩ := h
  cases res with
  | none => simp [pure, Except.pure] at h
  | some sc =>
    obtain ⟨w, s', c', e, l, hk, _⟩ := run_sound cl s.length _ r s [] _ sc hr
    simp only [Bool.false_and, Bool.false_eq_true, if_false, Except.ok.injEq, Option.some.injEq] at hk
    subst hk
    simp only [pure, Except.pure, Except.ok.injEq, Option.some.injEq] at h
    subst h
    simp only
    rw [e, take_append_sub]
    exact ⟨rfl, l⟩


/-! ### a greedy repeat of a one-character class in front of a continuation that cannot fail takes the maximal run -/

theorem run_star_step (cl : Classes) (total f : Nat) (neg : Bool) (items : List CItem) (s : Str) (caps : Caps) (k : Cont)
    (R : Res) (hR : run cl total f (.cls neg items) s caps (fun s' c' =>
          if s'.length = s.length then k s' c' else run cl total f (.rep 0 none true (.cls neg items)) s' c' k) = R) :
    (R = .ok none → run cl total (f + 1) (.rep 0 none true (.cls neg items)) s caps k = k s caps) ∧
    (R ≠ .ok none → run cl total (f + 1) (.rep 0 none true (.cls neg items)) s caps k = R) := by
  constructor
  · intro h
    subst h
    simp only [run, Nat.lt_irrefl, if_false, reduceCtorEq, if_true, Option.map_none]
    rw [hR]
  · intro h
    simp only [run, Nat.lt_irrefl, if_false, reduceCtorEq, if_true, Option.map_none]
    rw [hR]
    cases R with
    | error e => rfl
    | ok o =>
      cases o with
      | none => exact absurd rfl h
      | some x => rfl

theorem run_cls_cons (cl : Classes) (total f : Nat) (neg : Bool) (items : List CItem) (x : Nat) (t : Str) (caps : Caps) (k : Cont) :
    run cl total (f + 1) (.cls neg items) (x :: t) caps k = if classTest cl neg items x then k t caps else .ok none := rfl

theorem run_cls_nil (cl : Classes) (total f : Nat) (neg : Bool) (items : List CItem) (caps : Caps) (k : Cont) :
    run cl total (f + 1) (.cls neg items) [] caps k = .ok none := rfl

theorem greedy_cls_star (cl : Classes) (total : Nat) (neg : Bool) (items : List CItem) :
    ∀ (f : Nat) (s : Str) (caps : Caps) (k : Cont) (o : Option (Str × Caps)),
    (∀ s' c', s'.length ≤ s.length → k s' c' ≠ .ok none) →
    run cl total f (.rep 0 none true (.cls neg items)) s caps k = .ok o →
    ∃ res, o = some res ∧ k (s.dropWhile (classTest cl neg items)) caps = .ok (some res) := by
  intro f
  induction f with
  | zero => intro s caps k o _ h; simp [run] at h
  | succ f ih =>
    intro s caps k o hk h
    have fin : ∀ o', k s caps = .ok o' → ∃ res, o' = some res ∧ k s caps = .ok (some res) := by
      intro o' h'
      cases o' with
      | none => exact absurd h' (hk s caps (Nat.le_refl _))
      | some res => exact ⟨res, rfl, h'⟩
    cases f with
    | zero =>
      obtain ⟨_, h2⟩ := run_star_step cl total 0 neg items s caps k _ rfl
      rw [h2 (by simp [run])] at h
      simp [run] at h
    | succ f' =>
      cases s with
      | nil =>
        obtain ⟨h1, _⟩ := run_star_step cl total (f' + 1) neg items [] caps k _ rfl
        rw [h1 (run_cls_nil ..)] at h
        simpa using fin o h
      | cons x t =>
        obtain ⟨h1, h2⟩ := run_star_step cl total (f' + 1) neg items (x :: t) caps k _ rfl
        rw [run_cls_cons] at h1 h2
        by_cases hx : classTest cl neg items x = true
        · have hne : ¬ t.length = (x :: t).length := by simp
          simp only [hx, if_true, hne, if_false] at h1 h2
          cases hR : run cl total (f' + 1) (.rep 0 none true (.cls neg items)) t caps k with
          | error e =>
            rw [hR] at h2
            rw [h2 (by simp)] at h
            cases h
          | ok o' =>
            obtain ⟨res, e, hres⟩ := ih t caps k o'
              (fun s' c' hl => hk s' c' (by simp only [List.length_cons]; omega)) hR
            subst e
            rw [hR] at h2
            rw [h2 (by simp)] at h
            simp only [Except.ok.injEq] at h
            refine ⟨res, h.symm, ?_⟩
            simp only [List.dropWhile_cons, hx, if_true]
            exact hres
        · simp only [hx, Bool.false_eq_true, if_false] at h1
          rw [h1 trivial] at h
          obtain ⟨res, e, hres⟩ := fin o h
          refine ⟨res, e, ?_⟩
          simp only [List.dropWhile_cons, hx, Bool.false_eq_true, if_false]
          exact hres

/-! ### `search`, `finditer`: every reported match is a successful anchored attempt at some suffix -/

theorem attempt_sound (cl : Classes) (total fuel : Nat) (r : Re) (adv : Bool) (sk : Nat) (t : Str) (m : Match)
    (h : attempt cl total fuel r adv sk t = .ok (some m)) :
    t = m.text ++ m.rest ∧
    run cl total fuel r t [] (fun s' c' =>
      if adv && s'.length == t.length then .ok none else .ok (some (s', c'))) = .ok (some (m.rest, m.caps)) := by
  simp only [attempt, bind_eq_ok] at h
  obtain ⟨res, hr, h⟩ := h
  cases res with
  | none => simp [pure, Except.pure] at h
  | some sc =>
    simp only [pure, Except.pure, Except.ok.injEq, Option.some.injEq] at h
    subst h
    obtain ⟨w, s', c', e, _, hk, _⟩ := run_sound cl total _ r t [] _ sc hr
    split at hk
    · cases hk
    · simp only [Except.ok.injEq, Option.some.injEq] at hk
      subst hk
      simp only
      refine ⟨?_, hr⟩
      rw [e, take_append_sub]

/-- `Hit cl total fuel r orig m`: `m` is the result of an anchored attempt at a suffix of `orig` -/
def Hit (cl : Classes) (total fuel : Nat) (r : Re) (orig : Str) (m : Match) : Prop :=
  ∃ a t adv sk, orig = a ++ t ∧ attempt cl total fuel r adv sk t = .ok (some m)

theorem searchAux_sound (cl : Classes) (total fuel : Nat) (r : Re) :
    ∀ (s : Str) (adv : Bool) (sk : Nat) (m : Match), searchAux cl total fuel r adv sk s = .ok (some m) →
    Hit cl total fuel r s m := by
  intro s
  induction s with
  | nil => intro adv sk m h; exact ⟨[], [], adv, sk, rfl, by simpa [searchAux] using h⟩
  | cons x t ih =>
    intro adv sk m h
    simp only [searchAux, bind_eq_ok] at h
    obtain ⟨o, ho, h⟩ := h
    cases o with
    | some m' =>
      simp only [pure, Except.pure, Except.ok.injEq, Option.some.injEq] at h
      subst h
      exact ⟨[], x :: t, adv, sk, rfl, ho⟩
    | none =>
      obtain ⟨a, t', adv', sk', e, h'⟩ := ih false (sk + 1) m h
      exact ⟨x :: a, t', adv', sk', by rw [e]; rfl, h'⟩

theorem allMatchesAux_sound (cl : Classes) (total fuel : Nat) (r : Re) (orig : Str) :
    ∀ (n : Nat) (adv : Bool) (s : Str) (acc res : List (Str × Match)) (tail : Str),
    (∃ a, orig = a ++ s) → (∀ pm ∈ acc, Hit cl total fuel r orig pm.2) →
    allMatchesAux cl total fuel r n adv s acc = .ok (res, tail) → ∀ pm ∈ res, Hit cl total fuel r orig pm.2 := by
  intro n
  induction n with
  | zero => intro adv s acc res tail _ _ h; simp [allMatchesAux] at h
  | succ n ih =>
    intro adv s acc res tail hs hacc h
    simp only [allMatchesAux, bind_eq_ok] at h
    obtain ⟨o, ho, h⟩ := h
    cases o with
    | none =>
      simp only [pure, Except.pure, Except.ok.injEq, Prod.mk.injEq] at h
      intro pm hpm
      rw [← h.1] at hpm
      exact hacc pm (List.mem_reverse.1 hpm)
    | some m =>
      obtain ⟨a0, e0⟩ := hs
      obtain ⟨a, t, adv', sk', e, hatt⟩ := searchAux_sound cl total fuel r s adv 0 m ho
      have hit : Hit cl total fuel r orig m := ⟨a0 ++ a, t, adv', sk', by rw [e0, e, List.append_assoc], hatt⟩
      obtain ⟨et, _⟩ := attempt_sound cl total fuel r adv' sk' t m hatt
      refine ih _ m.rest _ res tail ⟨a0 ++ a ++ m.text, ?_⟩ ?_ h
      · rw [e0, e, et]; simp
      · intro pm hpm
        simp only [List.mem_cons] at hpm
        rcases hpm with rfl | hpm
        · exact hit
        · exact hacc pm hpm

/-- every match `re.finditer` reports is an anchored attempt at a suffix of the subject -/
theorem allMatches_sound (cl : Classes) (r : Re) (s : Str) (res : List (Str × Match)) (tail : Str)
    (h : allMatches cl r s = .ok (res, tail)) : ∀ pm ∈ res, Hit cl s.length (fuelFor r s) r s pm.2 :=
  allMatchesAux_sound cl s.length (fuelFor r s) r s _ false s [] res tail ⟨[], rfl⟩ (by simp) h

/-! ### completeness: a run that FAILS has refuted every way of matching

`run_sound` says what a success means; the repaired `url(...)` remover needs the converse: when an anchored attempt
reports "no match", then no decomposition of the subject matches the pattern.  `LangX` is the exact declarative
semantics for that direction: repeat counts are respected, `^` is interpreted (`total`), and an optional iteration
consumes at least one character (the engine's empty-iteration guard never cuts such a path). -/

/-- `RepX P mn mx w rest`: `w` is `mn` pieces accepted by `P` followed by at most `mx - mn` NON-EMPTY pieces -/
inductive RepX (P : Str → Str → Prop) : Nat → Option Nat → Str → Str → Prop
  | done (mx : Option Nat) (rest : Str) : RepX P 0 mx [] rest
  | must (mn : Nat) (mx : Option Nat) (u v rest : Str) :
      P u (v ++ rest) → RepX P mn (mx.map (· - 1)) v rest → RepX P (mn + 1) mx (u ++ v) rest
  | more (mx : Option Nat) (u v rest : Str) :
      mx ≠ some 0 → u ≠ [] → P u (v ++ rest) → RepX P 0 (mx.map (· - 1)) v rest → RepX P 0 mx (u ++ v) rest

/-- exact semantics (an under-approximation of what the engine finds, an exact description of what it refutes) -/
def LangX (cl : Classes) (total : Nat) : Re → Str → Str → Prop
  | .empty, w, _ => w = []
  | .lit c, w, _ => w = [c]
  | .notLit c, w, _ => ∃ x, w = [x] ∧ x ≠ c
  | .any, w, _ => ∃ x, w = [x] ∧ x ≠ 10
  | .cls neg items, w, _ => ∃ x, w = [x] ∧ classTest cl neg items x = true
  | .cat a b, w, rest => ∃ u v, w = u ++ v ∧ LangX cl total a u (v ++ rest) ∧ LangX cl total b v rest
  | .alt a b, w, rest => LangX cl total a w rest ∨ LangX cl total b w rest
  | .group _ r, w, rest => LangX cl total r w rest
  | .rep mn mx _ r, w, rest => RepX (LangX cl total r) mn mx w rest
  | .bos, w, rest => w = [] ∧ rest.length = total
  | .eos, w, rest => w = [] ∧ (rest = [] ∨ rest = [10])

/-- a repeat `X*` of a one-character item accepts every word of such characters -/
theorem repX_chars (P : Str → Str → Prop) (x rest : Str) (h : ∀ c ∈ x, ∀ r, P [c] r) : RepX P 0 none x rest := by
  induction x with
  | nil => exact RepX.done none rest
  | cons c t ih =>
    have := RepX.more (P := P) none [c] t rest (by simp) (by simp) (h c List.mem_cons_self _)
      (ih (fun d hd => h d (List.mem_cons_of_mem _ hd)))
    simpa using this

/-- **completeness of `run`**: if the run fails (`.ok none`, i.e. neither a match nor an engine error), then for
every way `s = w ++ s'` of reading a word `w` of the exact language off the subject, the continuation was called on
`s'` (with some captures) and failed. -/
theorem run_complete (cl : Classes) (total : Nat) : ∀ (f : Nat) (r : Re) (s : Str) (caps : Caps) (k : Cont),
    run cl total f r s caps k = .ok none →
    ∀ w s', s = w ++ s' → LangX cl total r w s' → ∃ caps', k s' caps' = .ok none := by
  intro f
  induction f with
  | zero => intro r s caps k h; simp [run] at h
  | succ f ih =>
    intro r s caps k h w s' es hl
    cases r with
    | empty =>
      simp only [LangX] at hl; subst hl
      simp only [List.nil_append] at es; subst es
      exact ⟨caps, by simpa [run] using h⟩
    | lit c =>
      simp only [LangX] at hl; subst hl; subst es
      simp only [run, List.cons_append, List.nil_append, if_true] at h
      exact ⟨caps, h⟩
    | notLit c =>
      obtain ⟨x, rfl, hx⟩ := hl; subst es
      simp only [run, List.cons_append, List.nil_append] at h
      rw [if_pos hx] at h
      exact ⟨caps, h⟩
    | any =>
      obtain ⟨x, rfl, hx⟩ := hl; subst es
      simp only [run, List.cons_append, List.nil_append] at h
      rw [if_pos hx] at h
      exact ⟨caps, h⟩
    | cls neg items =>
      obtain ⟨x, rfl, hx⟩ := hl; subst es
      simp only [run, List.cons_append, List.nil_append] at h
      rw [if_pos hx] at h
      exact ⟨caps, h⟩
    | cat a b =>
      obtain ⟨u, v, rfl, la, lb⟩ := hl
      simp only [run] at h
      obtain ⟨c1, h1⟩ := ih a s caps _ h u (v ++ s') (by rw [es, List.append_assoc]) la
      exact ih b (v ++ s') c1 k h1 v s' rfl lb
    | alt a b =>
      simp only [run] at h
      cases ha : run cl total f a s caps k with
      | error e => rw [ha] at h; cases h
      | ok o =>
        rw [ha] at h
        cases o with
        | some r1 => simp at h
        | none =>
          simp only at h
          rcases hl with hl | hl
          · exact ih a s caps k ha w s' es hl
          · exact ih b s caps k h w s' es hl
    | group i r =>
      simp only [run] at h
      obtain ⟨c1, h1⟩ := ih r s caps _ h w s' es hl
      exact ⟨_, h1⟩
    | rep mn mx greedy r =>
      simp only [run] at h
      simp only [LangX] at hl
      by_cases hmn : mn > 0
      · rw [if_pos hmn] at h
        cases hl with
        | done => exact absurd hmn (by simp)
        | more => exact absurd hmn (by simp)
        | must mn' _ u v _ pu hv =>
          obtain ⟨c1, h1⟩ := ih r s caps _ h u (v ++ s') (by rw [es, List.append_assoc]) pu
          simp only [Nat.add_sub_cancel] at h1
          exact ih _ (v ++ s') c1 k h1 v s' rfl hv
      · rw [if_neg hmn] at h
        by_cases hmx : mx = some 0
        · rw [if_pos hmx] at h
          cases hl with
          | done => simp only [List.nil_append] at es; subst es; exact ⟨caps, h⟩
          | must => exact absurd (Nat.succ_pos _) hmn
          | more _ u v _ hne => exact absurd hmx hne
        · rw [if_neg hmx] at h
          -- both the "one more iteration" branch and the tail failed
          have both : run cl total f r s caps (fun s1 c1 =>
                if s1.length = s.length then k s1 c1
                else run cl total f (.rep 0 (mx.map (· - 1)) greedy r) s1 c1 k) = .ok none ∧ k s caps = .ok none := by
            generalize run cl total f r s caps (fun s1 c1 =>
                if s1.length = s.length then k s1 c1
                else run cl total f (.rep 0 (mx.map (· - 1)) greedy r) s1 c1 k) = M at h
            cases greedy with
            | true =>
              simp only [if_true] at h
              cases M with
              | error e => simp at h
              | ok o =>
                cases o with
                | none => exact ⟨rfl, h⟩
                | some r1 => simp at h
            | false =>
              simp only [Bool.false_eq_true, if_false] at h
              cases hk : k s caps with
              | error e => rw [hk] at h; simp at h
              | ok o =>
                rw [hk] at h
                cases o with
                | none => exact ⟨h, rfl⟩
                | some r1 => simp at h
          cases hl with
          | done => simp only [List.nil_append] at es; subst es; exact ⟨caps, both.2⟩
          | must => exact absurd (Nat.succ_pos _) hmn
          | more _ u v _ _ hu pu hv =>
            obtain ⟨c1, h1⟩ := ih r s caps _ both.1 u (v ++ s') (by rw [es, List.append_assoc]) pu
            have hlen : ¬ (v ++ s').length = s.length := by
              rw [es]
              cases u with
              | nil => exact absurd rfl hu
              | cons x u' => simp only [List.cons_append, List.append_assoc, List.length_cons, List.length_append]; omega
            rw [if_neg hlen] at h1
            exact ih _ (v ++ s') c1 k h1 v s' rfl hv
    | bos =>
      obtain ⟨rfl, hlen⟩ := hl
      simp only [List.nil_append] at es; subst es
      simp only [run] at h
      rw [if_pos hlen] at h
      exact ⟨caps, h⟩
    | eos =>
      obtain ⟨rfl, hend⟩ := hl
      simp only [List.nil_append] at es; subst es
      simp only [run] at h
      rw [if_pos hend] at h
      exact ⟨caps, h⟩

/-- one anchored attempt that reports "no match" refutes every non-empty exact match at that position
(and every empty one unless `must_advance` is set) -/
theorem attempt_complete (cl : Classes) (total fuel : Nat) (r : Re) (adv : Bool) (sk : Nat) (t : Str)
    (h : attempt cl total fuel r adv sk t = .ok none) (w s' : Str) (e : t = w ++ s') (hl : LangX cl total r w s') :
    adv = true ∧ w = [] := by
  simp only [attempt, bind_eq_ok] at h
  obtain ⟨res, hr, h⟩ := h
  cases res with
  | some sc => simp [pure, Except.pure] at h
  | none =>
    obtain ⟨c', hk⟩ := run_complete cl total fuel r t [] _ hr w s' e hl
    split at hk
    · rename_i hc
      simp only [Bool.and_eq_true, beq_iff_eq] at hc
      refine ⟨hc.1, ?_⟩
      have := hc.2
      rw [e, List.length_append] at this
      exact List.eq_nil_of_length_eq_zero (by omega)
    · cases hk

/-- the language of a reported match -/
theorem attempt_lang (cl : Classes) (total fuel : Nat) (r : Re) (adv : Bool) (sk : Nat) (t : Str) (m : Match)
    (h : attempt cl total fuel r adv sk t = .ok (some m)) : t = m.text ++ m.rest ∧ Lang cl r m.text m.rest ∧ m.start = sk := by
  simp only [attempt, bind_eq_ok] at h
  obtain ⟨res, hr, h⟩ := h
  cases res with
  | none => simp [pure, Except.pure] at h
  | some sc =>
    simp only [pure, Except.pure, Except.ok.injEq, Option.some.injEq] at h
    subst h
    obtain ⟨w, s', c', e, l, hk, _⟩ := run_sound cl total _ r t [] _ sc hr
    split at hk
    · cases hk
    · simp only [Except.ok.injEq, Option.some.injEq] at hk
      subst hk
      simp only
      rw [e, take_append_sub]
      exact ⟨rfl, l, trivial⟩

/-- `Fails … t`: some anchored attempt at `t` reported "no match" -/
def Fails (cl : Classes) (total fuel : Nat) (r : Re) (t : Str) : Prop :=
  ∃ adv sk, attempt cl total fuel r adv sk t = .ok none

/-- `re.search` found nothing: the attempt failed at EVERY position -/
theorem searchAux_none (cl : Classes) (total fuel : Nat) (r : Re) :
    ∀ (s : Str) (adv : Bool) (sk : Nat), searchAux cl total fuel r adv sk s = .ok none →
    ∀ a t, s = a ++ t → Fails cl total fuel r t := by
  intro s
  induction s with
  | nil =>
    intro adv sk h a t e
    have : a = [] ∧ t = [] := by simpa using e.symm
    rw [this.2]
    exact ⟨adv, sk, by simpa [searchAux] using h⟩
  | cons x u ih =>
    intro adv sk h a t e
    simp only [searchAux, bind_eq_ok] at h
    obtain ⟨o, ho, h⟩ := h
    cases o with
    | some m => simp [pure, Except.pure] at h
    | none =>
      cases a with
      | nil => simp only [List.nil_append] at e; subst e; exact ⟨adv, sk, ho⟩
      | cons y a' =>
        simp only [List.cons_append, List.cons.injEq] at e
        exact ih false (sk + 1) h a' t e.2

/-- `re.search` is LEFTMOST: the reported match is an attempt at the end of a prefix `pre` at all of whose
positions the attempt failed -/
theorem searchAux_some (cl : Classes) (total fuel : Nat) (r : Re) :
    ∀ (s : Str) (adv : Bool) (sk : Nat) (m : Match), searchAux cl total fuel r adv sk s = .ok (some m) →
    ∃ pre, s = pre ++ (m.text ++ m.rest) ∧ m.start = sk + pre.length ∧
      (∀ a t, pre = a ++ t → t ≠ [] → Fails cl total fuel r (t ++ (m.text ++ m.rest))) ∧
      ∃ adv' sk', attempt cl total fuel r adv' sk' (m.text ++ m.rest) = .ok (some m) := by
  intro s
  induction s with
  | nil =>
    intro adv sk m h
    simp only [searchAux] at h
    obtain ⟨e, _, hs⟩ := attempt_lang cl total fuel r adv sk [] m h
    exact ⟨[], by simpa using e, by simp [hs], by intro a t e' hne; simp at e'; exact absurd e'.2 hne, adv, sk, by rw [← e]; exact h⟩
  | cons x u ih =>
    intro adv sk m h
    simp only [searchAux, bind_eq_ok] at h
    obtain ⟨o, ho, h⟩ := h
    cases o with
    | some m' =>
      simp only [pure, Except.pure, Except.ok.injEq, Option.some.injEq] at h
      subst h
      obtain ⟨e, _, hs⟩ := attempt_lang cl total fuel r adv sk (x :: u) m' ho
      exact ⟨[], by simpa using e, by simp [hs], by intro a t e' hne; simp at e'; exact absurd e'.2 hne, adv, sk, by rw [← e]; exact ho⟩
    | none =>
      obtain ⟨pre, e, hst, hpre, hatt⟩ := ih false (sk + 1) m h
      refine ⟨x :: pre, by rw [e]; rfl, by rw [hst]; simp only [List.length_cons]; omega, ?_, hatt⟩
      intro a t e' hne
      cases a with
      | nil =>
        simp only [List.nil_append] at e'
        subst e'
        exact ⟨adv, sk, by rw [List.cons_append, ← e]; exact ho⟩
      | cons y a' =>
        simp only [List.cons_append, List.cons.injEq] at e'
        exact hpre a' t e'.2 hne

/-- `Chain … s ms tail`: what `re.finditer` returns on the subject `s` — each reported match is preceded by a
stretch `pre` at all of whose positions the attempt failed, the next search resumes right after the match, and
in the unmatched `tail` the attempt failed everywhere -/
def Chain (cl : Classes) (total fuel : Nat) (r : Re) : Str → List (Str × Match) → Str → Prop
  | s, [], tail => s = tail ∧ ∀ a t, s = a ++ t → Fails cl total fuel r t
  | s, pm :: rest, tail =>
    s = pm.1 ++ (pm.2.text ++ pm.2.rest) ∧
    (∀ a t, pm.1 = a ++ t → t ≠ [] → Fails cl total fuel r (t ++ (pm.2.text ++ pm.2.rest))) ∧
    (∃ adv sk, attempt cl total fuel r adv sk (pm.2.text ++ pm.2.rest) = .ok (some pm.2)) ∧
    Chain cl total fuel r pm.2.rest rest tail

theorem allMatchesAux_chain (cl : Classes) (total fuel : Nat) (r : Re) :
    ∀ (n : Nat) (adv : Bool) (s : Str) (acc res : List (Str × Match)) (tail : Str),
    allMatchesAux cl total fuel r n adv s acc = .ok (res, tail) →
    ∃ new, res = acc.reverse ++ new ∧ Chain cl total fuel r s new tail := by
  intro n
  induction n with
  | zero => intro adv s acc res tail h; simp [allMatchesAux] at h
  | succ n ih =>
    intro adv s acc res tail h
    simp only [allMatchesAux, bind_eq_ok] at h
    obtain ⟨o, ho, h⟩ := h
    cases o with
    | none =>
      simp only [pure, Except.pure, Except.ok.injEq, Prod.mk.injEq] at h
      exact ⟨[], by simp [h.1], h.2, searchAux_none cl total fuel r s adv 0 ho⟩
    | some m =>
      obtain ⟨pre, e, hst, hpre, hatt⟩ := searchAux_some cl total fuel r s adv 0 m ho
      obtain ⟨new, hres, hch⟩ := ih _ m.rest _ res tail h
      have htake : s.take m.start = pre := by
        rw [hst, e]; simp
      refine ⟨(pre, m) :: new, ?_, e, hpre, hatt, hch⟩
      rw [hres, htake]
      simp

/-- **`re.finditer` is complete**: see `Chain` -/
theorem allMatches_chain (cl : Classes) (r : Re) (s : Str) (res : List (Str × Match)) (tail : Str)
    (h : allMatches cl r s = .ok (res, tail)) : Chain cl s.length (fuelFor r s) r s res tail := by
  obtain ⟨new, hres, hch⟩ := allMatchesAux_chain cl s.length (fuelFor r s) r _ false s [] res tail h
  simp only [List.reverse_nil, List.nil_append] at hres
  rw [hres]
  exact hch

/-! ### the only error the engine itself produces is running out of fuel -/

def FuelErr (e : PyErr) : Prop := ∃ site, e = .outOfFuel site

theorem run_error (cl : Classes) (total : Nat) : ∀ (f : Nat) (r : Re) (s : Str) (caps : Caps) (k : Cont) (e : PyErr),
    (∀ s' c' e', k s' c' = .error e' → FuelErr e') → run cl total f r s caps k = .error e → FuelErr e := by
  intro f
  induction f with
  | zero => intro r s caps k e _ h; simp only [run, Except.error.injEq] at h; exact ⟨_, h.symm⟩
  | succ f ih =>
    intro r s caps k e hk h
    cases r with
    | empty => exact hk s caps e (by simpa [run] using h)
    | lit c =>
      cases s with
      | nil => simp [run] at h
      | cons x t =>
        simp only [run] at h
        split at h
        · exact hk _ _ _ h
        · cases h
    | notLit c =>
      cases s with
      | nil => simp [run] at h
      | cons x t =>
        simp only [run] at h
        split at h
        · exact hk _ _ _ h
        · cases h
    | any =>
      cases s with
      | nil => simp [run] at h
      | cons x t =>
        simp only [run] at h
        split at h
        · exact hk _ _ _ h
        · cases h
    | cls neg items =>
      cases s with
      | nil => simp [run] at h
      | cons x t =>
        simp only [run] at h
        split at h
        · exact hk _ _ _ h
        · cases h
    | cat a b =>
      simp only [run] at h
      exact ih a s caps _ e (fun s' c' e' h' => ih b s' c' k e' hk h') h
    | alt a b =>
      simp only [run] at h
      cases ha : run cl total f a s caps k with
      | error e1 =>
        rw [ha] at h
        simp only [Except.error.injEq] at h
        subst h
        exact ih a s caps k _ hk ha
      | ok o =>
        rw [ha] at h
        cases o with
        | some r1 => simp at h
        | none => simp only at h; exact ih b s caps k e hk h
    | group i r =>
      simp only [run] at h
      exact ih r s caps _ e (fun s' c' e' h' => hk _ _ e' h') h
    | rep mn mx greedy r =>
      simp only [run] at h
      by_cases hmn : mn > 0
      · rw [if_pos hmn] at h
        exact ih r s caps _ e (fun s' c' e' h' => ih _ s' c' k e' hk h') h
      · rw [if_neg hmn] at h
        by_cases hmx : mx = some 0
        · rw [if_pos hmx] at h
          exact hk _ _ _ h
        · rw [if_neg hmx] at h
          have more_err : ∀ e', run cl total f r s caps (fun s' c' =>
              if s'.length = s.length then k s' c'
              else run cl total f (.rep 0 (mx.map (· - 1)) greedy r) s' c' k) = .error e' → FuelErr e' := by
            intro e' hm
            refine ih r s caps _ e' ?_ hm
            intro s' c' e'' h'
            split at h'
            · exact hk _ _ _ h'
            · exact ih _ s' c' k e'' hk h'
          generalize hM : run cl total f r s caps (fun s' c' =>
              if s'.length = s.length then k s' c'
              else run cl total f (.rep 0 (mx.map (· - 1)) greedy r) s' c' k) = M at h more_err
          cases greedy with
          | true =>
            simp only [if_true] at h
            cases M with
            | error e1 => simp only [Except.error.injEq] at h; subst h; exact more_err _ rfl
            | ok o =>
              cases o with
              | none => simp only at h; exact hk _ _ _ h
              | some r1 => simp at h
          | false =>
            simp only [Bool.false_eq_true, if_false] at h
            cases hk' : k s caps with
            | error e1 =>
              rw [hk'] at h
              simp only [Except.error.injEq] at h
              subst h
              exact hk _ _ _ hk'
            | ok o =>
              rw [hk'] at h
              cases o with
              | none => simp only at h; exact more_err _ h
              | some r1 => simp at h
    | bos =>
      simp only [run] at h
      split at h
      · exact hk _ _ _ h
      · cases h
    | eos =>
      simp only [run] at h
      split at h
      · exact hk _ _ _ h
      · cases h

theorem matchAt_error (cl : Classes) (r : Re) (s : Str) (e : PyErr) (h : matchAt cl r s = .error e) : FuelErr e := by
  simp only [matchAt, attempt, bind, Except.bind] at h
  split at h
  · rename_i e' hr
    simp only [Except.error.injEq] at h
    subst h
    refine run_error cl _ _ r s [] _ _ ?_ hr
    intro s' c' e'' h'
    split at h' <;> cases h'
  · split at h <;> cases h

theorem lookup_mem (i : Nat) (t : Str) : ∀ (caps : Caps), caps.lookup i = some t → (i, t) ∈ caps := by
  intro caps
  induction caps with
  | nil => simp [List.lookup]
  | cons e r ih =>
    obtain ⟨j, u⟩ := e
    intro h
    simp only [List.lookup] at h
    split at h
    · rename_i heq
      have : i = j := by simpa using heq
      simp only [Option.some.injEq] at h
      subst h; subst this
      exact List.mem_cons_self
    · exact List.mem_cons_of_mem _ (ih h)

end H5.Model.Regex
