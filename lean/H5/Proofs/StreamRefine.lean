/-
  Helper lemmas for C05 (state level): what `readChunk` does in each of its three cases, the state invariant,
  `remaining` (everything the stream will still deliver), the refinement `drain = remaining`, and the (line, column)
  bookkeeping of `_position`.
-/
import H5.Proofs.StreamNorm
namespace H5.Proofs.Stream
open H5 H5.Gen H5.Model.InputStream H5.Spec.Stream


theorem withBuf_ne_nil (buf : Option Nat) (seg : Str) (h : seg ≠ [] ∨ buf ≠ none) : withBuf buf seg ≠ [] := by
  cases buf with
  | none => simpa [withBuf] using h
  | some b => simp [withBuf]

theorem readOn_nil (data : Str) : readOn data [] = (data, []) := by
  unfold readOn
  split
  · split <;> simp [readSource]
  · rfl

theorem readOn_eq (buf : Option Nat) (seg : Str) (rest : List Str) (hseg : seg ≠ [])
    (hno : ¬ (buf = none ∧ (loneCarry seg).isSome ∧ rest ≠ [])) :
    readOn (withBuf buf seg) rest = (withBuf buf seg, rest) := by
  cases rest with
  | nil => exact readOn_nil _
  | cons seg2 rest' =>
    cases buf with
    | some b =>
      obtain ⟨x, r, e⟩ := List.exists_cons_of_ne_nil hseg
      subst e
      simp [withBuf, readOn]
    | none =>
      have hl : loneCarry seg = none := by
        cases h : loneCarry seg with
        | none => rfl
        | some c => exact absurd ⟨rfl, by simp [h], by simp⟩ hno
      simp only [withBuf]
      unfold readOn
      split
      · rename_i c
        split
        · rename_i hc
          rw [loneCarry_single c hc] at hl; cases hl
        · rfl
      · rfl

theorem readOn_on (c : Nat) (seg2 : Str) (rest : List Str) (hc : isCarry c = true) :
    readOn [c] (seg2 :: rest) = (c :: seg2, rest) := by
  simp [readOn, hc, readSource]

/-- `readChunk` when a read is available (ordinary case: no lone CR / lead surrogate with more input behind it) -/
theorem readChunk_cons (s : St) (seg : Str) (rest : List Str) (hs : s.source = seg :: rest) (hne : seg ≠ [])
    (hno : ¬ (s.buffered = none ∧ (loneCarry seg).isSome ∧ rest ≠ [])) :
    readChunk s =
      ({ source := rest,
         chunk := normalise (carve (withBuf s.buffered seg)).1,
         chunkSize := (normalise (carve (withBuf s.buffered seg)).1).length,
         chunkOffset := 0,
         buffered := (carve (withBuf s.buffered seg)).2,
         prevNumLines := (positionAt s s.chunkSize).1,
         prevNumCols := (positionAt s s.chunkSize).2,
         errors := s.errors + countInvalid (carve (withBuf s.buffered seg)).1 }, true) := by
  simp [readChunk, hs, readSource, hne, readOn_eq s.buffered seg rest hne hno]

/-- `readChunk` reading on after a lone CR / lead surrogate: two reads are consumed and joined -/
theorem readChunk_on (s : St) (c : Nat) (seg2 : Str) (rest : List Str) (hs : s.source = [c] :: seg2 :: rest)
    (hb : s.buffered = none) (hc : isCarry c = true) :
    readChunk s =
      ({ source := rest,
         chunk := normalise (carve (c :: seg2)).1,
         chunkSize := (normalise (carve (c :: seg2)).1).length,
         chunkOffset := 0,
         buffered := (carve (c :: seg2)).2,
         prevNumLines := (positionAt s s.chunkSize).1,
         prevNumCols := (positionAt s s.chunkSize).2,
         errors := s.errors + countInvalid (carve (c :: seg2)).1 }, true) := by
  simp [readChunk, hs, hb, readSource, withBuf, readOn_on c seg2 rest hc]

theorem readChunk_eof (s : St) (hs : s.source = []) (hb : s.buffered = none) :
    readChunk s = ({ s with prevNumLines := (positionAt s s.chunkSize).1, prevNumCols := (positionAt s s.chunkSize).2,
                            chunk := [], chunkSize := 0, chunkOffset := 0 }, false) := by
  simp [readChunk, hs, hb, readSource]

theorem readChunk_flush (s : St) (b : Nat) (hs : s.source = []) (hb : s.buffered = some b) :
    readChunk s =
      ({ source := [], chunk := normalise [b], chunkSize := (normalise [b]).length, chunkOffset := 0, buffered := none,
         prevNumLines := (positionAt s s.chunkSize).1, prevNumCols := (positionAt s s.chunkSize).2,
         errors := s.errors + countInvalid [b] }, true) := by
  simp [readChunk, hs, hb, readSource, withBuf, carve, readOn_nil]

theorem normalise_ne_nil (d : Str) (h : d ≠ []) : normalise d ≠ [] := by
  match d, h with
  | [c], _ => simp [normalise, replaceCRLF, replaceCR]
  | c :: e :: r, _ =>
    simp only [normalise, replaceCRLF]
    split <;> simp [replaceCR]

theorem countInvalid_append (a b : Str) : countInvalid (a ++ b) = countInvalid a + countInvalid b := by
  simp [countInvalid, List.filter_append]

/-- state invariant: `chunkSize = len(chunk)`, the offset is inside the chunk, no empty read before EOF -/
structure Inv (s : St) : Prop where
  size : s.chunkSize = s.chunk.length
  off : s.chunkOffset ≤ s.chunkSize
  src : ∀ seg ∈ s.source, seg ≠ []
  buf : ∀ l, s.buffered = some l → isCarry l = true

/-- everything the stream will still deliver -/
def remaining (s : St) : Str := s.chunk.drop s.chunkOffset ++ modelOut s.buffered s.source

theorem inv_init (segs : List Str) (h : ∀ seg ∈ segs, seg ≠ []) : Inv (init segs) :=
  ⟨rfl, Nat.le_refl _, h, by simp [init]⟩

theorem atEnd_drop (s : St) (hi : Inv s) (hend : s.chunkOffset ≥ s.chunkSize) : s.chunk.drop s.chunkOffset = [] := by
  apply List.drop_eq_nil_of_le; have := hi.size; omega

/-- a successful `readChunk`: fresh non-empty chunk, same remaining text -/
theorem readChunk_true (s : St) (hi : Inv s) (h : s.source ≠ [] ∨ s.buffered ≠ none) :
    (readChunk s).2 = true ∧ Inv (readChunk s).1 ∧ (readChunk s).1.chunkOffset = 0 ∧ (readChunk s).1.chunk ≠ [] ∧
    remaining (readChunk s).1 = modelOut s.buffered s.source ∧
    (readChunk s).1.errors + countInvalid (otoList (readChunk s).1.buffered ++ (readChunk s).1.source.flatten)
      = s.errors + countInvalid (otoList s.buffered ++ s.source.flatten) := by
  cases hsrc : s.source with
  | nil =>
    cases hb : s.buffered with
    | none => simp [hsrc, hb] at h
    | some b =>
      rw [readChunk_flush s b hsrc hb]
      refine ⟨rfl, ⟨rfl, Nat.zero_le _, by simp, by simp⟩, rfl, normalise_ne_nil _ (by simp), ?_, ?_⟩
      · simp [remaining, modelOut_nil_some, modelOut_nil_none]
      · simp [otoList, countInvalid]
  | cons seg rest =>
    have hseg : seg ≠ [] := hi.src seg (by rw [hsrc]; exact List.mem_cons_self)
    by_cases hon : s.buffered = none ∧ (loneCarry seg).isSome ∧ rest ≠ []
    · obtain ⟨hbuf, hl, hr⟩ := hon
      obtain ⟨c, hc⟩ := Option.isSome_iff_exists.mp hl
      obtain ⟨hsegc, hcar⟩ := loneCarry_some seg c hc
      obtain ⟨seg2, rest', e⟩ := List.exists_cons_of_ne_nil hr
      subst hsegc e
      have hseg2 : seg2 ≠ [] := hi.src seg2 (by rw [hsrc]; simp)
      rw [readChunk_on s c seg2 rest' hsrc hbuf hcar]
      refine ⟨rfl, ⟨rfl, Nat.zero_le _, ?_, ?_⟩, rfl, ?_, ?_, ?_⟩
      · intro x hx; exact hi.src x (by rw [hsrc]; simp [hx])
      · intro l hl; exact carve_snd_carry _ l hl
      · exact normalise_ne_nil _ (carve_ne_nil _ (by simp))
      · rw [hbuf, modelOut_on c seg2 rest' hcar,
          modelOut_cons (some c) seg2 rest' (by intro h; cases h.1)]
        simp [remaining, withBuf]
      · have e := congrArg countInvalid (carve_append (c :: seg2))
        have e2 : countInvalid (c :: seg2) = countInvalid [c] + countInvalid seg2 := by
          rw [← countInvalid_append]; rfl
        simp only [hbuf, otoList, List.flatten_cons, countInvalid_append, List.nil_append] at e ⊢
        omega
    · rw [readChunk_cons s seg rest hsrc hseg hon]
      refine ⟨rfl, ⟨rfl, Nat.zero_le _, ?_, ?_⟩, rfl, ?_, ?_, ?_⟩
      · intro x hx; exact hi.src x (by rw [hsrc]; exact List.mem_cons_of_mem _ hx)
      · intro l hl; exact carve_snd_carry _ l hl
      · exact normalise_ne_nil _ (carve_ne_nil _ (withBuf_ne_nil _ _ (Or.inl hseg)))
      · simp [remaining, modelOut_cons _ _ _ hon]
      · have e := congrArg countInvalid (carve_append (withBuf s.buffered seg))
        have e2 : countInvalid (withBuf s.buffered seg) = countInvalid (otoList s.buffered) + countInvalid seg := by
          rw [withBuf_eq, countInvalid_append]
        simp only [List.flatten_cons, countInvalid_append] at e ⊢
        omega

theorem readChunk_false (s : St) (hs : s.source = []) (hb : s.buffered = none) :
    (readChunk s).2 = false ∧ (readChunk s).1.errors = s.errors := by
  rw [readChunk_eof s hs hb]; exact ⟨rfl, rfl⟩

/-- `char()` inside a chunk -/
theorem char_in_chunk (s : St) (hi : Inv s) (h : s.chunkOffset < s.chunkSize) :
    ∃ c, char s = .ok (some c, { s with chunkOffset := s.chunkOffset + 1 }) ∧
      remaining s = c :: remaining { s with chunkOffset := s.chunkOffset + 1 } ∧
      Inv { s with chunkOffset := s.chunkOffset + 1 } ∧
      s.chunk.take (s.chunkOffset + 1) = s.chunk.take s.chunkOffset ++ [c] := by
  have hlt : s.chunkOffset < s.chunk.length := by have := hi.size; omega
  refine ⟨s.chunk[s.chunkOffset], ?_, ?_, ⟨hi.size, by simp; omega, hi.src, hi.buf⟩, ?_⟩
  · have : ¬ s.chunkOffset ≥ s.chunkSize := by omega
    simp [char, this, charAt, hlt]
  · simp only [remaining]
    rw [List.drop_eq_getElem_cons hlt]
    rfl
  · rw [List.take_add_one]; simp [hlt]

/-- **refinement**: draining the model state yields exactly `remaining` -/
theorem drain_remaining (fuel : Nat) (s : St) (hi : Inv s) (hf : fuel > (remaining s).length) :
    drain fuel s = .ok (remaining s) := by
  induction fuel generalizing s with
  | zero => omega
  | succ k ih =>
    by_cases hin : s.chunkOffset < s.chunkSize
    · obtain ⟨c, hc, hr, hi', _⟩ := char_in_chunk s hi hin
      have := ih _ hi' (by rw [hr] at hf; simp at hf; omega)
      simp [drain, hc, this, hr]
    · have hend : s.chunkOffset ≥ s.chunkSize := by omega
      by_cases hmore : s.source ≠ [] ∨ s.buffered ≠ none
      · obtain ⟨h2, hi1, hoff, hne, hrem0, _⟩ := readChunk_true s hi hmore
        have hrem : remaining (readChunk s).1 = remaining s := by
          rw [hrem0]; simp [remaining, atEnd_drop s hi hend]
        have hin1 : (readChunk s).1.chunkOffset < (readChunk s).1.chunkSize := by
          rw [hoff, hi1.size]; exact List.length_pos_iff.mpr hne
        obtain ⟨c, hc, hr, hi', _⟩ := char_in_chunk _ hi1 hin1
        have hchar : char s = .ok (some c, { (readChunk s).1 with chunkOffset := (readChunk s).1.chunkOffset + 1 }) := by
          have e : char s = charAt (readChunk s).1 := by simp [char, hend, h2]
          have e2 : char (readChunk s).1 = charAt (readChunk s).1 := by
            have : ¬ (readChunk s).1.chunkOffset ≥ (readChunk s).1.chunkSize := by omega
            simp [char, this]
          rw [e, ← e2, hc]
        rw [← hrem, hr] at hf ⊢
        have := ih _ hi' (by simp at hf; omega)
        simp [drain, hchar, this]
      · have hs : s.source = [] := by
          cases h : s.source with
          | nil => rfl
          | cons a b => exact absurd (Or.inl (by simp [h])) hmore
        have hb : s.buffered = none := by
          cases h : s.buffered with
          | none => rfl
          | some b => exact absurd (Or.inr (by simp [h])) hmore
        have hchar : char s = .ok (none, (readChunk s).1) := by
          simp [char, hend, (readChunk_false s hs hb).1]
        have hrem : remaining s = [] := by
          have hdrop : s.chunk.drop s.chunkOffset = [] := by
            apply List.drop_eq_nil_of_le; have := hi.size; have := hi.off; omega
          simp [remaining, hdrop, hs, hb, modelOut_nil_none]
        simp [drain, hchar, hrem]


/-- column after the text `t` (0-based), through the model's `rfind` -/
def lastCol (t : Str) : Nat :=
  match rfindLF t with
  | none => t.length
  | some i => t.length - (i + 1)

theorem rfindLF_none (t : Str) : rfindLF t = none ↔ 10 ∉ t := by
  induction t with
  | nil => simp [rfindLF]
  | cons c r ih =>
    simp only [rfindLF]
    cases h : rfindLF r with
    | some i =>
      have : ¬ (10 ∉ r) := fun hn => by rw [ih.mpr hn] at h; simp at h
      simp at this
      simp [this]
    | none =>
      have := ih.mp h
      by_cases hc : c = 10
      · simp [hc]
      · simp [hc, this]; exact fun e => hc e.symm

theorem rfindLF_lt (t : Str) (i : Nat) (h : rfindLF t = some i) : i < t.length := by
  induction t generalizing i with
  | nil => simp [rfindLF] at h
  | cons c r ih =>
    simp only [rfindLF] at h
    cases hr : rfindLF r with
    | some j => rw [hr] at h; simp at h; have := ih j hr; simp; omega
    | none => rw [hr] at h; simp at h; simp; omega

theorem lastCol_spec (t : Str) : (t.reverse.takeWhile (· ≠ 10)).length = lastCol t := by
  induction t with
  | nil => simp [lastCol, rfindLF]
  | cons c r ih =>
    rw [List.reverse_cons, List.takeWhile_append, ih]
    unfold lastCol at ih ⊢
    simp only [rfindLF]
    cases hr : rfindLF r with
    | some j =>
      have hj := rfindLF_lt r j hr
      rw [hr] at ih
      simp only at ih ⊢
      have : ¬ (r.length - (j + 1) = r.reverse.length) := by simp; omega
      rw [if_neg this, ih]
      simp
    | none =>
      simp only [List.length_reverse, if_true]
      by_cases hc : c = 10
      · simp [hc]
      · simp [hc]

theorem lastCol_append (a b : Str) :
    lastCol (a ++ b) = match rfindLF b with
      | none => lastCol a + b.length
      | some i => b.length - (i + 1) := by
  rw [← lastCol_spec, List.reverse_append, List.takeWhile_append, lastCol_spec b]
  unfold lastCol
  cases hb : rfindLF b with
  | some i =>
    have := rfindLF_lt b i hb
    have hne : ¬ (b.length - (i + 1) = b.reverse.length) := by simp; omega
    simp only [hne, if_false]
    have := lastCol_spec b
    unfold lastCol at this
    rw [hb] at this
    exact this
  | none =>
    simp only [List.length_reverse, if_true, List.length_append]
    have := lastCol_spec a
    unfold lastCol at this
    rw [this]; omega

/-- (lines, column) bookkeeping is right for the text of the previous chunks -/
def PInv (s : St) (pre : Str) : Prop := s.prevNumLines = pre.count 10 ∧ s.prevNumCols = lastCol pre

theorem positionAt_spec (s : St) (pre : Str) (hp : PInv s pre) (off : Nat) (hoff : off ≤ s.chunk.length) :
    positionAt s off = ((pre ++ s.chunk.take off).count 10, lastCol (pre ++ s.chunk.take off)) := by
  unfold positionAt
  rw [lastCol_append]
  have hl : (s.chunk.take off).length = off := by simp; omega
  cases h : rfindLF (s.chunk.take off) with
  | none => simp only [hp.1, hp.2, hl, List.count_append, h]
  | some i => simp only [hp.1, hl, List.count_append, h]

theorem positionOf_eq (text : Str) (i : Nat) :
    positionOf text i = ((text.take i).count 10 + 1, lastCol (text.take i)) := by
  simp only [positionOf, lineOf, colOf, lastCol_spec]
  congr 1
  rw [List.count_eq_countP, List.countP_eq_length_filter]
  rw [Nat.add_comm]
  congr 2

end H5.Proofs.Stream
