/-
  Helper lemmas for C05 (call level): `char()` in each of its three situations, `k` calls of `char()` with the
  position bookkeeping, the error counter after draining, and the `charsUntil` loop.
-/
import H5.Proofs.StreamRefine
namespace H5.Proofs.Stream
open H5 H5.Gen H5.Model.InputStream H5.Spec.Stream


theorem readChunk_prev (s : St) : (readChunk s).1.prevNumLines = (positionAt s s.chunkSize).1 ∧
    (readChunk s).1.prevNumCols = (positionAt s s.chunkSize).2 := by
  unfold readChunk
  simp only
  split <;> exact ⟨rfl, rfl⟩

theorem readChunk_pinv (s : St) (pre : Str) (hi : Inv s) (hp : PInv s pre) :
    PInv (readChunk s).1 (pre ++ s.chunk) := by
  have h := positionAt_spec s pre hp s.chunkSize (by rw [hi.size]; exact Nat.le_refl _)
  have ht : s.chunk.take s.chunkSize = s.chunk := by rw [hi.size]; simp
  rw [ht] at h
  obtain ⟨h1, h2⟩ := readChunk_prev s
  exact ⟨by rw [h1, h], by rw [h2, h]⟩

theorem no_more (s : St) (h : ¬ (s.source ≠ [] ∨ s.buffered ≠ none)) : s.source = [] ∧ s.buffered = none := by
  constructor
  · cases hs : s.source with
    | nil => rfl
    | cons a b => exact absurd (Or.inl (by simp [hs])) h
  · cases hb : s.buffered with
    | none => rfl
    | some b => exact absurd (Or.inr (by simp [hb])) h

/-- `char()` at the end of a chunk when more data exists -/
theorem char_at_end_more (s : St) (hi : Inv s) (hend : s.chunkOffset ≥ s.chunkSize)
    (hmore : s.source ≠ [] ∨ s.buffered ≠ none) :
    ∃ c s1, char s = .ok (some c, s1) ∧ remaining s = c :: remaining s1 ∧ Inv s1 ∧
      s1.chunkOffset = 1 ∧ s1.chunk.take 1 = [c] ∧
      s1.prevNumLines = (readChunk s).1.prevNumLines ∧ s1.prevNumCols = (readChunk s).1.prevNumCols ∧
      s1.errors + countInvalid (otoList s1.buffered ++ s1.source.flatten)
        = s.errors + countInvalid (otoList s.buffered ++ s.source.flatten) := by
  obtain ⟨h2, hi1, hoff, hne, hrem0, herr⟩ := readChunk_true s hi hmore
  have hrem : remaining (readChunk s).1 = remaining s := by
    rw [hrem0]; simp [remaining, atEnd_drop s hi hend]
  have hin1 : (readChunk s).1.chunkOffset < (readChunk s).1.chunkSize := by
    rw [hoff, hi1.size]; exact List.length_pos_iff.mpr hne
  obtain ⟨c, hc, hr, hi', htk⟩ := char_in_chunk _ hi1 hin1
  have hchar : char s = .ok (some c, { (readChunk s).1 with chunkOffset := (readChunk s).1.chunkOffset + 1 }) := by
    have e : char s = charAt (readChunk s).1 := by simp [char, hend, h2]
    have e2 : char (readChunk s).1 = charAt (readChunk s).1 := by
      have : ¬ (readChunk s).1.chunkOffset ≥ (readChunk s).1.chunkSize := by omega
      simp [char, this]
    rw [e, ← e2, hc]
  refine ⟨c, _, hchar, by rw [← hrem, hr], hi', by simp [hoff], ?_, rfl, rfl, herr⟩
  rw [hoff] at htk
  simpa using htk

theorem char_at_eof (s : St) (hi : Inv s) (hend : s.chunkOffset ≥ s.chunkSize)
    (hs : s.source = []) (hb : s.buffered = none) :
    char s = .ok (none, (readChunk s).1) ∧ remaining s = [] ∧ Inv (readChunk s).1 ∧
      (readChunk s).1.chunk = [] ∧ (readChunk s).1.chunkOffset = 0 ∧ remaining (readChunk s).1 = [] ∧
      (readChunk s).1.errors = s.errors := by
  have hchar : char s = .ok (none, (readChunk s).1) := by
    simp [char, hend, (readChunk_false s hs hb).1]
  have hrem : remaining s = [] := by
    simp [remaining, atEnd_drop s hi hend, hs, hb, modelOut_nil_none]
  refine ⟨hchar, hrem, ?_, ?_, ?_, ?_, (readChunk_false s hs hb).2⟩
  · rw [readChunk_eof s hs hb]; exact ⟨rfl, Nat.le_refl _, by simp [hs], by simp [hb]⟩
  · rw [readChunk_eof s hs hb]
  · rw [readChunk_eof s hs hb]
  · rw [readChunk_eof s hs hb]; simp [remaining, hs, hb, modelOut_nil_none]

/-- `k` calls of `char()` from a good state -/
theorem charN_spec (k : Nat) (s : St) (pre : Str) (hi : Inv s) (hp : PInv s pre) :
    ∃ cs s' pre', charN k s = .ok (cs, s') ∧ cs = (remaining s).take k ∧ Inv s' ∧ PInv s' pre' ∧
      pre' ++ s'.chunk.take s'.chunkOffset = pre ++ s.chunk.take s.chunkOffset ++ cs ∧
      remaining s' = (remaining s).drop k := by
  induction k generalizing s pre with
  | zero => exact ⟨[], s, pre, rfl, by simp, hi, hp, by simp, by simp⟩
  | succ k ih =>
    by_cases hin : s.chunkOffset < s.chunkSize
    · obtain ⟨c, hc, hr, hi', htk⟩ := char_in_chunk s hi hin
      obtain ⟨cs, s', pre', h1, h2, h3, h4, h5, h6⟩ := ih _ pre hi' hp
      refine ⟨c :: cs, s', pre', by simp [charN, hc, h1], by rw [hr, h2]; simp, h3, h4, ?_, by rw [hr, h6]; simp⟩
      rw [h5]
      simp only at htk ⊢
      rw [htk]; simp
    · have hend : s.chunkOffset ≥ s.chunkSize := by omega
      by_cases hmore : s.source ≠ [] ∨ s.buffered ≠ none
      · obtain ⟨c, s1, hc, hr, hi1, hoff, htk, hl, hcn, _⟩ := char_at_end_more s hi hend hmore
        have hp1 : PInv s1 (pre ++ s.chunk) := by
          have := readChunk_pinv s pre hi hp
          exact ⟨by rw [hl]; exact this.1, by rw [hcn]; exact this.2⟩
        obtain ⟨cs, s', pre', h1, h2, h3, h4, h5, h6⟩ := ih s1 _ hi1 hp1
        refine ⟨c :: cs, s', pre', by simp [charN, hc, h1], by rw [hr, h2]; simp, h3, h4, ?_, by rw [hr, h6]; simp⟩
        rw [h5, hoff, htk]
        have : s.chunk.take s.chunkOffset = s.chunk := by
          apply List.take_of_length_le; have := hi.size; omega
        rw [this]; simp
      · obtain ⟨hs, hb⟩ := no_more s hmore
        obtain ⟨hc, hr, hi0, hch, hoff, hr0, _⟩ := char_at_eof s hi hend hs hb
        refine ⟨[], _, pre ++ s.chunk, by simp [charN, hc], by rw [hr]; simp, hi0, readChunk_pinv s pre hi hp, ?_,
          by rw [hr0, hr]; simp⟩
        rw [hch]
        have : s.chunk.take s.chunkOffset = s.chunk := by
          apply List.take_of_length_le; have := hi.size; omega
        rw [this]; simp

/-- the error counter after draining -/
theorem drainState_errors (fuel : Nat) (s : St) (hi : Inv s) (hf : fuel > (remaining s).length) :
    ∃ s', drainState fuel s = .ok s' ∧
      s'.errors = s.errors + countInvalid (otoList s.buffered ++ s.source.flatten) := by
  induction fuel generalizing s with
  | zero => omega
  | succ k ih =>
    by_cases hin : s.chunkOffset < s.chunkSize
    · obtain ⟨c, hc, hr, hi', _⟩ := char_in_chunk s hi hin
      obtain ⟨s', h1, h2⟩ := ih _ hi' (by rw [hr] at hf; simp at hf; omega)
      exact ⟨s', by simp [drainState, hc, h1], h2⟩
    · have hend : s.chunkOffset ≥ s.chunkSize := by omega
      by_cases hmore : s.source ≠ [] ∨ s.buffered ≠ none
      · obtain ⟨c, s1, hc, hr, hi1, _, _, _, _, herr⟩ := char_at_end_more s hi hend hmore
        obtain ⟨s', h1, h2⟩ := ih s1 hi1 (by rw [hr] at hf; simp at hf; omega)
        exact ⟨s', by simp [drainState, hc, h1], by rw [h2, herr]⟩
      · obtain ⟨hs, hb⟩ := no_more s hmore
        obtain ⟨hc, _, _, _, _, _, he⟩ := char_at_eof s hi hend hs hb
        exact ⟨(readChunk s).1, by simp [drainState, hc], by rw [he, hs, hb]; simp [otoList, countInvalid]⟩


theorem longestPrefix_eq_takeWhile (p : Nat → Bool) (t : Str) : longestPrefix p t = t.takeWhile p := by
  induction t with
  | nil => rfl
  | cons c r ih => simp only [longestPrefix, List.takeWhile_cons]; split <;> simp [ih]

/-- iterations of the `charsUntil` loop still possible from a state -/
def need (s : St) : Nat :=
  match s.source, s.buffered with
  | [], none => 1
  | [], some _ => 2
  | l, _ => l.length + 2

theorem need_le_fuel (s : St) : need s ≤ charsUntilFuel s := by
  unfold need charsUntilFuel
  split <;> simp_all <;> omega

theorem need_readChunk (s : St) (hi : Inv s) (h : s.source ≠ [] ∨ s.buffered ≠ none) :
    need (readChunk s).1 + 1 ≤ need s := by
  cases hsrc : s.source with
  | nil =>
    cases hb : s.buffered with
    | none => simp [hsrc, hb] at h
    | some b => rw [readChunk_flush s b hsrc hb]; simp [need, hsrc, hb]
  | cons seg rest =>
    have hseg : seg ≠ [] := hi.src seg (by rw [hsrc]; exact List.mem_cons_self)
    by_cases hon : s.buffered = none ∧ (loneCarry seg).isSome ∧ rest ≠ []
    · obtain ⟨hbuf, hl, hr⟩ := hon
      obtain ⟨c, hc⟩ := Option.isSome_iff_exists.mp hl
      obtain ⟨hsegc, hcar⟩ := loneCarry_some seg c hc
      obtain ⟨seg2, rest', e⟩ := List.exists_cons_of_ne_nil hr
      subst hsegc e
      rw [readChunk_on s c seg2 rest' hsrc hbuf hcar]
      simp only [need, hsrc]
      split <;> simp_all <;> omega
    · rw [readChunk_cons s seg rest hsrc hseg hon]
      simp only [need, hsrc]
      split <;> simp_all <;> omega

theorem takeWhile_self (p : Nat → Bool) (l : Str) (h : ∀ a ∈ l, p a = true) : l.takeWhile p = l := by
  simpa using List.takeWhile_append_of_pos (l₂ := []) h

theorem dropWhile_nil (p : Nat → Bool) (l : Str) (h : ∀ a ∈ l, p a = true) : l.dropWhile p = [] := by
  simpa using List.dropWhile_append_of_pos (l₂ := []) h

theorem drop_takeWhile_length (p : Nat → Bool) (l : Str) : l.drop (l.takeWhile p).length = l.dropWhile p := by
  induction l with
  | nil => rfl
  | cons c r ih => simp only [List.takeWhile_cons, List.dropWhile_cons]; split <;> simp [ih]

theorem takeWhile_all (p : Nat → Bool) (l : Str) (h : (l.takeWhile p).length = l.length) : ∀ a ∈ l, p a = true := by
  induction l with
  | nil => simp
  | cons c r ih =>
    simp only [List.takeWhile_cons] at h
    split at h
    · rename_i hc
      intro a ha
      simp at ha
      rcases ha with rfl | ha
      · exact hc
      · exact ih (by simpa using h) a ha
    · simp at h

theorem charsUntilLoop_spec (set : Str) (opp : Bool) (fuel : Nat) (s : St) (rv : Str) (hi : Inv s)
    (hf : fuel ≥ need s) :
    ∃ s', charsUntilLoop set opp fuel s rv = .ok (rv ++ (remaining s).takeWhile (classAccepts set opp), s') ∧
      Inv s' ∧ remaining s' = (remaining s).dropWhile (classAccepts set opp) ∧
      s'.errors + countInvalid (otoList s'.buffered ++ s'.source.flatten)
        = s.errors + countInvalid (otoList s.buffered ++ s.source.flatten) := by
  induction fuel generalizing s rv with
  | zero => unfold need at hf; split at hf <;> omega
  | succ k ih =>
    generalize hp : classAccepts set opp = p
    generalize hrest : s.chunk.drop s.chunkOffset = rest
    have hrl : rest.length = s.chunk.length - s.chunkOffset := by rw [← hrest]; simp
    have hrem : remaining s = rest ++ modelOut s.buffered s.source := by rw [← hrest]; rfl
    -- the continuation (lines 353-356) under "all of `rest` is accepted"
    have hcont : (∀ a ∈ rest, p a = true) →
        ∃ s', (let rv' := rv ++ rest
               let r := readChunk s
               if !r.2 then (Except.ok (rv', r.1) : Except PyErr (Str × St))
               else charsUntilLoop set opp k r.1 rv') = .ok (rv ++ (remaining s).takeWhile p, s') ∧
          Inv s' ∧ remaining s' = (remaining s).dropWhile p ∧
          s'.errors + countInvalid (otoList s'.buffered ++ s'.source.flatten)
            = s.errors + countInvalid (otoList s.buffered ++ s.source.flatten) := by
      intro hall
      by_cases hmore : s.source ≠ [] ∨ s.buffered ≠ none
      · obtain ⟨h2, hi1, _, _, hrem0, herr⟩ := readChunk_true s hi hmore
        have hn := need_readChunk s hi hmore
        obtain ⟨s', e1, e2, e3, e4⟩ := ih (readChunk s).1 (rv ++ rest) hi1 (by omega)
        refine ⟨s', ?_, e2, ?_, by rw [e4, herr]⟩
        · simp only [h2, Bool.not_true, Bool.false_eq_true, if_false]
          rw [e1, hp, hrem0, hrem, List.takeWhile_append_of_pos hall]
          simp
        · rw [e3, hp, hrem0, hrem, List.dropWhile_append_of_pos hall]
      · have hsb : s.source = [] ∧ s.buffered = none := by
          constructor
          · cases hs : s.source with
            | nil => rfl
            | cons a b => exact absurd (Or.inl (by simp [hs])) hmore
          · cases hb : s.buffered with
            | none => rfl
            | some b => exact absurd (Or.inr (by simp [hb])) hmore
        have hfalse := readChunk_false s hsb.1 hsb.2
        have htail : modelOut s.buffered s.source = [] := by rw [hsb.1, hsb.2]; rfl
        refine ⟨(readChunk s).1, ?_, ?_, ?_, ?_⟩
        · simp only [hfalse.1, Bool.not_false, if_true]
          rw [hrem, htail, List.append_nil, takeWhile_self p rest hall]
        · rw [readChunk_eof s hsb.1 hsb.2]; exact ⟨rfl, Nat.le_refl _, by simp [hsb.1], by simp [hsb.2]⟩
        · rw [hrem, htail, List.append_nil, readChunk_eof s hsb.1 hsb.2]
          simp [remaining, hsb.1, hsb.2, modelOut_nil_none]
          exact dropWhile_nil p rest hall
        · rw [hfalse.2]; rw [readChunk_eof s hsb.1 hsb.2]
    unfold charsUntilLoop
    simp only [hrest, hp]
    by_cases hm : (rest.takeWhile p).isEmpty = true
    · simp only [hm, if_true]
      by_cases hoff : s.chunkOffset ≠ s.chunkSize
      · -- nothing matched inside the chunk: stop (341-342)
        rw [if_pos hoff]
        have hne : rest ≠ [] := by
          intro e; rw [e] at hrl; simp at hrl; have := hi.size; have := hi.off; omega
        obtain ⟨c, r, e⟩ := List.exists_cons_of_ne_nil hne
        have hc : p c = false := by
          rw [e] at hm
          simp only [List.takeWhile_cons] at hm
          split at hm
          · simp at hm
          · rename_i h; simpa using h
        refine ⟨s, ?_, hi, ?_, rfl⟩
        · rw [hrem, e]; simp [List.takeWhile_cons, hc]
        · rw [hrem, e]; simp [List.dropWhile_cons, hc]
      · rw [if_neg hoff]
        have : rest = [] := by
          have := hi.size
          apply List.eq_nil_of_length_eq_zero; rw [hrl]; simp at hoff; omega
        exact hcont (by rw [this]; simp)
    · simp only [hm, Bool.false_eq_true, if_false]
      by_cases hend : s.chunkOffset + (rest.takeWhile p).length ≠ s.chunkSize
      · -- part of the chunk matched (347-350)
        rw [if_pos hend]
        have hlt : (rest.takeWhile p).length < rest.length := by
          have h1 : (rest.takeWhile p).length + (rest.dropWhile p).length = rest.length := by
            rw [← List.length_append, List.takeWhile_append_dropWhile]
          have h2 := hi.size; have h3 := hi.off; omega
        have hne : ¬ (rest.takeWhile p).length = rest.length := by omega
        have hd : rest.dropWhile p ≠ [] := by
          intro e
          have h1 : (rest.takeWhile p).length + (rest.dropWhile p).length = rest.length := by
            rw [← List.length_append, List.takeWhile_append_dropWhile]
          rw [e] at h1; simp at h1; omega
        refine ⟨{ s with chunkOffset := s.chunkOffset + (rest.takeWhile p).length }, ?_,
          ⟨hi.size, ?_, hi.src, hi.buf⟩, ?_, rfl⟩
        · rw [hrem, List.takeWhile_append, if_neg hne]
        · simp only; have := hi.size; have := hi.off; omega
        · rw [hrem, List.dropWhile_append]
          have : (rest.dropWhile p).isEmpty = false := by
            cases h : rest.dropWhile p with
            | nil => exact absurd h hd
            | cons _ _ => rfl
          simp only [this, Bool.false_eq_true, if_false, remaining]
          congr 1
          have e1 : s.chunk.drop (s.chunkOffset + (rest.takeWhile p).length) = rest.drop (rest.takeWhile p).length := by
            rw [← hrest, List.drop_drop]
          rw [e1, drop_takeWhile_length]
      · rw [if_neg hend]
        have hlen : (rest.takeWhile p).length = rest.length := by
          simp at hend; have := hi.size; have := hi.off; omega
        exact hcont (takeWhile_all p rest hlen)

end H5.Proofs.Stream
