/-
  Lemmas for the CSS parenthesis clause of C09: what the gauntlet `^(…|\([\d,\s]+\))*$` guarantees about `(`,
  and what `re.findall(r"([-\w]+)\s*:\s*([^:;]*)", style)` captures (via the engine soundness of H5.Proofs.Regex).
-/
import H5.Model.Sanitizer
import H5.Proofs.Regex
namespace H5.Model.Sanitizer
open H5 H5.Model.Regex

/-- `[\d,\s]` -/
def isDCS (c : Nat) : Bool := classTest cl false [.digit, .range 44 44, .space] c

/-- every `(` is followed by characters of `[\d,\s]` only, up to a `)` -/
def ParenOk (s : Str) : Prop :=
  ∀ a b, s = a ++ 40 :: b → ∃ mid rest, b = mid ++ 41 :: rest ∧ ∀ c ∈ mid, isDCS c = true

theorem parenOk_of_free (s : Str) (h : 40 ∉ s) : ParenOk s := by
  intro a b e
  exact absurd (by rw [e]; simp) h

theorem parenOk_append (u v : Str) (hu : ParenOk u) (hv : ParenOk v) : ParenOk (u ++ v) := by
  intro a b e
  rcases List.append_eq_append_iff.1 e with ⟨a', ea, ev⟩ | ⟨c', eu, ec⟩
  · exact hv a' b ev
  · cases c' with
    | nil =>
      simp only [List.nil_append] at ec
      exact hv [] b ec.symm
    | cons x c'' =>
      simp only [List.cons_append, List.cons.injEq] at ec
      obtain ⟨rfl, eb⟩ := ec
      obtain ⟨mid, r, em, hm⟩ := hu a c'' eu
      exact ⟨mid, r ++ v, by rw [eb, em]; simp, hm⟩

theorem isDCS_40 : isDCS 40 = false := by decide +kernel
theorem isDCS_58 : isDCS 58 = false := by decide +kernel
theorem isDCS_59 : isDCS 59 = false := by decide +kernel

theorem parenOk_group (mid : Str) (hm : ∀ c ∈ mid, isDCS c = true) : ParenOk (40 :: (mid ++ [41])) := by
  intro a b e
  cases a with
  | nil =>
    simp only [List.nil_append, List.cons.injEq, true_and] at e
    exact ⟨mid, [], e.symm, hm⟩
  | cons x a' =>
    simp only [List.cons_append, List.cons.injEq] at e
    have hin : 40 ∈ mid ++ [41] := by rw [e.2]; simp
    simp only [List.mem_append, List.mem_singleton] at hin
    rcases hin with h | h
    · have := hm 40 h; rw [isDCS_40] at this; cases this
    · cases h

theorem star_parenOk (P : Str → Str → Prop) (hP : ∀ u r, P u r → ParenOk u) (w rest : Str) (h : Star P w rest) :
    ParenOk w := by
  induction h with
  | nil rest => exact parenOk_of_free [] (by simp)
  | cons u v rest hu _ ih => exact parenOk_append u v (hP _ _ hu) ih

theorem star_cls_all (Q : Nat → Prop) (w rest : Str) (h : Star (fun x _ => ∃ c, x = [c] ∧ Q c) w rest) :
    ∀ c ∈ w, Q c := by
  induction h with
  | nil rest => simp
  | cons u v rest hu _ ih =>
    obtain ⟨c, rfl, hc⟩ := hu
    intro x hx
    simp only [List.cons_append, List.nil_append, List.mem_cons] at hx
    rcases hx with rfl | hx
    · exact hc
    · exact ih x hx

/-! ### gauntlet 1 -/

theorem gA_40 : classTest cl false [CItem.range 58 58, CItem.range 44 44, CItem.range 59 59, CItem.range 35 35,
    CItem.range 37 37, CItem.range 46 46, CItem.space, CItem.range 97 122, CItem.range 65 90, CItem.range 48 57,
    CItem.range 33 33] 40 = false := by decide +kernel
theorem gW_40 : classTest cl false [CItem.word] 40 = false := by decide +kernel
theorem gSW_40 : classTest cl false [CItem.space, CItem.word] 40 = false := by decide +kernel

theorem ne_of_class (neg : Bool) (items : List CItem) (x y : Nat) (hy : classTest cl neg items y = false)
    (hx : classTest cl neg items x = true) : x ≠ y := by
  intro e; subst e; rw [hy] at hx; cases hx

/-- a style that passes the first gauntlet has every `(` followed by `[\d,\s]*` and `)` -/
theorem gauntlet1_parenOk (s : Str) (m : Match) (h : matchAt cl H5.Gen.San.reGauntlet1 s = .ok (some m)) : ParenOk s := by
  obtain ⟨es, hl⟩ := matchAt_sound cl _ s m h
  simp only [H5.Gen.San.reGauntlet1, Re.seq, Re.alts, List.foldr, Lang] at hl
  obtain ⟨u0, v0, e0, rfl, u1, v1, e1, hstar, u2, v2, e2, ⟨rfl, hend⟩, rfl⟩ := hl
  simp only [List.nil_append, List.append_nil] at e0 e1 e2 hend hstar
  subst e2
  simp only [List.append_nil] at e1
  subst e1
  subst e0
  rw [es]
  apply parenOk_append
  · refine star_parenOk _ ?_ _ _ hstar
    intro u r hp
    rcases hp with ⟨x, rfl, hx⟩ | ⟨a, b, rfl, ⟨x, rfl, hx⟩, c, d, rfl, rfl, e, f, rfl, ⟨y, rfl, hy⟩, rfl⟩ |
      ⟨a, b, rfl, rfl, c, d, rfl, hst, e, f, rfl, rfl, rfl⟩ | ⟨a, b, rfl, rfl, c, d, rfl, hst, e, f, rfl, rfl, rfl⟩ |
      ⟨a, b, rfl, rfl, c, d, rfl, hst, e, f, rfl, rfl, rfl⟩
    · apply parenOk_of_free
      simp only [List.mem_singleton]
      exact fun e => ne_of_class _ _ _ _ gA_40 hx e.symm
    · apply parenOk_of_free
      simp only [List.cons_append, List.nil_append, List.append_nil, List.mem_cons, List.not_mem_nil, or_false, not_or]
      exact ⟨fun e => ne_of_class _ _ _ _ gW_40 hx e.symm, by decide, fun e => ne_of_class _ _ _ _ gW_40 hy e.symm⟩
    · apply parenOk_of_free
      have hall := star_cls_all (fun c => classTest cl false [CItem.space, CItem.word] c = true) _ _ hst
      simp only [List.cons_append, List.nil_append, List.append_nil, List.mem_cons, List.mem_append, List.not_mem_nil,
        or_false, not_or]
      exact ⟨by decide, fun hc => ne_of_class _ _ _ _ gSW_40 (hall 40 hc) rfl, by decide⟩
    · apply parenOk_of_free
      have hall := star_cls_all (fun c => classTest cl false [CItem.space, CItem.word] c = true) _ _ hst
      simp only [List.cons_append, List.nil_append, List.append_nil, List.mem_cons, List.mem_append, List.not_mem_nil,
        or_false, not_or]
      exact ⟨by decide, fun hc => ne_of_class _ _ _ _ gSW_40 (hall 40 hc) rfl, by decide⟩
    · have hall := star_cls_all (fun c => isDCS c = true) _ _ hst
      simpa using parenOk_group c hall
  · apply parenOk_of_free
    rcases hend with h | h <;> simp [h]


/-! ### the declaration pattern `([-\w]+)\s*:\s*([^:;]*)` -/

/-- `[^:;]` -/
def declN (c : Nat) : Bool := classTest cl true [.range 58 58, .range 59 59] c
/-- `[-\w]` -/
def declW (c : Nat) : Bool := classTest cl false [.range 45 45, .word] c

theorem declW_40 : declW 40 = false := by decide +kernel
theorem declN_41 : declN 41 = true := by decide +kernel

theorem declN_false (c : Nat) (h : declN c = false) : c = 58 ∨ c = 59 := by
  simp only [declN, classTest, List.any_cons, List.any_nil, CItem.test, Bool.or_false, bne_eq_false_iff_eq,
    Bool.or_eq_true, Bool.and_eq_true, decide_eq_true_eq] at h
  omega

theorem declN_of_DCS (c : Nat) (h : isDCS c = true) : declN c = true := by
  cases hn : declN c with
  | true => rfl
  | false =>
    rcases declN_false c hn with rfl | rfl
    · rw [isDCS_58] at h; cases h
    · rw [isDCS_59] at h; cases h

theorem reDecl_shape : H5.Gen.San.reDecl =
    Re.cat (.group 1 (.rep 1 none true (.cls false [.range 45 45, .word])))
      (Re.cat (.rep 0 none true (.cls false [.space])) (Re.cat (.lit 58) (Re.cat (.rep 0 none true (.cls false [.space]))
        (Re.cat (.group 2 (.rep 0 none true (.cls true [.range 58 58, .range 59 59]))) .empty)))) := rfl

theorem run_cat_peel (total f : Nat) (a b : Re) (s : Str) (caps : Caps) (k : Cont) (res : Str × Caps)
    (h : run cl total f (.cat a b) s caps k = .ok (some res)) :
    ∃ f' w s1 c1, s = w ++ s1 ∧ Lang cl a w s1 ∧ CapsFrom cl a caps c1 ∧ run cl total f' b s1 c1 k = .ok (some res) := by
  cases f with
  | zero => simp [run] at h
  | succ f =>
    simp only [run] at h
    obtain ⟨w, s1, c1, e, l, hk, g⟩ := run_sound cl total f a s caps _ res h
    exact ⟨f, w, s1, c1, e, l, g, hk⟩

theorem mem_takeWhile_imp (p : Nat → Bool) (l : Str) : ∀ c ∈ l.takeWhile p, p c = true := by
  induction l with
  | nil => simp
  | cons x r ih =>
    intro c hc
    simp only [List.takeWhile_cons] at hc
    split at hc
    · simp only [List.mem_cons] at hc
      rcases hc with rfl | hc
      · assumption
      · exact ih c hc
    · simp at hc

theorem dropWhile_head (p : Nat → Bool) (l : Str) : l.dropWhile p = [] ∨ ∃ c r, l.dropWhile p = c :: r ∧ p c = false := by
  induction l with
  | nil => exact Or.inl rfl
  | cons x r ih =>
    simp only [List.dropWhile_cons]
    split
    · exact ih
    · rename_i hx; exact Or.inr ⟨x, r, rfl, by simpa using hx⟩

theorem length_dropWhile_le (p : Nat → Bool) (l : Str) : (l.dropWhile p).length ≤ l.length := by
  induction l with
  | nil => simp
  | cons x r ih =>
    simp only [List.dropWhile_cons]
    split
    · simp only [List.length_cons]; omega
    · simp

theorem take_sub_dropWhile (p : Nat → Bool) (l : Str) : l.take (l.length - (l.dropWhile p).length) = l.takeWhile p := by
  have := take_append_sub (l.takeWhile p) (l.dropWhile p)
  rwa [List.takeWhile_append_dropWhile] at this

/-- what one successful attempt of the declaration pattern captures: a property name without `(` and a value that is
a MAXIMAL run of `[^:;]` of the subject -/
theorem decl_attempt (total fuel : Nat) (adv : Bool) (sk : Nat) (t : Str) (m : Match)
    (h : attempt cl total fuel H5.Gen.San.reDecl adv sk t = .ok (some m)) :
    40 ∉ (m.group 1).getD [] ∧
    ∃ x, t = x ++ (m.group 2).getD [] ++ m.rest ∧ (∀ c ∈ (m.group 2).getD [], declN c = true) ∧
      (m.rest = [] ∨ ∃ c r, m.rest = c :: r ∧ declN c = false) := by
  obtain ⟨_, hr⟩ := attempt_sound cl total fuel _ adv sk t m h
  rw [reDecl_shape] at hr
  obtain ⟨f1, w1, s1, c1, e1, l1, g1, hr⟩ := run_cat_peel _ _ _ _ _ _ _ _ hr
  obtain ⟨f2, w2, s2, c2, e2, _, g2, hr⟩ := run_cat_peel _ _ _ _ _ _ _ _ hr
  obtain ⟨f3, w3, s3, c3, e3, l3, g3, hr⟩ := run_cat_peel _ _ _ _ _ _ _ _ hr
  obtain ⟨f4, w4, s4, c4, e4, _, g4, hr⟩ := run_cat_peel _ _ _ _ _ _ _ _ hr
  -- the last item: group 2 around a greedy [^:;]*
  cases f4 with
  | zero => simp [run] at hr
  | succ f5 =>
    simp only [run] at hr
    cases f5 with
    | zero => simp [run] at hr
    | succ f6 =>
      simp only [run] at hr
      have hw3 : w3 = [58] := l3
      have hlen : s4.length < t.length := by
        rw [e1, e2, e3, e4, hw3]; simp; omega
      obtain ⟨res, eres, hk⟩ := greedy_cls_star cl total true [.range 58 58, .range 59 59] f6 s4 c4 _ _
        (by
          intro s' c' hl
          have : (s'.length == t.length) = false := by
            simp only [beq_eq_false_iff_ne, ne_eq]; omega
          simp [this]) hr
      simp only [Option.some.injEq] at eres
      subst eres
      have hne : ((s4.dropWhile (classTest cl true [.range 58 58, .range 59 59])).length == t.length) = false := by
        have := length_dropWhile_le (classTest cl true [.range 58 58, .range 59 59]) s4
        simp only [beq_eq_false_iff_ne, ne_eq]; omega
      simp only [hne, Bool.and_false, Bool.false_eq_true, if_false, Except.ok.injEq, Option.some.injEq,
        Prod.mk.injEq] at hk
      obtain ⟨hrest, hcaps⟩ := hk
      rw [take_sub_dropWhile] at hcaps
      have hrest : s4.dropWhile declN = m.rest := hrest
      have hg2 : m.group 2 = some (s4.takeWhile declN) := by
        simp [Match.group, ← hcaps]
        rfl
      have hg1 : m.group 1 = c4.lookup 1 := by
        simp [Match.group, ← hcaps, List.lookup]
      refine ⟨?_, w1 ++ w2 ++ [58] ++ w4, ?_, ?_, ?_⟩
      · rw [hg1]
        cases hl : c4.lookup 1 with
        | none => simp
        | some p =>
          simp only [Option.getD_some]
          have hm4 := lookup_mem 1 p c4 hl
          have hm3 : ((1 : Nat), p) ∈ c3 := by
            rcases g4 _ hm4 with h | h
            · exact h
            · exact absurd h (by simp [GroupIn])
          have hm2 : ((1 : Nat), p) ∈ c2 := by
            rcases g3 _ hm3 with h | h
            · exact h
            · exact absurd h (by simp [GroupIn])
          have hm1 : ((1 : Nat), p) ∈ c1 := by
            rcases g2 _ hm2 with h | h
            · exact h
            · exact absurd h (by simp [GroupIn])
          rcases g1 _ hm1 with h | h
          · simp at h
          · simp only [GroupIn, Lang, true_and, or_false] at h
            obtain ⟨rest, hst⟩ := h
            have hall := star_cls_all (fun c => declW c = true) _ _ hst
            intro h40
            have := hall 40 h40
            rw [declW_40] at this
            cases this
      · rw [hg2]
        simp only [Option.getD_some]
        rw [← hrest, e1, e2, e3, e4, hw3]
        simp only [List.append_assoc]
        rw [List.takeWhile_append_dropWhile]
      · rw [hg2]
        simp only [Option.getD_some]
        exact mem_takeWhile_imp declN s4
      · rw [← hrest]
        exact dropWhile_head declN s4

/-- the value of a declaration cannot cut a `( … )` group of the style in two -/
theorem parenOk_infix (s a v rest : Str) (hs : ParenOk s) (e : s = a ++ v ++ rest)
    (hrest : rest = [] ∨ ∃ c r, rest = c :: r ∧ declN c = false) : ParenOk v := by
  intro v1 v2 ev
  obtain ⟨mid, r, em, hm⟩ := hs (a ++ v1) (v2 ++ rest) (by rw [e, ev]; simp)
  have em' : v2 ++ rest = (mid ++ [41]) ++ r := by rw [em]; simp
  rcases List.append_eq_append_iff.1 em' with ⟨a', e1, e2⟩ | ⟨c', e1, e2⟩
  · cases a' with
    | nil =>
      simp only [List.append_nil] at e1
      exact ⟨mid, [], by rw [← e1], hm⟩
    | cons c a'' =>
      exfalso
      rcases hrest with h | ⟨c0, r0, h, hc0⟩
      · rw [h] at e2; cases e2
      · rw [h] at e2
        simp only [List.cons_append, List.cons.injEq] at e2
        obtain ⟨rfl, _⟩ := e2
        have hin : c0 ∈ mid ++ [41] := by rw [e1]; simp
        simp only [List.mem_append, List.mem_singleton] at hin
        rcases hin with h1 | h1
        · rw [declN_of_DCS c0 (hm c0 h1)] at hc0; cases hc0
        · subst h1; rw [declN_41] at hc0; cases hc0
  · exact ⟨mid, c', by rw [e1]; simp, hm⟩

/-! ### the url remover `url\s*\([^)]*\)\s*` with IGNORECASE (since fix COMMIT_B) -/

def isU (c : Nat) : Prop := c = 85 ∨ c = 117
def isR (c : Nat) : Prop := c = 82 ∨ c = 114
def isL (c : Nat) : Prop := c = 76 ∨ c = 108

/-- `t` starts with `[uU][rR][lL](` -/
def urlOpen : Str → Bool
  | u :: r :: l :: p :: _ => (u == 85 || u == 117) && (r == 82 || r == 114) && (l == 76 || l == 108) && p == 40
  | _ => false

theorem urlOpen_iff (t : Str) : urlOpen t = true ↔ ∃ u r l t', t = u :: r :: l :: 40 :: t' ∧ isU u ∧ isR r ∧ isL l := by
  constructor
  · intro h
    rcases t with _ | ⟨u, _ | ⟨r, _ | ⟨l, _ | ⟨p, t'⟩⟩⟩⟩ <;> simp only [urlOpen, Bool.false_eq_true] at h
    simp only [Bool.and_eq_true, Bool.or_eq_true, beq_iff_eq] at h
    obtain ⟨⟨⟨hu, hr⟩, hl⟩, rfl⟩ := h
    exact ⟨u, r, l, t', rfl, hu, hr, hl⟩
  · rintro ⟨u, r, l, t', rfl, hu, hr, hl⟩
    simp only [urlOpen, Bool.and_eq_true, Bool.or_eq_true, beq_iff_eq]
    exact ⟨⟨⟨hu, hr⟩, hl⟩, trivial⟩

/-- the translated pattern: IGNORECASE turns each of `u`, `r`, `l` into the class of its two case variants (the
generator evaluates Python's compiled item on every code point: there is no third variant) -/
theorem reCssUrl_shape : H5.Gen.San.reCssUrl =
    Re.cat (.cls false [.range 85 85, .range 117 117]) (Re.cat (.cls false [.range 82 82, .range 114 114])
      (Re.cat (.cls false [.range 76 76, .range 108 108]) (Re.cat (.rep 0 none true (.cls false [.space]))
        (Re.cat (.lit 40) (Re.cat (.rep 0 none true (.notLit 41)) (Re.cat (.lit 41)
          (Re.cat (.rep 0 none true (.cls false [.space])) .empty))))))) := rfl

/-- `[uU][rR][lL](` + any `)`-free text + `)` is a word of the remover's exact language -/
theorem cssUrl_langX (total : Nat) (u r l : Nat) (x y : Str) (hu : isU u) (hr : isR r) (hl : isL l) (hx : 41 ∉ x) :
    LangX cl total H5.Gen.San.reCssUrl (u :: r :: l :: 40 :: (x ++ [41])) y := by
  rw [reCssUrl_shape]
  refine ⟨[u], r :: l :: 40 :: (x ++ [41]), rfl, ⟨u, rfl, ?_⟩, [r], l :: 40 :: (x ++ [41]), rfl, ⟨r, rfl, ?_⟩,
    [l], 40 :: (x ++ [41]), rfl, ⟨l, rfl, ?_⟩, [], 40 :: (x ++ [41]), rfl, RepX.done _ _, [40], x ++ [41], rfl, rfl,
    x, [41], rfl, ?_, [41], [], rfl, rfl, [], [], rfl, RepX.done _ _, rfl⟩
  · rcases hu with rfl | rfl <;> decide
  · rcases hr with rfl | rfl <;> decide
  · rcases hl with rfl | rfl <;> decide
  · apply repX_chars
    intro c hc _
    exact ⟨c, rfl, fun e => hx (e ▸ hc)⟩

theorem split_at_first (p : Nat) (t : Str) (h : p ∈ t) : ∃ x y, t = x ++ p :: y ∧ p ∉ x := by
  induction t with
  | nil => simp at h
  | cons c r ih =>
    by_cases hc : c = p
    · exact ⟨[], r, by simp [hc], by simp⟩
    · simp only [List.mem_cons] at h
      rcases h with h | h
      · exact absurd h.symm hc
      · obtain ⟨x, y, e, hx⟩ := ih h
        refine ⟨c :: x, y, by rw [e]; rfl, ?_⟩
        simp only [List.mem_cons, not_or]
        exact ⟨fun e' => hc e'.symm, hx⟩

/-- **the remover cannot miss**: an attempt at `[uU][rR][lL](` with a `)` anywhere behind it does not report
"no match" (it matches, or the engine runs out of fuel) -/
theorem cssUrl_complete (total fuel : Nat) (u r l : Nat) (t' : Str) (hu : isU u) (hr : isR r) (hl : isL l) (h41 : 41 ∈ t') :
    ¬ Fails cl total fuel H5.Gen.San.reCssUrl (u :: r :: l :: 40 :: t') := by
  rintro ⟨adv, sk, hf⟩
  obtain ⟨x, y, e, hx⟩ := split_at_first 41 t' h41
  have := attempt_complete cl total fuel _ adv sk _ hf (u :: r :: l :: 40 :: (x ++ [41])) y (by rw [e]; simp)
    (cssUrl_langX total u r l x y hu hr hl hx)
  cases this.2

/-- every match of the remover contains a `)` -/
theorem cssUrl_hit_41 (total fuel : Nat) (adv : Bool) (sk : Nat) (t : Str) (m : Match)
    (h : attempt cl total fuel H5.Gen.San.reCssUrl adv sk t = .ok (some m)) : 41 ∈ m.text := by
  obtain ⟨_, hl, _⟩ := attempt_lang cl total fuel _ adv sk t m h
  rw [reCssUrl_shape] at hl
  obtain ⟨a1, b1, e1, _, a2, b2, e2, _, a3, b3, e3, _, a4, b4, e4, _, a5, b5, e5, _, a6, b6, e6, _, a7, b7, e7, h7, _⟩ := hl
  have h7 : a7 = [41] := h7
  rw [e1, e2, e3, e4, e5, e6, e7, h7]
  simp

/-- `UrlFree R s`: wherever `[uU][rR][lL](` occurs in `s`, the text behind the `(` satisfies `R`
(`UrlFree (fun _ => False) s`: it occurs nowhere) -/
def UrlFree (R : Str → Prop) (s : Str) : Prop :=
  ∀ a u r l t', s = a ++ u :: r :: l :: 40 :: t' → isU u → isR r → isL l → R t'

/-- the characters of `[uU][rR][lL](` -/
def urlChar (c : Nat) : Bool := c == 85 || c == 117 || c == 82 || c == 114 || c == 76 || c == 108 || c == 40

theorem urlChar_U (c : Nat) (h : isU c) : urlChar c = true := by rcases h with rfl | rfl <;> rfl
theorem urlChar_R (c : Nat) (h : isR c) : urlChar c = true := by rcases h with rfl | rfl <;> rfl
theorem urlChar_L (c : Nat) (h : isL c) : urlChar c = true := by rcases h with rfl | rfl <;> rfl

theorem urlFree_nil (R : Str → Prop) : UrlFree R [] := by
  intro a u r l t' e
  simp at e

theorem urlFree_of_no_paren (s : Str) (h : 40 ∉ s) : UrlFree (fun _ => False) s := by
  intro a u r l t' e _ _ _
  exact h (by rw [e]; simp)

/-- gluing with a separator that is not one of the characters of `url(` creates no new occurrence -/
theorem urlFree_sep (R : Str → Prop) (x y : Str) (c : Nat) (hx : UrlFree (fun _ => False) x) (hy : UrlFree R y)
    (hc : urlChar c = false) : UrlFree R (x ++ c :: y) := by
  intro a u r l t' e hu hr hl
  have nu : c ≠ u := fun h => by rw [h, urlChar_U u hu] at hc; cases hc
  have nr : c ≠ r := fun h => by rw [h, urlChar_R r hr] at hc; cases hc
  have nl : c ≠ l := fun h => by rw [h, urlChar_L l hl] at hc; cases hc
  have n40 : c ≠ 40 := fun h => by rw [h] at hc; cases hc
  rcases List.append_eq_append_iff.1 e with ⟨a', ea, et⟩ | ⟨c', ex, et⟩
  · cases a' with
    | nil =>
      simp only [List.nil_append, List.cons.injEq] at et
      exact absurd et.1 nu
    | cons z a'' =>
      simp only [List.cons_append, List.cons.injEq] at et
      exact hy a'' u r l t' et.2 hu hr hl
  · rcases c' with _ | ⟨c1, _ | ⟨c2, _ | ⟨c3, _ | ⟨c4, c''⟩⟩⟩⟩
    · simp only [List.nil_append, List.cons.injEq] at et
      exact absurd et.1.symm nu
    · simp only [List.cons_append, List.nil_append, List.cons.injEq] at et
      exact absurd et.2.1.symm nr
    · simp only [List.cons_append, List.nil_append, List.cons.injEq] at et
      exact absurd et.2.2.1.symm nl
    · simp only [List.cons_append, List.nil_append, List.cons.injEq] at et
      exact absurd et.2.2.2.1.symm n40
    · simp only [List.cons_append, List.cons.injEq] at et
      obtain ⟨rfl, rfl, rfl, rfl, _⟩ := et
      exact (hx a _ _ _ c'' ex hu hr hl).elim

theorem urlFree_infix (s a v rest : Str) (hs : UrlFree (fun _ => False) s) (e : s = a ++ v ++ rest) :
    UrlFree (fun _ => False) v := by
  intro a1 u r l t' ev hu hr hl
  exact hs (a ++ a1) u r l (t' ++ rest) (by rw [e, ev]; simp) hu hr hl

/-- what `finditer` leaves between and after the matches of the remover, glued with the replacement `' '`:
`[uU][rR][lL](` survives only where no `)` follows at all -/
theorem chain_urlFree (total fuel : Nat) : ∀ (ms : List (Str × Match)) (s tail : Str),
    Chain cl total fuel H5.Gen.San.reCssUrl s ms tail →
    UrlFree (fun t' => 41 ∉ t') (ms.foldr (fun pm acc => pm.1 ++ [32] ++ acc) tail) := by
  intro ms
  induction ms with
  | nil =>
    intro s tail ⟨hs, hf⟩
    intro a u r l t' e hu hr hl h41
    exact cssUrl_complete total fuel u r l t' hu hr hl h41 (hf a _ (by rw [hs]; exact e))
  | cons pm rest ih =>
    intro s tail ⟨_, hpre, ⟨adv, sk, hatt⟩, hch⟩
    rw [List.foldr_cons, List.append_assoc]
    refine urlFree_sep _ pm.1 _ 32 ?_ (ih _ _ hch) (by decide)
    intro a u r l t' e hu hr hl
    have h41 := cssUrl_hit_41 total fuel adv sk _ pm.2 hatt
    refine cssUrl_complete total fuel u r l (t' ++ (pm.2.text ++ pm.2.rest)) hu hr hl ?_ ?_
    · simp [h41]
    · have := hpre a (u :: r :: l :: 40 :: t') e (by simp)
      simpa using this

/-- **the repaired remover**: in `pattern.sub(' ', style)` a `[uU][rR][lL](` is never followed by a `)` -/
theorem sub_cssUrl_free (s out : Str) (h : sub cl H5.Gen.San.reCssUrl [32] s = .ok out) : UrlFree (fun t' => 41 ∉ t') out := by
  simp only [sub, bind_eq_ok, pure, Except.pure, Except.ok.injEq] at h
  obtain ⟨⟨ms, tail⟩, hm, rfl⟩ := h
  exact chain_urlFree _ _ ms s tail (allMatches_chain cl _ s ms tail hm)

/-- together with the first gauntlet (every `(` is closed): no `[uU][rR][lL](` at all -/
theorem urlFree_of_parenOk (s : Str) (h1 : UrlFree (fun t' => 41 ∉ t') s) (h2 : ParenOk s) : UrlFree (fun _ => False) s := by
  intro a u r l t' e hu hr hl
  obtain ⟨mid, rest, eb, _⟩ := h2 (a ++ [u, r, l]) t' (by rw [e]; simp)
  exact h1 a u r l t' e hu hr hl (by rw [eb]; simp)

/-! ### the local-href test `re.search(r'^\s*[^#\s].*', v)` -/

/-- Python's `\s` for `str` patterns -/
def isPySpace (c : Nat) : Bool := inRanges H5.Gen.San.spaceClass c

/-- the value is empty, all white space, or its first non-white-space character is `#` -/
def localRef (v : Str) : Bool :=
  match v.dropWhile isPySpace with
  | [] => true
  | c :: _ => c == 35

theorem reLocalHref_shape : H5.Gen.San.reLocalHref =
    Re.cat .bos (Re.cat (.rep 0 none true (.cls false [.space])) (Re.cat (.cls true [.range 35 35, .space])
      (Re.cat (.rep 0 none true .any) .empty))) := rfl

theorem cls_space (c : Nat) : classTest cl false [.space] c = isPySpace c := by
  simp [classTest, CItem.test, isPySpace, cl, H5.Gen.San.reClasses]

theorem cls_not_hash_space (c : Nat) : classTest cl true [.range 35 35, .space] c = (!(c == 35) && !isPySpace c) := by
  have e : (decide (35 ≤ c) && decide (c ≤ 35)) = (c == 35) := by
    by_cases h : c = 35
    · subst h; rfl
    · have h1 : (c == 35) = false := by simpa using h
      rw [h1]
      by_cases h2 : 35 ≤ c
      · have : ¬ c ≤ 35 := by omega
        simp [h2, this]
      · simp [h2]
  simp only [classTest, CItem.test, isPySpace, cl, H5.Gen.San.reClasses, List.any_cons, List.any_nil, Bool.or_false, e]
  cases (c == 35) <;> cases inRanges H5.Gen.San.spaceClass c <;> rfl

/-- `re.search` finds nothing exactly on the values that are local references in the sense of `localRef`
(this direction: nothing found ⇒ `localRef`; the converse is `localHref_search_some`, both: `localHref_search_iff`) -/
theorem localHref_search_none (v : Str) (h : search cl H5.Gen.San.reLocalHref v = .ok none) : localRef v = true := by
  unfold search at h
  obtain ⟨adv, sk, hf⟩ := searchAux_none cl _ _ _ v false 0 h [] v rfl
  unfold localRef
  rcases dropWhile_head isPySpace v with hd | ⟨c, rest, hd, hc⟩
  · rw [hd]
  · rw [hd]
    by_cases h35 : c = 35
    · simp [h35]
    · exfalso
      have ev : v = v.takeWhile isPySpace ++ c :: rest := by rw [← hd, List.takeWhile_append_dropWhile]
      have := attempt_complete cl _ _ _ adv sk v hf
        (v.takeWhile isPySpace ++ c :: rest.takeWhile (· ≠ 10)) (rest.dropWhile (· ≠ 10))
        (by rw [List.append_assoc, List.cons_append, List.takeWhile_append_dropWhile]; exact ev)
        (by
          rw [reLocalHref_shape]
          refine ⟨[], _, (List.nil_append _).symm, ⟨rfl, ?_⟩, v.takeWhile isPySpace, c :: rest.takeWhile (· ≠ 10), rfl, ?_,
            [c], rest.takeWhile (· ≠ 10), rfl, ⟨c, rfl, ?_⟩, rest.takeWhile (· ≠ 10), [], (List.append_nil _).symm, ?_, rfl⟩
          · rw [List.append_assoc, List.cons_append, List.takeWhile_append_dropWhile, ← ev]
          · apply repX_chars
            intro d hd' _
            exact ⟨d, rfl, by rw [cls_space]; exact mem_takeWhile_imp isPySpace v d hd'⟩
          · rw [cls_not_hash_space, hc]; simp [h35]
          · apply repX_chars
            intro d hd' _
            exact ⟨d, rfl, by simpa using mem_takeWhile_imp (· ≠ 10) rest d hd'⟩)
      have hnil := this.2
      simp at hnil

theorem dropWhile_append_stop (p : Nat → Bool) (ws : Str) (c : Nat) (r : Str) (hws : ∀ x ∈ ws, p x = true) (hc : p c = false) :
    (ws ++ c :: r).dropWhile p = c :: r := by
  induction ws with
  | nil => simp [hc]
  | cons x t ih =>
    simp only [List.cons_append, List.dropWhile_cons, hws x List.mem_cons_self, if_true]
    exact ih (fun y hy => hws y (List.mem_cons_of_mem _ hy))

theorem run_cat_step (total f : Nat) (a b : Re) (s : Str) (caps : Caps) (k : Cont) :
    run cl total (f + 1) (.cat a b) s caps k = run cl total f a s caps (fun s' c' => run cl total f b s' c' k) := rfl

theorem run_bos_step (total f : Nat) (s : Str) (caps : Caps) (k : Cont) :
    run cl total (f + 1) .bos s caps k = if s.length = total then k s caps else .ok none := rfl

/-- `^` at the head of a pattern: a successful run starts at offset 0 of the subject -/
theorem run_bos_cat (total f : Nat) (X : Re) (s : Str) (caps : Caps) (k : Cont) (res : Str × Caps)
    (h : run cl total f (.cat .bos X) s caps k = .ok (some res)) :
    s.length = total ∧ ∃ f', run cl total f' X s caps k = .ok (some res) := by
  cases f with
  | zero => simp [run] at h
  | succ f =>
    rw [run_cat_step] at h
    cases f with
    | zero => simp [run] at h
    | succ f =>
      rw [run_bos_step] at h
      split at h
      · rename_i hl; exact ⟨hl, f + 1, h⟩
      · cases h

/-- the converse of `localHref_search_none`: a hit means the first non-white-space character exists and is not `#` -/
theorem localHref_search_some (v : Str) (m : Match) (h : search cl H5.Gen.San.reLocalHref v = .ok (some m)) :
    localRef v = false := by
  unfold search at h
  obtain ⟨pre, ev, _, _, adv, sk, hatt⟩ := searchAux_some cl _ _ _ v false 0 m h
  obtain ⟨_, hr⟩ := attempt_sound cl _ _ _ adv sk _ m hatt
  rw [reLocalHref_shape] at hr
  obtain ⟨hlen, f', hr⟩ := run_bos_cat _ _ _ _ _ _ _ hr
  have hpre : pre = [] := by
    have := congrArg List.length ev
    rw [List.length_append] at this
    exact List.eq_nil_of_length_eq_zero (by omega)
  subst hpre
  simp only [List.nil_append] at ev
  obtain ⟨w, s', c', e, hl, _, _⟩ := run_sound cl _ _ _ _ _ _ _ hr
  obtain ⟨ws, r1, rfl, hst, cw, r2, rfl, ⟨c, rfl, hc⟩, _⟩ := hl
  have hall := star_cls_all (fun d => classTest cl false [.space] d = true) _ _ hst
  rw [cls_not_hash_space] at hc
  simp only [Bool.and_eq_true, Bool.not_eq_true', beq_eq_false_iff_ne, ne_eq] at hc
  unfold localRef
  rw [ev, e, List.append_assoc, List.append_assoc, List.singleton_append,
    dropWhile_append_stop isPySpace ws c _ (fun x hx => by rw [← cls_space]; exact hall x hx) hc.2]
  simp [hc.1]

/-- **what `re.search(r'^\s*[^#\s].*', v)` means**: it finds something iff `v` is not a local reference -/
theorem localHref_search_iff (v : Str) (o : Option Match) (h : search cl H5.Gen.San.reLocalHref v = .ok o) :
    o.isSome = !localRef v := by
  cases o with
  | none => simp [localHref_search_none v h]
  | some m => simp [localHref_search_some v m h]

/-! ### the guard `if re.search(r'url\s*\(', style, re.I): return ''` (fix COMMIT_B) -/

/-- `t` starts with `[uU][rR][lL]`, zero or more characters of Python's `\s`, and `(` -/
def urlOpenS : Str → Bool
  | u :: r :: l :: rest =>
    (u == 85 || u == 117) && (r == 82 || r == 114) && (l == 76 || l == 108) &&
      (match rest.dropWhile isPySpace with
       | 40 :: _ => true
       | _ => false)
  | _ => false

theorem urlOpenS_decomp (t : Str) (h : urlOpenS t = true) :
    ∃ u r l ws t', t = u :: r :: l :: (ws ++ 40 :: t') ∧ isU u ∧ isR r ∧ isL l ∧ ∀ c ∈ ws, isPySpace c = true := by
  rcases t with _ | ⟨u, _ | ⟨r, _ | ⟨l, rest⟩⟩⟩ <;> simp only [urlOpenS, Bool.false_eq_true] at h
  simp only [Bool.and_eq_true, Bool.or_eq_true, beq_iff_eq] at h
  obtain ⟨⟨⟨hu, hr⟩, hl⟩, hd⟩ := h
  split at hd
  · rename_i t' hdw
    refine ⟨u, r, l, rest.takeWhile isPySpace, t', ?_, hu, hr, hl, mem_takeWhile_imp isPySpace rest⟩
    rw [← hdw, List.takeWhile_append_dropWhile]
  · cases hd

theorem reCssUrlGuard_shape : H5.Gen.San.reCssUrlGuard =
    Re.cat (.cls false [.range 85 85, .range 117 117]) (Re.cat (.cls false [.range 82 82, .range 114 114])
      (Re.cat (.cls false [.range 76 76, .range 108 108]) (Re.cat (.rep 0 none true (.cls false [.space]))
        (Re.cat (.lit 40) .empty)))) := rfl

theorem guard_langX (total : Nat) (u r l : Nat) (ws y : Str) (hu : isU u) (hr : isR r) (hl : isL l)
    (hws : ∀ c ∈ ws, isPySpace c = true) : LangX cl total H5.Gen.San.reCssUrlGuard (u :: r :: l :: (ws ++ [40])) y := by
  rw [reCssUrlGuard_shape]
  refine ⟨[u], r :: l :: (ws ++ [40]), rfl, ⟨u, rfl, ?_⟩, [r], l :: (ws ++ [40]), rfl, ⟨r, rfl, ?_⟩,
    [l], ws ++ [40], rfl, ⟨l, rfl, ?_⟩, ws, [40], rfl, ?_, [40], [], rfl, rfl, rfl⟩
  · rcases hu with rfl | rfl <;> decide
  · rcases hr with rfl | rfl <;> decide
  · rcases hl with rfl | rfl <;> decide
  · apply repX_chars
    intro c hc _
    exact ⟨c, rfl, by rw [cls_space]; exact hws c hc⟩

/-- `UrlFreeS s`: `[uU][rR][lL]\s*(` occurs nowhere in `s` -/
def UrlFreeS (s : Str) : Prop :=
  ∀ a u r l ws t', s = a ++ u :: r :: l :: (ws ++ 40 :: t') → isU u → isR r → isL l → (∀ c ∈ ws, isPySpace c = true) → False

/-- **the guard cannot miss**: a style on which the guard's `re.search` finds nothing contains no `url\s*(` -/
theorem guard_urlFreeS (s : Str) (h : search cl H5.Gen.San.reCssUrlGuard s = .ok none) : UrlFreeS s := by
  intro a u r l ws t' e hu hr hl hws
  unfold search at h
  obtain ⟨adv, sk, hf⟩ := searchAux_none cl _ _ _ s false 0 h a _ e
  have := attempt_complete cl _ _ _ adv sk _ hf (u :: r :: l :: (ws ++ [40])) t' (by simp)
    (guard_langX _ u r l ws t' hu hr hl hws)
  cases this.2

theorem urlFreeS_nil : UrlFreeS [] := by
  intro a u r l ws t' e
  simp at e

theorem urlFreeS_of_no_paren (s : Str) (h : 40 ∉ s) : UrlFreeS s := by
  intro a u r l ws t' e _ _ _ _
  exact h (by rw [e]; simp)

/-- a character that is not `u`/`U` in front starts no new occurrence -/
theorem urlFreeS_cons (c : Nat) (y : Str) (hc : ¬ isU c) (hy : UrlFreeS y) : UrlFreeS (c :: y) := by
  intro a u r l ws t' e hu hr hl hws
  cases a with
  | nil =>
    simp only [List.nil_append, List.cons.injEq] at e
    exact hc (e.1 ▸ hu)
  | cons z a' =>
    simp only [List.cons_append, List.cons.injEq] at e
    exact hy a' u r l ws t' e.2 hu hr hl hws

theorem isPySpace_40 : isPySpace 40 = false := by decide +kernel

/-- gluing with a separator that is neither a character of `url(` nor white space creates no new occurrence -/
theorem urlFreeS_sep (x y : Str) (c : Nat) (hx : UrlFreeS x) (hy : UrlFreeS y) (hc : urlChar c = false)
    (hsp : isPySpace c = false) : UrlFreeS (x ++ c :: y) := by
  intro a u r l ws t' e hu hr hl hws
  have nu : c ≠ u := fun h => by rw [h, urlChar_U u hu] at hc; cases hc
  have nr : c ≠ r := fun h => by rw [h, urlChar_R r hr] at hc; cases hc
  have nl : c ≠ l := fun h => by rw [h, urlChar_L l hl] at hc; cases hc
  have n40 : c ≠ 40 := fun h => by rw [h] at hc; cases hc
  rcases List.append_eq_append_iff.1 e with ⟨a', ea, et⟩ | ⟨c', ex, et⟩
  · cases a' with
    | nil =>
      simp only [List.nil_append, List.cons.injEq] at et
      exact absurd et.1 nu
    | cons z a'' =>
      simp only [List.cons_append, List.cons.injEq] at et
      exact hy a'' u r l ws t' et.2 hu hr hl hws
  · rcases c' with _ | ⟨c1, _ | ⟨c2, _ | ⟨c3, c4⟩⟩⟩
    · simp only [List.nil_append, List.cons.injEq] at et
      exact absurd et.1.symm nu
    · simp only [List.cons_append, List.nil_append, List.cons.injEq] at et
      exact absurd et.2.1.symm nr
    · simp only [List.cons_append, List.nil_append, List.cons.injEq] at et
      exact absurd et.2.2.1.symm nl
    · simp only [List.cons_append, List.cons.injEq] at et
      obtain ⟨rfl, rfl, rfl, et⟩ := et
      -- `ws ++ 40 :: t' = c4 ++ c :: y`: `c` lies in `ws`, is the `(`, or the whole occurrence lies in `x`
      rcases List.append_eq_append_iff.1 et with ⟨w2, e1, e2⟩ | ⟨d, e1, e2⟩
      · cases w2 with
        | nil =>
          simp only [List.nil_append, List.cons.injEq] at e2
          exact absurd e2.1.symm n40
        | cons z w2' =>
          simp only [List.cons_append, List.cons.injEq] at e2
          obtain ⟨rfl, _⟩ := e2
          exact hx a _ _ _ ws w2' (by rw [ex, e1]) hu hr hl hws
      · cases d with
        | nil =>
          simp only [List.nil_append, List.cons.injEq] at e2
          exact absurd e2.1 n40
        | cons z d' =>
          simp only [List.cons_append, List.cons.injEq] at e2
          obtain ⟨rfl, _⟩ := e2
          have : isPySpace c = true := hws c (by rw [e1]; simp)
          rw [hsp] at this; cases this

theorem urlFreeS_infix (s a v rest : Str) (hs : UrlFreeS s) (e : s = a ++ v ++ rest) : UrlFreeS v := by
  intro a1 u r l ws t' ev hu hr hl hws
  exact hs (a ++ a1) u r l ws (t' ++ rest) (by rw [e, ev]; simp) hu hr hl hws

end H5.Model.Sanitizer
