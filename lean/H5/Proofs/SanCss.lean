/-
  Lemmas for the CSS parenthesis clause of C09: what the gauntlet `^(…|\([\d,\s]+\))*$` guarantees about `(`,
  and what `re.findall(r"([-\w]+)\s*:\s*([^:;]*)", style)` captures (via the engine soundness of H5.Proofs.Regex).
-/
import H5.Model.Sanitizer
import H5.Proofs.Regex
namespace H5.Model.Sanitizer
open H5 H5.Model.Regex

/-- `[\d,\s]` -/
def isDCS (c : Nat) : Bool := classTest cl false [.digit, .range 44 44, .space] c

/-- every `(` is followed by characters of `[\d,\s]` only, up to a `)` -/
def ParenOk (s : Str) : Prop :=
  ∀ a b, s = a ++ 40 :: b → ∃ mid rest, b = mid ++ 41 :: rest ∧ ∀ c ∈ mid, isDCS c = true

theorem parenOk_of_free (s : Str) (h : 40 ∉ s) : ParenOk s := by
  intro a b e
  exact absurd (by rw [e]; simp) h

theorem parenOk_append (u v : Str) (hu : ParenOk u) (hv : ParenOk v) : ParenOk (u ++ v) := by
  intro a b e
  rcases List.append_eq_append_iff.1 e with ⟨a', ea, ev⟩ | ⟨c', eu, ec⟩
  · exact hv a' b ev
  · cases c' with
    | nil =>
      simp only [List.nil_append] at ec
      exact hv [] b ec.symm
    | cons x c'' =>
      simp only [List.cons_append, List.cons.injEq] at ec
      obtain ⟨rfl, eb⟩ := ec
      obtain ⟨mid, r, em, hm⟩ := hu a c'' eu
      exact ⟨mid, r ++ v, by rw [eb, em]; simp, hm⟩

theorem isDCS_40 : isDCS 40 = false := by decide +kernel
theorem isDCS_58 : isDCS 58 = false := by decide +kernel
theorem isDCS_59 : isDCS 59 = false := by decide +kernel

theorem parenOk_group (mid : Str) (hm : ∀ c ∈ mid, isDCS c = true) : ParenOk (40 :: (mid ++ [41])) := by
  intro a b e
  cases a with
  | nil =>
    simp only [List.nil_append, List.cons.injEq, true_and] at e
    exact ⟨mid, [], e.symm, hm⟩
  | cons x a' =>
    simp only [List.cons_append, List.cons.injEq] at e
    have hin : 40 ∈ mid ++ [41] := by rw [e.2]; simp
    simp only [List.mem_append, List.mem_singleton] at hin
    rcases hin with h | h
    · have := hm 40 h; rw [isDCS_40] at this; cases this
    · cases h

theorem star_parenOk (P : Str → Str → Prop) (hP : ∀ u r, P u r → ParenOk u) (w rest : Str) (h : Star P w rest) :
    ParenOk w := by
  induction h with
  | nil rest => exact parenOk_of_free [] (by simp)
  | cons u v rest hu _ ih => exact parenOk_append u v (hP _ _ hu) ih

theorem star_cls_all (Q : Nat → Prop) (w rest : Str) (h : Star (fun x _ => ∃ c, x = [c] ∧ Q c) w rest) :
    ∀ c ∈ w, Q c := by
  induction h with
  | nil rest => simp
  | cons u v rest hu _ ih =>
    obtain ⟨c, rfl, hc⟩ := hu
    intro x hx
    simp only [List.cons_append, List.nil_append, List.mem_cons] at hx
    rcases hx with rfl | hx
    · exact hc
    · exact ih x hx

/-! ### gauntlet 1 -/

theorem gA_40 : classTest cl false [CItem.range 58 58, CItem.range 44 44, CItem.range 59 59, CItem.range 35 35,
    CItem.range 37 37, CItem.range 46 46, CItem.space, CItem.range 97 122, CItem.range 65 90, CItem.range 48 57,
    CItem.range 33 33] 40 = false := by decide +kernel
theorem gW_40 : classTest cl false [CItem.word] 40 = false := by decide +kernel
theorem gSW_40 : classTest cl false [CItem.space, CItem.word] 40 = false := by decide +kernel

theorem ne_of_class (neg : Bool) (items : List CItem) (x y : Nat) (hy : classTest cl neg items y = false)
    (hx : classTest cl neg items x = true) : x ≠ y := by
  intro e; subst e; rw [hy] at hx; cases hx

/-- a style that passes the first gauntlet has every `(` followed by `[\d,\s]*` and `)` -/
theorem gauntlet1_parenOk (s : Str) (m : Match) (h : matchAt cl H5.Gen.San.reGauntlet1 s = .ok (some m)) : ParenOk s := by
  obtain ⟨es, hl⟩ := matchAt_sound cl _ s m h
  simp only [H5.Gen.San.reGauntlet1, Re.seq, Re.alts, List.foldr, Lang] at hl
  obtain ⟨u0, v0, e0, rfl, u1, v1, e1, hstar, u2, v2, e2, ⟨rfl, hend⟩, rfl⟩ := hl
  simp only [List.nil_append, List.append_nil] at e0 e1 e2 hend hstar
  subst e2
  simp only [List.append_nil] at e1
  subst e1
  subst e0
  rw [es]
  apply parenOk_append
  · refine star_parenOk _ ?_ _ _ hstar
    intro u r hp
    rcases hp with ⟨x, rfl, hx⟩ | ⟨a, b, rfl, ⟨x, rfl, hx⟩, c, d, rfl, rfl, e, f, rfl, ⟨y, rfl, hy⟩, rfl⟩ |
      ⟨a, b, rfl, rfl, c, d, rfl, hst, e, f, rfl, rfl, rfl⟩ | ⟨a, b, rfl, rfl, c, d, rfl, hst, e, f, rfl, rfl, rfl⟩ |
      ⟨a, b, rfl, rfl, c, d, rfl, hst, e, f, rfl, rfl, rfl⟩
    · apply parenOk_of_free
      simp only [List.mem_singleton]
      exact fun e => ne_of_class _ _ _ _ gA_40 hx e.symm
    · apply parenOk_of_free
      simp only [List.cons_append, List.nil_append, List.append_nil, List.mem_cons, List.not_mem_nil, or_false, not_or]
      exact ⟨fun e => ne_of_class _ _ _ _ gW_40 hx e.symm, by decide, fun e => ne_of_class _ _ _ _ gW_40 hy e.symm⟩
    · apply parenOk_of_free
      have hall := star_cls_all (fun c => classTest cl false [CItem.space, CItem.word] c = true) _ _ hst
      simp only [List.cons_append, List.nil_append, List.append_nil, List.mem_cons, List.mem_append, List.not_mem_nil,
        or_false, not_or]
      exact ⟨by decide, fun hc => ne_of_class _ _ _ _ gSW_40 (hall 40 hc) rfl, by decide⟩
    · apply parenOk_of_free
      have hall := star_cls_all (fun c => classTest cl false [CItem.space, CItem.word] c = true) _ _ hst
      simp only [List.cons_append, List.nil_append, List.append_nil, List.mem_cons, List.mem_append, List.not_mem_nil,
        or_false, not_or]
      exact ⟨by decide, fun hc => ne_of_class _ _ _ _ gSW_40 (hall 40 hc) rfl, by decide⟩
    · have hall := star_cls_all (fun c => isDCS c = true) _ _ hst
      simpa using parenOk_group c hall
  · apply parenOk_of_free
    rcases hend with h | h <;> simp [h]


/-! ### the declaration pattern `([-\w]+)\s*:\s*([^:;]*)` -/

/-- `[^:;]` -/
def declN (c : Nat) : Bool := classTest cl true [.range 58 58, .range 59 59] c
/-- `[-\w]` -/
def declW (c : Nat) : Bool := classTest cl false [.range 45 45, .word] c

theorem declW_40 : declW 40 = false := by decide +kernel
theorem declN_41 : declN 41 = true := by decide +kernel

theorem declN_false (c : Nat) (h : declN c = false) : c = 58 ∨ c = 59 := by
  simp only [declN, classTest, List.any_cons, List.any_nil, CItem.test, Bool.or_false, bne_eq_false_iff_eq,
    Bool.or_eq_true, Bool.and_eq_true, decide_eq_true_eq] at h
  omega

theorem declN_of_DCS (c : Nat) (h : isDCS c = true) : declN c = true := by
  cases hn : declN c with
  | true => rfl
  | false =>
    rcases declN_false c hn with rfl | rfl
    · rw [isDCS_58] at h; cases h
    · rw [isDCS_59] at h; cases h

theorem reDecl_shape : H5.Gen.San.reDecl =
    Re.cat (.group 1 (.rep 1 none true (.cls false [.range 45 45, .word])))
      (Re.cat (.rep 0 none true (.cls false [.space])) (Re.cat (.lit 58) (Re.cat (.rep 0 none true (.cls false [.space]))
        (Re.cat (.group 2 (.rep 0 none true (.cls true [.range 58 58, .range 59 59]))) .empty)))) := rfl

theorem run_cat_peel (total f : Nat) (a b : Re) (s : Str) (caps : Caps) (k : Cont) (res : Str × Caps)
    (h : run cl total f (.cat a b) s caps k = .ok (some res)) :
    ∃ f' w s1 c1, s = w ++ s1 ∧ Lang cl a w s1 ∧ CapsFrom cl a caps c1 ∧ run cl total f' b s1 c1 k = .ok (some res) := by
  cases f with
  | zero => simp [run] at h
  | succ f =>
    simp only [run] at h
    obtain ⟨w, s1, c1, e, l, hk, g⟩ := run_sound cl total f a s caps _ res h
    exact ⟨f, w, s1, c1, e, l, g, hk⟩

theorem mem_takeWhile_imp (p : Nat → Bool) (l : Str) : ∀ c ∈ l.takeWhile p, p c = true := by
  induction l with
  | nil => simp
  | cons x r ih =>
    intro c hc
    simp only [List.takeWhile_cons] at hc
    split at hc
    · simp only [List.mem_cons] at hc
      rcases hc with rfl | hc
      · assumption
      · exact ih c hc
    · simp at hc

theorem dropWhile_head (p : Nat → Bool) (l : Str) : l.dropWhile p = [] ∨ ∃ c r, l.dropWhile p = c :: r ∧ p c = false := by
  induction l with
  | nil => exact Or.inl rfl
  | cons x r ih =>
    simp only [List.dropWhile_cons]
    split
    · exact ih
    · rename_i hx; exact Or.inr ⟨x, r, rfl, by simpa using hx⟩

theorem length_dropWhile_le (p : Nat → Bool) (l : Str) : (l.dropWhile p).length ≤ l.length := by
  induction l with
  | nil => simp
  | cons x r ih =>
    simp only [List.dropWhile_cons]
    split
    · simp only [List.length_cons]; omega
    · simp

theorem take_sub_dropWhile (p : Nat → Bool) (l : Str) : l.take (l.length - (l.dropWhile p).length) = l.takeWhile p := by
  have := take_append_sub (l.takeWhile p) (l.dropWhile p)
  rwa [List.takeWhile_append_dropWhile] at this

/-- what one successful attempt of the declaration pattern captures: a property name without `(` and a value that is
a MAXIMAL run of `[^:;]` of the subject -/
theorem decl_attempt (total fuel : Nat) (adv : Bool) (sk : Nat) (t : Str) (m : Match)
    (h : attempt cl total fuel H5.Gen.San.reDecl adv sk t = .ok (some m)) :
    40 ∉ (m.group 1).getD [] ∧
    ∃ x, t = x ++ (m.group 2).getD [] ++ m.rest ∧ (∀ c ∈ (m.group 2).getD [], declN c = true) ∧
      (m.rest = [] ∨ ∃ c r, m.rest = c :: r ∧ declN c = false) := by
  obtain ⟨_, hr⟩ := attempt_sound cl total fuel _ adv sk t m h
  rw [reDecl_shape] at hr
  obtain ⟨f1, w1, s1, c1, e1, l1, g1, hr⟩ := run_cat_peel _ _ _ _ _ _ _ _ hr
  obtain ⟨f2, w2, s2, c2, e2, _, g2, hr⟩ := run_cat_peel _ _ _ _ _ _ _ _ hr
  obtain ⟨f3, w3, s3, c3, e3, l3, g3, hr⟩ := run_cat_peel _ _ _ _ _ _ _ _ hr
  obtain ⟨f4, w4, s4, c4, e4, _, g4, hr⟩ := run_cat_peel _ _ _ _ _ _ _ _ hr
  -- the last item: group 2 around a greedy [^:;]*
  cases f4 with
  | zero => simp [run] at hr
  | succ f5 =>
    simp only [run] at hr
    cases f5 with
    | zero => simp [run] at hr
    | succ f6 =>
      simp only [run] at hr
      have hw3 : w3 = [58] := l3
      have hlen : s4.length < t.length := by
        rw [e1, e2, e3, e4, hw3]; simp; omega
      obtain ⟨res, eres, hk⟩ := greedy_cls_star cl total true [.range 58 58, .range 59 59] f6 s4 c4 _ _
        (by
          intro s' c' hl
          have : (s'.length == t.length) = false := by
            simp only [beq_eq_false_iff_ne, ne_eq]; omega
          simp [this]) hr
      simp only [Option.some.injEq] at eres
      subst eres
      have hne : ((s4.dropWhile (classTest cl true [.range 58 58, .range 59 59])).length == t.length) = false := by
        have := length_dropWhile_le (classTest cl true [.range 58 58, .range 59 59]) s4
        simp only [beq_eq_false_iff_ne, ne_eq]; omega
      simp only [hne, Bool.and_false, Bool.false_eq_true, if_false, Except.ok.injEq, Option.some.injEq,
        Prod.mk.injEq] at hk
      obtain ⟨hrest, hcaps⟩ := hk
      rw [take_sub_dropWhile] at hcaps
      have hrest : s4.dropWhile declN = m.rest := hrest
      have hg2 : m.group 2 = some (s4.takeWhile declN) := by
        simp [Match.group, ← hcaps]
        rfl
      have hg1 : m.group 1 = c4.lookup 1 := by
        simp [Match.group, ← hcaps, List.lookup]
      refine ⟨?_, w1 ++ w2 ++ [58] ++ w4, ?_, ?_, ?_⟩
      · rw [hg1]
        cases hl : c4.lookup 1 with
        | none => simp
        | some p =>
          simp only [Option.getD_some]
          have hm4 := lookup_mem 1 p c4 hl
          have hm3 : ((1 : Nat), p) ∈ c3 := by
            rcases g4 _ hm4 with h | h
            · exact h
            · exact absurd h (by simp [GroupIn])
          have hm2 : ((1 : Nat), p) ∈ c2 := by
            rcases g3 _ hm3 with h | h
            · exact h
            · exact absurd h (by simp [GroupIn])
          have hm1 : ((1 : Nat), p) ∈ c1 := by
            rcases g2 _ hm2 with h | h
            · exact h
            · exact absurd h (by simp [GroupIn])
          rcases g1 _ hm1 with h | h
          · simp at h
          · simp only [GroupIn, Lang, true_and, or_false] at h
            obtain ⟨rest, hst⟩ := h
            have hall := star_cls_all (fun c => declW c = true) _ _ hst
            intro h40
            have := hall 40 h40
            rw [declW_40] at this
            cases this
      · rw [hg2]
        simp only [Option.getD_some]
        rw [← hrest, e1, e2, e3, e4, hw3]
        simp only [List.append_assoc]
        rw [List.takeWhile_append_dropWhile]
      · rw [hg2]
        simp only [Option.getD_some]
        exact mem_takeWhile_imp declN s4
      · rw [← hrest]
        exact dropWhile_head declN s4

/-- the value of a declaration cannot cut a `( … )` group of the style in two -/
theorem parenOk_infix (s a v rest : Str) (hs : ParenOk s) (e : s = a ++ v ++ rest)
    (hrest : rest = [] ∨ ∃ c r, rest = c :: r ∧ declN c = false) : ParenOk v := by
  intro v1 v2 ev
  obtain ⟨mid, r, em, hm⟩ := hs (a ++ v1) (v2 ++ rest) (by rw [e, ev]; simp)
  have em' : v2 ++ rest = (mid ++ [41]) ++ r := by rw [em]; simp
  rcases List.append_eq_append_iff.1 em' with ⟨a', e1, e2⟩ | ⟨c', e1, e2⟩
  · cases a' with
    | nil =>
      simp only [List.append_nil] at e1
      exact ⟨mid, [], by rw [← e1], hm⟩
    | cons c a'' =>
      exfalso
      rcases hrest with h | ⟨c0, r0, h, hc0⟩
      · rw [h] at e2; cases e2
      · rw [h] at e2
        simp only [List.cons_append, List.cons.injEq] at e2
        obtain ⟨rfl, _⟩ := e2
        have hin : c0 ∈ mid ++ [41] := by rw [e1]; simp
        simp only [List.mem_append, List.mem_singleton] at hin
        rcases hin with h1 | h1
        · rw [declN_of_DCS c0 (hm c0 h1)] at hc0; cases hc0
        · subst h1; rw [declN_41] at hc0; cases hc0
  · exact ⟨mid, c', by rw [e1]; simp, hm⟩

end H5.Model.Sanitizer
