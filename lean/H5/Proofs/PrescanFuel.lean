/-
  Helper lemmas for C06_prescan_terminates: a Hoare-style postcondition `Post r Q` on the results of the
  EncodingBytes / EncodingParser model ("not an out-of-fuel error, and an ok result satisfies Q") and the
  position bounds of every operation.
-/
import H5.Model.Encoding
namespace H5.Proofs.Prescan
open H5 H5.Gen H5.Model.Encoding

def isFuel : PyErr → Bool
  | .outOfFuel _ => true
  | _ => false

/-- the result is not an out-of-fuel error, and an `ok` result satisfies `Q` -/
def Post {α : Type} (r : R α) (Q : α → Int → Prop) : Prop :=
  (∀ e, r = .err e → isFuel e = false) ∧ ∀ a p, r = .ok a p → Q a p

theorem Post_ok {α : Type} (a : α) (p : Int) (Q : α → Int → Prop) (h : Q a p) : Post (.ok a p) Q :=
  ⟨fun e he => (by cases he), fun a' p' he => (by cases he; exact h)⟩

theorem Post_stop {α : Type} (Q : α → Int → Prop) : Post (.stop : R α) Q :=
  ⟨fun e he => (by cases he), fun a' p' he => (by cases he)⟩

theorem Post_err {α : Type} (e : PyErr) (Q : α → Int → Prop) (h : isFuel e = false) : Post (.err e : R α) Q :=
  ⟨fun e' he => (by cases he; exact h), fun a' p' he => (by cases he)⟩

theorem Post_bind {α β : Type} (r : R α) (f : α → Int → R β) (Q : α → Int → Prop) (Q' : β → Int → Prop)
    (hr : Post r Q) (hf : ∀ a p, Q a p → Post (f a p) Q') : Post (r.bind f) Q' := by
  cases r with
  | ok a p => exact hf a p (hr.2 a p rfl)
  | stop => exact Post_stop Q'
  | err e => exact Post_err e Q' (hr.1 e rfl)

theorem Post_mono {α : Type} (r : R α) (Q Q' : α → Int → Prop) (h : Post r Q) (hq : ∀ a p, Q a p → Q' a p) :
    Post r Q' := ⟨h.1, fun a p he => hq a p (h.2 a p he)⟩

/-! primitives -/

theorem getPosition_post (d : Bytes) (pos : Int) :
    Post (getPosition d pos) (fun q p => p = pos ∧ pos < blen d ∧ (0 ≤ pos → q = some pos.toNat) ∧ (pos < 0 → q = none)) := by
  unfold getPosition
  split
  · exact Post_stop _
  · split
    · apply Post_ok; refine ⟨rfl, by omega, fun _ => rfl, fun h => by omega⟩
    · apply Post_ok; refine ⟨rfl, by omega, fun h => by omega, fun _ => rfl⟩

theorem setPosition_post (d : Bytes) (pos new : Int) :
    Post (setPosition d pos new) (fun _ p => p = new ∧ pos < blen d) := by
  unfold setPosition
  split
  · exact Post_stop _
  · apply Post_ok; exact ⟨rfl, by omega⟩

theorem addPosition_post (d : Bytes) (pos : Int) (n : Nat) :
    Post (addPosition d pos n) (fun _ p => 0 ≤ pos ∧ pos < blen d ∧ p = pos + n) := by
  unfold addPosition
  apply Post_bind _ _ _ _ (getPosition_post d pos)
  intro q p ⟨hp, hl, h1, h2⟩
  cases q with
  | none => exact Post_err _ _ rfl
  | some q =>
    have h0 : 0 ≤ pos := by
      by_cases h : pos < 0
      · have := h2 h; simp at this
      · omega
    have hq := h1 h0
    injection hq with hq
    apply Post_mono _ _ _ (setPosition_post d pos _)
    intro _ p' ⟨e, _⟩
    refine ⟨h0, hl, ?_⟩
    rw [e, hq]; omega

theorem currentByte_post (d : Bytes) (pos : Int) :
    Post (currentByte d pos) (fun c p => p = pos ∧ 0 ≤ pos ∧ pos < blen d ∧ c = d[pos.toNat]?) := by
  unfold currentByte
  apply Post_bind _ _ _ _ (getPosition_post d pos)
  intro q p ⟨hp, hl, h1, h2⟩
  cases q with
  | none => exact Post_err _ _ rfl
  | some q =>
    have h0 : 0 ≤ pos := by
      by_cases h : pos < 0
      · have := h2 h; simp at this
      · omega
    have hq := h1 h0
    injection hq with hq
    apply Post_ok
    exact ⟨hp, h0, hl, by rw [hq]⟩

theorem next_post (d : Bytes) (pos : Int) :
    Post (next d pos) (fun _ p => p = pos + 1 ∧ 0 ≤ p ∧ p < blen d) := by
  unfold next
  simp only
  split
  · exact Post_stop _
  · split
    · exact Post_err _ _ rfl
    · split
      · apply Post_ok; exact ⟨rfl, by omega, by omega⟩
      · exact Post_stop _

theorem previous_post (d : Bytes) (pos : Int) :
    Post (previous d pos) (fun _ p => p = pos - 1 ∧ 0 ≤ pos ∧ pos < blen d) := by
  unfold previous
  split
  · exact Post_stop _
  · split
    · exact Post_err _ _ rfl
    · apply Post_ok; exact ⟨rfl, by omega, by omega⟩

theorem takeWhile_len_spec (f : Nat → Bool) (l : List Nat) :
    (l.takeWhile f).length ≤ l.length ∧ (∀ x, l[(l.takeWhile f).length]? = some x → f x = false) ∧
    (∀ y r, l = y :: r → f y = true → (l.takeWhile f).length ≥ 1) := by
  induction l with
  | nil => simp
  | cons c r ih =>
    by_cases hc : f c = true
    · simp only [List.takeWhile_cons, hc, if_true, List.length_cons]
      refine ⟨by omega, ?_, fun _ _ _ _ => by omega⟩
      intro x hx
      simp at hx
      exact ih.2.1 x hx
    · simp only [Bool.not_eq_true] at hc
      simp only [List.takeWhile_cons, hc, List.length_nil]
      refine ⟨by simp, ?_, ?_⟩
      · intro x hx; simp at hx; rw [← hx]; exact hc
      · intro y r' e hy; injection e with e1 _; rw [← e1] at hy; rw [hy] at hc; cases hc

theorem getElem?_drop_add (d : Bytes) (q k : Nat) : (d.drop q)[k]? = d[q + k]? := by
  simp [List.getElem?_drop]

theorem scan_post (d : Bytes) (pos : Int) (f : Nat → Bool) (site : String) :
    Post (scan d pos f site)
      (fun c p => 0 ≤ pos ∧ pos < blen d ∧ pos ≤ p ∧ p ≤ blen d ∧ c = d[p.toNat]? ∧
        (∀ x, c = some x → f x = false) ∧ (∀ y, d[pos.toNat]? = some y → f y = true → pos + 1 ≤ p)) := by
  unfold scan
  apply Post_bind _ _ _ _ (getPosition_post d pos)
  intro q p ⟨hp, hl, h1, h2⟩
  cases q with
  | none => exact Post_err _ _ rfl
  | some q =>
    have h0 : 0 ≤ pos := by
      by_cases h : pos < 0
      · have := h2 h; simp at this
      · omega
    have hq := h1 h0
    injection hq with hq
    have hs := takeWhile_len_spec f (d.drop q)
    have hlen : (d.drop q).length = d.length - q := by simp
    have hnat : ((q : Int) + ((List.takeWhile f (List.drop q d)).length : Int)).toNat
        = q + (List.takeWhile f (List.drop q d)).length := by omega
    apply Post_ok
    simp only [blen] at *
    refine ⟨h0, hl, by omega, by omega, by simp [hnat], ?_, ?_⟩
    · intro x hx
      apply hs.2.1 x
      rw [getElem?_drop_add]; exact hx
    · intro y hy hf
      have hd : d.drop q = y :: (d.drop q).tail := by
        have : (d.drop q)[0]? = some y := by rw [getElem?_drop_add]; simpa [hq] using hy
        cases hdq : d.drop q with
        | nil => rw [hdq] at this; simp at this
        | cons z t => rw [hdq] at this; simp at this; simp [this]
      have := hs.2.2 y _ hd hf
      omega

theorem skip_post (d : Bytes) (pos : Int) (chars : List Nat) :
    Post (skip d pos chars)
      (fun c p => 0 ≤ pos ∧ pos < blen d ∧ pos ≤ p ∧ p ≤ blen d ∧ c = d[p.toNat]? ∧
        (∀ x, c = some x → chars.elem x = false) ∧ (∀ y, d[pos.toNat]? = some y → chars.elem y = true → pos + 1 ≤ p)) :=
  scan_post d pos _ _

theorem skipUntil_post (d : Bytes) (pos : Int) (chars : List Nat) :
    Post (skipUntil d pos chars)
      (fun c p => 0 ≤ pos ∧ pos < blen d ∧ pos ≤ p ∧ p ≤ blen d ∧ c = d[p.toNat]?) :=
  Post_mono _ _ _ (scan_post d pos _ _) (fun _ _ h => ⟨h.1, h.2.1, h.2.2.1, h.2.2.2.1, h.2.2.2.2.1⟩)

theorem findSubAux_spec (needle : Bytes) (rest : Bytes) (i j : Nat) (h : findSubAux needle rest i = some j) :
    i ≤ j ∧ j + needle.length ≤ i + rest.length := by
  induction rest generalizing i with
  | nil =>
    simp only [findSubAux] at h
    split at h
    · injection h with h; subst h
      have : needle = [] := by cases needle <;> simp_all
      simp [this]
    · cases h
  | cons c r ih =>
    simp only [findSubAux] at h
    split at h
    · rename_i hp
      injection h with h; subst h
      have := List.IsPrefix.length_le (List.isPrefixOf_iff_prefix.mp hp)
      simp at this ⊢; omega
    · have := ih (i + 1) h
      simp; omega

theorem findSub_spec (d needle : Bytes) (start j : Nat) (h : findSub d needle start = some j) :
    start ≤ j ∧ j + needle.length ≤ d.length := by
  unfold findSub at h
  split at h
  · cases h
  · have := findSubAux_spec needle (d.drop start) start j h
    simp at this; omega

theorem matchBytes_post (d : Bytes) (pos : Int) (key : Bytes) :
    Post (matchBytes d pos key)
      (fun m p => pos < blen d ∧ (m = false → p = pos) ∧
        (m = true → 0 ≤ pos ∧ p = pos + key.length ∧ p ≤ blen d)) := by
  unfold matchBytes
  apply Post_bind _ _ _ _ (getPosition_post d pos)
  intro q p ⟨hp, hl, h1, _⟩
  subst hp
  simp only
  split
  · rename_i hpre
    apply Post_bind _ _ _ _ (addPosition_post d p key.length)
    intro _ p' ⟨h0, _, e⟩
    apply Post_ok
    refine ⟨hl, fun h => (by cases h), fun _ => ⟨h0, e, ?_⟩⟩
    have hq := h1 h0
    subst hq
    have := List.IsPrefix.length_le (List.isPrefixOf_iff_prefix.mp hpre)
    simp only [Option.getD_some, List.length_drop, blen] at *
    omega
  · apply Post_ok
    exact ⟨hl, fun _ => rfl, fun h => (by cases h)⟩

theorem jumpTo_post (d : Bytes) (pos : Int) (key : Bytes) (hk : key ≠ []) :
    Post (jumpTo d pos key) (fun _ p => pos < blen d ∧ pos ≤ p ∧ 0 ≤ p ∧ p < blen d ∧
      pos + key.length - 1 ≤ p ∧ (key.length : Int) - 1 ≤ p) := by
  unfold jumpTo
  apply Post_bind _ _ _ _ (getPosition_post d pos)
  intro q p ⟨hp, hl, h1, h2⟩
  split
  · rename_i i hi
    have hs := findSub_spec d key _ i hi
    have hkl : key.length ≥ 1 := List.length_pos_iff.mpr hk
    apply Post_ok
    simp only [blen] at *
    by_cases h0 : 0 ≤ pos
    · have := h1 h0; subst this; simp at hs
      refine ⟨hl, ?_, ?_, ?_, ?_, ?_⟩ <;> omega
    · refine ⟨hl, ?_, ?_, ?_, ?_, ?_⟩ <;> omega
  · exact Post_stop _

theorem subPosition_post (d : Bytes) (pos : Int) (n : Nat) :
    Post (subPosition d pos n) (fun _ p => 0 ≤ pos ∧ pos < blen d ∧ p = pos - n) := by
  unfold subPosition
  apply Post_bind _ _ _ _ (getPosition_post d pos)
  intro q p ⟨hp, hl, h1, h2⟩
  cases q with
  | none => exact Post_err _ _ rfl
  | some q =>
    have h0 : 0 ≤ pos := by
      by_cases h : pos < 0
      · have := h2 h; simp at this
      · omega
    have hq := h1 h0
    injection hq with hq
    apply Post_mono _ _ _ (setPosition_post d pos _)
    intro _ p' ⟨e, _⟩
    refine ⟨h0, hl, ?_⟩
    rw [e, hq]; omega

theorem attrValueUnquoted_post (name value rest : Bytes) (p : Nat) :
    Post (attrValueUnquoted name value rest p)
      (fun a p' => a.isSome = true ∧ (p : Int) + 1 ≤ p' ∧ p' ≤ (p : Int) + rest.length) := by
  induction rest generalizing value p with
  | nil => exact Post_stop _
  | cons c r ih =>
    unfold attrValueUnquoted
    split
    · apply Post_ok; simp; omega
    · apply Post_mono _ _ _ (ih _ (p + 1))
      intro a p' ⟨h1, h2, h3⟩
      refine ⟨h1, ?_, ?_⟩ <;> simp at * <;> omega

theorem attrValueQuoted_post (quote : Nat) (name value rest : Bytes) (p : Nat) :
    Post (attrValueQuoted quote name value rest p)
      (fun a p' => a.isSome = true ∧ (p : Int) + 2 ≤ p' ∧ p' ≤ (p : Int) + rest.length) := by
  induction rest generalizing value p with
  | nil => exact Post_stop _
  | cons c r ih =>
    unfold attrValueQuoted
    split
    · split
      · exact Post_stop _
      · apply Post_ok; simp; omega
    · apply Post_mono _ _ _ (ih _ (p + 1))
      intro a p' ⟨h1, h2, h3⟩
      refine ⟨h1, ?_, ?_⟩ <;> simp at * <;> omega

theorem lt_of_getElem? (d : Bytes) (i x : Nat) (h : d[i]? = some x) : i < d.length := by
  rcases Nat.lt_or_ge i d.length with h' | h'
  · exact h'
  · rw [List.getElem?_eq_none h'] at h; cases h

theorem drop_length_int (d : Bytes) (q : Int) (h0 : 0 ≤ q) (hl : q < blen d) :
    ((d.drop (q.toNat + 1)).length : Int) = blen d - q - 1 := by
  simp only [blen, List.length_drop] at *
  omega

theorem attrAfterName_post (d : Bytes) (name : Bytes) (c : Option Nat) (pos : Int) :
    Post (attrAfterName d name c pos)
      (fun a p' => (c ≠ some 61 → p' = pos - 1 ∧ 0 ≤ pos ∧ pos < blen d) ∧ (c = some 61 → pos + 1 ≤ p') ∧
        p' ≤ blen d ∧ (a.isSome = true → p' < blen d)) := by
  unfold attrAfterName
  split
  · rename_i hc
    apply Post_bind _ _ _ _ (previous_post d pos)
    intro _ p ⟨e, h0, hl⟩
    apply Post_ok
    exact ⟨fun _ => ⟨e, h0, hl⟩, fun h => absurd h hc, by omega, fun _ => by omega⟩
  · rename_i hc
    have hc' : c = some 61 := by simpa using hc
    apply Post_bind _ _ _ _ (next_post d pos)
    intro _ p1 ⟨e1, h10, h1l⟩
    apply Post_bind _ _ _ _ (skip_post d p1 spaceBytes)
    intro c' q ⟨_, _, hq1, hq2, hcq, _, _⟩
    cases c' with
    | none =>
      apply Post_ok
      exact ⟨fun h => absurd hc' h, fun _ => by omega, hq2, fun h => by simp at h⟩
    | some x =>
      have hq0 : 0 ≤ q := by omega
      have hql : q < blen d := by
        have : q.toNat < d.length := lt_of_getElem? d _ x hcq.symm
        simp only [blen]; omega
      have hdl := drop_length_int d q hq0 hql
      simp only
      split
      · apply Post_mono _ _ _ (attrValueQuoted_post x name [] _ q.toNat)
        intro a p' ⟨ha, h2, h3⟩
        have : (q.toNat : Int) = q := by omega
        rw [this, hdl] at h3; rw [this] at h2
        exact ⟨fun h => absurd hc' h, fun _ => by omega, by omega, fun _ => by omega⟩
      · split
        · apply Post_ok
          exact ⟨fun h => absurd hc' h, fun _ => by omega, by omega, fun _ => hql⟩
        · apply Post_mono _ _ _ (attrValueUnquoted_post name _ _ q.toNat)
          intro a p' ⟨ha, h2, h3⟩
          have : (q.toNat : Int) = q := by omega
          rw [this, hdl] at h3; rw [this] at h2
          exact ⟨fun h => absurd hc' h, fun _ => by omega, by omega, fun _ => by omega⟩

theorem drop_cons_getElem? (d : Bytes) (p : Nat) (c : Nat) (rest : Bytes) (h : d.drop p = c :: rest) :
    d[p]? = some c ∧ d.length = p + 1 + rest.length ∧ d.drop (p + 1) = rest := by
  have h0 : (d.drop p)[0]? = some c := by rw [h]; rfl
  rw [List.getElem?_drop] at h0
  have hl := congrArg List.length h
  simp at hl
  have hlt := lt_of_getElem? d _ c h0
  refine ⟨by simpa using h0, by omega, ?_⟩
  have : d.drop (p + 1) = (d.drop p).drop 1 := by rw [List.drop_drop]
  rw [this, h]; rfl

theorem attrName_post (d : Bytes) (name : Bytes) (l : Bytes) (p : Nat) (c : Nat) (rest : Bytes)
    (hl : l = c :: rest) (hd : d.drop p = l) :
    Post (attrName d name l p)
      (fun a p' => (p : Int) ≤ p' ∧ p' ≤ blen d ∧
        (a.isSome = true → p' < blen d ∧ (p' = p → isSpaceB c = true ∨ c = 47 ∨ c = 62))) := by
  induction rest generalizing name p c l with
  | nil =>
    subst hl
    obtain ⟨hc, hlen, _⟩ := drop_cons_getElem? d p c [] hd
    unfold attrName
    split
    · apply Post_mono _ _ _ (attrAfterName_post d name (some c) p)
      intro a p' ⟨h1, h2, h3, h4⟩
      rename_i hc61
      have : c = 61 := by simp at hc61; exact hc61.1
      have := h2 (by rw [this])
      exact ⟨by omega, h3, fun ha => ⟨h4 ha, fun e => by omega⟩⟩
    · split
      · rename_i hsp
        apply Post_bind _ _ _ _ (skip_post d p spaceBytes)
        intro c' q ⟨_, _, hq1, hq2, _, _, hadv⟩
        have hq : (p : Int) + 1 ≤ q := hadv c (by simpa using hc) hsp
        apply Post_mono _ _ _ (attrAfterName_post d name c' q)
        intro a p' ⟨h1, h2, h3, h4⟩
        refine ⟨?_, h3, fun ha => ⟨h4 ha, fun _ => Or.inl hsp⟩⟩
        by_cases h61 : c' = some 61
        · have := h2 h61; omega
        · have := (h1 h61).1; omega
      · split
        · rename_i h47
          apply Post_ok
          simp only [blen, hlen]
          exact ⟨by omega, by omega, fun _ => ⟨by omega, fun _ => Or.inr h47⟩⟩
        · exact Post_stop _
  | cons c2 r2 ih =>
    subst hl
    obtain ⟨hc, hlen, hd1⟩ := drop_cons_getElem? d p c (c2 :: r2) hd
    unfold attrName
    split
    · apply Post_mono _ _ _ (attrAfterName_post d name (some c) p)
      intro a p' ⟨h1, h2, h3, h4⟩
      rename_i hc61
      have : c = 61 := by simp at hc61; exact hc61.1
      have := h2 (by rw [this])
      exact ⟨by omega, h3, fun ha => ⟨h4 ha, fun e => by omega⟩⟩
    · split
      · rename_i hsp
        apply Post_bind _ _ _ _ (skip_post d p spaceBytes)
        intro c' q ⟨_, _, hq1, hq2, _, _, hadv⟩
        have hq : (p : Int) + 1 ≤ q := hadv c (by simpa using hc) hsp
        apply Post_mono _ _ _ (attrAfterName_post d name c' q)
        intro a p' ⟨h1, h2, h3, h4⟩
        refine ⟨?_, h3, fun ha => ⟨h4 ha, fun _ => Or.inl hsp⟩⟩
        by_cases h61 : c' = some 61
        · have := h2 h61; omega
        · have := (h1 h61).1; omega
      · split
        · rename_i h47
          apply Post_ok
          simp only [blen, hlen]
          exact ⟨by omega, by simp; omega, fun _ => ⟨by simp; omega, fun _ => Or.inr h47⟩⟩
        · apply Post_mono _ _ _ (ih _ (c2 :: r2) (p + 1) c2 rfl hd1)
          intro a p' ⟨h1, h2, h3⟩
          refine ⟨by omega, h2, fun ha => ⟨(h3 ha).1, fun e => by omega⟩⟩

theorem getAttribute_post (d : Bytes) (pos : Int) :
    Post (getAttribute d pos)
      (fun a p' => 0 ≤ pos ∧ pos ≤ p' ∧ p' ≤ blen d ∧ (a.isSome = true → pos < p' ∧ p' < blen d)) := by
  unfold getAttribute
  apply Post_bind _ _ _ _ (skip_post d pos (spaceBytes ++ [47]))
  intro c q ⟨h0, hl, hq1, hq2, hcq, hnot, _⟩
  cases c with
  | none => apply Post_ok; exact ⟨h0, hq1, hq2, fun h => by simp at h⟩
  | some x =>
    simp only
    split
    · apply Post_ok; exact ⟨h0, hq1, hq2, fun h => by simp at h⟩
    · rename_i h62
      have hq0 : 0 ≤ q := by omega
      have hlt : q.toNat < d.length := lt_of_getElem? d _ x hcq.symm
      have hdrop : d.drop q.toNat = x :: d.drop (q.toNat + 1) := by
        rw [List.drop_eq_getElem_cons hlt]
        congr 1
        have := hcq.symm
        rw [List.getElem?_eq_getElem hlt] at this
        injection this
      have hx := hnot x rfl
      have hx1 : isSpaceB x = false ∧ x ≠ 47 := by
        simp only [isSpaceB]
        simp at hx
        exact ⟨by simpa using hx.1, hx.2⟩
      apply Post_mono _ _ _ (attrName_post d [] _ q.toNat x _ hdrop rfl)
      intro a p' ⟨h1, h2, h3⟩
      have hqq : (q.toNat : Int) = q := by omega
      rw [hqq] at h1
      refine ⟨h0, by omega, h2, fun ha => ?_⟩
      obtain ⟨h4, h5⟩ := h3 ha
      refine ⟨?_, h4⟩
      by_cases e : p' = q
      · have := h5 (by rw [hqq]; exact e)
        rcases this with h | h | h
        · rw [hx1.1] at h; cases h
        · exact absurd h hx1.2
        · exact absurd h h62
      · omega

/-! ### no out-of-fuel error from ContentAttrParser -/

def PostT {α : Type} (r : R α) : Prop := Post r (fun _ _ => True)

theorem PostT_of {α : Type} {r : R α} {Q : α → Int → Prop} (h : Post r Q) : PostT r :=
  Post_mono _ _ _ h (fun _ _ _ => trivial)

theorem PostT_bind {α β : Type} (r : R α) (f : α → Int → R β) (hr : PostT r) (hf : ∀ a p, PostT (f a p)) :
    PostT (r.bind f) := Post_bind _ _ _ _ hr (fun a p _ => hf a p)

theorem jumpTo_T (d : Bytes) (pos : Int) (key : Bytes) : PostT (jumpTo d pos key) := by
  unfold jumpTo
  apply PostT_bind _ _ (PostT_of (getPosition_post d pos))
  intro q p
  split
  · exact Post_ok _ _ _ trivial
  · exact Post_stop _

/-- the search loop of ContentAttrParser: every iteration moves the position at least 7 bytes on -/
theorem contentCharsetLoop_post (d : Bytes) (f : Nat) (pos : Int) (hlo : -1 ≤ pos) (hf1 : f ≥ 1)
    (hf : (f : Int) + pos > blen d) : PostT (contentCharsetLoop d f pos) := by
  induction f generalizing pos with
  | zero => omega
  | succ k ih =>
    unfold contentCharsetLoop
    apply Post_bind _ _ _ _ (jumpTo_post d pos (litB "charset") (by decide))
    intro _ p1 ⟨_, _, _, hp1l, hk1, hk2⟩
    have hlen : ((litB "charset").length : Int) = 7 := by decide
    rw [hlen] at hk1 hk2
    apply Post_bind _ _ _ _ (addPosition_post d p1 1)
    intro _ p2 ⟨_, _, e2⟩
    apply Post_bind _ _ _ _ (skip_post d p2 spaceBytes)
    intro _ p3 ⟨_, hp2l, h23, h3l, _⟩
    apply Post_bind _ _ _ _ (currentByte_post d p3)
    intro c p4 ⟨e4, _, hp3l, _⟩
    split
    · exact Post_ok _ _ _ trivial
    · exact ih p4 (by omega) (by omega) (by omega)

theorem contentAttrParse_nofuel (d : Bytes) (e : PyErr) (h : contentAttrParse d = .error e) : isFuel e = false := by
  unfold contentAttrParse at h
  simp only at h
  split at h
  · cases h
  · cases h
  · rename_i e' hr
    injection h with h
    subst h
    have key : PostT
        ((contentCharsetLoop d (d.length + 2) (-1)).bind fun _ p =>
          (addPosition d p 1).bind fun _ p =>
          (skip d p spaceBytes).bind fun _ p =>
          (currentByte d p).bind fun c p =>
          if c = some 34 ∨ c = some 39 then
            let quoteMark := c.getD 0
            (addPosition d p 1).bind fun _ p =>
            (getPosition d p).bind fun oldPosition p =>
            (jumpTo d p [quoteMark]).bind fun _ p =>
            (getPosition d p).bind fun newPosition p =>
            match oldPosition, newPosition with
            | some a, some b => R.ok (some ((d.drop a).take (b - a))) p
            | _, _ => R.err (.typeError "ContentAttrParser: slice with None")
          else
            (getPosition d p).bind fun oldPosition p =>
            match oldPosition with
            | none => R.err (.typeError "ContentAttrParser: slice with None")
            | some a =>
              match skipUntil d p (spaceBytes ++ [59]) with
              | .ok _ p' =>
                match getPosition d p' with
                | .ok (some b) p'' => R.ok (some ((d.drop a).take (b - a))) p''
                | .ok none _ => R.err (.typeError "ContentAttrParser: slice with None")
                | .stop => R.ok (some (d.drop a)) p'
                | .err e => R.err e
              | .stop => R.ok (some (d.drop a)) p
              | .err e => R.err e) := by
      apply PostT_bind _ _ (contentCharsetLoop_post d _ (-1) (by omega) (by omega) (by simp only [blen]; omega)); intro _ p
      apply PostT_bind _ _ (PostT_of (addPosition_post _ _ _)); intro _ p
      apply PostT_bind _ _ (PostT_of (skip_post _ _ _)); intro _ p
      apply PostT_bind _ _ (PostT_of (currentByte_post _ _)); intro c p
      split
      · simp only
        apply PostT_bind _ _ (PostT_of (addPosition_post _ _ _)); intro _ p
        apply PostT_bind _ _ (PostT_of (getPosition_post _ _)); intro o p
        apply PostT_bind _ _ (jumpTo_T _ _ _); intro _ p
        apply PostT_bind _ _ (PostT_of (getPosition_post _ _)); intro n p
        split
        · exact Post_ok _ _ _ trivial
        · exact Post_err _ _ rfl
      · apply PostT_bind _ _ (PostT_of (getPosition_post _ _)); intro o p
        split
        · exact Post_err _ _ rfl
        · split
          · split
            · exact Post_ok _ _ _ trivial
            · exact Post_err _ _ rfl
            · exact Post_ok _ _ _ trivial
            · exact Post_err _ _ (by apply (getPosition_post d _).1; assumption)
          · exact Post_ok _ _ _ trivial
          · exact Post_err _ _ (by apply (skipUntil_post d _ (spaceBytes ++ [59])).1; assumption)
    exact key.1 e' hr

/-! ### the fuelled loops -/

theorem handleMetaLoop_post (d : Bytes) (f : Nat) (st : MetaSt) (pos : Int)
    (h0 : 0 ≤ pos) (hf1 : f ≥ 1) (hf : (f : Int) + pos > blen d) :
    Post (handleMetaLoop d f st pos) (fun _ p' => pos ≤ p' ∧ p' ≤ blen d) := by
  induction f generalizing st pos with
  | zero => omega
  | succ k ih =>
    unfold handleMetaLoop
    apply Post_bind _ _ _ _ (getAttribute_post d pos)
    intro attr p ⟨_, hp1, hp2, hsome⟩
    cases attr with
    | none =>
      apply Post_bind _ _ _ _ (currentByte_post d p)
      intro c p' ⟨e, _, _, _⟩
      subst e
      split <;> (apply Post_ok; exact ⟨hp1, hp2⟩)
    | some nv =>
      obtain ⟨name, value⟩ := nv
      obtain ⟨hlt, hpl⟩ := hsome rfl
      have hk1 : k ≥ 1 := by omega
      have hk : (k : Int) + p > blen d := by omega
      have hp0 : 0 ≤ p := by omega
      have recur : ∀ st', Post (handleMetaLoop d k st' p) (fun _ p' => pos ≤ p' ∧ p' ≤ blen d) := by
        intro st'
        apply Post_mono _ _ _ (ih st' p hp0 hk1 hk)
        intro _ p' ⟨a, b⟩; exact ⟨by omega, b⟩
      simp only
      split
      · exact recur _
      · split
        · exact recur _
        · split
          · exact recur _
          · split
            · split
              · rename_i e he
                exact Post_err _ _ (contentAttrParse_nofuel _ e he)
              · exact recur _
              · split
                · exact recur _
                · split <;> exact recur _
            · exact recur _

theorem readAllAttributes_post (d : Bytes) (f : Nat) (pos : Int)
    (h0 : 0 ≤ pos) (hf1 : f ≥ 1) (hf : (f : Int) + pos > blen d) :
    Post (readAllAttributes d f pos) (fun _ p' => pos ≤ p' ∧ p' ≤ blen d) := by
  induction f generalizing pos with
  | zero => omega
  | succ k ih =>
    unfold readAllAttributes
    apply Post_bind _ _ _ _ (getAttribute_post d pos)
    intro attr p ⟨_, hp1, hp2, hsome⟩
    cases attr with
    | none => apply Post_ok; exact ⟨hp1, hp2⟩
    | some nv =>
      obtain ⟨hlt, hpl⟩ := hsome rfl
      apply Post_mono _ _ _ (ih p (by omega) (by omega) (by omega))
      intro _ p' ⟨a, b⟩; exact ⟨by omega, b⟩

theorem handleOther_post (d : Bytes) (pos : Int) :
    Post (handleOther d pos) (fun _ p' => pos ≤ p' ∧ 0 ≤ p' ∧ p' < blen d) := by
  unfold handleOther
  apply Post_mono _ _ _ (jumpTo_post d pos [62] (by simp))
  intro _ p' ⟨_, a, b, c, _⟩; exact ⟨a, b, c⟩

theorem handlePossibleTag_post (d : Bytes) (endTag : Bool) (pos : Int) :
    Post (handlePossibleTag d endTag pos) (fun _ p' => 0 ≤ pos ∧ pos - 1 ≤ p' ∧ p' ≤ blen d) := by
  unfold handlePossibleTag
  apply Post_bind _ _ _ _ (currentByte_post d pos)
  intro c p ⟨e, h0, hl, _⟩
  subst e
  split
  · split
    · apply Post_bind _ _ _ _ (previous_post d p)
      intro _ p1 ⟨e1, _, _⟩
      apply Post_bind _ _ _ _ (handleOther_post d p1)
      intro _ p2 ⟨a, b, c⟩
      apply Post_ok; exact ⟨h0, by omega, by omega⟩
    · apply Post_bind _ _ _ _ (previous_post d p)
      intro _ p1 ⟨e1, _, _⟩
      apply Post_ok; exact ⟨h0, by omega, by omega⟩
  · apply Post_bind _ _ _ _ (skipUntil_post d p spacesClosingBracket)
    intro c' q ⟨_, _, hq1, hq2, _⟩
    apply Post_bind _ _ _ _ (readAllAttributes_post d (d.length + 2) q (by omega) (by omega) (by simp only [blen]; omega))
    intro _ p2 ⟨a, b⟩
    apply Post_ok; exact ⟨h0, by omega, b⟩

theorem handleMeta_post (d : Bytes) (pos : Int) :
    Post (handleMeta d pos) (fun _ p' => 0 ≤ pos ∧ pos - 5 ≤ p' ∧ p' ≤ blen d) := by
  unfold handleMeta
  apply Post_bind _ _ _ _ (currentByte_post d pos)
  intro c p ⟨e, h0, hl, _⟩
  subst e
  split
  · apply Post_bind _ _ _ _ (subPosition_post d p 4)
    intro _ p1 ⟨_, _, e1⟩
    apply Post_bind _ _ _ _ (handlePossibleTag_post d false p1)
    intro _ p2 ⟨_, a, b⟩
    apply Post_ok; exact ⟨h0, by omega, b⟩
  · apply Post_mono _ _ _ (handleMetaLoop_post d (d.length + 2) {} p h0 (by omega) (by simp only [blen]; omega))
    intro _ p' ⟨a, b⟩; exact ⟨h0, by omega, b⟩

/-- what the dispatch table must satisfy for the position bounds: non-empty keys, and the handlers that step back
(`handleMeta` by up to 5, `handleComment` by 2) sit behind keys at least that long -/
def RowOk (kh : Bytes × String) : Prop :=
  kh.1 ≠ [] ∧ (kh.2 = "handleMeta" → kh.1.length ≥ 5) ∧ (kh.2 = "handleComment" → kh.1.length ≥ 2)

theorem dispatchRow_post (d : Bytes) (pos : Int) (key : Bytes) (handler : String) (hk : RowOk (key, handler))
    (h0 : 0 ≤ pos) :
    Post (dispatchRow d pos key handler)
      (fun r p' => pos < blen d ∧ pos ≤ p' ∧ p' ≤ blen d ∧ (r = none → p' = pos)) := by
  unfold dispatchRow
  apply Post_bind _ _ _ _ (matchBytes_post d pos key)
  intro m p ⟨hl, hm0, hm1⟩
  have hkl : key.length ≥ 1 := List.length_pos_iff.mpr hk.1
  cases m with
  | false =>
    have := hm0 rfl
    apply Post_ok; exact ⟨hl, by omega, by omega, fun _ => this⟩
  | true =>
    obtain ⟨_, hp, hpl⟩ := hm1 rfl
    simp only [Bool.not_true, Bool.false_eq_true, if_false]
    have inner : Post
        (if handler = "handleComment" then
           (subPosition d p 2).bind fun _ p => (jumpTo d p (litB "-->")).bind fun b p => R.ok (b, (none : Option Str)) p
         else if handler = "handleMeta" then handleMeta d p
         else if handler = "handlePossibleEndTag" then
           (handlePossibleTag d true p).bind fun b p => R.ok (b, none) p
         else if handler = "handleOther" then (handleOther d p).bind fun b p => R.ok (b, none) p
         else if handler = "handlePossibleStartTag" then
           (handlePossibleTag d false p).bind fun b p => R.ok (b, none) p
         else R.err (.keyError "methodDispatch"))
        (fun _ p' => pos ≤ p' ∧ p' ≤ blen d) := by
      split
      · rename_i hc
        have hk2 : key.length ≥ 2 := hk.2.2 hc
        apply Post_bind _ _ _ _ (subPosition_post d p 2)
        intro _ p1 ⟨_, _, e1⟩
        apply Post_bind _ _ _ _ (jumpTo_post d p1 _ (by decide))
        intro _ p2 ⟨_, a, _, c, _⟩; apply Post_ok; exact ⟨by omega, by omega⟩
      · split
        · rename_i hc
          have hk5 : key.length ≥ 5 := hk.2.1 hc
          apply Post_mono _ _ _ (handleMeta_post d p)
          intro _ p2 ⟨_, a, b⟩; exact ⟨by omega, b⟩
        · split
          · apply Post_bind _ _ _ _ (handlePossibleTag_post d true p)
            intro _ p2 ⟨_, a, b⟩; apply Post_ok; exact ⟨by omega, b⟩
          · split
            · apply Post_bind _ _ _ _ (handleOther_post d p)
              intro _ p2 ⟨a, _, c⟩; apply Post_ok; exact ⟨by omega, by omega⟩
            · split
              · apply Post_bind _ _ _ _ (handlePossibleTag_post d false p)
                intro _ p2 ⟨_, a, b⟩; apply Post_ok; exact ⟨by omega, b⟩
              · exact Post_err _ _ rfl
    generalize hr : (if handler = "handleComment" then
           (subPosition d p 2).bind fun _ p => (jumpTo d p (litB "-->")).bind fun b p => R.ok (b, (none : Option Str)) p
         else if handler = "handleMeta" then handleMeta d p
         else if handler = "handlePossibleEndTag" then
           (handlePossibleTag d true p).bind fun b p => R.ok (b, none) p
         else if handler = "handleOther" then (handleOther d p).bind fun b p => R.ok (b, none) p
         else if handler = "handlePossibleStartTag" then
           (handlePossibleTag d false p).bind fun b p => R.ok (b, none) p
         else R.err (.keyError "methodDispatch")) = r at inner
    cases r with
    | ok v p2 =>
      have := inner.2 v p2 rfl
      apply Post_ok; exact ⟨hl, this.1, this.2, fun h => by cases h⟩
    | stop => apply Post_ok; exact ⟨hl, by omega, hpl, fun h => by cases h⟩
    | err e => exact Post_err _ _ (inner.1 e rfl)

theorem dispatch_post (d : Bytes) (pos : Int) (rows : List (Bytes × String)) (hk : ∀ kh ∈ rows, RowOk kh)
    (h0 : 0 ≤ pos) (hl : pos < blen d) :
    Post (dispatch d pos rows) (fun _ p' => pos ≤ p' ∧ p' ≤ blen d) := by
  induction rows with
  | nil => unfold dispatch; apply Post_ok; exact ⟨by omega, by omega⟩
  | cons kh rest ih =>
    obtain ⟨key, h⟩ := kh
    unfold dispatch
    apply Post_bind _ _ _ _ (dispatchRow_post d pos key h (hk (key, h) (by simp)) h0)
    intro r p ⟨_, a, b, c⟩
    cases r with
    | some v => apply Post_ok; exact ⟨a, b⟩
    | none =>
      have := c rfl
      subst this
      exact ih (fun kh hm => hk kh (List.mem_cons_of_mem _ hm))

theorem methodDispatch_keys : ∀ kh ∈ methodDispatch, RowOk kh := by
  unfold RowOk
  decide

theorem getEncodingLoop_nofuel (d : Bytes) (f : Nat) (pos : Int) (hlo : -1 ≤ pos) (hhi : pos ≤ blen d)
    (hf : (f : Int) + pos ≥ blen d + 1) (e : PyErr) (h : getEncodingLoop d f pos = .error e) : isFuel e = false := by
  induction f generalizing pos with
  | zero => omega
  | succ k ih =>
    unfold getEncodingLoop at h
    have hn := next_post d pos
    cases hnx : next d pos with
    | stop => rw [hnx] at h; cases h
    | err e1 => rw [hnx] at h; injection h with h; subst h; exact hn.1 e1 hnx
    | ok c p =>
      rw [hnx] at h
      simp only at h
      obtain ⟨e1, hp0, hpl⟩ := hn.2 c p hnx
      have hj := jumpTo_post d p [60] (by simp)
      cases hjx : jumpTo d p [60] with
      | stop => rw [hjx] at h; cases h
      | err e2 => rw [hjx] at h; injection h with h; subst h; exact hj.1 e2 hjx
      | ok b p1 =>
        rw [hjx] at h
        simp only at h
        obtain ⟨_, hp1, hp10, hp1l, _⟩ := hj.2 b p1 hjx
        have hd := dispatch_post d p1 methodDispatch methodDispatch_keys hp10 hp1l
        cases hdx : dispatch d p1 methodDispatch with
        | stop => rw [hdx] at h; injection h with h; subst h; rfl
        | err e3 => rw [hdx] at h; injection h with h; subst h; exact hd.1 e3 hdx
        | ok v p2 =>
          obtain ⟨hp2, hp2l⟩ := hd.2 v p2 hdx
          obtain ⟨keep, enc⟩ := v
          rw [hdx] at h
          simp only at h
          split at h
          · cases h
          · exact ih p2 (by omega) hp2l (by omega) h

/-- **termination**: with the fuel `len + 2` the model gives to each of its loops, the prescan never
reports "out of fuel" — on any byte string -/
theorem getEncoding_nofuel (data : Bytes) (e : PyErr) (h : getEncoding data = .error e) : isFuel e = false := by
  unfold getEncoding at h
  simp only at h
  split at h
  · cases h
  · exact getEncodingLoop_nofuel (mkEB data) _ (-1) (by omega) (by simp only [blen]; omega)
      (by simp only [blen]; push_cast; omega) e h

end H5.Proofs.Prescan
