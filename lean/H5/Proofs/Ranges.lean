/- Range-list lemmas: complement of a sorted range list, decided on the lists and lifted to all characters. -/
import H5.Basic
namespace H5

/-- ranges ascending and pairwise disjoint, all starting at or after `lo` -/
def sortedFrom : Nat → List (Nat × Nat) → Bool
  | _, [] => true
  | lo, (a, b) :: rest => decide (lo ≤ a) && decide (a ≤ b) && sortedFrom (b + 1) rest

/-- the gaps of a sorted range list within `[lo, hi]` -/
def compl (hi : Nat) : Nat → List (Nat × Nat) → List (Nat × Nat)
  | lo, [] => if lo ≤ hi then [(lo, hi)] else []
  | lo, (a, b) :: rest => (if lo < a then [(lo, a - 1)] else []) ++ compl hi (b + 1) rest

theorem inRanges_nil (c : Nat) : inRanges [] c = false := rfl

theorem inRanges_cons (r : Nat × Nat) (rs : List (Nat × Nat)) (c : Nat) :
    inRanges (r :: rs) c = ((decide (r.1 ≤ c) && decide (c ≤ r.2)) || inRanges rs c) := by
  simp [inRanges]

theorem inRanges_append (xs ys : List (Nat × Nat)) (c : Nat) :
    inRanges (xs ++ ys) c = (inRanges xs c || inRanges ys c) := by
  simp [inRanges]

theorem inRanges_below (lo : Nat) (rs : List (Nat × Nat)) (c : Nat) (hs : sortedFrom lo rs = true) (hc : c < lo) :
    inRanges rs c = false := by
  induction rs generalizing lo with
  | nil => rfl
  | cons r rest ih =>
    obtain ⟨a, b⟩ := r
    simp only [sortedFrom, Bool.and_eq_true, decide_eq_true_eq] at hs
    rw [inRanges_cons, ih (b + 1) hs.2 (by omega)]
    simp; omega

theorem compl_below (hi lo : Nat) (rs : List (Nat × Nat)) (c : Nat) (hs : sortedFrom lo rs = true) (hc : c < lo) :
    inRanges (compl hi lo rs) c = false := by
  induction rs generalizing lo with
  | nil => simp only [compl]; split <;> simp [inRanges]; omega
  | cons r rest ih =>
    obtain ⟨a, b⟩ := r
    simp only [sortedFrom, Bool.and_eq_true, decide_eq_true_eq] at hs
    simp only [compl]
    rw [inRanges_append, ih (b + 1) hs.2 (by omega)]
    split <;> simp [inRanges]; omega

/-- on `[lo, hi]` the complement list accepts exactly what the list rejects -/
theorem inRanges_compl (hi lo : Nat) (rs : List (Nat × Nat)) (c : Nat) (hs : sortedFrom lo rs = true)
    (h1 : lo ≤ c) (h2 : c ≤ hi) : inRanges (compl hi lo rs) c = !inRanges rs c := by
  induction rs generalizing lo with
  | nil =>
    have : lo ≤ hi := by omega
    simp [compl, this, inRanges, h1, h2]
  | cons r rest ih =>
    obtain ⟨a, b⟩ := r
    simp only [sortedFrom, Bool.and_eq_true, decide_eq_true_eq] at hs
    obtain ⟨⟨h3, h4⟩, h5⟩ := hs
    simp only [compl]
    rw [inRanges_append, inRanges_cons]
    by_cases hca : c < a
    · rw [inRanges_below (b + 1) rest c h5 (by omega), compl_below hi (b + 1) rest c h5 (by omega)]
      have h6 : lo < a := by omega
      have h7 : c ≤ a - 1 := by omega
      have h8 : ¬ a ≤ c := by omega
      simp [h6, inRanges, h1, h7, h8]
    · by_cases hcb : c ≤ b
      · rw [compl_below hi (b + 1) rest c h5 (by omega)]
        have e : (decide (a ≤ c) && decide (c ≤ b)) = true := by simp; omega
        simp only [e, Bool.true_or, Bool.not_true, Bool.or_false]
        by_cases h6 : lo < a
        · have h7 : ¬ c ≤ a - 1 := by omega
          simp [h6, inRanges, h7]
        · simp [h6, inRanges]
      · rw [ih (b + 1) h5 (by omega)]
        have e : (decide (a ≤ c) && decide (c ≤ b)) = false := by simp; omega
        simp only [e, Bool.false_or]
        by_cases h6 : lo < a
        · have h7 : ¬ c ≤ a - 1 := by omega
          simp [h6, inRanges, h7]
        · simp [h6, inRanges]

end H5
