/-
  Helper lemmas for C05 (pure list level): the two `str.replace` calls of readChunk equal the one-pass reference
  normalisation; how the reference normalisation distributes over a split point; the per-read `carve`;
  `modelOut` (concatenation of the separately normalised chunks) versus the normalisation of the whole text.
-/
import H5.Model.Stream
import H5.Spec.Stream
namespace H5.Proofs.Stream
open H5 H5.Gen H5.Model.InputStream H5.Spec.Stream


theorem norm_nil : normNewlines [] = [] := by simp [normNewlines]
theorem norm_cons_ne (c : Nat) (r : Str) (h : c ≠ 13) : normNewlines (c :: r) = c :: normNewlines r := by
  rw [normNewlines.eq_def]; simp [h]
theorem norm_cr_nil : normNewlines [13] = [10] := by simp [normNewlines]
theorem norm_cr_lf (r : Str) : normNewlines (13 :: 10 :: r) = 10 :: normNewlines r := by
  rw [normNewlines.eq_def]; simp
theorem norm_cr_other (d : Nat) (r : Str) (h : d ≠ 10) : normNewlines (13 :: d :: r) = 10 :: normNewlines (d :: r) := by
  rw [normNewlines.eq_def]; simp [h]

theorem getLast?_cons2 (c d : Nat) (r : Str) : (c :: d :: r).getLast? = (d :: r).getLast? := by
  simp [List.getLast?_cons_cons]

theorem norm_append_ok (a b : Str) (h : ¬ (a.getLast? = some 13 ∧ b.head? = some 10)) :
    normNewlines (a ++ b) = normNewlines a ++ normNewlines b := by
  induction hn : a.length using Nat.strongRecOn generalizing a with
  | _ n ih =>
    match a with
    | [] => simp [norm_nil]
    | [c] =>
      by_cases hc : c = 13
      · subst hc
        match b with
        | [] => simp [norm_cr_nil, norm_nil]
        | d :: b' =>
          have hd : d ≠ 10 := by intro e; apply h; simp [e]
          simp [norm_cr_nil, norm_cr_other d b' hd]
      · simp [norm_cons_ne c _ hc, norm_nil]
    | c :: d :: r =>
      by_cases hc : c = 13
      · subst hc
        by_cases hd : d = 10
        · subst hd
          have := ih r.length (by simp at hn ⊢; omega) r (by
            intro hh; apply h
            refine ⟨?_, hh.2⟩
            cases r with
            | nil => simp at hh
            | cons x r' => simpa [List.getLast?_cons_cons] using hh.1) rfl
          simp [norm_cr_lf, this]
        · have := ih (d :: r).length (by simp at hn ⊢; omega) (d :: r) (by
            intro hh; apply h
            exact ⟨by rw [getLast?_cons2]; exact hh.1, hh.2⟩) rfl
          have e : 13 :: d :: r ++ b = 13 :: d :: (r ++ b) := rfl
          rw [e, norm_cr_other d _ hd, norm_cr_other d _ hd]
          simpa using this
      · have := ih (d :: r).length (by simp at hn ⊢; omega) (d :: r) (by
            intro hh; apply h
            exact ⟨by rw [getLast?_cons2]; exact hh.1, hh.2⟩) rfl
        have e : c :: d :: r ++ b = c :: (d :: r ++ b) := rfl
        rw [e, norm_cons_ne c _ hc, norm_cons_ne c _ hc, this]
        rfl

/-- a CR at the end of `a` followed by LF: the LF is swallowed -/
theorem norm_append_crlf (a b : Str) (h : a.getLast? = some 13) :
    normNewlines (a ++ 10 :: b) = normNewlines a ++ normNewlines b := by
  induction hn : a.length using Nat.strongRecOn generalizing a with
  | _ n ih =>
    match a with
    | [] => simp at h
    | [c] =>
      have hc : c = 13 := by simpa using h
      subst hc
      simp [norm_cr_nil, norm_cr_lf]
    | c :: d :: r =>
      rw [getLast?_cons2] at h
      by_cases hc : c = 13
      · subst hc
        by_cases hd : d = 10
        · subst hd
          cases r with
          | nil => simp at h
          | cons x r' =>
            have := ih (x :: r').length (by simp at hn ⊢; omega) (x :: r') (by simpa [List.getLast?_cons_cons] using h) rfl
            have e : 13 :: 10 :: x :: r' ++ 10 :: b = 13 :: 10 :: (x :: r' ++ 10 :: b) := rfl
            rw [e, norm_cr_lf, norm_cr_lf, this]; rfl
        · have := ih (d :: r).length (by simp at hn ⊢; omega) (d :: r) h rfl
          have e : 13 :: d :: r ++ 10 :: b = 13 :: d :: (r ++ 10 :: b) := rfl
          rw [e, norm_cr_other d _ hd, norm_cr_other d _ hd]
          simpa using this
      · have := ih (d :: r).length (by simp at hn ⊢; omega) (d :: r) h rfl
        have e : c :: d :: r ++ 10 :: b = c :: (d :: r ++ 10 :: b) := rfl
        rw [e, norm_cons_ne c _ hc, norm_cons_ne c _ hc, this]
        rfl


/-! ### newline normalisation: model (two `str.replace`) = spec (one pass) -/

theorem replaceCR_cons (c : Nat) (r : Str) : replaceCR (c :: r) = (if c = 13 then 10 else c) :: replaceCR r := rfl

theorem normalise_eq_spec (d : Str) : normalise d = normNewlines d := by
  induction h : d.length using Nat.strongRecOn generalizing d with
  | _ n ih =>
    match d with
    | [] => simp [normalise, replaceCRLF, replaceCR, normNewlines]
    | [c] =>
      by_cases hc : c = 13 <;> simp [normalise, replaceCRLF, replaceCR, normNewlines, hc]
    | c :: e :: r =>
      by_cases hc : c = 13
      · by_cases he : e = 10
        · have := ih r.length (by simp at h ⊢; omega) r rfl
          simp only [normalise] at this
          simp [normalise, replaceCRLF, normNewlines, hc, he, replaceCR_cons, this]
        · have := ih (e :: r).length (by simp at h ⊢; omega) (e :: r) rfl
          simp only [normalise] at this
          simp [normalise, replaceCRLF, normNewlines, hc, he, replaceCR_cons, this]
      · have := ih (e :: r).length (by simp at h ⊢; omega) (e :: r) rfl
        simp only [normalise] at this
        simp [normalise, replaceCRLF, hc, replaceCR_cons, this]
        rw [normNewlines]
        simp [hc]



/-! ### what one `readChunk` does to the data: lines 262-273 as a pure function -/

def otoList : Option Nat → Str
  | none => []
  | some b => [b]

theorem withBuf_eq (buf : Option Nat) (seg : Str) : withBuf buf seg = otoList buf ++ seg := by
  cases buf <;> rfl

theorem carve_carry (ys : Str) (l : Nat) (hys : ys ≠ []) (hl : isCarry l = true) :
    carve (ys ++ [l]) = (ys, some l) := by
  simp [carve, hl, hys]

theorem carve_short (data : Str) (h : ¬ data.length > 1) : carve data = (data, none) := by
  simp [carve, h]

theorem carve_nocarry (ys : Str) (l : Nat) (hl : isCarry l = false) : carve (ys ++ [l]) = (ys ++ [l], none) := by
  unfold carve
  split
  · simp [hl]
  · rfl

/-- case analysis of `carve` -/
theorem carve_cases (data : Str) :
    (carve data = (data, none) ∧ (data.length ≤ 1 ∨ ∃ ys l, data = ys ++ [l] ∧ isCarry l = false)) ∨
    (∃ ys l, ys ≠ [] ∧ isCarry l = true ∧ data = ys ++ [l] ∧ carve data = (ys, some l)) := by
  by_cases hlen : data.length > 1
  · have hne : data ≠ [] := by intro e; subst e; simp at hlen
    obtain ⟨ys, e⟩ := List.getLast?_eq_some_iff.mp (List.getLast?_eq_some_getLast hne)
    generalize data.getLast hne = l at e
    subst e
    cases hc : isCarry l with
    | true =>
      right
      have hys : ys ≠ [] := by intro e; subst e; simp at hlen
      exact ⟨ys, l, hys, hc, rfl, carve_carry ys l hys hc⟩
    | false => left; exact ⟨carve_nocarry ys l hc, Or.inr ⟨ys, l, rfl, hc⟩⟩
  · left; exact ⟨carve_short data hlen, Or.inl (by omega)⟩

theorem carve_append (data : Str) : (carve data).1 ++ otoList (carve data).2 = data := by
  rcases carve_cases data with ⟨h, _⟩ | ⟨ys, l, _, _, e, h⟩
  · rw [h]; simp [otoList]
  · rw [h, e]; simp [otoList]

theorem carve_ne_nil (data : Str) (h : data ≠ []) : (carve data).1 ≠ [] := by
  rcases carve_cases data with ⟨h1, _⟩ | ⟨ys, l, hys, _, e, h1⟩
  · rw [h1]; exact h
  · rw [h1]; exact hys

theorem carve_snd_carry (data : Str) (l : Nat) (h : (carve data).2 = some l) : isCarry l = true := by
  rcases carve_cases data with ⟨h1, _⟩ | ⟨ys, l', _, hc, e, h1⟩
  · rw [h1] at h; simp at h
  · rw [h1] at h; simp at h; subst h; exact hc

theorem isCarry_ne_lf (l : Nat) (h : isCarry l = true) : l ≠ 10 := by
  intro e; subst e; revert h; decide

/-- the chunk ends in CR only when the whole data is the single character CR -/
theorem carve_last_cr (data : Str) (h : (carve data).1.getLast? = some 13) (h2 : (carve data).2 = none) : data = [13] := by
  rcases carve_cases data with ⟨h1, hs | ⟨ys, l, e, hc⟩⟩ | ⟨ys, l, _, _, e, h1⟩
  · rw [h1] at h
    match data, hs, h with
    | [], _, h => simp at h
    | [c], _, h => simp at h; simp [h]
    | c :: d :: r, hs, _ => simp at hs
  · rw [h1, e] at h
    simp at h
    subst h
    exact absurd hc (by decide)
  · rw [h1] at h2; simp at h2

/-- a read that is exactly one CR / lead surrogate: `readChunk` reads on (lines 269-274) -/
def loneCarry (seg : Str) : Option Nat :=
  match seg with
  | [c] => if isCarry c then some c else none
  | _ => none

theorem loneCarry_some (seg : Str) (c : Nat) (h : loneCarry seg = some c) : seg = [c] ∧ isCarry c = true := by
  unfold loneCarry at h
  split at h
  · split at h
    · injection h with h; subst h; exact ⟨rfl, by assumption⟩
    · cases h
  · cases h

theorem loneCarry_single (c : Nat) (h : isCarry c = true) : loneCarry [c] = some c := by simp [loneCarry, h]

/-- the raw `data` of the successive chunks (for sources whose reads are non-empty).  A lone CR / lead surrogate
read while nothing is buffered is joined with the next read: the same chunks as if it had been buffered. -/
def chunks : Option Nat → List Str → List Str
  | none, [] => []
  | some b, [] => [[b]]
  | buf, seg :: rest =>
    if buf = none ∧ (loneCarry seg).isSome ∧ rest ≠ [] then chunks (loneCarry seg) rest
    else (carve (withBuf buf seg)).1 :: chunks (carve (withBuf buf seg)).2 rest

/-- all characters the stream delivers: each chunk normalised on its own -/
def modelOut (buf : Option Nat) (segs : List Str) : Str := ((chunks buf segs).map normalise).flatten

theorem modelOut_nil_none : modelOut none [] = [] := rfl
theorem modelOut_nil_some (b : Nat) : modelOut (some b) [] = normalise [b] := by simp [modelOut, chunks]

/-- the ordinary step -/
theorem modelOut_cons (buf : Option Nat) (seg : Str) (rest : List Str)
    (h : ¬ (buf = none ∧ (loneCarry seg).isSome ∧ rest ≠ [])) :
    modelOut buf (seg :: rest) = normalise (carve (withBuf buf seg)).1 ++ modelOut (carve (withBuf buf seg)).2 rest := by
  unfold modelOut
  rw [chunks]
  rw [if_neg h]; simp

/-- the read-on step -/
theorem modelOut_on (c : Nat) (seg2 : Str) (rest : List Str) (hc : isCarry c = true) :
    modelOut none ([c] :: seg2 :: rest) = modelOut (some c) (seg2 :: rest) := by
  simp [modelOut, chunks, loneCarry_single c hc]

theorem otoList_carry_head (b : Option Nat) (t : Str) (hb : ∀ l, b = some l → isCarry l = true)
    (h : (otoList b ++ t).head? = some 10) : b = none ∧ t.head? = some 10 := by
  cases b with
  | none => simpa [otoList] using h
  | some l =>
    simp [otoList] at h
    exact absurd h (isCarry_ne_lf l (hb l rfl))

/-- **every segmentation delivers the normalised text**: the concatenation of the separately normalised chunks is
the normalisation of the whole text (no chunk ends in a CR that the next chunk's LF could follow, except at EOF) -/
theorem modelOut_spec (buf : Option Nat) (segs : List Str) (hne : ∀ s ∈ segs, s ≠ [])
    (hb : ∀ l, buf = some l → isCarry l = true) :
    modelOut buf segs = normNewlines (otoList buf ++ segs.flatten) := by
  induction segs generalizing buf with
  | nil =>
    cases buf with
    | none => simp [modelOut_nil_none, otoList, normNewlines]
    | some b => simp [modelOut_nil_some, otoList, normalise_eq_spec]
  | cons seg rest ih =>
    have hseg : seg ≠ [] := hne seg List.mem_cons_self
    have hrest : ∀ s ∈ rest, s ≠ [] := fun s hs => hne s (List.mem_cons_of_mem _ hs)
    by_cases hon : buf = none ∧ (loneCarry seg).isSome ∧ rest ≠ []
    · -- read on: the lone character behaves as if it had been buffered
      obtain ⟨hbuf, hl, hr⟩ := hon
      obtain ⟨c, hc⟩ := Option.isSome_iff_exists.mp hl
      obtain ⟨hsegc, hcar⟩ := loneCarry_some seg c hc
      obtain ⟨seg2, rest', e⟩ := List.exists_cons_of_ne_nil hr
      subst hbuf hsegc e
      rw [modelOut_on c seg2 rest' hcar, ih (some c) hrest (by intro l hl; injection hl with hl; subst hl; exact hcar)]
      simp [otoList]
    · have hdata : withBuf buf seg ≠ [] := by
        cases buf <;> simp [withBuf, hseg]
      have ih1 := ih (carve (withBuf buf seg)).2 hrest (carve_snd_carry _)
      have htext : otoList buf ++ (seg :: rest).flatten
          = (carve (withBuf buf seg)).1 ++ (otoList (carve (withBuf buf seg)).2 ++ rest.flatten) := by
        rw [← List.append_assoc, carve_append, withBuf_eq]; simp
      rw [modelOut_cons buf seg rest hon, htext]
      generalize hd : (carve (withBuf buf seg)).1 = d at *
      generalize hb' : (carve (withBuf buf seg)).2 = b' at *
      have hok : ¬ (d.getLast? = some 13 ∧ (otoList b' ++ rest.flatten).head? = some 10) := by
        intro ⟨h1, h2⟩
        obtain ⟨hb0, hhead⟩ := otoList_carry_head b' _
          (by intro l hl; exact carve_snd_carry _ l (by rw [hb']; exact hl)) h2
        have hdat : withBuf buf seg = [13] := carve_last_cr _ (by rw [hd]; exact h1) (by rw [hb']; exact hb0)
        have hbs : buf = none ∧ seg = [13] := by
          cases buf with
          | none => exact ⟨rfl, by simpa [withBuf] using hdat⟩
          | some b => simp [withBuf] at hdat; exact absurd hdat.2 hseg
        apply hon
        refine ⟨hbs.1, by rw [hbs.2]; decide, ?_⟩
        intro e; rw [e] at hhead; simp at hhead
      rw [norm_append_ok d _ hok, ih1, normalise_eq_spec]

theorem norm_length_le (t : Str) : (normNewlines t).length ≤ t.length := by
  induction hn : t.length using Nat.strongRecOn generalizing t with
  | _ n ih =>
    subst hn
    match t with
    | [] => simp [norm_nil]
    | [c] =>
      by_cases hc : c = 13
      · subst hc; simp [norm_cr_nil]
      · simp [norm_cons_ne c [] hc, norm_nil]
    | c :: d :: r =>
      by_cases hc : c = 13
      · subst hc
        by_cases hd : d = 10
        · subst hd
          have := ih r.length (by simp; omega) r rfl
          rw [norm_cr_lf]; simp; omega
        · have := ih (d :: r).length (by simp) (d :: r) rfl
          rw [norm_cr_other d r hd]; simp at this ⊢; omega
      · have := ih (d :: r).length (by simp) (d :: r) rfl
        rw [norm_cons_ne c _ hc]; simp at this ⊢; omega

/-- the stream never delivers more characters than it reads -/
theorem modelOut_length_le (buf : Option Nat) (segs : List Str) (hne : ∀ s ∈ segs, s ≠ [])
    (hb : ∀ l, buf = some l → isCarry l = true) :
    (modelOut buf segs).length ≤ (otoList buf).length + segs.flatten.length := by
  rw [modelOut_spec buf segs hne hb]
  have := norm_length_le (otoList buf ++ segs.flatten)
  simpa using this

end H5.Proofs.Stream
