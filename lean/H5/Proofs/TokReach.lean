/-
  H5.Proofs.TokReach — multi-step reasoning about the Spec tokenizer (H5.Spec.Tokenizer).

  `Reach k m i m' i'`: `k` passes through `Tokenizer.step` lead from machine `m` on input `i` to machine `m'`
  on input `i'`, and no end-of-file token was emitted on the way.  `ReachLe b …` bounds the number of passes
  (fuel accounting: every lemma proves `≤ 3 · consumed characters`, the bound `fuelFor` provides).
  Used by H5.Props.C08c* (re-tokenisation of serializer output).
-/
import H5.Spec.Tokenizer
namespace H5.Spec.Tokenizer
open H5

inductive Reach : Nat → M → Str → M → Str → Prop
  | refl (m : M) (i : Str) : Reach 0 m i m i
  | head {k : Nat} {m m' : M} {i i' : Str} : m.done = false →
      Reach k (step m i).1 (step m i).2 m' i' → Reach (k + 1) m i m' i'

theorem Reach.single {m m' : M} {i i' : Str} (hd : m.done = false) (h : step m i = (m', i')) :
    Reach 1 m i m' i' := by
  have := Reach.head hd (Reach.refl (step m i).1 (step m i).2)
  rw [h] at this
  exact this

theorem Reach.trans {a b : Nat} {m m1 m2 : M} {i i1 i2 : Str} (h1 : Reach a m i m1 i1) (h2 : Reach b m1 i1 m2 i2) :
    Reach (b + a) m i m2 i2 := by
  induction h1 with
  | refl m i => exact h2
  | head hd _ ih => exact Reach.head hd (ih h2)

theorem run_reach {k : Nat} {m m' : M} {i i' : Str} (h : Reach k m i m' i') (f n : Nat) :
    run (f + k) m i n = run f m' i' (n + k) := by
  induction h generalizing n with
  | refl m i => rfl
  | @head k m m' i i' hd _ ih =>
    show run ((f + k) + 1) m i n = _
    rw [run]
    simp only [hd, Bool.false_eq_true, if_false]
    rw [ih]
    congr 1
    omega

/-- at most `b` passes -/
def ReachLe (b : Nat) (m : M) (i : Str) (m' : M) (i' : Str) : Prop := ∃ k, k ≤ b ∧ Reach k m i m' i'

theorem ReachLe.refl (m : M) (i : Str) : ReachLe 0 m i m i := ⟨0, Nat.le_refl _, Reach.refl m i⟩

theorem ReachLe.of_reach {k : Nat} {m m' : M} {i i' : Str} (h : Reach k m i m' i') : ReachLe k m i m' i' :=
  ⟨k, Nat.le_refl _, h⟩

theorem ReachLe.single {m m' : M} {i i' : Str} (hd : m.done = false) (h : step m i = (m', i')) :
    ReachLe 1 m i m' i' := ReachLe.of_reach (Reach.single hd h)

theorem ReachLe.trans {a b : Nat} {m m1 m2 : M} {i i1 i2 : Str} (h1 : ReachLe a m i m1 i1)
    (h2 : ReachLe b m1 i1 m2 i2) : ReachLe (a + b) m i m2 i2 := by
  obtain ⟨k1, l1, r1⟩ := h1
  obtain ⟨k2, l2, r2⟩ := h2
  exact ⟨k2 + k1, by omega, r1.trans r2⟩

theorem ReachLe.mono {a b : Nat} {m m' : M} {i i' : Str} (h : ReachLe a m i m' i') (hab : a ≤ b) :
    ReachLe b m i m' i' := by
  obtain ⟨k, l, r⟩ := h
  exact ⟨k, by omega, r⟩

/-- a walk that ends in the data state at the end of the input: the run terminates with the tokens of the
final machine -/
theorem run_reachLe_eof {b : Nat} {m m' : M} {i : Str} (h : ReachLe b m i m' []) (hs : m'.state = .data)
    (hd : m'.done = false) (fuel n : Nat) (hf : b + 2 ≤ fuel) :
    ∃ n2, run fuel m i n = .ok (m'.out.reverse, n2) := by
  obtain ⟨k, hk, r⟩ := h
  obtain ⟨f, rfl⟩ : ∃ f, fuel = (f + 2) + k := ⟨fuel - 2 - k, by omega⟩
  refine ⟨n + k + 1, ?_⟩
  rw [run_reach r]
  show run (f + 1 + 1) m' [] (n + k) = _
  rw [run]
  simp only [hd, Bool.false_eq_true, if_false]
  have e : step m' [] = (m'.emitEOF, []) := by simp [step, hs, dataState]
  rw [e, run]
  simp [M.emitEOF]

/-! ### `modifyLast`, `appendAttrValue`, `appendAttrName` -/

theorem modifyLast_append_singleton {α : Type} (f : α → α) (l : List α) (a : α) :
    modifyLast f (l ++ [a]) = l ++ [f a] := by
  induction l with
  | nil => rfl
  | cons x xs ih =>
    cases xs with
    | nil => rfl
    | cons y ys =>
      show x :: modifyLast f (y :: (ys ++ [a])) = _
      rw [show y :: (ys ++ [a]) = (y :: ys) ++ [a] from rfl, ih]
      rfl

theorem modifyLast_modifyLast {α : Type} (f g : α → α) : ∀ (l : List α),
    modifyLast f (modifyLast g l) = modifyLast (fun a => f (g a)) l
  | [] => rfl
  | [_] => rfl
  | a :: b :: rest => by
    have ih := modifyLast_modifyLast f g (b :: rest)
    cases rest with
    | nil => rfl
    | cons c rest =>
      simp only [modifyLast] at ih ⊢
      rw [ih]

theorem modifyLast_id {α : Type} (f : α → α) (hf : ∀ a, f a = a) : ∀ (l : List α), modifyLast f l = l
  | [] => rfl
  | [a] => by simp [modifyLast, hf]
  | a :: b :: rest => by
    have ih := modifyLast_id f hf (b :: rest)
    simp only [modifyLast] at ih ⊢
    rw [ih]

theorem appendAttrValue_nil (m : M) : m.appendAttrValue [] = m := by
  simp only [M.appendAttrValue, List.append_nil]
  rw [modifyLast_id]
  intro a; rfl

theorem appendAttrValue_append (m : M) (a b : Str) :
    (m.appendAttrValue a).appendAttrValue b = m.appendAttrValue (a ++ b) := by
  simp only [M.appendAttrValue, modifyLast_modifyLast, List.append_assoc]

end H5.Spec.Tokenizer
