/-
  Per-construct equivalence between html5lib's prescan model (H5.Model.Encoding, index based, Python control flow)
  and the standard's prescan (H5.Spec.Sniff, list based): "get an attribute" and the attribute loop of ordinary tags,
  for every byte string and every position.
-/
import H5.Model.Encoding
import H5.Spec.Sniff
import H5.Proofs.PrescanFuel
namespace H5.Proofs.PrescanSpec
open H5 H5.Gen H5.Model.Encoding H5.Proofs.Prescan

/-! byte classes: extracted tables = the standard's classes -/
theorem spaceBytes_ok : spaceBytes = [9, 10, 12, 13, 32] := by decide
theorem closing_ok : spacesClosingBracket = [9, 10, 12, 13, 32, 62] := by decide

theorem isSpaceB_eq (c : Nat) : isSpaceB c = Spec.Sniff.isAsciiWs c := by
  simp only [isSpaceB, spaceBytes_ok, Spec.Sniff.isAsciiWs]
  by_cases h1 : c = 9 <;> by_cases h2 : c = 10 <;> by_cases h3 : c = 12 <;> by_cases h4 : c = 13 <;>
    by_cases h5 : c = 32 <;> simp [h1, h2, h3, h4, h5]

theorem spaceElem_eq (c : Nat) : spaceBytes.elem c = Spec.Sniff.isAsciiWs c := isSpaceB_eq c

theorem closing_eq (c : Nat) : spacesClosingBracket.elem c = (Spec.Sniff.isAsciiWs c || c = 62) := by
  simp only [closing_ok, Spec.Sniff.isAsciiWs]
  by_cases h1 : c = 9 <;> by_cases h2 : c = 10 <;> by_cases h3 : c = 12 <;> by_cases h4 : c = 13 <;>
    by_cases h5 : c = 32 <;> by_cases h6 : c = 62 <;> simp [h1, h2, h3, h4, h5, h6]

theorem appendByte_eq (c : Nat) : appendByte c = Spec.Sniff.lower c := by
  have hu : asciiUpperBytes = [65, 66, 67, 68, 69, 70, 71, 72, 73, 74, 75, 76, 77, 78, 79, 80, 81, 82, 83, 84, 85, 86,
      87, 88, 89, 90] := by decide
  unfold appendByte isUpperB lowerByte Spec.Sniff.lower
  by_cases h : 65 ≤ c ∧ c ≤ 90
  · have : asciiUpperBytes.elem c = true := by
      rw [hu]; simp; omega
    rw [this]; simp [h]
  · have : asciiUpperBytes.elem c = false := by
      rw [hu]; simp; omega
    rw [this]; simp [h]

/-- unquoted value: the model's loop is the standard's, and stops on the same byte -/
theorem unquoted_spec (d : Bytes) (name value : Bytes) (rest : Bytes) (p : Nat) (hd : d.drop (p + 1) = rest) :
    match Spec.Sniff.gaUnquoted {} name value rest with
    | .eof => attrValueUnquoted name value rest p = .stop
    | .none _ => False
    | .attr n v r => ∃ p' : Nat, attrValueUnquoted name value rest p = .ok (some (n, v)) p' ∧ d.drop p' = r ∧ r ≠ [] := by
  induction rest generalizing value p with
  | nil => simp [Spec.Sniff.gaUnquoted, attrValueUnquoted]
  | cons c r ih =>
    unfold Spec.Sniff.gaUnquoted attrValueUnquoted
    rw [closing_eq]
    by_cases hc : (Spec.Sniff.isAsciiWs c || decide (c = 62)) = true
    · simp only [hc, if_true, Bool.false_eq_true, false_and, Bool.or_false]
      exact ⟨p + 1, rfl, hd, by simp⟩
    · simp only [hc, Bool.false_eq_true, false_and, Bool.or_false, if_false]
      have hd' : d.drop (p + 1 + 1) = r := by
        have : d.drop (p + 1 + 1) = (d.drop (p + 1)).drop 1 := by rw [List.drop_drop]
        rw [this, hd]; rfl
      rw [appendByte_eq]
      exact ih (value ++ [Spec.Sniff.lower c]) (p + 1) hd'

theorem drop_succ_of_drop (d : Bytes) (p : Nat) (c : Nat) (r : Bytes) (h : d.drop p = c :: r) : d.drop (p + 1) = r := by
  have : d.drop (p + 1) = (d.drop p).drop 1 := by rw [List.drop_drop]
  rw [this, h]; rfl

/-- quoted value -/
theorem quoted_spec (d : Bytes) (q : Nat) (name value : Bytes) (rest : Bytes) (p : Nat) (hd : d.drop (p + 1) = rest) :
    match Spec.Sniff.gaQuoted q name value rest with
    | .eof => attrValueQuoted q name value rest p = .stop
    | .none _ => False
    | .attr n v r => (r = [] → attrValueQuoted q name value rest p = .stop) ∧
        (r ≠ [] → ∃ p' : Nat, attrValueQuoted q name value rest p = .ok (some (n, v)) p' ∧ d.drop p' = r) := by
  induction rest generalizing value p with
  | nil => simp [Spec.Sniff.gaQuoted, attrValueQuoted]
  | cons c r ih =>
    unfold Spec.Sniff.gaQuoted attrValueQuoted
    have hd' := drop_succ_of_drop d (p + 1) c r hd
    by_cases hc : c = q
    · simp only [hc, if_true]
      constructor
      · intro e; subst e; rfl
      · intro hne
        cases r with
        | nil => exact absurd rfl hne
        | cons x r' => exact ⟨p + 2, rfl, hd'⟩
    · simp only [hc, if_false]
      rw [appendByte_eq]
      exact ih (value ++ [Spec.Sniff.lower c]) (p + 1) hd'

/-- exact result of `skip` / `skipUntil` from a valid position -/
theorem scan_eq (d : Bytes) (p : Nat) (hp : p < d.length) (f : Nat → Bool) (site : String) :
    scan d p f site = .ok d[p + ((d.drop p).takeWhile f).length]? ((p + ((d.drop p).takeWhile f).length : Nat) : Int) := by
  have h1 : ¬ ((p : Int) ≥ blen d) := by simp only [blen]; omega
  simp [scan, getPosition, h1, R.bind]

theorem scan_stop (d : Bytes) (p : Int) (hp : p ≥ blen d) (f : Nat → Bool) (site : String) :
    scan d p f site = .stop := by
  simp [scan, getPosition, hp, R.bind]

theorem drop_add_takeWhile (d : Bytes) (p : Nat) (f : Nat → Bool) :
    d.drop (p + ((d.drop p).takeWhile f).length) = (d.drop p).dropWhile f := by
  rw [← List.drop_drop]
  generalize d.drop p = l
  induction l with
  | nil => rfl
  | cons c r ih => simp only [List.takeWhile_cons, List.dropWhile_cons]; split <;> simp [ih]

theorem getElem?_eq_head_drop (d : Bytes) (i : Nat) : d[i]? = (d.drop i).head? := by
  simp [List.head?_drop]

theorem gaValue_dropWhile (name rest : Bytes) :
    Spec.Sniff.gaValue {} name rest = Spec.Sniff.gaValue {} name (rest.dropWhile Spec.Sniff.isAsciiWs) := by
  induction rest with
  | nil => rfl
  | cons c r ih =>
    by_cases hc : Spec.Sniff.isAsciiWs c = true
    · rw [List.dropWhile_cons]; simp only [hc, if_true]
      rw [← ih]; rw [Spec.Sniff.gaValue]; simp [hc]
    · simp only [Bool.not_eq_true] at hc
      rw [List.dropWhile_cons]; simp [hc]

theorem gaSpaces_dropWhile (name rest : Bytes) :
    Spec.Sniff.gaSpaces {} name rest = Spec.Sniff.gaSpaces {} name (rest.dropWhile Spec.Sniff.isAsciiWs) := by
  induction rest with
  | nil => rfl
  | cons c r ih =>
    by_cases hc : Spec.Sniff.isAsciiWs c = true
    · rw [List.dropWhile_cons]; simp only [hc, if_true]
      rw [← ih]; rw [Spec.Sniff.gaSpaces]; simp [hc]
    · simp only [Bool.not_eq_true] at hc
      rw [List.dropWhile_cons]; simp [hc]

/-- how a model result corresponds to a result of the standard's "get an attribute" (sub-steps: never `.none`) -/
def AttrRel (d : Bytes) (m : R (Option AttrB)) (s : Spec.Sniff.GA) : Prop :=
  match s with
  | .eof => m = .stop ∨ m = .ok none (blen d)
  | .none _ => False
  | .attr n v r => (r = [] → m = .stop) ∧
      (r ≠ [] → ∃ p' : Nat, m = .ok (some (n, v)) p' ∧
        (d.drop p' = r ∨ ∃ w, Spec.Sniff.isAsciiWs w = true ∧ d.drop p' = w :: r))


theorem ws_fun : (fun c => spaceBytes.elem c) = Spec.Sniff.isAsciiWs := funext spaceElem_eq

theorem next_eq (d : Bytes) (p : Nat) (h : p + 1 < d.length) : ∃ c, next d p = .ok c ((p + 1 : Nat) : Int) := by
  have h1 : ¬ ((p : Int) + 1 ≥ blen d) := by simp only [blen]; omega
  have h2 : ¬ ((p : Int) + 1 < 0) := by omega
  have h3 : ((p : Int) + 1).toNat = p + 1 := by omega
  unfold next
  simp only [h1, h2, if_false, h3]
  rw [List.getElem?_eq_getElem h]
  exact ⟨d[p + 1], by simp⟩

theorem next_stop (d : Bytes) (p : Nat) (h : ¬ p + 1 < d.length) : next d p = .stop := by
  have h1 : (p : Int) + 1 ≥ blen d := by simp only [blen]; omega
  simp [next, h1]

theorem dropWhile_head_not (f : Nat → Bool) (l : Bytes) (x : Nat) (r : Bytes) (h : l.dropWhile f = x :: r) : f x = false := by
  induction l with
  | nil => simp at h
  | cons c t ih =>
    rw [List.dropWhile_cons] at h
    split at h
    · exact ih h
    · rename_i hc; injection h with h1 _; rw [← h1]; simpa using hc

/-- steps 8-11 after the `=` at index `pos` -/
theorem value_spec (d name : Bytes) (pos : Nat) (h61 : d[pos]? = some 61) :
    AttrRel d (attrAfterName d name (some 61) pos) (Spec.Sniff.gaValue {} name (d.drop (pos + 1))) := by
  have hlt : pos < d.length := lt_of_getElem? d pos 61 h61
  unfold attrAfterName
  simp only [ne_eq, not_true_eq_false, if_false]
  by_cases hn : pos + 1 < d.length
  · obtain ⟨c0, hc0⟩ := next_eq d pos hn
    rw [hc0]
    simp only [R.bind]
    unfold skip
    rw [scan_eq d (pos + 1) hn]
    simp only [R.bind]
    rw [gaValue_dropWhile, ws_fun]
    generalize hk : ((d.drop (pos + 1)).takeWhile Spec.Sniff.isAsciiWs).length = k
    have hdq := drop_add_takeWhile d (pos + 1) Spec.Sniff.isAsciiWs
    rw [hk] at hdq
    rw [← hdq, getElem?_eq_head_drop]
    have hq : ((pos + 1 + k : Nat) : Int).toNat = pos + 1 + k := by omega
    cases hdr : d.drop (pos + 1 + k) with
    | nil =>
      have hlen : pos + 1 + k = d.length := by
        have h1 : d.length ≤ pos + 1 + k := List.drop_eq_nil_iff.mp hdr
        have h2 : k ≤ (d.drop (pos + 1)).length := by rw [← hk]; exact (takeWhile_len_spec _ _).1
        simp at h2; omega
      simp only [List.head?_nil, Spec.Sniff.gaValue, AttrRel]
      right; simp only [blen]; rw [← hlen]
    | cons x r =>
      have hx : Spec.Sniff.isAsciiWs x = false := dropWhile_head_not Spec.Sniff.isAsciiWs (d.drop (pos + 1)) x r (by rw [← hdq, hdr])
      have hd1 := drop_succ_of_drop d (pos + 1 + k) x r hdr
      simp only [List.head?_cons, hq]
      rw [Spec.Sniff.gaValue]
      simp only [hx, Bool.false_eq_true, if_false]
      by_cases hquote : x = 39 ∨ x = 34
      · have hq2 : (x = 34 || x = 39) = true := by rcases hquote with h | h <;> simp [h]
        simp only [hquote, if_true, hq2]
        have := quoted_spec d x name [] r (pos + 1 + k) hd1
        rw [hd1]
        cases hg : Spec.Sniff.gaQuoted x name [] r with
        | eof => rw [hg] at this; simp only [AttrRel]; left; exact this
        | none _ => rw [hg] at this; exact this.elim
        | attr n v r' =>
          rw [hg] at this
          simp only [AttrRel]
          refine ⟨this.1, fun hne => ?_⟩
          obtain ⟨p', h1, h2⟩ := this.2 hne
          exact ⟨p', h1, Or.inl h2⟩
      · have hq2 : (x = 34 || x = 39) = false := by
          simp only [not_or] at hquote; simp [hquote.1, hquote.2]
        simp only [hquote, if_false, hq2, Bool.false_eq_true]
        by_cases h62 : x = 62
        · simp only [h62, if_true, decide_true, AttrRel]
          refine ⟨fun e => (by cases e), fun _ => ⟨pos + 1 + k, rfl, Or.inl ?_⟩⟩
          rw [hdr, h62]
        · simp only [h62, if_false, decide_false, Bool.false_eq_true]
          have := unquoted_spec d name [appendByte x] r (pos + 1 + k) hd1
          rw [hd1, appendByte_eq] at *
          cases hg : Spec.Sniff.gaUnquoted {} name [Spec.Sniff.lower x] r with
          | eof => rw [hg] at this; simp only [AttrRel]; left; exact this
          | none _ => rw [hg] at this; exact this.elim
          | attr n v r' =>
            rw [hg] at this
            obtain ⟨p', h1, h2, h3⟩ := this
            simp only [AttrRel]
            exact ⟨fun e => absurd e h3, fun _ => ⟨p', h1, Or.inl h2⟩⟩
  · rw [next_stop d pos hn]
    have : d.drop (pos + 1) = [] := List.drop_eq_nil_iff.mpr (by omega)
    rw [this]
    simp [R.bind, Spec.Sniff.gaValue, AttrRel]

theorem takeWhile_last (f : Nat → Bool) (l : Bytes) (k : Nat) (hk : (l.takeWhile f).length = k + 1) :
    ∃ w, f w = true ∧ l.drop k = w :: l.dropWhile f := by
  induction l generalizing k with
  | nil => simp at hk
  | cons c t ih =>
    rw [List.takeWhile_cons] at hk
    by_cases hc : f c = true
    · simp only [hc, if_true, List.length_cons] at hk
      rw [List.dropWhile_cons]; simp only [hc, if_true]
      cases k with
      | zero =>
        have h0 : (t.takeWhile f).length = 0 := by omega
        have : t.takeWhile f = [] := List.eq_nil_of_length_eq_zero h0
        have hd : t.dropWhile f = t := by
          have := List.takeWhile_append_dropWhile (p := f) (l := t)
          rw [‹t.takeWhile f = []›] at this; simpa using this
        exact ⟨c, hc, by simp [hd]⟩
      | succ k' =>
        obtain ⟨w, hw, hd⟩ := ih k' (by omega)
        exact ⟨w, hw, by simpa using hd⟩
    · simp [hc] at hk

theorem previous_eq (d : Bytes) (q : Nat) (h : q < d.length) : previous d q = .ok () ((q : Int) - 1) := by
  have h1 : ¬ ((q : Int) ≥ blen d) := by simp only [blen]; omega
  have h2 : ¬ ((q : Int) < 0) := by omega
  simp [previous, h1, h2]

theorem previous_stop (d : Bytes) (q : Nat) (h : ¬ q < d.length) : previous d q = .stop := by
  have h1 : (q : Int) ≥ blen d := by simp only [blen]; omega
  simp [previous, h1]

/-- steps 6-7 (spaces after the name), entered on a whitespace byte at index `p` -/
theorem spaces_spec (d name : Bytes) (p : Nat) (w0 : Nat) (r0 : Bytes) (hd : d.drop p = w0 :: r0)
    (hw : Spec.Sniff.isAsciiWs w0 = true) :
    AttrRel d ((skip d p spaceBytes).bind fun c' p' => attrAfterName d name c' p')
      (Spec.Sniff.gaSpaces {} name (d.drop p)) := by
  have hp : p < d.length := by
    have := congrArg List.length hd; simp at this; omega
  unfold skip
  rw [scan_eq d p hp, ws_fun, gaSpaces_dropWhile]
  simp only [R.bind]
  have hk1 : ((d.drop p).takeWhile Spec.Sniff.isAsciiWs).length ≥ 1 := by
    rw [hd, List.takeWhile_cons]; simp [hw]
  obtain ⟨k, hk⟩ : ∃ k, ((d.drop p).takeWhile Spec.Sniff.isAsciiWs).length = k + 1 := ⟨_, (Nat.sub_add_cancel hk1).symm⟩
  have hdq := drop_add_takeWhile d p Spec.Sniff.isAsciiWs
  rw [hk] at hdq ⊢
  obtain ⟨w, hww, hlast⟩ := takeWhile_last Spec.Sniff.isAsciiWs (d.drop p) k hk
  rw [List.drop_drop] at hlast
  rw [← hdq, getElem?_eq_head_drop]
  cases hdr : d.drop (p + (k + 1)) with
  | nil =>
    have hlen : ¬ p + (k + 1) < d.length := by
      have := List.drop_eq_nil_iff.mp hdr; omega
    simp only [List.head?_nil, attrAfterName, ne_eq, reduceCtorEq, not_false_eq_true, if_true]
    rw [previous_stop d _ hlen]
    simp [R.bind, Spec.Sniff.gaSpaces, AttrRel]
  | cons x r =>
    have hx : Spec.Sniff.isAsciiWs x = false :=
      dropWhile_head_not Spec.Sniff.isAsciiWs (d.drop p) x r (by rw [← hdq, hdr])
    have hlt : p + (k + 1) < d.length := by
      have := congrArg List.length hdr; simp at this; omega
    simp only [List.head?_cons]
    rw [Spec.Sniff.gaSpaces]
    simp only [hx, Bool.false_eq_true, if_false]
    by_cases h61 : x = 61
    · subst h61
      simp only [ne_eq, not_true_eq_false, if_false]
      have hv := value_spec d name (p + (k + 1)) (by rw [getElem?_eq_head_drop, hdr]; rfl)
      rw [drop_succ_of_drop d _ 61 r hdr] at hv
      exact hv
    · simp only [ne_eq, h61, not_false_eq_true, if_true]
      unfold attrAfterName
      have hne : (some x : Option Nat) ≠ some 61 := by simpa using h61
      simp only [ne_eq, hne, not_false_eq_true, if_true]
      rw [previous_eq d _ hlt]
      simp only [R.bind, AttrRel]
      refine ⟨fun e => (by cases e), fun _ => ⟨p + k, ?_, Or.inr ⟨w, hww, ?_⟩⟩⟩
      · congr 1; push_cast; omega
      · rw [hlast, ← hdq, hdr]

/-- steps 4-5: the attribute name loop -/
theorem name_spec (d : Bytes) (name : Bytes) (l : Bytes) (p : Nat) (hne : l ≠ []) (hd : d.drop p = l) :
    AttrRel d (attrName d name l p) (Spec.Sniff.gaName {} name l) := by
  induction l generalizing name p with
  | nil => exact absurd rfl hne
  | cons c r ih =>
    unfold attrName Spec.Sniff.gaName
    have hc? : d[p]? = some c := by rw [getElem?_eq_head_drop, hd]; rfl
    have hd1 := drop_succ_of_drop d p c r hd
    by_cases h61 : c = 61 ∧ name.isEmpty = false
    · obtain ⟨e, hn⟩ := h61
      subst e
      have := value_spec d name p (by rw [hc?])
      rw [hd1] at this
      simpa [hn] using this
    · have hb : (decide (c = 61) && !name.isEmpty) = false := by
        by_cases e : c = 61
        · have : name.isEmpty = true := by
            cases hn : name.isEmpty with
            | true => rfl
            | false => exact absurd ⟨e, hn⟩ h61
          simp [e, this]
        · simp [e]
      have hm : ¬ (c = 61 ∧ (!name.isEmpty) = true) := by
        intro ⟨e1, e2⟩; apply h61; exact ⟨e1, by simpa using e2⟩
      simp only [hb, hm, if_false, Bool.false_eq_true]
      rw [isSpaceB_eq]
      by_cases hw : Spec.Sniff.isAsciiWs c = true
      · simp only [hw, if_true]
        have := spaces_spec d name p c r hd hw
        rw [hd] at this
        exact this
      · simp only [hw, if_false, Bool.false_eq_true]
        by_cases hs : c = 47 ∨ c = 62
        · have hs2 : (decide (c = 47) || decide (c = 62)) = true := by rcases hs with h | h <;> simp [h]
          simp only [hs, hs2, if_true, AttrRel]
          exact ⟨fun e => (by cases e), fun _ => ⟨p, rfl, Or.inl hd⟩⟩
        · have hs2 : (decide (c = 47) || decide (c = 62)) = false := by
            simp only [not_or] at hs; simp [hs.1, hs.2]
          simp only [hs, hs2, if_false, Bool.false_eq_true]
          cases r with
          | nil => simp [Spec.Sniff.gaName, AttrRel]
          | cons c2 r2 =>
            rw [appendByte_eq]
            exact ih (name ++ [Spec.Sniff.lower c]) (p + 1) (by simp) hd1

def wsSlash (c : Nat) : Bool := Spec.Sniff.isAsciiWs c || c = 47

theorem wsSlash_fun : (fun c => (spaceBytes ++ [47]).elem c) = wsSlash := by
  funext c
  simp only [wsSlash, ← spaceElem_eq]
  by_cases h : c = 47 <;> simp [h, List.elem_eq_mem]

theorem getAn_dropWhile (rest : Bytes) :
    Spec.Sniff.getAnAttribute {} rest = Spec.Sniff.getAnAttribute {} (rest.dropWhile wsSlash) := by
  induction rest with
  | nil => rfl
  | cons c r ih =>
    by_cases hc : wsSlash c = true
    · rw [List.dropWhile_cons]; simp only [hc, if_true]
      rw [← ih]; rw [Spec.Sniff.getAnAttribute]
      have : (Spec.Sniff.isAsciiWs c || decide (c = 47)) = true := hc
      simp [this]
    · simp only [Bool.not_eq_true] at hc
      rw [List.dropWhile_cons]; simp [hc]

/-- how a result of the model's `getAttribute` corresponds to a result of the standard's "get an attribute" -/
def GetRel (d : Bytes) (m : R (Option AttrB)) (s : Spec.Sniff.GA) : Prop :=
  match s with
  | .none r => ∃ p' : Nat, m = .ok none p' ∧ d.drop p' = r ∧ r.head? = some 62
  | s => AttrRel d m s

/-- **"get an attribute".**  For every byte string and every position, html5lib's `getAttribute` computes the
standard's "get an attribute": the same name and value (lower-cased the same way); it stops on the same byte (or
on the whitespace byte just before it, which the next call skips); running out of bytes is `StopIteration` or
"no attribute at the end of the data". -/
theorem getAttribute_spec (d : Bytes) (pos : Nat) :
    GetRel d (getAttribute d pos) (Spec.Sniff.getAnAttribute {} (d.drop pos)) := by
  unfold getAttribute skip
  by_cases hp : pos < d.length
  · rw [scan_eq d pos hp, wsSlash_fun, getAn_dropWhile]
    simp only [R.bind]
    generalize hk : ((d.drop pos).takeWhile wsSlash).length = k
    have hdq := drop_add_takeWhile d pos wsSlash
    rw [hk] at hdq
    rw [← hdq, getElem?_eq_head_drop]
    have hq : ((pos + k : Nat) : Int).toNat = pos + k := by omega
    cases hdr : d.drop (pos + k) with
    | nil =>
      have hlen : pos + k = d.length := by
        have h1 : d.length ≤ pos + k := List.drop_eq_nil_iff.mp hdr
        have h2 : k ≤ (d.drop pos).length := by rw [← hk]; exact (takeWhile_len_spec _ _).1
        simp at h2; omega
      simp only [List.head?_nil, Spec.Sniff.getAnAttribute, GetRel, AttrRel]
      right; simp only [blen]; rw [← hlen]
    | cons x r =>
      have hx : wsSlash x = false := dropWhile_head_not wsSlash (d.drop pos) x r (by rw [← hdq, hdr])
      have hx2 : (Spec.Sniff.isAsciiWs x || decide (x = 47)) = false := hx
      simp only [List.head?_cons, hq]
      rw [Spec.Sniff.getAnAttribute]
      simp only [hx2, Bool.false_eq_true, if_false]
      by_cases h62 : x = 62
      · simp only [h62, if_true, decide_true, GetRel]
        exact ⟨pos + k, rfl, by rw [hdr, h62], rfl⟩
      · simp only [h62, if_false, decide_false, Bool.false_eq_true]
        have := name_spec d [] (x :: r) (pos + k) (by simp) hdr
        rw [hdr]
        cases hg : Spec.Sniff.gaName {} [] (x :: r) with
        | eof => rw [hg] at this; exact this
        | none _ => rw [hg] at this; exact this.elim
        | attr n v r' => rw [hg] at this; exact this
  · have : d.drop pos = [] := List.drop_eq_nil_iff.mpr (by omega)
    rw [this, scan_stop d pos (by simp only [blen]; omega)]
    simp [R.bind, Spec.Sniff.getAnAttribute, GetRel, AttrRel]

theorem getAn_ws (w : Nat) (r : Bytes) (hw : Spec.Sniff.isAsciiWs w = true) :
    Spec.Sniff.getAnAttribute {} (w :: r) = Spec.Sniff.getAnAttribute {} r := by
  rw [Spec.Sniff.getAnAttribute]; simp [hw]

theorem skipAttrs_ws (f : Nat) (w : Nat) (r : Bytes) (hw : Spec.Sniff.isAsciiWs w = true) :
    Spec.Sniff.skipAttrs {} (f + 1) (w :: r) = Spec.Sniff.skipAttrs {} (f + 1) r := by
  simp only [Spec.Sniff.skipAttrs, getAn_ws w r hw]

/-- **attributes of an ordinary tag.**  The loop of `handlePossibleTag` that reads all attributes is the standard's
"repeatedly get an attribute until no further attributes can be found": it ends on the same `>`, or both run out of
bytes. -/
theorem readAllAttributes_spec (d : Bytes) (n : Nat) : ∀ (pos mf sf : Nat), d.length - pos ≤ n →
    mf ≥ 1 → mf + pos > d.length → sf > d.length - pos →
    match Spec.Sniff.skipAttrs {} sf (d.drop pos) with
    | none => readAllAttributes d mf pos = .stop ∨ readAllAttributes d mf pos = .ok () (blen d)
    | some r => ∃ p' : Nat, readAllAttributes d mf pos = .ok () p' ∧ d.drop p' = r ∧ r.head? = some 62 := by
  induction n with
  | zero =>
    intro pos mf sf hn hm1 hm hs
    obtain ⟨mf', rfl⟩ : ∃ k, mf = k + 1 := ⟨mf - 1, by omega⟩
    obtain ⟨sf', rfl⟩ : ∃ k, sf = k + 1 := ⟨sf - 1, by omega⟩
    have hnil : d.drop pos = [] := List.drop_eq_nil_iff.mpr (by omega)
    have hg := getAttribute_spec d pos
    rw [hnil] at hg ⊢
    simp only [Spec.Sniff.skipAttrs, Spec.Sniff.getAnAttribute, GetRel, AttrRel] at hg ⊢
    unfold readAllAttributes
    rcases hg with h | h <;> rw [h] <;> simp [R.bind]
  | succ n ih =>
    intro pos mf sf hn hm1 hm hs
    obtain ⟨mf', rfl⟩ : ∃ k, mf = k + 1 := ⟨mf - 1, by omega⟩
    obtain ⟨sf', rfl⟩ : ∃ k, sf = k + 1 := ⟨sf - 1, by omega⟩
    have hg := getAttribute_spec d pos
    have hpost := getAttribute_post d pos
    unfold readAllAttributes
    simp only [Spec.Sniff.skipAttrs]
    cases hs1 : Spec.Sniff.getAnAttribute {} (d.drop pos) with
    | eof =>
      rw [hs1] at hg
      simp only [GetRel, AttrRel] at hg
      rcases hg with h | h <;> rw [h] <;> simp [R.bind]
    | none r =>
      rw [hs1] at hg
      obtain ⟨p', h1, h2, h3⟩ := hg
      rw [h1]
      exact ⟨p', by simp [R.bind], h2, h3⟩
    | attr nm v r =>
      rw [hs1] at hg
      simp only [GetRel, AttrRel] at hg
      by_cases hr : r = []
      · rw [hg.1 hr, hr]
        simp only [R.bind]
        cases sf' with
        | zero => simp [Spec.Sniff.skipAttrs]
        | succ k => simp [Spec.Sniff.skipAttrs, Spec.Sniff.getAnAttribute]
      · obtain ⟨p', h1, h2⟩ := hg.2 hr
        have hb := hpost.2 _ _ h1
        obtain ⟨hb1, hb2⟩ := hb.2.2.2 rfl
        simp only [blen] at hb1 hb2
        have hp1 : pos < p' := by omega
        have hp2 : p' < d.length := by omega
        rw [h1]
        simp only [R.bind]
        have hrec := ih p' mf' sf' (by omega) (by omega) (by omega) (by omega)
        have hspec : Spec.Sniff.skipAttrs {} sf' r = Spec.Sniff.skipAttrs {} sf' (d.drop p') := by
          rcases h2 with h | ⟨w, hw, h⟩
          · rw [h]
          · obtain ⟨k, rfl⟩ : ∃ k, sf' = k + 1 := ⟨sf' - 1, by omega⟩
            rw [h, skipAttrs_ws k w r hw]
        rw [hspec]
        exact hrec
end H5.Proofs.PrescanSpec
