import H5.Basic
namespace H5
@[simp] theorem pure_eq_ok {ε α} (a : α) : (pure a : Except ε α) = Except.ok a := rfl
@[simp] theorem ok_bind {ε α β} (a : α) (f : α → Except ε β) : (Except.ok a >>= f) = f a := rfl
@[simp] theorem error_bind {ε α β} (e : ε) (f : α → Except ε β) : (Except.error e >>= f) = Except.error e := rfl
theorem bind_eq_ok {ε α β} {m : Except ε α} {f : α → Except ε β} {b : β} :
    (m >>= f) = Except.ok b ↔ ∃ a, m = Except.ok a ∧ f a = Except.ok b := by
  cases m <;> simp
def isOk {ε α} : Except ε α → Bool | .ok _ => true | .error _ => false
@[simp] theorem isOk_ok {ε α} (a : α) : isOk (Except.ok a : Except ε α) = true := rfl
@[simp] theorem isOk_error {ε α} (e : ε) : isOk (Except.error e : Except ε α) = false := rfl
theorem exists_ok_iff {ε α} (m : Except ε α) : (∃ b, m = .ok b) ↔ isOk m = true := by
  cases m <;> simp
theorem isOk_ite {ε α} (c : Prop) [Decidable c] (a b : Except ε α) :
    isOk (if c then a else b) = if c then isOk a else isOk b := by split <;> rfl
instance {ε α} [DecidableEq ε] [DecidableEq α] : DecidableEq (Except ε α)
  | .ok a, .ok b => if h : a = b then isTrue (by rw [h]) else isFalse (by intro h'; cases h'; exact h rfl)
  | .error a, .error b => if h : a = b then isTrue (by rw [h]) else isFalse (by intro h'; cases h'; exact h rfl)
  | .ok _, .error _ => isFalse (by intro h; cases h)
  | .error _, .ok _ => isFalse (by intro h; cases h)
end H5
