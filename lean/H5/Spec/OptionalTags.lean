/-
  H5.Spec.OptionalTags — the "optional tags" rules of the HTML syntax (WHATWG, 2020), phrased over the
  three-token window the filter sees: "immediately followed by an X element" = the next token is a start/empty tag
  named X; "no more content in the parent element" = the next token is an end tag (the parent's, in a balanced
  stream) or the stream ends.  Written from the standard; shares nothing with the translated rule functions.
-/
import H5.Basic
namespace H5.Spec.OptionalTags
open H5

def nextStartIn (x : Option Tok) (names : List Str) : Bool :=
  match x with
  | some (.startTag _ n _) => names.elem n
  | some (.emptyTag _ n _) => names.elem n
  | _ => false

def nextIsElement (x : Option Tok) : Bool :=
  match x with
  | some (.startTag ..) | some (.emptyTag ..) => true
  | _ => false

def nextIsComment (x : Option Tok) : Bool :=
  match x with | some (.comment _) => true | _ => false

def nextIsSpaceOrComment (x : Option Tok) : Bool :=
  match x with | some (.comment _) | some (.space _) => true | _ => false

/-- no more content in the parent: the parent's end tag follows, or nothing does -/
def noMoreContent (x : Option Tok) : Bool :=
  match x with | none => true | some (.endTag ..) => true | _ => false

/-- the parent element named by the following end tag is not one of the transparent-ish elements the `p` rule excludes -/
def parentAllowsPOmission (x : Option Tok) : Bool :=
  match x with
  | some (.endTag _ n) => !([[97], [97, 117, 100, 105, 111], [100, 101, 108], [105, 110, 115], [109, 97, 112], [110, 111, 115, 99, 114, 105, 112, 116], [118, 105, 100, 101, 111]]).elem n
  | _ => true

def pFollowers : List Str := [[97, 100, 100, 114, 101, 115, 115], [97, 114, 116, 105, 99, 108, 101], [97, 115, 105, 100, 101], [98, 108, 111, 99, 107, 113, 117, 111, 116, 101], [100, 101, 116, 97, 105, 108, 115], [100, 105, 118], [100, 108], [102, 105, 101, 108, 100, 115, 101, 116], [102, 105, 103, 99, 97, 112, 116, 105, 111, 110], [102, 105, 103, 117, 114, 101], [102, 111, 111, 116, 101, 114], [102, 111, 114, 109], [104, 49], [104, 50], [104, 51], [104, 52], [104, 53], [104, 54], [104, 101, 97, 100, 101, 114], [104, 103, 114, 111, 117, 112], [104, 114], [109, 97, 105, 110], [109, 101, 110, 117], [110, 97, 118], [111, 108], [112], [112, 114, 101], [115, 101, 99, 116, 105, 111, 110], [116, 97, 98, 108, 101], [117, 108]]

/-- may the END tag of an element named `n` be omitted when the next token is `x`? -/
def mayOmitEnd (n : Str) (x : Option Tok) : Bool :=
  if n = [104, 116, 109, 108] then !nextIsComment x
  else if n = [104, 101, 97, 100] then !nextIsSpaceOrComment x
  else if n = [98, 111, 100, 121] then !nextIsComment x
  else if n = [108, 105] then nextStartIn x [[108, 105]] || noMoreContent x
  else if n = [100, 116] then nextStartIn x [[100, 116], [100, 100]]
  else if n = [100, 100] then nextStartIn x [[100, 100], [100, 116]] || noMoreContent x
  else if n = [112] then nextStartIn x pFollowers || (noMoreContent x && parentAllowsPOmission x)
  else if n = [114, 116] || n = [114, 112] then nextStartIn x [[114, 116], [114, 112]] || noMoreContent x
  else if n = [111, 112, 116, 103, 114, 111, 117, 112] then nextStartIn x [[111, 112, 116, 103, 114, 111, 117, 112]] || noMoreContent x
  else if n = [111, 112, 116, 105, 111, 110] then nextStartIn x [[111, 112, 116, 105, 111, 110], [111, 112, 116, 103, 114, 111, 117, 112]] || noMoreContent x
  else if n = [99, 111, 108, 103, 114, 111, 117, 112] then !nextIsSpaceOrComment x
  else if n = [99, 97, 112, 116, 105, 111, 110] then !nextIsSpaceOrComment x
  else if n = [116, 104, 101, 97, 100] then nextStartIn x [[116, 98, 111, 100, 121], [116, 102, 111, 111, 116]]
  else if n = [116, 98, 111, 100, 121] then nextStartIn x [[116, 98, 111, 100, 121], [116, 102, 111, 111, 116]] || noMoreContent x
  else if n = [116, 102, 111, 111, 116] then noMoreContent x
  else if n = [116, 114] then nextStartIn x [[116, 114]] || noMoreContent x
  else if n = [116, 100] || n = [116, 104] then nextStartIn x [[116, 100], [116, 104]] || noMoreContent x
  else false

/-- may the START tag (without attributes) of an element named `n` be omitted, `p` the previous and `x` the next token?
(The "not immediately preceded by an element whose end tag has been omitted" side conditions are the caller's:
the filter never omits those end tags in that situation; see C13.) -/
def mayOmitStart (n : Str) (x : Option Tok) : Bool :=
  if n = [104, 116, 109, 108] then !nextIsComment x
  else if n = [104, 101, 97, 100] then nextIsElement x || noMoreContent x        -- empty, or first thing is an element
  else if n = [98, 111, 100, 121] then
    noMoreContent x ||
    (!nextIsSpaceOrComment x && !nextStartIn x [[109, 101, 116, 97], [108, 105, 110, 107], [115, 99, 114, 105, 112, 116], [115, 116, 121, 108, 101], [116, 101, 109, 112, 108, 97, 116, 101]])
  else if n = [99, 111, 108, 103, 114, 111, 117, 112] then nextStartIn x [[99, 111, 108]]
  else if n = [116, 98, 111, 100, 121] then nextStartIn x [[116, 114]]
  else false

end H5.Spec.OptionalTags
