/- umbrella: executable specification of the tree-construction stage of the WHATWG HTML standard -/
import H5.Spec.TreeConstruction.Main
