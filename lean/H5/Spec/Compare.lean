/-
  H5.Spec.Compare — comparison layer between the token stream of html5lib's tokenizer (the Model,
  or the real code) and the token stream of the standard's tokenizer (`H5.Spec.tokenize`).

  `canon` removes everything that is representation, not behaviour:

  1. Parse errors are dropped.  html5lib's error codes are its own ("expected-tag-name", …), and the
     standard says nothing about *when* an error is reported relative to tokens.
  2. Character tokens: the standard emits one character token per code point; html5lib emits runs
     and distinguishes `SpaceCharacters` from `Characters`.  Both become `.chars`, adjacent ones
     are merged, empty ones are dropped.
  3. End tags: html5lib keeps the attribute list and the self-closing flag on EndTag tokens (the
     parser ignores both apart from reporting errors); in the standard "attributes on an end tag"
     and "self-closing end tag" are only parse errors and the tree builder never reads them.
     Both are erased: `.endTag name [] false`.
  4. DOCTYPE: html5lib initialises `name` to `""` where the standard says "missing"; the standard
     can never produce an *empty* (non-missing) name, because a name is created from a character.
     So `some []` is mapped to `none`.  `publicId` / `systemId` are `None`/missing on both sides,
     `correct` = not force-quirks on both sides; they are compared as they are.
-/
import H5.Basic
namespace H5.Spec
open H5

def canonTok : TTok → Option TTok
  | .parseError _ _ => none
  | .chars s => if s.isEmpty then none else some (.chars s)
  | .space s => if s.isEmpty then none else some (.chars s)
  | .endTag n _ _ => some (.endTag n [] false)
  | .doctype (some []) p s c => some (.doctype none p s c)
  | t => some t

/-- merge adjacent `.chars` tokens -/
def mergeChars : List TTok → List TTok
  | [] => []
  | .chars a :: rest =>
    match mergeChars rest with
    | .chars b :: rest' => .chars (a ++ b) :: rest'
    | rest' => .chars a :: rest'
  | t :: rest => t :: mergeChars rest

def canon (ts : List TTok) : List TTok := mergeChars (ts.filterMap canonTok)

def agree (model spec : List TTok) : Bool := canon model == canon spec

end H5.Spec
