/-
  H5.Spec.Retokenize — the standard's tokenizer (H5.Spec.Tokenizer) driven by a known element context:
  after the i-th tag token (start or end) the tokenizer is put in the state / CDATA permission that tree
  construction would choose at that point (supplied by the caller, who knows the element namespaces).
-/
import H5.Spec.Tokenizer
import H5.Spec.Compare
namespace H5.Spec
open H5 H5.Spec.Tokenizer

def isTagTok : TTok → Bool
  | .startTag .. | .endTag .. => true
  | _ => false

/-- apply the switches for `n` newly emitted tag tokens -/
def applySwitches (m : M) : Nat → List (Option State × Bool) → M × List (Option State × Bool)
  | 0, sw => (m, sw)
  | _ + 1, [] => (m, [])
  | n + 1, (st, cd) :: rest =>
    let m := { m with cdataAllowed := cd }
    let m := match st with | some s => { m with state := s } | none => m
    applySwitches m n rest

def retokRun : Nat → M → Str → List (Option State × Bool) → Except PyErr (List TTok)
  | 0, _, _, _ => .error (.outOfFuel "Spec.retokenize")
  | fuel + 1, m, input, sw =>
    if m.done then .ok m.out.reverse
    else
      let r := step m input
      let fresh := r.1.out.take (r.1.out.length - m.out.length)
      let n := (fresh.filter isTagTok).length
      let (m', sw') := applySwitches r.1 n sw
      retokRun fuel m' r.2 sw'

def retokenize (initialState : State) (cdataAllowed : Bool) (switches : List (Option State × Bool)) (input : Str) :
    Except PyErr (List TTok) :=
  retokRun (fuelFor input) (initial initialState none cdataAllowed) input switches

end H5.Spec
