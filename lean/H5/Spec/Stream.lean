/-
  H5.Spec.Stream — abstract reference for the input stream, written from the HTML standard
  ("preprocessing the input stream": CR LF → LF, lone CR → LF; parse errors for surrogates, noncharacters and
  controls other than ASCII whitespace and NUL) and from the usual definition of (line, column).
  Shares no code with H5.Model.Stream.
-/
import H5.Basic
namespace H5.Spec.Stream
open H5

/-- newline normalisation of a whole text: every CR LF pair and every CR not followed by LF becomes one LF -/
def normNewlines : Str → Str
  | [] => []
  | c :: r =>
    if c = 13 then
      match r with
      | [] => [10]
      | d :: r' => if d = 10 then 10 :: normNewlines r' else 10 :: normNewlines (d :: r')
    else c :: normNewlines r

/-- 1-based line of offset `i` of `text`: one more than the number of LF before `i` -/
def lineOf (text : Str) (i : Nat) : Nat := 1 + ((text.take i).filter (· = 10)).length

/-- 0-based column of offset `i`: distance from the character after the last LF before `i` (or from 0) -/
def colOf (text : Str) (i : Nat) : Nat := ((text.take i).reverse.takeWhile (· ≠ 10)).length

def positionOf (text : Str) (i : Nat) : Nat × Nat := (lineOf text i, colOf text i)

def isSurrogate (c : Nat) : Bool := 0xD800 ≤ c && c ≤ 0xDFFF
/-- noncharacters: U+FDD0..U+FDEF and the last two code points of each of the 17 planes -/
def isNoncharacter (c : Nat) : Bool := (0xFDD0 ≤ c && c ≤ 0xFDEF) || (c ≤ 0x10FFFF && c % 0x10000 ≥ 0xFFFE)
/-- controls: C0 and U+007F..U+009F -/
def isControl (c : Nat) : Bool := c ≤ 0x1F || (0x7F ≤ c && c ≤ 0x9F)
def isAsciiWhitespace (c : Nat) : Bool := c = 9 || c = 10 || c = 12 || c = 13 || c = 32

/-- a code point whose occurrence in the input stream is a parse error -/
def isInvalid (c : Nat) : Bool :=
  isSurrogate c || isNoncharacter c || (isControl c && !isAsciiWhitespace c && c ≠ 0)

def invalidCount (text : Str) : Nat := (text.filter isInvalid).length

/-- longest prefix of `text` all of whose characters satisfy `p` -/
def longestPrefix (p : Nat → Bool) : Str → Str
  | [] => []
  | c :: r => if p c then c :: longestPrefix p r else []

end H5.Spec.Stream
