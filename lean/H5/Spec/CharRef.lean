/-
  H5.Spec.CharRef — the numeric character reference rule of the HTML standard
  ("numeric character reference end state"), written from the standard; shares nothing with the model.
-/
import H5.Basic
namespace H5.Spec
open H5

/-- the standard's C1 replacement table (27 entries) -/
def c1Table : List (Nat × Nat) :=
  [(0x80, 0x20AC), (0x82, 0x201A), (0x83, 0x0192), (0x84, 0x201E), (0x85, 0x2026), (0x86, 0x2020),
   (0x87, 0x2021), (0x88, 0x02C6), (0x89, 0x2030), (0x8A, 0x0160), (0x8B, 0x2039), (0x8C, 0x0152),
   (0x8E, 0x017D), (0x91, 0x2018), (0x92, 0x2019), (0x93, 0x201C), (0x94, 0x201D), (0x95, 0x2022),
   (0x96, 0x2013), (0x97, 0x2014), (0x98, 0x02DC), (0x99, 0x2122), (0x9A, 0x0161), (0x9B, 0x203A),
   (0x9C, 0x0153), (0x9E, 0x017E), (0x9F, 0x0178)]

/-- the code point a numeric reference with value `n` stands for -/
def numChar (n : Nat) : Nat :=
  if n = 0 then 0xFFFD                                   -- null-character-reference
  else if n > 0x10FFFF then 0xFFFD                       -- character-reference-outside-unicode-range
  else if 0xD800 ≤ n ∧ n ≤ 0xDFFF then 0xFFFD            -- surrogate-character-reference
  else match c1Table.lookup n with
    | some c => c                                        -- control-character-reference with a mapping
    | none => n                                          -- (noncharacters and other controls: error, kept)

end H5.Spec
