/-
  H5.Spec.TreeProps — small universally quantified facts about the tree-construction SPEC alone
  (H5.Spec.TreeConstruction).  No `sorry`; axioms: propext / Quot.sound / Classical.choice only.
-/
import H5.Spec.TreeConstruction
namespace H5.Spec.TC
open H5

/-! ### "has an element in the specific scope" is monotone in the list -/

/-- a scope variant whose list contains MORE element types finds LESS: whatever is in scope for the
bigger list is in scope for the smaller one -/
theorem inScopePure_mono (isTarget : NodeId × Option EType → Bool) (stops₁ stops₂ : EType → Bool)
    (h : ∀ e, stops₁ e = true → stops₂ e = true) :
    ∀ l, inScopePure isTarget stops₂ l = true → inScopePure isTarget stops₁ l = true := by
  intro l
  induction l with
  | nil => simp [inScopePure]
  | cons n rest ih =>
    unfold inScopePure
    by_cases ht : isTarget n = true
    · simp [ht]
    · simp only [ht]
      cases hn : n.2 with
      | none => simpa using ih
      | some e =>
        by_cases h2 : stops₂ e = true
        · simp [h2]
        · have h1 : stops₁ e = false := by
            cases h1 : stops₁ e with
            | false => rfl
            | true => exact absurd (h e h1) h2
          simp [h1, h2]
          simpa using ih

/-- the list-item and button lists extend the default list … -/
theorem default_stops_listItem (e : EType) : Scope.default.stops e = true → Scope.listItem.stops e = true := by
  simp only [Scope.stops, scopeListItem, List.contains_append, Bool.or_eq_true]
  intro h; exact Or.inl h

theorem default_stops_button (e : EType) : Scope.default.stops e = true → Scope.button.stops e = true := by
  simp only [Scope.stops, scopeButton, List.contains_append, Bool.or_eq_true]
  intro h; exact Or.inl h

/-- … hence "in list item scope" and "in button scope" imply "in scope" -/
theorem listItemScope_imp_scope (isTarget) (l) :
    inScopePure isTarget Scope.listItem.stops l = true → inScopePure isTarget Scope.default.stops l = true :=
  inScopePure_mono isTarget _ _ default_stops_listItem l

theorem buttonScope_imp_scope (isTarget) (l) :
    inScopePure isTarget Scope.button.stops l = true → inScopePure isTarget Scope.default.stops l = true :=
  inScopePure_mono isTarget _ _ default_stops_button l

/-- a target is found in scope iff it occurs before the first stopping element (soundness of the
match state: a `true` answer exhibits a target on the stack) -/
theorem inScopePure_sound (isTarget : NodeId × Option EType → Bool) (stops : EType → Bool) :
    ∀ l, inScopePure isTarget stops l = true → ∃ n ∈ l, isTarget n = true := by
  intro l
  induction l with
  | nil => simp [inScopePure]
  | cons n rest ih =>
    unfold inScopePure
    by_cases ht : isTarget n = true
    · intro _; exact ⟨n, List.mem_cons_self, ht⟩
    · simp only [ht]
      cases hn : n.2 with
      | none =>
        intro h
        obtain ⟨m, hm, hmt⟩ := ih (by simpa using h)
        exact ⟨m, List.mem_cons_of_mem _ hm, hmt⟩
      | some e =>
        by_cases hs : stops e = true
        · simp [hs]
        · simp only [hs]
          intro h
          obtain ⟨m, hm, hmt⟩ := ih (by simpa using h)
          exact ⟨m, List.mem_cons_of_mem _ hm, hmt⟩

/-! ### "generate implied end tags" only pops -/

/-- the stack after "generate implied end tags" is a suffix (the older part) of the stack before -/
theorem impliedPop_suffix (list : List Str) (ex : Option Str) (tys : List (Option EType)) (st : List NodeId) :
    impliedPop list ex tys st <:+ st := by
  unfold impliedPop; exact List.drop_suffix _ _

/-- every popped entry is an HTML element of the list (and not the excepted one) -/
theorem impliedCount_popped (list : List Str) (ex : Option Str) :
    ∀ (tys : List (Option EType)) (i : Nat), i < impliedCount list ex tys →
      ∃ nm, tys[i]? = some (some (NS.html, nm)) ∧ among nm list = true ∧ some nm ≠ ex := by
  intro tys
  induction tys with
  | nil => intro i h; simp [impliedCount] at h
  | cons t rest ih =>
    intro i h
    match t with
    | none => simp [impliedCount] at h
    | some (.mathml, _) => simp [impliedCount] at h
    | some (.svg, _) => simp [impliedCount] at h
    | some (.html, nm) =>
      unfold impliedCount at h
      by_cases hc : (among nm list && some nm != ex) = true
      · simp only [hc, if_true] at h
        cases i with
        | zero =>
          refine ⟨nm, by simp, ?_, ?_⟩
          · simp only [Bool.and_eq_true] at hc; exact hc.1
          · simp only [Bool.and_eq_true, bne_iff_ne] at hc; exact hc.2
        | succ j =>
          have := ih j (by omega)
          simpa using this
      · simp [hc] at h

/-- … and popping stops at the first entry that is not such an element -/
theorem impliedCount_stops (list : List Str) (ex : Option Str) :
    ∀ (tys : List (Option EType)) (nm : Str),
      tys[impliedCount list ex tys]? = some (some (NS.html, nm)) → (among nm list && some nm != ex) = false := by
  intro tys
  induction tys with
  | nil => intro nm h; simp at h
  | cons t rest ih =>
    intro nm h
    match t with
    | none => simp [impliedCount] at h
    | some (.mathml, _) => simp [impliedCount] at h
    | some (.svg, _) => simp [impliedCount] at h
    | some (.html, n0) =>
      unfold impliedCount at h
      by_cases hc : (among n0 list && some n0 != ex) = true
      · simp only [hc, if_true] at h
        exact ih nm (by simpa using h)
      · simp only [hc] at h
        simp at h
        cases hb : (among nm list && some nm != ex) with
        | false => rfl
        | true => rw [← h] at hb; exact absurd hb hc

/-! ### the Noah's Ark clause -/

private abbrev notMarker : AfeEntry → Bool := (· != .marker)

theorem takeWhile_dropWhile_nil (p : AfeEntry → Bool) : ∀ r : List AfeEntry, (r.dropWhile p).takeWhile p = [] := by
  intro r
  induction r with
  | nil => simp
  | cons x xs ih =>
    by_cases h : p x = true
    · simp [h, ih]
    · simp [h]

/-- nothing follows the last marker in the part up to the last marker -/
theorem afterLastMarker_before (l : List AfeEntry) : afterLastMarker (beforeLastMarker l) = [] := by
  simp [afterLastMarker, beforeLastMarker, takeWhile_dropWhile_nil]

/-- appending marker-free entries extends the part after the last marker -/
theorem afterLastMarker_append (a b : List AfeEntry) (hb : ∀ x ∈ b, notMarker x = true) :
    afterLastMarker (a ++ b) = afterLastMarker a ++ b := by
  unfold afterLastMarker
  rw [List.reverse_append, List.takeWhile_append_of_pos (by simpa using hb)]
  simp

theorem mem_takeWhile_pos (p : AfeEntry → Bool) : ∀ (r : List AfeEntry) (x : AfeEntry), x ∈ r.takeWhile p → p x = true := by
  intro r
  induction r with
  | nil => intro x h; simp at h
  | cons y ys ih =>
    intro x h
    by_cases hp : p y = true
    · simp only [List.takeWhile_cons, hp, if_true, List.mem_cons] at h
      rcases h with h | h
      · subst h; exact hp
      · exact ih x h
    · simp [hp] at h

theorem afterLastMarker_noMarker (l : List AfeEntry) : ∀ x ∈ afterLastMarker l, notMarker x = true := by
  intro x hx
  unfold afterLastMarker at hx
  rw [List.mem_reverse] at hx
  exact mem_takeWhile_pos _ _ x hx

theorem mem_removeFirst (p : AfeEntry → Bool) : ∀ (t : List AfeEntry) (x : AfeEntry), x ∈ removeFirst p t → x ∈ t := by
  intro t
  induction t with
  | nil => intro x h; simp [removeFirst] at h
  | cons y ys ih =>
    intro x h
    unfold removeFirst at h
    by_cases hp : p y = true
    · simp [hp] at h; exact List.mem_cons_of_mem _ h
    · simp [hp] at h
      rcases h with h | h
      · simp [h]
      · exact List.mem_cons_of_mem _ (ih x h)

/-- removing the first match lowers the number of matches by one (if there is a match) -/
theorem filter_removeFirst (p : AfeEntry → Bool) :
    ∀ t : List AfeEntry, 0 < (t.filter p).length → ((removeFirst p t).filter p).length + 1 = (t.filter p).length := by
  intro t
  induction t with
  | nil => simp
  | cons y ys ih =>
    intro h
    unfold removeFirst
    by_cases hp : p y = true
    · simp [hp]
    · have hf : p y = false := by cases hq : p y <;> simp_all
      simp only [hf, List.filter_cons] at h ⊢
      simpa [hf] using ih (by simpa using h)

/-- **Noah's Ark**: if the part of the list after the last marker holds at most three entries equal
(tag name, attributes) to the new element, it still holds at most three after the push -/
theorem noahPush_atMostThree (l : List AfeEntry) (node : NodeId) (name : Str) (attrs : List (Str × Str))
    (h : ((afterLastMarker l).filter (sameEntry name attrs)).length ≤ 3) :
    ((afterLastMarker (noahPush l node name attrs)).filter (sameEntry name attrs)).length ≤ 3 := by
  unfold noahPush
  simp only []
  have hnew : ∀ x ∈ [AfeEntry.elem node name attrs], notMarker x = true := by
    intro x hx; simp at hx; subst hx; rfl
  by_cases hc : ((afterLastMarker l).filter (sameEntry name attrs)).length ≥ 3
  · simp only [hc, if_true]
    have hrm : ∀ x ∈ removeFirst (sameEntry name attrs) (afterLastMarker l), notMarker x = true :=
      fun x hx => afterLastMarker_noMarker l x (mem_removeFirst _ _ x hx)
    rw [afterLastMarker_append _ _ hnew, afterLastMarker_append _ _ hrm, afterLastMarker_before]
    have := filter_removeFirst (sameEntry name attrs) (afterLastMarker l) (by omega)
    simp only [List.nil_append, List.filter_append, List.length_append]
    have h1 : (List.filter (sameEntry name attrs) [AfeEntry.elem node name attrs]).length ≤ 1 := by
      simpa using List.length_filter_le (sameEntry name attrs) [AfeEntry.elem node name attrs]
    omega
  · simp only [hc, if_false]
    rw [afterLastMarker_append _ _ hnew, afterLastMarker_append _ _ (afterLastMarker_noMarker l), afterLastMarker_before]
    simp only [List.nil_append, List.filter_append, List.length_append]
    have h1 : (List.filter (sameEntry name attrs) [AfeEntry.elem node name attrs]).length ≤ 1 := by
      simpa using List.length_filter_le (sameEntry name attrs) [AfeEntry.elem node name attrs]
    omega

/-- the push never touches the entries up to the last marker and always ends with the new element -/
theorem noahPush_shape (l : List AfeEntry) (node : NodeId) (name : Str) (attrs : List (Str × Str)) :
    ∃ t, noahPush l node name attrs = beforeLastMarker l ++ t ++ [.elem node name attrs] ∧
      ∀ x ∈ t, x ∈ afterLastMarker l := by
  unfold noahPush
  by_cases hc : ((afterLastMarker l).filter (sameEntry name attrs)).length ≥ 3
  · exact ⟨removeFirst (sameEntry name attrs) (afterLastMarker l), by simp only [hc, if_true],
      fun x hx => mem_removeFirst _ _ x hx⟩
  · exact ⟨afterLastMarker l, by simp only [hc, if_false], fun x hx => hx⟩

end H5.Spec.TC
