/-
  H5.Spec.TreeConstruction.Dom — the DOM the specification builds (an arena), the parser state of
  13.2.4 "Parse state", and the monad of the specification.
-/
import H5.Spec.TreeConstruction.Tables
namespace H5.Spec.TC
open H5

abbrev NodeId := Nat

inductive Kind where
  | document
  | doctype (name pub sys : Str)
  | element (ns : NS) (name : Str) (attrs : List Attr)
  | text (data : Str)
  | comment (data : Str)
  /-- the DocumentFragment that is the "template contents" of a template element -/
  | contents
  deriving Repr, Inhabited

structure Node where
  kind : Kind
  parent : Option NodeId := none
  children : List NodeId := []
  /-- template contents of an HTML `template` element -/
  content : Option NodeId := none
  deriving Repr, Inhabited

/-- tokens as the tree-construction stage sees them (one character per character token) -/
inductive Token where
  | doctype (name pub sys : Option Str) (forceQuirks : Bool)
  | startTag (name : Str) (attrs : List (Str × Str)) (selfClosing : Bool)
  | endTag (name : Str)
  | comment (data : Str)
  | char (c : Nat)
  | eof
  deriving Repr, BEq, Inhabited

/-- 13.2.4.1 The insertion mode -/
inductive Mode where
  | initial | beforeHtml | beforeHead | inHead | inHeadNoscript | afterHead | inBody | text
  | inTable | inTableText | inCaption | inColumnGroup | inTableBody | inRow | inCell | inSelect
  | inSelectInTable | inTemplate | afterBody | inFrameset | afterFrameset | afterAfterBody
  | afterAfterFrameset
  deriving DecidableEq, BEq, Repr, Inhabited

inductive QuirksMode where
  | noQuirks | limitedQuirks | quirks
  deriving DecidableEq, BEq, Repr, Inhabited

/-- tokenizer states the tree-construction stage switches the tokenizer to -/
inductive TokSwitch where
  | rcdata | rawtext | scriptData | plaintext
  deriving DecidableEq, BEq, Repr, Inhabited

def TokSwitch.name : TokSwitch → String
  | .rcdata => "rcdata" | .rawtext => "rawtext" | .scriptData => "scriptData" | .plaintext => "plaintext"

/-- an entry of the list of active formatting elements: a marker, or an element together with
"the token for which it was created" -/
inductive AfeEntry where
  | marker
  | elem (node : NodeId) (name : Str) (attrs : List (Str × Str))
  deriving Repr, BEq, Inhabited

def AfeEntry.node? : AfeEntry → Option NodeId
  | .marker => none
  | .elem n _ _ => some n

/-- NON-STANDARD switches.  All `false` (the default) = the standard.  Each switch re-creates ONE
documented deviation of html5lib 1.1; they exist only so that the differential test can CONFIRM an
explanation ("with exactly this deviation the specification reproduces html5lib's tree"), see
NOTES.md.  Nothing in the specification proper depends on them. -/
structure Dev where
  specialHtml5lib : Bool := false        -- html5lib's special category
  dialogUnknown : Bool := false          -- `dialog` is an ordinary element
  rubyOld : Bool := false                -- rb / rtc unknown, rp / rt as in the 2011 drafts
  breakoutInFragment : Bool := false     -- foreign-content breakout also in the fragment case
  xmlBase : Bool := false                -- `xml:base` in "adjust foreign attributes"
  svgLegacyAttrs : Bool := false         -- contentScriptType, contentStyleType, externalResourcesRequired, filterRes
  noFeDropShadow : Bool := false         -- no fedropshadow → feDropShadow fix-up
  endBrKeepsFramesetOk : Bool := false   -- `</br>` does not set frameset-ok to "not ok"
  aaaInnerLoop3 : Bool := false          -- adoption agency: inner loop ends after 3 iterations
  aaaBookmarkStale : Bool := false       -- adoption agency: bookmark index not corrected after the removal
  aaaNotInScopeOther : Bool := false     -- adoption agency: formatting element not in scope → "any other end tag"
  cellContextInCell : Bool := false      -- reset insertion mode: td / th context element → "in cell"
  noFormContext : Bool := false          -- fragment case: form element pointer not initialised from the context
  commandHead : Bool := false            -- `command` handled like base / link
  contextScriptRawtext : Bool := false   -- fragment with context script / noscript: RAWTEXT
  tableTextAlways : Bool := false        -- "in table": every character token starts "in table text"
  tableStartTagViaCurrentMode : Bool := false  -- "in table" `<table>`: an implied `</table>` through the CURRENT mode; no reprocessing in the fragment case
  buttonLostInTable : Bool := false      -- `<button>` closing a button while foster parenting: the token is dropped
  fosterFlagReset : Bool := false        -- li / dd / dt / option: a nested end tag switches foster parenting off
  wsNoReconstruct : Bool := false        -- whitespace in "in caption" / "in cell" / "after body": inserted without reconstructing the formatting elements
  textareaInBody : Bool := false         -- `<textarea>` does not switch to the "text" insertion mode
  dropNewlineHtml5lib : Bool := false    -- the LF after pre / listing / textarea is dropped by the next whitespace token that reaches "in body"
  tableTextDoctypeNoFlush : Bool := false  -- "in table text": a DOCTYPE token is ignored without flushing the pending characters
  charsRunUnit : Bool := false           -- a tokenizer `Characters` token is ONE token: whitespace inside it is not treated as whitespace
  nameOnly : Bool := false               -- "is a p element" etc. compare the local name only, not the namespace
  deriving Inhabited

structure St where
  dev : Dev := {}
  arena : Array Node
  document : NodeId
  /-- fragment case: the context element (an element that is NOT in the tree) -/
  context : Option NodeId := none
  scripting : Bool := false
  /-- stack of open elements; the HEAD of the list is the *current node* (the bottommost node),
  the LAST entry is the first / topmost node (`html`) -/
  stack : List NodeId := []
  /-- list of active formatting elements in the order of the standard (earliest entry first) -/
  afe : List AfeEntry := []
  /-- stack of template insertion modes; head = current template insertion mode -/
  templateModes : List Mode := []
  mode : Mode := .initial
  originalMode : Mode := .initial
  headPointer : Option NodeId := none
  formPointer : Option NodeId := none
  framesetOk : Bool := true
  fosterParenting : Bool := false
  quirks : QuirksMode := .noQuirks
  /-- pending table character tokens -/
  pendingTableChars : List Nat := []
  /-- "if the next token is a U+000A LINE FEED (LF) character token, then ignore that token" -/
  skipNextLF : Bool := false
  stopped : Bool := false
  /-- tokenizer switch requested while processing the current token -/
  tokSwitch : Option TokSwitch := none
  deriving Inhabited

abbrev M := StateT St (Except PyErr)

def fail {α} (site : String) : M α := throw (.lookupError ("spec-tree:" ++ site))
def outOfFuel {α} (site : String) : M α := throw (.outOfFuel ("spec-tree:" ++ site))

/-! ### arena primitives -/

def getNode (id : NodeId) : M Node := do
  match (← get).arena[id]? with
  | some n => pure n
  | none => fail "bad-node-id"

def modifyNode (id : NodeId) (f : Node → Node) : M Unit :=
  modify fun s => { s with arena := s.arena.modify id f }

def newNode (k : Kind) : M NodeId := do
  let s ← get
  let id := s.arena.size
  set { s with arena := s.arena.push { kind := k } }
  pure id

/-- element type of a node (`none` for non-elements) -/
def etypeOf (id : NodeId) : M (Option EType) := do
  match (← getNode id).kind with
  | .element ns n _ => pure (some (ns, n))
  | _ => pure none

def isHtml (id : NodeId) (name : Str) : M Bool := do
  if (← get).dev.nameOnly then pure (((← etypeOf id).map (·.2)) == some name)      -- NON-STANDARD (Dev)
  else pure ((← etypeOf id) == some (NS.html, name))

def isHtmlAmong (id : NodeId) (names : List Str) : M Bool := do
  match ← etypeOf id with
  | some (.html, n) => pure (among n names)
  | some (_, n) => pure ((← get).dev.nameOnly && among n names)                     -- NON-STANDARD (Dev)
  | _ => pure false

def attrsOf (id : NodeId) : M (List Attr) := do
  match (← getNode id).kind with
  | .element _ _ a => pure a
  | _ => pure []

/-- DOM "remove": detach a node from its parent, if any -/
def detach (id : NodeId) : M Unit := do
  match (← getNode id).parent with
  | none => pure ()
  | some p =>
    modifyNode p fun n => { n with children := n.children.filter (· != id) }
    modifyNode id fun n => { n with parent := none }

/-- DOM "insert" `child` into `parent` before `before` (`none` = after the last child); a node that
already has a parent is removed from it first -/
def insertNode (parent : NodeId) (before : Option NodeId) (child : NodeId) : M Unit := do
  detach child
  modifyNode child fun n => { n with parent := some parent }
  match before with
  | none => modifyNode parent fun n => { n with children := n.children ++ [child] }
  | some b =>
    let kids := (← getNode parent).children
    if kids.contains b then
      modifyNode parent fun n =>
        { n with children := n.children.flatMap fun c => if c == b then [child, c] else [c] }
    else fail "insert-before: reference is not a child"

def appendNode (parent child : NodeId) : M Unit := insertNode parent none child

/-! ### result -/

/-- merge adjacent text children (comparison format) -/
def mergeText : List Tree → List Tree
  | [] => []
  | t :: rest =>
    match t, mergeText rest with
    | Tree.text a, Tree.text b :: r => Tree.text (a ++ b) :: r
    | t, r => t :: r

/-- the abstract tree of a node; adjacent Text nodes are printed as one text (representation of
the comparison format), template contents are printed as a nested `frag` child -/
def toTreeAux (arena : Array Node) : Nat → NodeId → List Tree
  | 0, _ => []
  | fuel + 1, id =>
    match arena[id]? with
    | none => []
    | some n =>
      let kids := mergeText (n.children.flatMap (toTreeAux arena fuel))
      let kids := match n.content with
        | some c => Tree.frag (mergeText (((arena[c]?.map (·.children)).getD []).flatMap (toTreeAux arena fuel))) :: kids
        | none => kids
      match n.kind with
      | .document => [Tree.doc kids]
      | .contents => [Tree.frag kids]
      | .doctype nm p s => [Tree.doctype (some nm) (some p) (some s)]
      | .element ns nm attrs => [Tree.elem (some ns.uri) nm attrs kids]
      | .text d => [Tree.text d]
      | .comment d => [Tree.comment d]

end H5.Spec.TC
