/-
  H5.Spec.TreeConstruction.ModesBody — 13.2.6.4.7 The "in body" insertion mode.
-/
import H5.Spec.TreeConstruction.ModesHead
namespace H5.Spec.TC
open H5

def headingNames : List Str := strs ["h1", "h2", "h3", "h4", "h5", "h6"]

/-- "if the stack of open elements has a p element in button scope, then close a p element" -/
def closePIfInButtonScope : M Unit := do
  if ← hasInScope .button (lit "p") then closeP

/-- "for each attribute on the token, check to see if the attribute is already present on the
element; if it is not, add the attribute and its corresponding value to that element" -/
def addMissingAttrs (el : NodeId) (attrs : List (Str × Str)) : M Unit := do
  modifyNode el fun n =>
    match n.kind with
    | .element ns nm as =>
      let extra := attrs.foldl (fun (acc : List Attr) (k, v) =>
        if (as ++ acc).any (fun a => a.ns.isNone && a.name == k) then acc
        else acc ++ [{ ns := none, name := k, value := v }]) []
      { n with kind := .element ns nm (as ++ extra) }
    | _ => n

/-- NON-STANDARD (Dev.fosterFlagReset): html5lib closes li / dd / dt / p / option from these handlers with
a nested end tag sent to the CURRENT phase; "in table" (and the modes that fall back to it) end their
"anything else" branch by switching foster parenting off -/
def nestedEndTagArtifact : M Unit := do
  let s ← get
  if s.dev.fosterFlagReset && [Mode.inTable, .inTableBody, .inRow].contains s.mode then
    set { s with fosterParenting := false }

/-- the `li` / `dd`,`dt` start-tag loop: `closers` = names that get closed -/
def listItemLoop (closers : List Str) : List NodeId → M Unit
  | [] => pure ()
  | node :: rest => do
    let ty ← etypeOf node
    let ty := if (← get).dev.nameOnly then ty.map (fun e => (NS.html, e.2)) else ty
    match ty with
    | some (.html, nm) =>
      if among nm closers then
        -- generate implied end tags except for nm; (parse error check); pop until nm popped
        generateImpliedEndTags (some nm)
        popUntilHtml nm
        nestedEndTagArtifact
      else if (← isSpecialM (.html, nm)) && !(among nm (strs ["address", "div", "p"])) then pure ()
      else listItemLoop closers rest
    | some e => if ← isSpecialM e then pure () else listItemLoop closers rest
    | none => listItemLoop closers rest

/-- li / dd / dt: steps 6 and 7 -/
def closePForListItem : M Unit := do
  if ← hasInScope .button (lit "p") then
    closeP
    nestedEndTagArtifact

def bodyStartTag (r : Rec) (t : Token) (name : Str) (attrs : List (Str × Str)) (selfClosing : Bool) : M Unit := do
  let s ← get
  let is (n : String) : Bool := name == lit n
  let oneOf (l : List Str) : Bool := among name l
  if is "html" then
    -- parse error; ignore if there is a template element on the stack
    if ← stackHasHtml (lit "template") then pure ()
    else match s.stack.getLast? with
      | some top => addMissingAttrs top attrs
      | none => pure ()
  else if oneOf (strs ["base", "basefont", "bgsound", "link", "meta", "noframes", "script", "style",
      "template", "title"]) || (s.dev.commandHead && is "command") then r.rules .inHead t
  else if is "body" then
    -- parse error.  second element on the stack is not a body element / only one element / template
    let second := (s.stack.reverse)[1]?
    let secondIsBody ← match second with
      | some b => isHtml b (lit "body")
      | none => pure false
    if !secondIsBody || s.stack.length == 1 || (← stackHasHtml (lit "template")) then pure ()
    else
      setFramesetNotOk
      match second with
      | some b => addMissingAttrs b attrs
      | none => pure ()
  else if is "frameset" then
    let second := (s.stack.reverse)[1]?
    let secondIsBody ← match second with
      | some b => isHtml b (lit "body")
      | none => pure false
    if s.stack.length == 1 || !secondIsBody then pure ()        -- ignore (fragment case)
    else if !s.framesetOk then pure ()                          -- ignore
    else
      match second with
      | some b => detach b                                      -- 1. remove the second element from its parent
      | none => pure ()
      -- 2. pop all the nodes from the bottom of the stack, up to but not including the root html
      if s.dev.nameOnly then
        -- NON-STANDARD (Dev): "while the current node is not NAMED html, pop"
        clearStackBackTo ["html"]
      else
        modify fun s => { s with stack := s.stack.drop (s.stack.length - 1) }
      let _ ← insertHtmlElement name attrs                      -- 3
      setMode .inFrameset                                       -- 4
  else if oneOf (strs ["address", "article", "aside", "blockquote", "center", "details", "dialog",
      "dir", "div", "dl", "fieldset", "figcaption", "figure", "footer", "header", "hgroup", "main",
      "menu", "nav", "ol", "p", "section", "summary", "ul"]) && !(s.dev.dialogUnknown && is "dialog") then
    closePIfInButtonScope
    let _ ← insertHtmlElement name attrs
  else if oneOf headingNames then
    closePIfInButtonScope
    if ← currentIsAmong headingNames then pop                   -- parse error; pop the current node
    let _ ← insertHtmlElement name attrs
  else if oneOf (strs ["pre", "listing"]) then
    closePIfInButtonScope
    let _ ← insertHtmlElement name attrs
    modify fun s => { s with skipNextLF := true, framesetOk := false }
  else if is "form" then
    let hasTemplate ← stackHasHtml (lit "template")
    if s.formPointer.isSome && !hasTemplate then pure ()        -- parse error, ignore
    else
      closePIfInButtonScope
      let el ← insertHtmlElement name attrs
      if !hasTemplate then modify fun s => { s with formPointer := some el }
  else if is "li" then
    setFramesetNotOk                                            -- 1
    listItemLoop (strs ["li"]) s.stack                          -- 2.-5.
    closePForListItem                                           -- 6
    let _ ← insertHtmlElement name attrs                        -- 7
  else if oneOf (strs ["dd", "dt"]) then
    setFramesetNotOk
    listItemLoop (strs ["dd", "dt"]) s.stack
    closePForListItem
    let _ ← insertHtmlElement name attrs
  else if is "plaintext" then
    closePIfInButtonScope
    let _ ← insertHtmlElement name attrs
    switchTokenizer .plaintext
  else if is "button" then
    if ← hasInScope .default (lit "button") then                -- 1. parse error
      generateImpliedEndTags
      popUntilHtml (lit "button")
      if s.dev.buttonLostInTable && s.fosterParenting then return     -- NON-STANDARD (Dev)
    reconstructAFE                                              -- 2
    let _ ← insertHtmlElement name attrs                        -- 3
    setFramesetNotOk                                            -- 4
  else if is "a" then
    -- an `a` element in the list after the last marker: parse error, adoption agency, then remove
    -- that element from the list and the stack if the algorithm did not already do so
    let found := (afterLastMarker s.afe).reverse.find? fun e =>
      match e with
      | .elem _ n _ => n == lit "a"
      | .marker => false
    match found with
    | some (.elem el _ _) =>
      adoptionAgency name
      removeFromAfe el
      removeFromStack el
    | _ => pure ()
    reconstructAFE
    let el ← insertHtmlElement name attrs
    pushFormatting el name attrs
  else if oneOf (strs ["b", "big", "code", "em", "font", "i", "s", "small", "strike", "strong", "tt", "u"]) then
    reconstructAFE
    let el ← insertHtmlElement name attrs
    pushFormatting el name attrs
  else if is "nobr" then
    reconstructAFE
    if ← hasInScope .default (lit "nobr") then                  -- parse error
      adoptionAgency name
      reconstructAFE
    let el ← insertHtmlElement name attrs
    pushFormatting el name attrs
  else if oneOf (strs ["applet", "marquee", "object"]) then
    reconstructAFE
    let _ ← insertHtmlElement name attrs
    pushMarker
    setFramesetNotOk
  else if is "table" then
    if s.quirks != .quirks then closePIfInButtonScope
    let _ ← insertHtmlElement name attrs
    setFramesetNotOk
    setMode .inTable
  else if oneOf (strs ["area", "br", "embed", "img", "keygen", "wbr"]) then
    reconstructAFE
    let _ ← insertHtmlElement name attrs
    pop                                                         -- acknowledge the self-closing flag
    setFramesetNotOk
  else if is "input" then
    reconstructAFE
    let _ ← insertHtmlElement name attrs
    pop
    match attrValue? attrs "type" with
    | some v => if eqCI v (lit "hidden") then pure () else setFramesetNotOk
    | none => setFramesetNotOk
  else if oneOf (strs ["param", "source", "track"]) then
    let _ ← insertHtmlElement name attrs
    pop
  else if is "hr" then
    closePIfInButtonScope
    let _ ← insertHtmlElement name attrs
    pop
    setFramesetNotOk
  else if is "image" then
    -- parse error; change the token's tag name to "img" and reprocess it
    r.reprocess (.startTag (lit "img") attrs selfClosing)
  else if is "textarea" then
    let _ ← insertHtmlElement name attrs                        -- 1
    -- 2. ignore a following LF;  3. RCDATA;  4. original insertion mode;  5. frameset-ok;  6. text
    switchTokenizer .rcdata
    if s.dev.textareaInBody then
      modify fun s => { s with skipNextLF := true, framesetOk := false }     -- NON-STANDARD (Dev)
    else
      modify fun s => { s with skipNextLF := true, originalMode := s.mode, framesetOk := false }
      setMode .text
  else if is "xmp" then
    closePIfInButtonScope
    reconstructAFE
    setFramesetNotOk
    genericTextParsing name attrs .rawtext
  else if is "iframe" then
    setFramesetNotOk
    genericTextParsing name attrs .rawtext
  else if is "noembed" || (is "noscript" && s.scripting) then
    genericTextParsing name attrs .rawtext
  else if is "select" then
    reconstructAFE
    let _ ← insertHtmlElement name attrs
    setFramesetNotOk
    if [Mode.inTable, .inCaption, .inTableBody, .inRow, .inCell].contains (← get).mode then
      setMode .inSelectInTable
    else setMode .inSelect
  else if oneOf (strs ["optgroup", "option"]) then
    if ← currentIs (lit "option") then
      pop
      nestedEndTagArtifact
    reconstructAFE
    let _ ← insertHtmlElement name attrs
  else if oneOf (strs ["rb", "rtc"]) && !s.dev.rubyOld then
    if ← hasInScope .default (lit "ruby") then generateImpliedEndTags
    -- (current node is not now a ruby element: parse error)
    let _ ← insertHtmlElement name attrs
  else if oneOf (strs ["rp", "rt"]) then
    if ← hasInScope .default (lit "ruby") then
      generateImpliedEndTags (if s.dev.rubyOld then none else some (lit "rtc"))
    -- (current node is not now a rtc or ruby element: parse error)
    let _ ← insertHtmlElement name attrs
  else if is "math" then
    reconstructAFE
    let _ ← insertForeignElement .mathml name (adjustForeignAttrs (adjustMathMLAttrs attrs) s.dev.xmlBase)
    if selfClosing then pop                                     -- and acknowledge the flag
  else if is "svg" then
    reconstructAFE
    let _ ← insertForeignElement .svg name
      (adjustForeignAttrs (adjustSVGAttrs attrs s.dev.svgLegacyAttrs) s.dev.xmlBase)
    if selfClosing then pop
  else if oneOf (strs ["caption", "col", "colgroup", "frame", "head", "tbody", "td", "tfoot", "th",
      "thead", "tr"]) then pure ()                              -- parse error, ignore
  else
    -- any other start tag
    reconstructAFE
    let _ ← insertHtmlElement name attrs

def bodyEndTag (r : Rec) (t : Token) (name : Str) : M Unit := do
  let s ← get
  let is (n : String) : Bool := name == lit n
  let oneOf (l : List Str) : Bool := among name l
  if is "template" then r.rules .inHead t
  else if is "body" then
    if !(← hasInScope .default (lit "body")) then pure ()       -- parse error, ignore
    else setMode .afterBody
  else if is "html" then
    if !(← hasInScope .default (lit "body")) then pure ()
    else
      setMode .afterBody
      r.reprocess t
  else if oneOf (strs ["address", "article", "aside", "blockquote", "button", "center", "details",
      "dialog", "dir", "div", "dl", "fieldset", "figcaption", "figure", "footer", "header", "hgroup",
      "listing", "main", "menu", "nav", "ol", "pre", "section", "summary", "ul"]) &&
      !(s.dev.dialogUnknown && is "dialog") then
    if !(← hasInScope .default name) then pure ()               -- parse error, ignore
    else
      generateImpliedEndTags                                    -- 1
      popUntilHtml name                                         -- 3
  else if is "form" then
    if !(← stackHasHtml (lit "template")) then
      let node := s.formPointer                                 -- 1
      modify fun s => { s with formPointer := none }            -- 2
      match node with
      | none => pure ()                                         -- 3. parse error, ignore
      | some n =>
        if !(← hasNodeInScope .default n) then pure ()
        else
          generateImpliedEndTags                                -- 4
          removeFromStack n                                     -- 6
    else
      if !(← hasInScope .default (lit "form")) then pure ()
      else
        generateImpliedEndTags
        popUntilHtml (lit "form")
  else if is "p" then
    if !(← hasInScope .button (lit "p")) then
      -- parse error; insert an HTML element for a "p" start tag token with no attributes
      insertHtml "p"
    closeP
  else if is "li" then
    if !(← hasInScope .listItem (lit "li")) then pure ()
    else
      generateImpliedEndTags (some (lit "li"))
      popUntilHtml (lit "li")
  else if oneOf (strs ["dd", "dt"]) then
    if !(← hasInScope .default name) then pure ()
    else
      generateImpliedEndTags (some name)
      popUntilHtml name
  else if oneOf headingNames then
    if !(← hasAnyInScope .default headingNames) then pure ()
    else
      generateImpliedEndTags
      popUntilHtmlAmong headingNames
  else if oneOf formattingNames then adoptionAgency name
  else if oneOf (strs ["applet", "marquee", "object"]) then
    if !(← hasInScope .default name) then pure ()
    else
      generateImpliedEndTags
      popUntilHtml name
      clearAfeToLastMarker
  else if is "br" then
    -- parse error; drop the attributes; act as described for a "br" start tag token
    reconstructAFE
    insertHtml "br"
    pop
    if !s.dev.endBrKeepsFramesetOk then setFramesetNotOk
  else anyOtherEndTag name

def modeInBody (r : Rec) (t : Token) : M Unit := do
  match t with
  | .char c =>
    if c == 0 then pure ()                       -- parse error, ignore
    else if isWs c then
      let s ← get
      if s.dev.dropNewlineHtml5lib && s.skipNextLF then
        -- NON-STANDARD (Dev): html5lib's processSpaceCharactersDropNewline
        set { s with skipNextLF := false }
        let cur ← currentNode
        if c == 10 && (← isHtmlAmong cur (strs ["pre", "listing", "textarea"])) && (← getNode cur).children.isEmpty then
          return
      reconstructAFE
      insertChar c
    else
      reconstructAFE
      insertChar c
      setFramesetNotOk
  | .comment d => insertComment d
  | .doctype .. => pure ()
  | .startTag name attrs sc => bodyStartTag r t name attrs sc
  | .endTag name => bodyEndTag r t name
  | .eof =>
    if !(← get).templateModes.isEmpty then r.rules .inTemplate t
    else stopParsing

end H5.Spec.TC
