/-
  H5.Spec.TreeConstruction.ModesHead — 13.2.6.4.1 – 13.2.6.4.6 and 13.2.6.4.8:
  the "initial", "before html", "before head", "in head", "in head noscript", "after head" and
  "text" insertion modes.
-/
import H5.Spec.TreeConstruction.Algorithms
namespace H5.Spec.TC
open H5

/-- late-bound entry points (the knot is tied in `Main.lean`) -/
structure Rec where
  /-- "process the token using the rules for the … insertion mode" -/
  rules : Mode → Token → M Unit
  /-- "reprocess the token" (through the tree-construction dispatcher) -/
  reprocess : Token → M Unit

/-- TAB, LF, FF, CR, SPACE -/
def isWs (c : Nat) : Bool := c == 9 || c == 10 || c == 12 || c == 13 || c == 32

def attrValue? (attrs : List (Str × Str)) (name : String) : Option Str := attrs.lookup (lit name)

/-! ### 13.2.6.4.1 The "initial" insertion mode -/

/-- the DOCTYPE conditions that set the Document to quirks mode / limited-quirks mode -/
def quirksOf (name pub sys : Option Str) (forceQuirks : Bool) : QuirksMode :=
  let pubIs (l : List Str) := match pub with
    | some p => l.any (eqCI p)
    | none => false
  let pubStarts (l : List Str) := match pub with
    | some p => l.any (startsWithCI p)
    | none => false
  let sysIs (l : List Str) := match sys with
    | some p => l.any (eqCI p)
    | none => false
  if forceQuirks || name != some (lit "html") || pubIs quirksPublicExact || sysIs quirksSystemExact
      || pubStarts quirksPublicPrefix || (sys.isNone && pubStarts quirksPublicPrefixNoSystem) then .quirks
  else if pubStarts limitedQuirksPublicPrefix || (sys.isSome && pubStarts quirksPublicPrefixNoSystem) then
    .limitedQuirks
  else .noQuirks

def modeInitial (r : Rec) (t : Token) : M Unit := do
  let doc := (← get).document
  match t with
  | .char c =>
    if isWs c then pure ()                       -- ignore the token
    else anythingElse
  | .comment d => insertComment d (some { parent := doc })
  | .doctype name pub sys fq =>
    -- append a DocumentType node (missing name / identifiers become the empty string)
    let dt ← newNode (.doctype (name.getD []) (pub.getD []) (sys.getD []))
    appendNode doc dt
    modify fun s => { s with quirks := quirksOf name pub sys fq }
    setMode .beforeHtml
  | _ => anythingElse
where
  anythingElse : M Unit := do
    -- not an iframe srcdoc document: parse error, quirks mode
    modify fun s => { s with quirks := .quirks }
    setMode .beforeHtml
    r.reprocess t

/-! ### 13.2.6.4.2 The "before html" insertion mode -/

def modeBeforeHtml (r : Rec) (t : Token) : M Unit := do
  let doc := (← get).document
  match t with
  | .doctype .. => pure ()                        -- parse error, ignore
  | .comment d => insertComment d (some { parent := doc })
  | .char c => if isWs c then pure () else anythingElse
  | .startTag name attrs _ =>
    if name == lit "html" then
      -- create an element for the token, append it to the Document, push it
      let el ← createElement .html name (plainAttrs attrs)
      appendNode doc el
      push el
      setMode .beforeHead
    else anythingElse
  | .endTag name =>
    if among name (strs ["head", "body", "html", "br"]) then anythingElse
    else pure ()                                  -- parse error, ignore
  | .eof => anythingElse
where
  anythingElse : M Unit := do
    let doc := (← get).document
    let el ← createElement .html (lit "html") []
    appendNode doc el
    push el
    setMode .beforeHead
    r.reprocess t

/-! ### 13.2.6.4.3 The "before head" insertion mode -/

def modeBeforeHead (r : Rec) (t : Token) : M Unit := do
  match t with
  | .char c => if isWs c then pure () else anythingElse
  | .comment d => insertComment d
  | .doctype .. => pure ()
  | .startTag name attrs _ =>
    if name == lit "html" then r.rules .inBody t
    else if name == lit "head" then
      let el ← insertHtmlElement name attrs
      modify fun s => { s with headPointer := some el }
      setMode .inHead
    else anythingElse
  | .endTag name =>
    if among name (strs ["head", "body", "html", "br"]) then anythingElse
    else pure ()
  | .eof => anythingElse
where
  anythingElse : M Unit := do
    let el ← insertHtmlElement (lit "head") []
    modify fun s => { s with headPointer := some el }
    setMode .inHead
    r.reprocess t

/-! ### 13.2.6.4.4 The "in head" insertion mode -/

def modeInHead (r : Rec) (t : Token) : M Unit := do
  match t with
  | .char c => if isWs c then insertChar c else anythingElse
  | .comment d => insertComment d
  | .doctype .. => pure ()
  | .startTag name attrs _ =>
    if name == lit "html" then r.rules .inBody t
    else if among name (strs ["base", "basefont", "bgsound", "link"]) ||
        ((← get).dev.commandHead && name == lit "command") then
      let _ ← insertHtmlElement name attrs
      pop                                       -- acknowledge the self-closing flag
    else if name == lit "meta" then
      let _ ← insertHtmlElement name attrs
      pop                                       -- (encoding sniffing: not part of the tree)
    else if name == lit "title" then genericTextParsing name attrs .rcdata
    else if (name == lit "noscript" && (← get).scripting) || among name (strs ["noframes", "style"]) then
      genericTextParsing name attrs .rawtext
    else if name == lit "noscript" then
      let _ ← insertHtmlElement name attrs
      setMode .inHeadNoscript
    else if name == lit "script" then
      -- 1.-6. create the element at the adjusted insertion location, insert and push it
      let _ ← insertHtmlElement name attrs
      switchTokenizer .scriptData               -- 8
      modify fun s => { s with originalMode := s.mode }   -- 9
      setMode .text                             -- 10
    else if name == lit "template" then
      let _ ← insertHtmlElement name attrs
      pushMarker
      setFramesetNotOk
      setMode .inTemplate
      modify fun s => { s with templateModes := .inTemplate :: s.templateModes }
    else if name == lit "head" then pure ()     -- parse error, ignore
    else anythingElse
  | .endTag name =>
    if name == lit "head" then
      pop
      setMode .afterHead
    else if among name (strs ["body", "html", "br"]) then anythingElse
    else if name == lit "template" then
      if !(← stackHasHtml (lit "template")) then pure ()     -- parse error, ignore
      else
        generateAllImpliedEndTagsThoroughly      -- 1
        -- 2. current node is not a template element: parse error
        popUntilHtml (lit "template")            -- 3
        clearAfeToLastMarker                     -- 4
        modify fun s => { s with templateModes := s.templateModes.tail }   -- 5
        resetInsertionMode                       -- 6
    else pure ()                                -- any other end tag: parse error, ignore
  | .eof => anythingElse
where
  anythingElse : M Unit := do
    pop                                          -- the head element
    setMode .afterHead
    r.reprocess t

/-! ### 13.2.6.4.5 The "in head noscript" insertion mode -/

def modeInHeadNoscript (r : Rec) (t : Token) : M Unit := do
  match t with
  | .doctype .. => pure ()
  | .char c => if isWs c then r.rules .inHead t else anythingElse
  | .comment _ => r.rules .inHead t
  | .startTag name _ _ =>
    if name == lit "html" then r.rules .inBody t
    else if among name (strs ["basefont", "bgsound", "link", "meta", "noframes", "style"]) then
      r.rules .inHead t
    else if among name (strs ["head", "noscript"]) then pure ()     -- parse error, ignore
    else anythingElse
  | .endTag name =>
    if name == lit "noscript" then
      pop
      setMode .inHead
    else if name == lit "br" then anythingElse
    else pure ()
  | .eof => anythingElse
where
  anythingElse : M Unit := do
    pop                                          -- the noscript element
    setMode .inHead
    r.reprocess t

/-! ### 13.2.6.4.6 The "after head" insertion mode -/

def modeAfterHead (r : Rec) (t : Token) : M Unit := do
  match t with
  | .char c => if isWs c then insertChar c else anythingElse
  | .comment d => insertComment d
  | .doctype .. => pure ()
  | .startTag name attrs _ =>
    if name == lit "html" then r.rules .inBody t
    else if name == lit "body" then
      let _ ← insertHtmlElement name attrs
      setFramesetNotOk
      setMode .inBody
    else if name == lit "frameset" then
      let _ ← insertHtmlElement name attrs
      setMode .inFrameset
    else if among name (strs ["base", "basefont", "bgsound", "link", "meta", "noframes", "script",
        "style", "template", "title"]) || ((← get).dev.commandHead && name == lit "command") then
      -- parse error; push the node pointed to by the head element pointer
      match (← get).headPointer with
      | some h =>
        push h
        r.rules .inHead t
        removeFromStack h            -- "it might not be the current node at this point"
      | none => fail "after head: head element pointer is null"
    else if name == lit "head" then pure ()
    else anythingElse
  | .endTag name =>
    if name == lit "template" then r.rules .inHead t
    else if among name (strs ["body", "html", "br"]) then anythingElse
    else pure ()
  | .eof => anythingElse
where
  anythingElse : M Unit := do
    let _ ← insertHtmlElement (lit "body") []
    setMode .inBody
    r.reprocess t

/-! ### 13.2.6.4.8 The "text" insertion mode -/

def modeText (r : Rec) (t : Token) : M Unit := do
  match t with
  | .char c => insertChar c
  | .eof =>
    -- parse error; (mark a script as already started); pop; switch back; reprocess
    pop
    setMode (← get).originalMode
    r.reprocess t
  | .endTag _ =>
    -- `</script>` (no script execution here) and any other end tag
    pop
    setMode (← get).originalMode
  | _ => pure ()        -- cannot happen: the tokenizer emits nothing else in these states

end H5.Spec.TC
