/-
  H5.Spec.TreeConstruction.Stack — 13.2.4.2 "The stack of open elements", 13.2.4.3 "The list of
  active formatting elements" (push with the Noah's Ark clause, clear up to the last marker),
  "has an element in the specific scope", "generate implied end tags".
-/
import H5.Spec.TreeConstruction.Dom
namespace H5.Spec.TC
open H5

/-! ### the stack of open elements -/

def currentNode? : M (Option NodeId) := do pure (← get).stack.head?

def currentNode : M NodeId := do
  match (← get).stack with
  | n :: _ => pure n
  | [] => fail "current-node: empty stack"

def push (n : NodeId) : M Unit := modify fun s => { s with stack := n :: s.stack }

/-- pop the current node off the stack of open elements -/
def pop : M Unit := modify fun s => { s with stack := s.stack.tail }

def removeFromStack (n : NodeId) : M Unit := modify fun s => { s with stack := s.stack.filter (· != n) }

def inStack (n : NodeId) : M Bool := do pure ((← get).stack.contains n)

/-- is the current node an HTML element with this tag name? -/
def currentIs (name : Str) : M Bool := do
  match ← currentNode? with
  | some n => isHtml n name
  | none => pure false

def currentIsAmong (names : List Str) : M Bool := do
  match ← currentNode? with
  | some n => isHtmlAmong n names
  | none => pure false

/-- "pop elements from the stack of open elements until an element satisfying `p` has been popped"
(structural on a copy of the stack) -/
def popUntilAux (p : NodeId → M Bool) : List NodeId → M Unit
  | [] => pure ()
  | n :: rest => do
    pop
    if ← p n then pure () else popUntilAux p rest

def popUntil (p : NodeId → M Bool) : M Unit := do popUntilAux p (← get).stack

/-- "... until an HTML element with tag name `name` has been popped" -/
def popUntilHtml (name : Str) : M Unit := popUntil fun n => isHtml n name
def popUntilHtmlAmong (names : List Str) : M Unit := popUntil fun n => isHtmlAmong n names
def popUntilNode (target : NodeId) : M Unit := popUntil fun n => pure (n == target)

/-- is there an HTML element with this tag name on the stack? ("there is a template element on
the stack of open elements") -/
def stackHasHtml (name : Str) : M Bool := do
  (← get).stack.anyM fun n => isHtml n name

/-! ### "has an element in the specific scope"

  1. Initialize node to be the current node.  2. If node is the target node, terminate in a match
  state.  3. Otherwise, if node is one of the element types in list, terminate in a failure
  state.  4. Otherwise, set node to the previous entry in the stack and return to step 2. -/

/-- the algorithm on a list of (node, element type) pairs, current node first -/
def inScopePure (isTarget : NodeId × Option EType → Bool) (stops : EType → Bool) :
    List (NodeId × Option EType) → Bool
  | [] => false          -- cannot happen: `html` is in every list
  | n :: rest =>
    if isTarget n then true                                   -- 2. match state
    else
      match n.2 with
      | some e => if stops e then false                       -- 3. failure state
                  else inScopePure isTarget stops rest        -- 4. previous entry
      | none => inScopePure isTarget stops rest

/-- the stack of open elements with the element type of every entry -/
def stackTypes : M (List (NodeId × Option EType)) := do
  (← get).stack.mapM fun n => do pure (n, ← etypeOf n)

/-- "the stack of open elements has a `name` element in … scope" (an HTML element) -/
def hasInScope (sc : Scope) (name : Str) : M Bool := do
  let nameOnly := (← get).dev.nameOnly
  pure (inScopePure (fun n => if nameOnly then n.2.map (·.2) == some name else n.2 == some (NS.html, name))
    sc.stops (← stackTypes))

def hasAnyInScope (sc : Scope) (names : List Str) : M Bool := do
  let nameOnly := (← get).dev.nameOnly
  pure (inScopePure (fun n => match n.2 with
    | some (.html, nm) => among nm names
    | some (_, nm) => nameOnly && among nm names
    | _ => false) sc.stops (← stackTypes))

def hasNodeInScope (sc : Scope) (target : NodeId) : M Bool := do
  pure (inScopePure (fun n => n.1 == target) sc.stops (← stackTypes))

/-! ### "generate implied end tags" -/

/-- how many entries "generate implied end tags" pops: the longest prefix of the stack (current
node first) made of HTML elements in `list`, not counting `except` -/
def impliedCount (list : List Str) (except : Option Str) : List (Option EType) → Nat
  | some (.html, nm) :: rest =>
    if among nm list && some nm != except then impliedCount list except rest + 1 else 0
  | _ => 0

/-- the stack after "generate implied end tags" -/
def impliedPop (list : List Str) (except : Option Str) (types : List (Option EType)) (stack : List NodeId) :
    List NodeId := stack.drop (impliedCount list except types)

/-- element types of the stack as "generate implied end tags" sees them -/
def impliedTypes : M (List (Option EType)) := do
  let nameOnly := (← get).dev.nameOnly
  pure ((← stackTypes).map fun n => if nameOnly then n.2.map (fun e => (NS.html, e.2)) else n.2)

def generateImpliedEndTags (except : Option Str := none) : M Unit := do
  let tys ← impliedTypes
  let list := if (← get).dev.rubyOld then impliedEndTags.filter (fun n => !(among n (strs ["rb", "rtc"])))
    else impliedEndTags
  modify fun s => { s with stack := impliedPop list except tys s.stack }

def generateAllImpliedEndTagsThoroughly : M Unit := do
  let tys ← impliedTypes
  modify fun s => { s with stack := impliedPop impliedEndTagsThoroughly none tys s.stack }

/-- "close a p element" -/
def closeP : M Unit := do
  generateImpliedEndTags (some (lit "p"))
  -- 2. if the current node is not a p element: parse error
  popUntilHtml (lit "p")

/-! ### the list of active formatting elements -/

def pushMarker : M Unit := modify fun s => { s with afe := s.afe ++ [.marker] }

/-- the entries after the last marker (all entries if there is none), in order -/
def afterLastMarker (l : List AfeEntry) : List AfeEntry :=
  (l.reverse.takeWhile (· != .marker)).reverse

/-- attribute sets are compared "as they were when the elements were created by the parser; two
elements have the same attributes if all their parsed attributes can be paired such that the two
attributes in each pair have identical names, namespaces, and values (the order of the attributes
does not matter)" -/
def sameAttrs (a b : List (Str × Str)) : Bool :=
  a.length == b.length && a.all (fun x => b.contains x) && b.all (fun x => a.contains x)

/-- remove the first entry satisfying p -/
def removeFirst (p : AfeEntry → Bool) : List AfeEntry → List AfeEntry
  | [] => []
  | e :: rest => if p e then rest else e :: removeFirst p rest

/-- the entries up to and including the last marker (empty if there is none) -/
def beforeLastMarker (l : List AfeEntry) : List AfeEntry :=
  (l.reverse.dropWhile (· != .marker)).reverse

/-- "same tag name, namespace and attributes" as an element created for (name, attrs); every entry
of the list is an HTML element, so the namespace is always the same -/
def sameEntry (name : Str) (attrs : List (Str × Str)) : AfeEntry → Bool
  | .elem _ n a => n == name && sameAttrs a attrs
  | .marker => false

/-- "push onto the list of active formatting elements" with the Noah's Ark clause: if there are
already three elements after the last marker with the same tag name, namespace and attributes,
remove the earliest such element; then add the element to the end of the list -/
def noahPush (l : List AfeEntry) (node : NodeId) (name : Str) (attrs : List (Str × Str)) : List AfeEntry :=
  let tailPart := afterLastMarker l
  let tailPart :=
    if (tailPart.filter (sameEntry name attrs)).length ≥ 3 then removeFirst (sameEntry name attrs) tailPart
    else tailPart
  beforeLastMarker l ++ tailPart ++ [.elem node name attrs]

def pushFormatting (node : NodeId) (name : Str) (attrs : List (Str × Str)) : M Unit :=
  modify fun s => { s with afe := noahPush s.afe node name attrs }

/-- "clear the list of active formatting elements up to the last marker" -/
def clearToLastMarker (l : List AfeEntry) : List AfeEntry :=
  -- remove entries from the end up to and including the last marker
  (l.reverse.dropWhile (· != .marker)).tail.reverse

def clearAfeToLastMarker : M Unit := modify fun s => { s with afe := clearToLastMarker s.afe }

def removeFromAfe (n : NodeId) : M Unit :=
  modify fun s => { s with afe := s.afe.filter fun e => e.node? != some n }

def inAfe (n : NodeId) : M Bool := do pure ((← get).afe.any fun e => e.node? == some n)

end H5.Spec.TC
