/-
  H5.Spec.TreeConstruction.ModesRest — 13.2.6.4.16 – 13.2.6.4.23 ("in select", "in select in
  table", "in template", "after body", "in frameset", "after frameset", "after after body",
  "after after frameset") and 13.2.6.5 "The rules for parsing tokens in foreign content".
-/
import H5.Spec.TreeConstruction.ModesTable
namespace H5.Spec.TC
open H5

/-! ### 13.2.6.4.16 The "in select" insertion mode -/

def modeInSelect (r : Rec) (t : Token) : M Unit := do
  match t with
  | .char c => if c == 0 then pure () else insertChar c
  | .comment d => insertComment d
  | .doctype .. => pure ()
  | .startTag name attrs _ =>
    let is (n : String) : Bool := name == lit n
    if is "html" then r.rules .inBody t
    else if is "option" then
      if ← currentIs (lit "option") then pop
      let _ ← insertHtmlElement name attrs
    else if is "optgroup" then
      if ← currentIs (lit "option") then pop
      if ← currentIs (lit "optgroup") then pop
      let _ ← insertHtmlElement name attrs
    else if is "select" then
      -- parse error
      if !(← hasInScope .select (lit "select")) then pure ()    -- ignore (fragment case)
      else
        popUntilHtml (lit "select")
        resetInsertionMode
    else if among name (strs ["input", "keygen", "textarea"]) then
      -- parse error
      if !(← hasInScope .select (lit "select")) then pure ()
      else
        popUntilHtml (lit "select")
        resetInsertionMode
        r.reprocess t
    else if among name (strs ["script", "template"]) then r.rules .inHead t
    else pure ()                                                -- parse error, ignore
  | .endTag name =>
    if name == lit "optgroup" then
      -- current node is an option and the node immediately before it is an optgroup: pop
      let s ← get
      match s.stack with
      | cur :: prev :: _ =>
        if (← isHtml cur (lit "option")) && (← isHtml prev (lit "optgroup")) then pop
      | _ => pure ()
      if ← currentIs (lit "optgroup") then pop
      else pure ()                                              -- parse error, ignore
    else if name == lit "option" then
      if ← currentIs (lit "option") then pop else pure ()
    else if name == lit "select" then
      if !(← hasInScope .select (lit "select")) then pure ()
      else
        popUntilHtml (lit "select")
        resetInsertionMode
    else if name == lit "template" then r.rules .inHead t
    else pure ()
  | .eof => r.rules .inBody t

/-! ### 13.2.6.4.17 The "in select in table" insertion mode -/

def selectTableNames : List Str := strs ["caption", "table", "tbody", "tfoot", "thead", "tr", "td", "th"]

def modeInSelectInTable (r : Rec) (t : Token) : M Unit := do
  match t with
  | .startTag name _ _ =>
    if among name selectTableNames then
      -- parse error
      popUntilHtml (lit "select")
      resetInsertionMode
      r.reprocess t
    else r.rules .inSelect t
  | .endTag name =>
    if among name selectTableNames then
      -- parse error
      if !(← hasInScope .table name) then pure ()
      else
        popUntilHtml (lit "select")
        resetInsertionMode
        r.reprocess t
    else r.rules .inSelect t
  | _ => r.rules .inSelect t

/-! ### 13.2.6.4.18 The "in template" insertion mode -/

def modeInTemplate (r : Rec) (t : Token) : M Unit := do
  let switchTo (m : Mode) : M Unit := do
    -- pop the current template insertion mode, push m, switch to m, reprocess
    modify fun s => { s with templateModes := m :: s.templateModes.tail }
    setMode m
    r.reprocess t
  match t with
  | .char _ | .comment _ | .doctype .. => r.rules .inBody t
  | .startTag name _ _ =>
    if among name (strs ["base", "basefont", "bgsound", "link", "meta", "noframes", "script", "style",
        "template", "title"]) then r.rules .inHead t
    else if among name (strs ["caption", "colgroup", "tbody", "tfoot", "thead"]) then switchTo .inTable
    else if name == lit "col" then switchTo .inColumnGroup
    else if name == lit "tr" then switchTo .inTableBody
    else if among name (strs ["td", "th"]) then switchTo .inRow
    else switchTo .inBody
  | .endTag name =>
    if name == lit "template" then r.rules .inHead t
    else pure ()                                                -- parse error, ignore
  | .eof =>
    if !(← stackHasHtml (lit "template")) then stopParsing      -- fragment case
    else
      -- parse error
      popUntilHtml (lit "template")
      clearAfeToLastMarker
      modify fun s => { s with templateModes := s.templateModes.tail }
      resetInsertionMode
      r.reprocess t

/-! ### 13.2.6.4.19 The "after body" insertion mode -/

def modeAfterBody (r : Rec) (t : Token) : M Unit := do
  let anythingElse : M Unit := do
    setMode .inBody
    r.reprocess t
  match t with
  | .char c =>
    if isWs c && (← get).dev.wsNoReconstruct then insertChar c       -- NON-STANDARD (Dev)
    else if isWs c then r.rules .inBody t else anythingElse
  | .comment d =>
    -- insert a comment as the last child of the first element in the stack (the html element)
    match (← get).stack.getLast? with
    | some h => insertComment d (some { parent := h })
    | none => fail "after body: empty stack"
  | .doctype .. => pure ()
  | .startTag name _ _ => if name == lit "html" then r.rules .inBody t else anythingElse
  | .endTag name =>
    if name == lit "html" then
      if (← get).context.isSome then pure ()                    -- fragment case: parse error, ignore
      else setMode .afterAfterBody
    else anythingElse
  | .eof => stopParsing

/-! ### 13.2.6.4.20 The "in frameset" insertion mode -/

def modeInFrameset (r : Rec) (t : Token) : M Unit := do
  match t with
  | .char c => if isWs c then insertChar c else pure ()         -- anything else: parse error, ignore
  | .comment d => insertComment d
  | .doctype .. => pure ()
  | .startTag name attrs _ =>
    if name == lit "html" then r.rules .inBody t
    else if name == lit "frameset" then
      let _ ← insertHtmlElement name attrs
    else if name == lit "frame" then
      let _ ← insertHtmlElement name attrs
      pop
    else if name == lit "noframes" then r.rules .inHead t
    else pure ()
  | .endTag name =>
    if name == lit "frameset" then
      let s ← get
      -- current node is the root html element: parse error, ignore (fragment case)
      if s.stack.length ≤ 1 then pure ()
      else
        pop
        if s.context.isNone && !(← currentIs (lit "frameset")) then setMode .afterFrameset
    else pure ()
  | .eof => stopParsing

/-! ### 13.2.6.4.21 The "after frameset" insertion mode -/

def modeAfterFrameset (r : Rec) (t : Token) : M Unit := do
  match t with
  | .char c => if isWs c then insertChar c else pure ()
  | .comment d => insertComment d
  | .doctype .. => pure ()
  | .startTag name _ _ =>
    if name == lit "html" then r.rules .inBody t
    else if name == lit "noframes" then r.rules .inHead t
    else pure ()
  | .endTag name => if name == lit "html" then setMode .afterAfterFrameset else pure ()
  | .eof => stopParsing

/-! ### 13.2.6.4.22 The "after after body" insertion mode -/

def modeAfterAfterBody (r : Rec) (t : Token) : M Unit := do
  let anythingElse : M Unit := do
    setMode .inBody
    r.reprocess t
  match t with
  | .comment d => insertComment d (some { parent := (← get).document })
  | .doctype .. => r.rules .inBody t
  | .char c => if isWs c then r.rules .inBody t else anythingElse
  | .startTag name _ _ => if name == lit "html" then r.rules .inBody t else anythingElse
  | .eof => stopParsing
  | _ => anythingElse

/-! ### 13.2.6.4.23 The "after after frameset" insertion mode -/

def modeAfterAfterFrameset (r : Rec) (t : Token) : M Unit := do
  match t with
  | .comment d => insertComment d (some { parent := (← get).document })
  | .doctype .. => r.rules .inBody t
  | .char c => if isWs c then r.rules .inBody t else pure ()
  | .startTag name _ _ =>
    if name == lit "html" then r.rules .inBody t
    else if name == lit "noframes" then r.rules .inHead t
    else pure ()
  | .eof => stopParsing
  | _ => pure ()

/-! ### 13.2.6.5 The rules for parsing tokens in foreign content -/

/-- is this node a MathML text integration point? -/
def isMathMLTextIP (n : NodeId) : M Bool := do
  match ← etypeOf n with
  | some (.mathml, nm) => pure (among nm mathmlTextIntegration)
  | _ => pure false

/-- is this node an HTML integration point? -/
def isHtmlIP (n : NodeId) : M Bool := do
  match (← getNode n).kind with
  | .element .mathml nm attrs =>
    if nm == lit "annotation-xml" then
      pure (attrs.any fun a => a.ns.isNone && a.name == lit "encoding" &&
        (eqCI a.value (lit "text/html") || eqCI a.value (lit "application/xhtml+xml")))
    else pure false
  | .element .svg nm _ => pure (among nm svgHtmlIntegration)
  | _ => pure false

/-- the adjusted current node -/
def adjustedCurrentNode : M (Option NodeId) := do
  let s ← get
  match s.context, s.stack with
  | some ctx, [_] => pure (some ctx)
  | _, n :: _ => pure (some n)
  | _, [] => pure none

/-- "any other end tag" in foreign content.  `first` tells whether node is the current node. -/
def foreignEndTagAux (r : Rec) (t : Token) (name : Str) : List NodeId → M Unit
  | [] => pure ()
  | [_] => pure ()                                  -- 3. node is the topmost element: return (fragment case)
  | node :: next :: rest => do
    let nm ← match ← etypeOf node with
      | some (_, nm) => pure nm
      | none => pure []
    -- 4. node's tag name, converted to ASCII lowercase, is the same as the tag name of the token
    if nm.asciiLower == name then popUntilNode node
    else
      -- 5. node := previous entry;  6. not in the HTML namespace: loop
      match ← etypeOf next with
      | some (.html, _) =>
        -- 7. otherwise, process the token according to the rules of the current insertion mode
        r.rules (← get).mode t
      | _ => foreignEndTagAux r t name (next :: rest)

def foreignContent (r : Rec) (t : Token) : M Unit := do
  match t with
  | .char c =>
    if c == 0 then insertChar 0xFFFD                            -- parse error
    else if isWs c then insertChar c
    else
      insertChar c
      setFramesetNotOk
  | .comment d => insertComment d
  | .doctype .. => pure ()
  | .startTag name attrs selfClosing =>
    let fontBreaks := name == lit "font" &&
      attrs.any fun (k, _) => among k (strs ["color", "face", "size"])
    let dev := (← get).dev
    if (among name foreignBreakout || fontBreaks) && ((← get).context.isNone || dev.breakoutInFragment) then
      -- parse error; (fragment case: "any other start tag", see the condition above).
      -- pop an element, then keep popping until the current node is a MathML text integration
      -- point, an HTML integration point, or an element in the HTML namespace; reprocess
      pop
      let rec popLoop : List NodeId → M Unit
        | [] => pure ()
        | n :: rest => do
          let isH := match ← etypeOf n with
            | some (.html, _) => true
            | _ => false
          if isH || (← isMathMLTextIP n) || (← isHtmlIP n) then pure ()
          else do pop; popLoop rest
      popLoop (← get).stack
      r.reprocess t
    else
      -- any other start tag
      let acn ← match ← adjustedCurrentNode with
        | some n => pure n
        | none => fail "foreign content: no adjusted current node"
      let ns ← match ← etypeOf acn with
        | some (ns, _) => pure ns
        | none => fail "foreign content: adjusted current node is not an element"
      let attrs1 := if ns == .mathml then adjustMathMLAttrs attrs else attrs
      let name1 := if ns == .svg && !(dev.noFeDropShadow && name == lit "fedropshadow") then
        (svgTagAdjust.lookup name).getD name else name
      let attrs2 := if ns == .svg then adjustSVGAttrs attrs1 dev.svgLegacyAttrs else attrs1
      let _ ← insertForeignElement ns name1 (adjustForeignAttrs attrs2 dev.xmlBase)
      if selfClosing then
        -- an SVG script: acknowledge, act as `</script>`; otherwise pop and acknowledge
        pop
  | .endTag name =>
    -- (`</script>` with an SVG script as current node: pop — covered by the general steps)
    -- 1. node := current node;  2. tag names differ: parse error
    foreignEndTagAux r t name (← get).stack
  | .eof => pure ()                                             -- never dispatched here

end H5.Spec.TC
