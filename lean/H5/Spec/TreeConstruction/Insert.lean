/-
  H5.Spec.TreeConstruction.Insert — 13.2.6.1 "Creating and inserting nodes": appropriate place for
  inserting a node (foster parenting, template contents), create an element for a token, insert a
  foreign / HTML element, attribute adjustments, insert a character, insert a comment;
  13.2.4.3 "reconstruct the active formatting elements".
-/
import H5.Spec.TreeConstruction.Stack
namespace H5.Spec.TC
open H5

/-- an insertion location: inside `parent`, before `before` (`none` = after its last child) -/
structure Loc where
  parent : NodeId
  before : Option NodeId := none

/-- the last (most recently added) HTML element named `name` in the stack, with the number of
entries BELOW it (0 = it is the current node) -/
def lastInStack (name : Str) : M (Option (NodeId × Nat)) := do
  let rec go : List NodeId → Nat → M (Option (NodeId × Nat))
    | [], _ => pure none
    | n :: rest, i => do
      if ← isHtml n name then pure (some (n, i)) else go rest (i + 1)
  go (← get).stack 0

/-- the element immediately above `n` in the stack of open elements -/
def aboveInStack (n : NodeId) : M (Option NodeId) := do
  let rec go : List NodeId → Option NodeId
    | a :: b :: rest => if a == n then some b else go (b :: rest)
    | _ => none
  pure (go (← get).stack)

/-- "the appropriate place for inserting a node", optionally with an override target -/
def appropriatePlace (override : Option NodeId := none) : M Loc := do
  -- 1. target
  let target ← match override with
    | some t => pure t
    | none => currentNode
  let s ← get
  -- 2. foster parenting
  let loc ← (do
    if s.fosterParenting && (← isHtmlAmong target (strs ["table", "tbody", "tfoot", "thead", "tr"])) then
      -- 2.1/2.2 last template, last table
      let lastTemplate ← lastInStack (lit "template")
      let lastTable ← lastInStack (lit "table")
      match lastTemplate, lastTable with
      | some (tpl, ti), none => tplLoc tpl ti
      | some (tpl, ti), some (tbl, bi) =>
        -- 2.3 "last template is lower (more recently added) than last table"
        if ti < bi then tplLoc tpl ti else tableLoc tbl
      | none, some (tbl, _) => tableLoc tbl
      | none, none =>
        -- 2.4 no last table (fragment case): inside the first element in the stack (html)
        match s.stack.getLast? with
        | some h => pure ({ parent := h } : Loc)
        | none => fail "appropriate-place: empty stack"
    else pure ({ parent := target } : Loc))
  -- 3. inside a template element → inside its template contents
  match (← getNode loc.parent).content with
  | some c => if loc.before.isNone then pure { parent := c } else pure loc
  | none => pure loc
where
  tplLoc (tpl : NodeId) (_i : Nat) : M Loc := do
    match (← getNode tpl).content with
    | some c => pure { parent := c }
    | none => fail "template without contents"
  tableLoc (tbl : NodeId) : M Loc := do
    -- 2.5 last table has a parent node: inside it, immediately before last table
    match (← getNode tbl).parent with
    | some p => pure { parent := p, before := some tbl }
    | none =>
      -- 2.6/2.7 previous element = the element immediately above last table in the stack
      match ← aboveInStack tbl with
      | some prev =>
        -- (step 3 applies to this location as well)
        pure { parent := prev }
      | none => fail "appropriate-place: table is the first element"

/-! ### attribute adjustments -/

def plainAttrs (attrs : List (Str × Str)) : List Attr :=
  attrs.map fun (k, v) => { ns := none, name := k, value := v }

/-- "adjust MathML attributes" -/
def adjustMathMLAttrs (attrs : List (Str × Str)) : List (Str × Str) :=
  attrs.map fun (k, v) => ((mathmlAttrAdjust.lookup k).getD k, v)

/-- "adjust SVG attributes" -/
def adjustSVGAttrs (attrs : List (Str × Str)) (legacy : Bool := false) : List (Str × Str) :=
  let table := if legacy then svgAttrAdjust ++ (["contentScriptType", "contentStyleType",
      "externalResourcesRequired", "filterRes"].map fun s => ((lit s).asciiLower, lit s)) else svgAttrAdjust
  attrs.map fun (k, v) => ((table.lookup k).getD k, v)

/-- "adjust foreign attributes": the result carries (namespace, local name) -/
def adjustForeignAttrs (attrs : List (Str × Str)) (xmlBase : Bool := false) : List Attr :=
  let table := if xmlBase then (lit "xml:base", (some (lit "xml"), lit "base", uriXML)) :: foreignAttrAdjust
    else foreignAttrAdjust
  attrs.map fun (k, v) =>
    match table.lookup k with
    | some (_prefix, loc, ns) => { ns := some ns, name := loc, value := v }
    | none => { ns := none, name := k, value := v }

/-- is this element type in the special category? -/
def isSpecialM (e : EType) : M Bool := do
  pure (if (← get).dev.specialHtml5lib then isSpecialHtml5lib e else isSpecial e)

/-! ### creating and inserting elements -/

/-- "create an element for a token" in the given namespace (the intended parent only matters for
the node document and custom elements; an HTML `template` gets its template contents) -/
def createElement (ns : NS) (name : Str) (attrs : List Attr) : M NodeId := do
  let id ← newNode (.element ns name attrs)
  if ns == .html && name == lit "template" then
    let c ← newNode .contents
    modifyNode id fun n => { n with content := some c }
  pure id

/-- "insert a foreign element" for a token (attributes already adjusted) -/
def insertForeignElement (ns : NS) (name : Str) (attrs : List Attr) : M NodeId := do
  let loc ← appropriatePlace
  let el ← createElement ns name attrs
  -- "if it is possible to insert element at the adjusted insertion location": a Document that
  -- already has an element child cannot take another one
  let pk := (← getNode loc.parent).kind
  let possible ← match pk with
    | .document => do
      let kids := (← getNode loc.parent).children
      let hasEl ← kids.anyM fun k => do pure ((← etypeOf k).isSome)
      pure (!hasEl)
    | _ => pure true
  if possible then insertNode loc.parent loc.before el
  push el
  pure el

/-- "insert an HTML element" for a token -/
def insertHtmlElement (name : Str) (attrs : List (Str × Str)) : M NodeId :=
  insertForeignElement .html name (plainAttrs attrs)

/-- insert an HTML element for a start tag token with no attributes -/
def insertHtml (name : String) : M Unit := do
  let _ ← insertHtmlElement (lit name) []

/-- "insert a character" -/
def insertChar (c : Nat) : M Unit := do
  -- (NON-STANDARD, Dev.charsRunUnit only: whitespace protected by `ofTTok` is restored here)
  let c := if (← get).dev.charsRunUnit && c ≥ 0x200000 then c - 0x200000 else c
  let loc ← appropriatePlace
  let p ← getNode loc.parent
  -- 3. if the adjusted insertion location is in a Document node, ignore the token
  match p.kind with
  | .document => pure ()
  | _ =>
    -- 4. a Text node immediately before the adjusted insertion location: append
    let prev : Option NodeId :=
      match loc.before with
      | none => p.children.getLast?
      | some b =>
        let rec go : List NodeId → Option NodeId
          | a :: x :: rest => if x == b then some a else go (x :: rest)
          | _ => none
        go p.children
    let appended ← (do
      match prev with
      | some t =>
        match (← getNode t).kind with
        | .text d => do
          modifyNode t fun n => { n with kind := .text (d ++ [c]) }
          pure true
        | _ => pure false
      | none => pure false)
    if !appended then
      let t ← newNode (.text [c])
      insertNode loc.parent loc.before t

/-- "insert a comment" (at the appropriate place, or at an explicit position) -/
def insertComment (data : Str) (pos : Option Loc := none) : M Unit := do
  let loc ← match pos with
    | some l => pure l
    | none => appropriatePlace
  let c ← newNode (.comment data)
  insertNode loc.parent loc.before c

/-! ### "reconstruct the active formatting elements" -/

def reconstructAFE : M Unit := do
  let s ← get
  -- 1./2. nothing to do if the list is empty or its last entry is a marker / an open element
  -- 3.-7. rewind to the entry after the last marker-or-open entry
  let isDone (e : AfeEntry) : Bool :=
    match e with
    | .marker => true
    | .elem n _ _ => s.stack.contains n
  let todo := (s.afe.reverse.takeWhile (fun e => !isDone e)).reverse
  let keep := s.afe.take (s.afe.length - todo.length)
  -- 8.-10. create: insert an HTML element for the token for which the entry was created, and
  -- replace the entry
  let mut done : List AfeEntry := []
  for e in todo do
    match e with
    | .elem _ name attrs =>
      let el ← insertHtmlElement name attrs
      done := done ++ [.elem el name attrs]
    | .marker => pure ()
  modify fun s => { s with afe := keep ++ done }

end H5.Spec.TC
