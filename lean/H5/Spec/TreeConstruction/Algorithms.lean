/-
  H5.Spec.TreeConstruction.Algorithms — "reset the insertion mode appropriately" (13.2.4.1), the
  generic raw text / RCDATA element parsing algorithms (13.2.6.2), "clear the stack back to a
  table / table body / table row context", "close the cell", the "any other end tag" steps of
  "in body", and the adoption agency algorithm (13.2.6.4.7).
-/
import H5.Spec.TreeConstruction.Insert
namespace H5.Spec.TC
open H5

def setMode (m : Mode) : M Unit := modify fun s => { s with mode := m }
def setFramesetNotOk : M Unit := modify fun s => { s with framesetOk := false }
def switchTokenizer (t : TokSwitch) : M Unit := modify fun s => { s with tokSwitch := some t }
def stopParsing : M Unit := modify fun s => { s with stopped := true, stack := [] }

/-! ### "reset the insertion mode appropriately" -/

/-- step 4 (node is a `select` element): walk the ancestors in the stack.  `above` = the entries
above the select element, nearest first -/
def resetSelectAux : List NodeId → M Mode
  | [] => pure .inSelect                       -- 4.2 ancestor is the first node: done
  | a :: rest => do
    -- 4.3 let ancestor be the node before ancestor in the stack
    if ← isHtml a (lit "template") then pure .inSelect          -- 4.4
    else if ← isHtml a (lit "table") then pure .inSelectInTable -- 4.5
    else resetSelectAux rest

def resetAux (ctx : Option NodeId) : List NodeId → M Unit
  | [] => pure ()
  | node0 :: rest => do
    let s ← get
    -- 3. if node is the first node in the stack: last := true and (fragment case) node := context
    let last := rest.isEmpty
    let node := if last then (ctx.getD node0) else node0
    let is (n : String) : M Bool := isHtml node (lit n)
    if ← is "select" then
      -- 4. (if last is false, walk the ancestors)
      let m ← if last then pure Mode.inSelect else resetSelectAux rest
      setMode m
    else if (← isHtmlAmong node (strs ["td", "th"])) && (!last || s.dev.cellContextInCell) then setMode .inCell   -- 5
    else if ← is "tr" then setMode .inRow                                                -- 6
    else if ← isHtmlAmong node (strs ["tbody", "thead", "tfoot"]) then setMode .inTableBody  -- 7
    else if ← is "caption" then setMode .inCaption                                       -- 8
    else if ← is "colgroup" then setMode .inColumnGroup                                  -- 9
    else if ← is "table" then setMode .inTable                                           -- 10
    else if ← is "template" then                                                         -- 11
      match s.templateModes with
      | m :: _ => setMode m
      | [] => fail "reset: no current template insertion mode"
    else if (← is "head") && !last then setMode .inHead                                  -- 12
    else if ← is "body" then setMode .inBody                                             -- 13
    else if ← is "frameset" then setMode .inFrameset                                     -- 14 (fragment case)
    else if ← is "html" then                                                             -- 15
      if s.headPointer.isNone then setMode .beforeHead else setMode .afterHead
    else if last then setMode .inBody                                                    -- 16 (fragment case)
    else resetAux ctx rest                                                               -- 17/18

def resetInsertionMode : M Unit := do
  let s ← get
  resetAux s.context s.stack

/-! ### generic raw text / RCDATA element parsing algorithm -/

def genericTextParsing (name : Str) (attrs : List (Str × Str)) (sw : TokSwitch) : M Unit := do
  let _ ← insertHtmlElement name attrs                -- 1
  switchTokenizer sw                                  -- 2
  modify fun s => { s with originalMode := s.mode }   -- 3
  setMode .text                                       -- 4

/-! ### table helpers -/

/-- "clear the stack back to a … context": while the current node is not one of these HTML
elements, pop -/
def clearBackAux (names : List Str) : List NodeId → M Unit
  | [] => pure ()
  | n :: rest => do
    if ← isHtmlAmong n names then pure () else do pop; clearBackAux names rest

def clearStackBackTo (names : List String) : M Unit := do clearBackAux (strs names) (← get).stack

def clearToTableContext : M Unit := clearStackBackTo ["table", "template", "html"]
def clearToTableBodyContext : M Unit := clearStackBackTo ["tbody", "tfoot", "thead", "template", "html"]
def clearToTableRowContext : M Unit := clearStackBackTo ["tr", "template", "html"]

/-- "close the cell" -/
def closeCell : M Unit := do
  generateImpliedEndTags                               -- 1
  -- 2. if the current node is not now a td or th element: parse error
  popUntilHtmlAmong (strs ["td", "th"])                -- 3
  clearAfeToLastMarker                                 -- 4
  setMode .inRow                                       -- 5

/-! ### "in body": any other end tag -/

def anyOtherEndTagAux (name : Str) : List NodeId → M Unit
  | [] => pure ()
  | node :: rest => do
    -- 2. loop: node is an HTML element with the same tag name as the token
    if ← isHtml node name then
      generateImpliedEndTags (some name)               -- 2.1
      -- 2.2 if node is not the current node: parse error
      popUntilNode node                                -- 2.3
    else
      -- 3. otherwise, if node is in the special category: parse error, ignore the token
      match ← etypeOf node with
      | some e => if ← isSpecialM e then pure () else anyOtherEndTagAux name rest   -- 4/5
      | none => anyOtherEndTagAux name rest

def anyOtherEndTag (name : Str) : M Unit := do anyOtherEndTagAux name (← get).stack

/-! ### the adoption agency algorithm -/

/-- replace node `old` by `new` in a list of node ids -/
def replaceId (old new : NodeId) (l : List NodeId) : List NodeId := l.map fun x => if x == old then new else x

/-- index of the entry for node `n` in the list of active formatting elements -/
def afeIndexOf (l : List AfeEntry) (n : NodeId) : Option Nat :=
  let rec go : List AfeEntry → Nat → Option Nat
    | [], _ => none
    | e :: rest, i => if e.node? == some n then some i else go rest (i + 1)
  go l 0

/-- the inner loop (step 14).  `nextUp` = the element immediately above `node` in the stack (or
that was, before node was removed).  Returns the final `lastNode` and the bookmark.
The bookmark is kept as "insert immediately after this node's entry" (`some n`) or as the
original absolute position (`none` ↦ position of the formatting element). -/
def aaaInner (formatting furthest commonAncestor : NodeId) :
    Nat → Nat → NodeId → NodeId → Option NodeId → M (NodeId × Option NodeId)
  | 0, _, _, _, _ => outOfFuel "adoption-agency-inner"
  | fuel + 1, counter, nextUp, lastNode, bookmark => do
    if (← get).dev.aaaInnerLoop3 && counter ≥ 3 then return (lastNode, bookmark)   -- NON-STANDARD (Dev)
    let counter := counter + 1                                   -- 14.2
    let node := nextUp                                           -- 14.3
    if node == formatting then pure (lastNode, bookmark)         -- 14.4
    else
      let up ← match ← aboveInStack node with
        | some u => pure u
        | none => fail "adoption-agency: no element above node"
      -- 14.5 inner loop counter > 3 and node in the list: remove node from the list
      if counter > 3 && (← inAfe node) then removeFromAfe node
      -- 14.6 node not in the list: remove node from the stack, continue
      if !(← inAfe node) then
        removeFromStack node
        aaaInner formatting furthest commonAncestor fuel counter up lastNode bookmark
      else
        -- 14.7 create an element for the token for which node was created (intended parent:
        -- common ancestor), replace the entries for node in the list and in the stack
        let s ← get
        let (name, attrs) ← match s.afe.find? (fun e => e.node? == some node) with
          | some (.elem _ n a) => pure (n, a)
          | _ => fail "adoption-agency: entry vanished"
        let el ← createElement .html name (plainAttrs attrs)
        modify fun s => { s with
          afe := s.afe.map (fun e => if e.node? == some node then .elem el name attrs else e),
          stack := replaceId node el s.stack }
        -- 14.8 if last node is furthest block: move the bookmark immediately after the new node
        let bookmark := if lastNode == furthest then some el else bookmark
        -- 14.9 append last node to node (removing it from its previous parent first)
        appendNode el lastNode
        -- 14.10 / 14.11
        aaaInner formatting furthest commonAncestor fuel counter up el bookmark

/-- topmost node in the stack that is lower than the formatting element and is special.
`below` = the entries below the formatting element, current node first. -/
def furthestBlockOf (below : List NodeId) : M (Option NodeId) := do
  let mut r : Option NodeId := none
  for n in below do            -- later iterations are nearer to the formatting element
    match ← etypeOf n with
    | some e => if ← isSpecialM e then r := some n
    | none => pure ()
  pure r

/-- steps 12–20 of an iteration of the outer loop: there is a furthest block -/
def aaaRelocate (formatting : NodeId) (fname : Str) (fattrs : List (Str × Str)) (furthest : NodeId) : M Unit := do
  let s ← get
  -- 12. common ancestor: the element immediately above the formatting element in the stack
  let commonAncestor ← (do
    match ← aboveInStack formatting with
    | some c => pure c
    | none => fail "adoption-agency: no common ancestor")
  -- 13. bookmark: position of the formatting element in the list (`none`)
  -- 14. inner loop
  let up ← (do
    match ← aboveInStack furthest with
    | some u => pure u
    | none => fail "adoption-agency: nothing above furthest block")
  let (lastNode, bookmark) ←
    aaaInner formatting furthest commonAncestor (s.stack.length + 2) 0 up furthest none
  -- 15. insert last node at the appropriate place, with common ancestor as override target
  let loc ← appropriatePlace (some commonAncestor)
  insertNode loc.parent loc.before lastNode
  -- 16. create an element for the token of the formatting element (intended parent: furthest block)
  let el ← createElement .html fname (plainAttrs fattrs)
  -- 17. move all children of furthest block to the new element
  let kids := (← getNode furthest).children
  for k in kids do appendNode el k
  -- 18. append the new element to furthest block
  appendNode furthest el
  -- 19. remove the formatting element from the list, insert the new element at the bookmark
  let s ← get
  let newEntry := AfeEntry.elem el fname fattrs
  let afe' :=
    match bookmark with
    | none =>
      -- bookmark never moved: the position the formatting element had
      s.afe.map fun e => if e.node? == some formatting then newEntry else e
    | some after =>
      let l := s.afe.filter fun e => e.node? != some formatting
      if s.dev.aaaBookmarkStale then
        -- NON-STANDARD (Dev): index computed before the removal, used after it
        let pos := ((afeIndexOf s.afe after).getD 0) + 1
        l.take pos ++ [newEntry] ++ l.drop pos
      else l.flatMap fun e => if e.node? == some after then [e, newEntry] else [e]
  -- 20. remove the formatting element from the stack, insert the new element immediately
  -- below the position of furthest block
  let stack' := (s.stack.filter (· != formatting)).flatMap fun x =>
    if x == furthest then [el, x] else [x]
  set { s with afe := afe', stack := stack' }

/-- step 6: the formatting element = the last element in the list after the last marker with the tag name -/
def aaaFormattingElement (subject : Str) : M (Option (NodeId × Str × List (Str × Str))) := do
  let s ← get
  let cand := (afterLastMarker s.afe).reverse.find? fun e =>
    match e with
    | .elem _ n _ => n == subject
    | .marker => false
  pure (match cand with
    | some (.elem n nm a) => some (n, nm, a)
    | _ => none)

/-- how an iteration of the outer loop ends -/
inductive AaaResult where
  /-- return -/
  | done
  /-- return and act as described in the "any other end tag" entry -/
  | otherEndTag
  /-- step 21: jump back to the outer loop -/
  | again

/-- steps 6–20 of one iteration of the outer loop -/
def aaaIteration (subject : Str) : M AaaResult := do
  match ← aaaFormattingElement subject with
  | none => pure .otherEndTag                                   -- 6. no formatting element
  | some (formatting, fname, fattrs) =>
    let s ← get
    -- 7. not in the stack: parse error, remove from the list, return
    if !(s.stack.contains formatting) then do
      removeFromAfe formatting
      pure .done
    else do
      -- 8. in the stack but not in scope: parse error, return
      let inScope ← hasNodeInScope .default formatting
      if !inScope then pure (if s.dev.aaaNotInScopeOther then .otherEndTag else .done)
      else do
        -- 9. not the current node: parse error (continue)
        -- 10. furthest block
        let below := s.stack.takeWhile (· != formatting)
        match ← furthestBlockOf below with
        | none => do
          -- 11. pop up to and including the formatting element, remove it from the list, return
          popUntilNode formatting
          removeFromAfe formatting
          pure .done
        | some furthest => do
          aaaRelocate formatting fname fattrs furthest            -- 12.–20.
          pure .again

/-- outer loop, steps 4–21.  Returns `true` when the caller must act as described in the "any
other end tag" entry (step 6). -/
def aaaOuter (subject : Str) : Nat → Nat → M Bool
  | 0, _ => outOfFuel "adoption-agency-outer"
  | fuel + 1, counter => do
    if counter ≥ 8 then pure false                                -- 4
    else do
      -- 5. increment the counter
      match ← aaaIteration subject with
      | .done => pure false
      | .otherEndTag => pure true
      | .again => aaaOuter subject fuel (counter + 1)             -- 21

/-- the adoption agency algorithm for a token with tag name `subject` -/
def adoptionAgency (subject : Str) : M Unit := do
  -- 2. current node is an HTML element with the tag name and is not in the list: pop, return
  let cur ← currentNode
  let isSubject ← isHtml cur subject
  let listed ← inAfe cur
  if isSubject && !listed then pop
  else do
    -- 3. outer loop counter := 0
    if ← aaaOuter subject 10 0 then anyOtherEndTag subject

end H5.Spec.TC
