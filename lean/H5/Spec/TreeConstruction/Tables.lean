/-
  H5.Spec.TreeConstruction.Tables — the *tables* of the "Tree construction" stage of the WHATWG
  HTML standard (section 13.2.6, revision of mid-2020), typed from the prose of the standard.
  Own copies: nothing here comes from html5lib or from `H5.Gen.*`.
-/
import H5.Basic
namespace H5.Spec.TC
open H5

def strs (l : List String) : List Str := l.map lit
def among (n : Str) (l : List Str) : Bool := l.contains n

/-! ### Namespaces (13.2.6 uses the HTML, MathML, SVG, XLink, XML and XMLNS namespaces) -/

inductive NS where
  | html | mathml | svg
  deriving DecidableEq, BEq, Repr, Inhabited

def uriHTML : Str := lit "http://www.w3.org/1999/xhtml"
def uriMathML : Str := lit "http://www.w3.org/1998/Math/MathML"
def uriSVG : Str := lit "http://www.w3.org/2000/svg"
def uriXLink : Str := lit "http://www.w3.org/1999/xlink"
def uriXML : Str := lit "http://www.w3.org/XML/1998/namespace"
def uriXMLNS : Str := lit "http://www.w3.org/2000/xmlns/"

def NS.uri : NS → Str
  | .html => uriHTML
  | .mathml => uriMathML
  | .svg => uriSVG

/-- an element type = (namespace, local name) -/
abbrev EType := NS × Str

def html (n : String) : EType := (.html, lit n)
def htmls (l : List String) : List EType := l.map html

/-! ### 13.2.4.2 The stack of open elements: categories -/

/-- "special" category -/
def specialHTML : List Str := strs
  ["address", "applet", "area", "article", "aside", "base", "basefont", "bgsound", "blockquote",
   "body", "br", "button", "caption", "center", "col", "colgroup", "dd", "details", "dir", "div",
   "dl", "dt", "embed", "fieldset", "figcaption", "figure", "footer", "form", "frame", "frameset",
   "h1", "h2", "h3", "h4", "h5", "h6", "head", "header", "hgroup", "hr", "html", "iframe", "img",
   "input", "keygen", "li", "link", "listing", "main", "marquee", "menu", "meta", "nav", "noembed",
   "noframes", "noscript", "object", "ol", "p", "param", "plaintext", "pre", "script", "section",
   "select", "source", "style", "summary", "table", "tbody", "td", "template", "textarea", "tfoot",
   "th", "thead", "title", "tr", "track", "ul", "wbr", "xmp"]
def specialMathML : List Str := strs ["mi", "mo", "mn", "ms", "mtext", "annotation-xml"]
def specialSVG : List Str := strs ["foreignObject", "desc", "title"]

def isSpecial (e : EType) : Bool :=
  match e.1 with
  | .html => among e.2 specialHTML
  | .mathml => among e.2 specialMathML
  | .svg => among e.2 specialSVG

/-- NON-STANDARD (used only by `Dev.specialHtml5lib`): the special category as html5lib 1.1 has it —
without figcaption, hgroup, main, summary, source, track, keygen, template, the MathML entries and SVG
desc / title; with the obsolete command, image, isindex -/
def isSpecialHtml5lib (e : EType) : Bool :=
  match e.1 with
  | .html => (among e.2 specialHTML && !(among e.2 (strs ["figcaption", "hgroup", "main", "summary", "source",
                "track", "keygen", "template"]))) || among e.2 (strs ["command", "image", "isindex"])
  | .mathml => false
  | .svg => e.2 == lit "foreignObject"

/-- "formatting" category -/
def formattingNames : List Str := strs
  ["a", "b", "big", "code", "em", "font", "i", "nobr", "s", "small", "strike", "strong", "tt", "u"]

/-! ### "has an element in the specific scope": the five lists -/

/-- "has a particular element in scope" -/
def scopeDefault : List EType :=
  htmls ["applet", "caption", "html", "table", "td", "th", "marquee", "object", "template"] ++
  [(.mathml, lit "mi"), (.mathml, lit "mo"), (.mathml, lit "mn"), (.mathml, lit "ms"),
   (.mathml, lit "mtext"), (.mathml, lit "annotation-xml"),
   (.svg, lit "foreignObject"), (.svg, lit "desc"), (.svg, lit "title")]
/-- "in list item scope": the above + ol, ul -/
def scopeListItem : List EType := scopeDefault ++ htmls ["ol", "ul"]
/-- "in button scope": the above + button -/
def scopeButton : List EType := scopeDefault ++ htmls ["button"]
/-- "in table scope" -/
def scopeTable : List EType := htmls ["html", "table", "template"]
/-- "in select scope": all element types EXCEPT these -/
def scopeSelectExcept : List EType := htmls ["optgroup", "option"]

/-- a scope variant is a predicate "is one of the element types in list" -/
inductive Scope where
  | default | listItem | button | table | select
  deriving DecidableEq, Repr

def Scope.stops (s : Scope) (e : EType) : Bool :=
  match s with
  | .default => scopeDefault.contains e
  | .listItem => scopeListItem.contains e
  | .button => scopeButton.contains e
  | .table => scopeTable.contains e
  | .select => !(scopeSelectExcept.contains e)

/-! ### "generate implied end tags" -/

def impliedEndTags : List Str := strs ["dd", "dt", "li", "optgroup", "option", "p", "rb", "rp", "rt", "rtc"]
/-- "generate all implied end tags thoroughly" -/
def impliedEndTagsThoroughly : List Str :=
  impliedEndTags ++ strs ["caption", "colgroup", "tbody", "td", "tfoot", "th", "thead", "tr"]

/-! ### Foreign content tables (13.2.6.1 "Creating and inserting nodes", 13.2.6.5) -/

/-- "adjust MathML attributes" -/
def mathmlAttrAdjust : List (Str × Str) := [(lit "definitionurl", lit "definitionURL")]

/-- "adjust SVG attributes" -/
def svgAttrAdjust : List (Str × Str) :=
  (["attributeName", "attributeType", "baseFrequency", "baseProfile", "calcMode", "clipPathUnits",
    "diffuseConstant", "edgeMode", "filterUnits", "glyphRef", "gradientTransform", "gradientUnits",
    "kernelMatrix", "kernelUnitLength", "keyPoints", "keySplines", "keyTimes", "lengthAdjust",
    "limitingConeAngle", "markerHeight", "markerUnits", "markerWidth", "maskContentUnits",
    "maskUnits", "numOctaves", "pathLength", "patternContentUnits", "patternTransform",
    "patternUnits", "pointsAtX", "pointsAtY", "pointsAtZ", "preserveAlpha", "preserveAspectRatio",
    "primitiveUnits", "refX", "refY", "repeatCount", "repeatDur", "requiredExtensions",
    "requiredFeatures", "specularConstant", "specularExponent", "spreadMethod", "startOffset",
    "stdDeviation", "stitchTiles", "surfaceScale", "systemLanguage", "tableValues", "targetX",
    "targetY", "textLength", "viewBox", "viewTarget", "xChannelSelector", "yChannelSelector",
    "zoomAndPan"] : List String).map fun s => ((lit s).asciiLower, lit s)

/-- the SVG element-name fix-ups of "any other start tag" in foreign content -/
def svgTagAdjust : List (Str × Str) :=
  (["altGlyph", "altGlyphDef", "altGlyphItem", "animateColor", "animateMotion", "animateTransform",
    "clipPath", "feBlend", "feColorMatrix", "feComponentTransfer", "feComposite",
    "feConvolveMatrix", "feDiffuseLighting", "feDisplacementMap", "feDistantLight", "feDropShadow",
    "feFlood", "feFuncA", "feFuncB", "feFuncG", "feFuncR", "feGaussianBlur", "feImage", "feMerge",
    "feMergeNode", "feMorphology", "feOffset", "fePointLight", "feSpecularLighting", "feSpotLight",
    "feTile", "feTurbulence", "foreignObject", "glyphRef", "linearGradient", "radialGradient",
    "textPath"] : List String).map fun s => ((lit s).asciiLower, lit s)

/-- "adjust foreign attributes": attribute name ↦ (prefix, local name, namespace) -/
def foreignAttrAdjust : List (Str × (Option Str × Str × Str)) :=
  [ (lit "xlink:actuate", (some (lit "xlink"), lit "actuate", uriXLink)),
    (lit "xlink:arcrole", (some (lit "xlink"), lit "arcrole", uriXLink)),
    (lit "xlink:href", (some (lit "xlink"), lit "href", uriXLink)),
    (lit "xlink:role", (some (lit "xlink"), lit "role", uriXLink)),
    (lit "xlink:show", (some (lit "xlink"), lit "show", uriXLink)),
    (lit "xlink:title", (some (lit "xlink"), lit "title", uriXLink)),
    (lit "xlink:type", (some (lit "xlink"), lit "type", uriXLink)),
    (lit "xml:lang", (some (lit "xml"), lit "lang", uriXML)),
    (lit "xml:space", (some (lit "xml"), lit "space", uriXML)),
    (lit "xmlns", (none, lit "xmlns", uriXMLNS)),
    (lit "xmlns:xlink", (some (lit "xmlns"), lit "xlink", uriXMLNS)) ]

/-- MathML text integration points -/
def mathmlTextIntegration : List Str := strs ["mi", "mo", "mn", "ms", "mtext"]
/-- SVG HTML integration points -/
def svgHtmlIntegration : List Str := strs ["foreignObject", "desc", "title"]

/-- start tags that break out of foreign content (13.2.6.5) -/
def foreignBreakout : List Str := strs
  ["b", "big", "blockquote", "body", "br", "center", "code", "dd", "div", "dl", "dt", "em", "embed",
   "h1", "h2", "h3", "h4", "h5", "h6", "head", "hr", "i", "img", "li", "listing", "menu", "meta",
   "nobr", "ol", "p", "pre", "ruby", "s", "small", "span", "strong", "strike", "sub", "sup", "table",
   "tt", "u", "ul", "var"]

/-! ### 13.2.6.4.1 The "initial" insertion mode: quirks-mode DOCTYPE tables -/

def quirksPublicExact : List Str := strs
  ["-//W3O//DTD W3 HTML Strict 3.0//EN//", "-/W3C/DTD HTML 4.0 Transitional/EN", "HTML"]
def quirksSystemExact : List Str := strs ["http://www.ibm.com/data/dtd/v11/ibmxhtml1-transitional.dtd"]
def quirksPublicPrefix : List Str := strs
  ["+//Silmaril//dtd html Pro v0r11 19970101//",
   "-//AS//DTD HTML 3.0 asWedit + extensions//",
   "-//AdvaSoft Ltd//DTD HTML 3.0 asWedit + extensions//",
   "-//IETF//DTD HTML 2.0 Level 1//", "-//IETF//DTD HTML 2.0 Level 2//",
   "-//IETF//DTD HTML 2.0 Strict Level 1//", "-//IETF//DTD HTML 2.0 Strict Level 2//",
   "-//IETF//DTD HTML 2.0 Strict//", "-//IETF//DTD HTML 2.0//", "-//IETF//DTD HTML 2.1E//",
   "-//IETF//DTD HTML 3.0//", "-//IETF//DTD HTML 3.2 Final//", "-//IETF//DTD HTML 3.2//",
   "-//IETF//DTD HTML 3//", "-//IETF//DTD HTML Level 0//", "-//IETF//DTD HTML Level 1//",
   "-//IETF//DTD HTML Level 2//", "-//IETF//DTD HTML Level 3//",
   "-//IETF//DTD HTML Strict Level 0//", "-//IETF//DTD HTML Strict Level 1//",
   "-//IETF//DTD HTML Strict Level 2//", "-//IETF//DTD HTML Strict Level 3//",
   "-//IETF//DTD HTML Strict//", "-//IETF//DTD HTML//",
   "-//Metrius//DTD Metrius Presentational//",
   "-//Microsoft//DTD Internet Explorer 2.0 HTML Strict//",
   "-//Microsoft//DTD Internet Explorer 2.0 HTML//",
   "-//Microsoft//DTD Internet Explorer 2.0 Tables//",
   "-//Microsoft//DTD Internet Explorer 3.0 HTML Strict//",
   "-//Microsoft//DTD Internet Explorer 3.0 HTML//",
   "-//Microsoft//DTD Internet Explorer 3.0 Tables//",
   "-//Netscape Comm. Corp.//DTD HTML//", "-//Netscape Comm. Corp.//DTD Strict HTML//",
   "-//O'Reilly and Associates//DTD HTML 2.0//",
   "-//O'Reilly and Associates//DTD HTML Extended 1.0//",
   "-//O'Reilly and Associates//DTD HTML Extended Relaxed 1.0//",
   "-//SQ//DTD HTML 2.0 HoTMetaL + extensions//",
   "-//SoftQuad Software//DTD HoTMetaL PRO 6.0::19990601::extensions to HTML 4.0//",
   "-//SoftQuad//DTD HoTMetaL PRO 4.0::19971010::extensions to HTML 4.0//",
   "-//Spyglass//DTD HTML 2.0 Extended//",
   "-//Sun Microsystems Corp.//DTD HotJava HTML//",
   "-//Sun Microsystems Corp.//DTD HotJava Strict HTML//",
   "-//W3C//DTD HTML 3 1995-03-24//", "-//W3C//DTD HTML 3.2 Draft//",
   "-//W3C//DTD HTML 3.2 Final//", "-//W3C//DTD HTML 3.2//", "-//W3C//DTD HTML 3.2S Draft//",
   "-//W3C//DTD HTML 4.0 Frameset//", "-//W3C//DTD HTML 4.0 Transitional//",
   "-//W3C//DTD HTML Experimental 19960712//", "-//W3C//DTD HTML Experimental 970421//",
   "-//W3C//DTD W3 HTML//", "-//W3O//DTD W3 HTML 3.0//",
   "-//WebTechs//DTD Mozilla HTML 2.0//", "-//WebTechs//DTD Mozilla HTML//"]
/-- quirks when the system identifier is MISSING, limited-quirks when it is present -/
def quirksPublicPrefixNoSystem : List Str := strs
  ["-//W3C//DTD HTML 4.01 Frameset//", "-//W3C//DTD HTML 4.01 Transitional//"]
def limitedQuirksPublicPrefix : List Str := strs
  ["-//W3C//DTD XHTML 1.0 Frameset//", "-//W3C//DTD XHTML 1.0 Transitional//"]

/-- ASCII case-insensitive match -/
def eqCI (a b : Str) : Bool := a.asciiLower == b.asciiLower
def startsWithCI (s p : Str) : Bool := p.asciiLower.isPrefixOf s.asciiLower

end H5.Spec.TC
